package gen

import (
	"math/big"
)

// ---------- source enumerators ----------

// SrcLeaves: every account of accs alone, with each bounded overdraft, and with
// unbounded overdraft; plus @world when world is set.
func SrcLeaves(accs []string, bounds []Mon, unbounded bool, world bool) []*Src {
	var out []*Src
	for _, a := range accs {
		out = append(out, &Src{K: SAcc, Acc: a})
		for _, b := range bounds {
			out = append(out, &Src{K: SOver, Acc: a, Bound: b})
		}
		if unbounded {
			out = append(out, &Src{K: SUnb, Acc: a})
		}
	}
	if world {
		out = append(out, &Src{K: SAcc, Acc: "@world"})
	}
	return out
}

// SrcMaxOf: `max M from s` for every M, s.
func SrcMaxOf(maxes []Mon, subs []*Src) []*Src {
	var out []*Src
	for _, s := range subs {
		for _, m := range maxes {
			out = append(out, &Src{K: SMax, Max: m, Sub: []*Src{s}})
		}
	}
	return out
}

// SrcSeq2: `{ x y }` for every x in xs, y in ys.
func SrcSeq2(xs, ys []*Src) []*Src {
	var out []*Src
	for _, x := range xs {
		for _, y := range ys {
			out = append(out, &Src{K: SSeq, Sub: []*Src{x, y}})
		}
	}
	return out
}

// SrcSeq3: `{ x y z }`.
func SrcSeq3(xs, ys, zs []*Src) []*Src {
	var out []*Src
	for _, x := range xs {
		for _, y := range ys {
			for _, z := range zs {
				out = append(out, &Src{K: SSeq, Sub: []*Src{x, y, z}})
			}
		}
	}
	return out
}

// SrcAllot: `{ p1 from s1 ... pn from sn }` for every portion vector and every
// tuple of subs of the vector's length.
func SrcAllots(pvs [][]string, subs []*Src) []*Src {
	var out []*Src
	for _, pv := range pvs {
		n := len(pv)
		idx := make([]int, n)
		for {
			s := &Src{K: SAllot, Por: pv}
			for i := 0; i < n; i++ {
				s.Sub = append(s.Sub, subs[idx[i]])
			}
			out = append(out, s)
			i := n - 1
			for i >= 0 {
				idx[i]++
				if idx[i] < len(subs) {
					break
				}
				idx[i] = 0
				i--
			}
			if i < 0 {
				break
			}
		}
	}
	return out
}

// ---------- destination enumerators ----------

func DstLeaves(accs []string) []*Dst {
	var out []*Dst
	for _, a := range accs {
		out = append(out, &Dst{K: DAcc, Acc: a})
	}
	return out
}

// KDs wraps destinations as `to d`, adding `kept` when kept is set.
func KDs(ds []*Dst, kept bool) []KD {
	var out []KD
	for _, d := range ds {
		out = append(out, KD{D: d})
	}
	if kept {
		out = append(out, KD{Kept: true})
	}
	return out
}

// DstSeq1: `{ max M kd1 ; remaining kd2 }`.
func DstSeq1(maxes []Mon, firsts, rems []KD) []*Dst {
	var out []*Dst
	for _, m := range maxes {
		for _, f := range firsts {
			for _, r := range rems {
				out = append(out, &Dst{K: DSeq, Max: []Mon{m}, To: []KD{f}, Rem: r})
			}
		}
	}
	return out
}

// DstSeq2: `{ max M1 kd1 ; max M2 kd2 ; remaining kd3 }`.
func DstSeq2(maxes []Mon, firsts, seconds, rems []KD) []*Dst {
	var out []*Dst
	for _, m1 := range maxes {
		for _, f := range firsts {
			for _, m2 := range maxes {
				for _, s := range seconds {
					for _, r := range rems {
						out = append(out, &Dst{K: DSeq, Max: []Mon{m1, m2}, To: []KD{f, s}, Rem: r})
					}
				}
			}
		}
	}
	return out
}

// DstAllots: `{ p1 kd1 ... pn kdn }` for every vector and tuple.
func DstAllots(pvs [][]string, kds []KD) []*Dst {
	var out []*Dst
	for _, pv := range pvs {
		n := len(pv)
		idx := make([]int, n)
		for {
			d := &Dst{K: DAllot, Por: pv}
			for i := 0; i < n; i++ {
				d.Items = append(d.Items, kds[idx[i]])
			}
			out = append(out, d)
			i := n - 1
			for i >= 0 {
				idx[i]++
				if idx[i] < len(kds) {
					break
				}
				idx[i] = 0
				i--
			}
			if i < 0 {
				break
			}
		}
	}
	return out
}

// ---------- portion vectors ----------

// PortionVectors lists every vector of length n over menu that the compiler's
// static rule can accept: all-literal summing to exactly 1, or exactly one
// `remaining` with literal sum < 1 (variables allowed only with `remaining`).
// cat gives nothing here: variables are opaque ("$p").
func PortionVectors(menu []string, n int) [][]string {
	var out [][]string
	vec := make([]string, n)
	var rec func(i int)
	rec = func(i int) {
		if i == n {
			sum := new(big.Rat)
			rem, vars := 0, 0
			e := &Env{}
			for _, p := range vec {
				if p == "remaining" {
					rem++
					continue
				}
				if p[0] == '$' {
					vars++
					continue
				}
				r, _, ok := e.Portion(p)
				if !ok {
					return
				}
				sum.Add(sum, r)
			}
			one := big.NewRat(1, 1)
			ok := false
			switch {
			case rem == 0 && vars == 0 && sum.Cmp(one) == 0:
				ok = true
			case rem == 1 && sum.Cmp(one) < 0:
				ok = true
			}
			if ok {
				out = append(out, append([]string{}, vec...))
			}
			return
		}
		for _, p := range menu {
			vec[i] = p
			rec(i + 1)
		}
	}
	rec(0)
	return out
}

// ---------- statements / programs ----------

// Amount is a sent amount: `[asset *]` or a monetary expression.
type Amount struct {
	All   bool
	Asset string
	Mon   Mon
}

func Amounts(asset string, lits []int64, all bool, vars []string) []Amount {
	var out []Amount
	for _, l := range lits {
		out = append(out, Amount{Mon: LitMon(asset, l)})
	}
	if all {
		out = append(out, Amount{All: true, Asset: asset})
	}
	for _, v := range vars {
		out = append(out, Amount{Mon: VarMon(v)})
	}
	return out
}

func Send(a Amount, s *Src, d *Dst) *Stmt {
	return &Stmt{K: StSend, All: a.All, Asset: a.Asset, Amt: a.Mon, Src: s, Dst: d}
}

func Save(a Amount, acc string) *Stmt {
	return &Stmt{K: StSave, All: a.All, Asset: a.Asset, Amt: a.Mon, Acc: acc}
}

// Sends is the full product amounts x sources x destinations.
func Sends(as []Amount, ss []*Src, ds []*Dst) []*Stmt {
	out := make([]*Stmt, 0, len(as)*len(ss)*len(ds))
	for _, s := range ss {
		for _, d := range ds {
			for _, a := range as {
				out = append(out, Send(a, s, d))
			}
		}
	}
	return out
}
