// Package gen holds the bounded-exhaustive enumerators used by the K4 checks
// (DESIGN §3 K4, §5 group E): a small Numscript AST that renders to program text
// accepted by /repo/internal/machine/script/NumScript.g4, and grammar-based
// generators that list EVERY program of an explicitly bounded space.
package gen

import (
	"fmt"
	"math/big"
	"sort"
	"strings"
)

// ---------- expressions ----------

// Mon is a monetary expression: a literal [Asset Amt], a variable ($name), or the
// sum / difference `L + R`, `L - R` of two monetary expressions (grammar rule
// ExprAddSub, left-associative: R is never itself a sum or difference).
type Mon struct {
	Var   string // "" for a literal, else variable name without '$'
	Asset string // literal asset, or "$ast" (asset variable) inside a literal
	Amt   string // decimal digits
	Op    string // "" (literal / variable), "+" or "-"
	L, R  *Mon   // operands when Op != ""
}

func LitMon(asset string, amt int64) Mon { return Mon{Asset: asset, Amt: fmt.Sprint(amt)} }
func VarMon(name string) Mon             { return Mon{Var: name} }

// BigMon is a literal whose amount is given by its decimal digits (amounts beyond int64).
func BigMon(asset, digits string) Mon { return Mon{Asset: asset, Amt: digits} }

// BinMon is `l op r` (op "+" or "-").
func BinMon(l Mon, op string, r Mon) Mon { return Mon{Op: op, L: &l, R: &r} }

func (m Mon) String() string {
	if m.Op != "" {
		return m.L.String() + " " + m.Op + " " + m.R.String()
	}
	if m.Var != "" {
		return "$" + m.Var
	}
	return "[" + m.Asset + " " + m.Amt + "]"
}

// IsExpr reports whether m is a sum or difference.
func (m Mon) IsExpr() bool { return m.Op != "" }

// ---------- sources ----------

type SrcKind int

const (
	SAcc   SrcKind = iota // account
	SOver                 // account allowing overdraft up to Bound
	SUnb                  // account allowing unbounded overdraft
	SMax                  // max Max from Sub[0]
	SSeq                  // { Sub... } in order
	SAllot                // { Por[i] from Sub[i] ... } (top level only)
)

type Src struct {
	K     SrcKind
	Acc   string // "@a" or "$acc"
	Bound Mon
	Max   Mon
	Sub   []*Src
	Por   []string // "1/2", "50%", "remaining", "$p"
}

func (s *Src) Depth() int {
	d := 0
	for _, c := range s.Sub {
		if cd := c.Depth(); cd > d {
			d = cd
		}
	}
	if s.K == SMax || s.K == SSeq || s.K == SAllot {
		return d + 1
	}
	return 0
}

func (s *Src) render(b *strings.Builder, ind string) {
	switch s.K {
	case SAcc:
		b.WriteString(s.Acc)
	case SOver:
		b.WriteString(s.Acc + " allowing overdraft up to " + s.Bound.String())
	case SUnb:
		b.WriteString(s.Acc + " allowing unbounded overdraft")
	case SMax:
		b.WriteString("max " + s.Max.String() + " from ")
		s.Sub[0].render(b, ind)
	case SSeq:
		b.WriteString("{\n")
		for _, c := range s.Sub {
			b.WriteString(ind + " ")
			c.render(b, ind+" ")
			b.WriteString("\n")
		}
		b.WriteString(ind + "}")
	case SAllot:
		b.WriteString("{\n")
		for i, c := range s.Sub {
			b.WriteString(ind + " " + s.Por[i] + " from ")
			c.render(b, ind+" ")
			b.WriteString("\n")
		}
		b.WriteString(ind + "}")
	}
}

// ---------- destinations ----------

type DstKind int

const (
	DAcc   DstKind = iota
	DSeq           // { max M kd ... remaining kd }
	DAllot         // { p kd ... }
)

// KD is "kept" or "to <destination>".
type KD struct {
	Kept bool
	D    *Dst
}

type Dst struct {
	K     DstKind
	Acc   string
	Max   []Mon // DSeq clauses
	To    []KD
	Rem   KD
	Por   []string // DAllot
	Items []KD
}

func (d *Dst) Depth() int {
	if d.K == DAcc {
		return 0
	}
	m := 0
	f := func(k KD) {
		if !k.Kept {
			if x := k.D.Depth(); x > m {
				m = x
			}
		}
	}
	for _, k := range d.To {
		f(k)
	}
	for _, k := range d.Items {
		f(k)
	}
	if d.K == DSeq {
		f(d.Rem)
	}
	return m + 1
}

func (k KD) render(b *strings.Builder, ind string) {
	if k.Kept {
		b.WriteString("kept")
		return
	}
	b.WriteString("to ")
	k.D.render(b, ind)
}

func (d *Dst) render(b *strings.Builder, ind string) {
	switch d.K {
	case DAcc:
		b.WriteString(d.Acc)
	case DSeq:
		b.WriteString("{\n")
		for i := range d.Max {
			b.WriteString(ind + " max " + d.Max[i].String() + " ")
			d.To[i].render(b, ind+" ")
			b.WriteString("\n")
		}
		b.WriteString(ind + " remaining ")
		d.Rem.render(b, ind+" ")
		b.WriteString("\n" + ind + "}")
	case DAllot:
		b.WriteString("{\n")
		for i := range d.Por {
			b.WriteString(ind + " " + d.Por[i] + " ")
			d.Items[i].render(b, ind+" ")
			b.WriteString("\n")
		}
		b.WriteString(ind + "}")
	}
}

// ---------- statements ----------

type StmtKind int

const (
	StSend StmtKind = iota
	StSave
	StTxMeta
	StAccMeta
	StFail
)

type Stmt struct {
	K StmtKind
	// send / save: either Amt (monetary expression) or All (asset of "[ASSET *]")
	All   bool
	Asset string // for All: literal asset or "$ast"
	Amt   Mon
	Src   *Src
	Dst   *Dst
	Acc   string // save: account; set_account_meta: account
	Key   string
	Val   string // value expression text for meta statements
}

func (s *Stmt) amtText() string {
	if s.All {
		return "[" + s.Asset + " *]"
	}
	return s.Amt.String()
}

func (s *Stmt) render(b *strings.Builder) {
	switch s.K {
	case StSend:
		b.WriteString("send " + s.amtText() + " (\n source = ")
		s.Src.render(b, " ")
		b.WriteString("\n destination = ")
		s.Dst.render(b, " ")
		b.WriteString("\n)")
	case StSave:
		b.WriteString("save " + s.amtText() + " from " + s.Acc)
	case StTxMeta:
		b.WriteString(`set_tx_meta("` + s.Key + `", ` + s.Val + ")")
	case StAccMeta:
		b.WriteString("set_account_meta(" + s.Acc + `, "` + s.Key + `", ` + s.Val + ")")
	case StFail:
		b.WriteString("fail")
	}
}

func (s *Stmt) String() string {
	var b strings.Builder
	s.render(&b)
	return b.String()
}

// ---------- variables ----------

// VarDecl describes a variable of the catalog. Origin: "" (supplied), "meta", "balance".
type VarDecl struct {
	Type   string // account, asset, number, monetary, portion, string
	Name   string
	Origin string
	OAcc   string   // meta/balance: account expression ("@m")
	OKey   string   // meta: key ; balance: asset
	Values []string // menu of supplied values (Origin == "")
}

func (v VarDecl) decl() string {
	switch v.Origin {
	case "meta":
		return fmt.Sprintf("%s $%s = meta(%s, \"%s\")", v.Type, v.Name, v.OAcc, v.OKey)
	case "balance":
		return fmt.Sprintf("%s $%s = balance(%s, %s)", v.Type, v.Name, v.OAcc, v.OKey)
	}
	return fmt.Sprintf("%s $%s", v.Type, v.Name)
}

// Catalog is the fixed variable menu of the program space.
type Catalog map[string]VarDecl

// ---------- program ----------

type Program struct {
	Stmts []*Stmt
	Cat   Catalog
	// BalMenu, when set, replaces the default balance menu of the input enumeration for
	// this program (every account in balance-relevant position takes every value of it).
	BalMenu []*big.Int
	text    string
	used    []string
}

// UsedVars lists (sorted, with origin dependencies first) the variables the
// statements mention.
func (p *Program) UsedVars() []string {
	if p.used != nil {
		return p.used
	}
	seen := map[string]bool{}
	var add func(tok string)
	add = func(tok string) {
		for _, name := range varNames(tok) {
			if seen[name] {
				continue
			}
			seen[name] = true
			if d, ok := p.Cat[name]; ok && d.Origin != "" {
				add(d.OAcc)
				add(d.OKey)
			}
		}
	}
	var b strings.Builder
	for _, s := range p.Stmts {
		s.render(&b)
		b.WriteString("\n")
	}
	add(b.String())
	out := make([]string, 0, len(seen))
	for k := range seen {
		out = append(out, k)
	}
	// supplied variables first (origins may reference them), then origin ones; alphabetical inside
	sort.Slice(out, func(i, j int) bool {
		oi, oj := p.Cat[out[i]].Origin != "", p.Cat[out[j]].Origin != ""
		if oi != oj {
			return !oi
		}
		return out[i] < out[j]
	})
	p.used = out
	if p.used == nil {
		p.used = []string{}
	}
	return p.used
}

func varNames(s string) []string {
	var out []string
	for i := 0; i < len(s); i++ {
		if s[i] == '$' {
			j := i + 1
			for j < len(s) && (s[j] == '_' || (s[j] >= 'a' && s[j] <= 'z') || (s[j] >= '0' && s[j] <= '9')) {
				j++
			}
			if j > i+1 {
				out = append(out, s[i+1:j])
			}
			i = j - 1
		}
	}
	return out
}

// Text renders the program in the machine grammar (newline-separated).
func (p *Program) Text() string {
	if p.text != "" {
		return p.text
	}
	var b strings.Builder
	used := p.UsedVars()
	if len(used) > 0 {
		b.WriteString("vars {\n")
		for _, n := range used {
			d, ok := p.Cat[n]
			if !ok {
				d = VarDecl{Type: "account", Name: n}
			}
			b.WriteString(" " + d.decl() + "\n")
		}
		b.WriteString("}\n")
	}
	for i, s := range p.Stmts {
		if i > 0 {
			b.WriteString("\n")
		}
		s.render(&b)
	}
	b.WriteString("\n")
	p.text = b.String()
	return p.text
}

// ---------- environment (for oracles) ----------

// Env is one concrete input of a program: supplied variable values, account
// metadata of the store and initial balances.
type Env struct {
	Cat  Catalog
	Vars map[string]string              // supplied values (only Origin=="" variables)
	Meta map[string]map[string]string   // account -> key -> value
	Bal  map[string]map[string]*big.Int // account -> asset -> balance (absent = 0)
}

func (e *Env) Balance(acc, asset string) *big.Int {
	if m, ok := e.Bal[acc]; ok {
		if v, ok := m[asset]; ok {
			return new(big.Int).Set(v)
		}
	}
	return new(big.Int)
}

// Account resolves an account expression ("@a" / "$acc") to its address.
func (e *Env) Account(expr string) (string, bool) {
	if strings.HasPrefix(expr, "@") {
		return expr[1:], true
	}
	if strings.HasPrefix(expr, "$") {
		v, ok := e.Value(expr[1:])
		return v, ok
	}
	return "", false
}

// Value returns the string value of a variable as the runtimes will see it.
func (e *Env) Value(name string) (string, bool) {
	d, ok := e.Cat[name]
	if !ok {
		return "", false
	}
	switch d.Origin {
	case "":
		v, ok := e.Vars[name]
		return v, ok
	case "meta":
		acc, ok := e.Account(d.OAcc)
		if !ok {
			return "", false
		}
		v, ok := e.Meta[acc][d.OKey]
		return v, ok
	case "balance":
		acc, ok := e.Account(d.OAcc)
		if !ok {
			return "", false
		}
		asset, ok := e.AssetOf(d.OKey)
		if !ok {
			return "", false
		}
		return asset + " " + e.Balance(acc, asset).String(), true
	}
	return "", false
}

func (e *Env) AssetOf(expr string) (string, bool) {
	if strings.HasPrefix(expr, "$") {
		return e.Value(expr[1:])
	}
	return expr, true
}

// Monetary resolves a monetary expression to (asset, amount). A difference may be
// negative: the value is the arithmetic one, the caller decides what it means. The
// operands of a sum / difference must be in the same asset (ok=false otherwise).
func (e *Env) Monetary(m Mon) (string, *big.Int, bool) {
	if m.Op != "" {
		la, lv, ok := e.Monetary(*m.L)
		if !ok {
			return "", nil, false
		}
		ra, rv, ok := e.Monetary(*m.R)
		if !ok || la != ra {
			return "", nil, false
		}
		if m.Op == "-" {
			return la, new(big.Int).Sub(lv, rv), true
		}
		return la, new(big.Int).Add(lv, rv), true
	}
	if m.Var != "" {
		v, ok := e.Value(m.Var)
		if !ok {
			return "", nil, false
		}
		parts := strings.SplitN(v, " ", 2)
		if len(parts) != 2 {
			return "", nil, false
		}
		n, ok := new(big.Int).SetString(parts[1], 10)
		if !ok {
			return "", nil, false
		}
		return parts[0], n, true
	}
	asset, ok := e.AssetOf(m.Asset)
	if !ok {
		return "", nil, false
	}
	n, ok := new(big.Int).SetString(m.Amt, 10)
	return asset, n, ok
}

// Portion resolves a portion expression; remaining -> (nil, true, true).
func (e *Env) Portion(p string) (r *big.Rat, remaining bool, ok bool) {
	if p == "remaining" {
		return nil, true, true
	}
	if strings.HasPrefix(p, "$") {
		v, ok := e.Value(p[1:])
		if !ok {
			return nil, false, false
		}
		p = v
	}
	if strings.HasSuffix(p, "%") {
		x, ok := new(big.Rat).SetString(strings.TrimSuffix(p, "%"))
		if !ok {
			return nil, false, false
		}
		return x.Mul(x, big.NewRat(1, 100)), false, true
	}
	x, ok := new(big.Rat).SetString(strings.ReplaceAll(p, " ", ""))
	return x, false, ok
}
