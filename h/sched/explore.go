package sched

import (
	"context"
	"fmt"
	"runtime"
	"sync"
	"time"

	"github.com/formancehq/ledger/verifh/pgsim"
	"github.com/formancehq/ledger/verifh/world"
)

// Scenario is a closed concurrent driver: N thread bodies over a database cloned
// from Base. Bodies record what they observe in the value returned by New.
type Scenario struct {
	Name    string
	Base    *pgsim.DB
	Threads int
	// New builds, for one execution, the thread bodies and an opaque state object
	// the oracle will read.
	New func(w *world.World) (bodies []func(ctx context.Context), state any)
	// Check is the oracle, run sequentially after all threads finished.
	// It returns (signature, description) pairs.
	Check func(ctx context.Context, w *world.World, state any, run *Run) [][2]string
	// Outcome summarises an execution for the "distinct outcomes" vacuity guard.
	Outcome func(state any) string
	// Fault (optional): see Exec.Fault.
	Fault func(thread, call int, op, sql string) error
}

type job struct {
	prefix   []int
	expected [][]int // enabled sets of the prefix points (for divergence detection)
}

type Stats struct {
	Scenario    string         `json:"scenario"`
	Schedules   int64          `json:"schedules"`
	Points      int64          `json:"scheduling_points"`
	MaxPoints   int            `json:"max_points_in_one_schedule"`
	Bound       int            `json:"preemption_bound"`
	Complete    bool           `json:"complete_below_bound"`
	Deadlocks   int64          `json:"deadlock_victim_choices"`
	Blocked     int64          `json:"schedules_with_lock_waits"`
	HorizonHits int64          `json:"horizon_hits"`
	Outcomes    map[string]int `json:"distinct_outcomes"`
	Sample      []int          `json:"sample_schedule,omitempty"`
}

type Violation struct {
	Sig, What string
	Schedule  []int
	Scenario  string
}

// Explore enumerates every schedule of sc with at most bound preemptions
// (bound < 0: all schedules). stop() is polled to honour the time budget.
func Explore(ctx context.Context, sc *Scenario, bound int, stop func() bool, onViolation func(Violation), onEngine func(string)) *Stats {
	st := &Stats{Scenario: sc.Name, Bound: bound, Outcomes: map[string]int{}, Complete: true}
	var mu sync.Mutex
	queue := []job{{}}
	inflight := 0
	cond := sync.NewCond(&mu)
	workers := runtime.NumCPU()
	var wg sync.WaitGroup
	for wi := 0; wi < workers; wi++ {
		wg.Add(1)
		go func() {
			defer wg.Done()
			for {
				mu.Lock()
				for len(queue) == 0 && inflight > 0 {
					cond.Wait()
				}
				if len(queue) == 0 && inflight == 0 {
					mu.Unlock()
					cond.Broadcast()
					return
				}
				if stop() {
					st.Complete = false
					queue = nil
					mu.Unlock()
					cond.Broadcast()
					return
				}
				// depth-first: take the most recent job
				j := queue[len(queue)-1]
				queue = queue[:len(queue)-1]
				inflight++
				mu.Unlock()

				run, state, w, diverged := runOnce(ctx, sc, j.prefix)
				var viols [][2]string
				outcome := ""
				if run.Stuck != "" {
					onEngine(fmt.Sprintf("%s schedule %v: %s", sc.Name, j.prefix, run.Stuck))
				} else if diverged != "" {
					onEngine(fmt.Sprintf("%s schedule %v diverged on replay: %s", sc.Name, j.prefix, diverged))
				} else {
					for i, exp := range j.expected {
						if i < len(run.Points) && !sameInts(exp, run.Points[i].Enabled) {
							onEngine(fmt.Sprintf("%s schedule %v: enabled set at point %d is %v, parent saw %v (nondeterminism)", sc.Name, j.prefix, i, run.Points[i].Enabled, exp))
							break
						}
					}
					if !run.HorizonHit {
						viols = sc.Check(ctx, w, state, run)
						if sc.Outcome != nil {
							outcome = sc.Outcome(state)
						}
					}
				}
				w.Close()

				var children []job
				pre := 0
				for i, p := range run.Points {
					isPre := !p.Victim && p.Running >= 0 && len(p.Enabled) > 0 && p.Enabled[0] == p.Running
					if i >= len(j.prefix) {
						for alt := 1; alt < len(p.Enabled); alt++ {
							cost := pre
							if isPre {
								cost++
							}
							if bound >= 0 && cost > bound {
								continue
							}
							np := append(append([]int{}, run.Choices[:i]...), alt)
							exp := make([][]int, 0, i+1)
							for k := 0; k <= i; k++ {
								exp = append(exp, run.Points[k].Enabled)
							}
							children = append(children, job{prefix: np, expected: exp})
						}
					}
					if isPre && p.Chosen != 0 {
						pre++
					}
				}

				mu.Lock()
				st.Schedules++
				st.Points += int64(len(run.Points))
				if len(run.Points) > st.MaxPoints {
					st.MaxPoints = len(run.Points)
				}
				st.Deadlocks += int64(run.Deadlocks)
				if run.Blocks > 0 {
					st.Blocked++
				}
				if run.HorizonHit {
					st.HorizonHits++
				}
				if outcome != "" {
					st.Outcomes[outcome]++
				}
				if st.Sample == nil && len(run.Choices) > 2 {
					st.Sample = run.Choices
				}
				queue = append(queue, children...)
				inflight--
				mu.Unlock()
				cond.Broadcast()
				for _, v := range viols {
					onViolation(Violation{Sig: v[0], What: v[1], Schedule: run.Choices, Scenario: sc.Name})
				}
			}
		}()
	}
	wg.Wait()
	return st
}

func sameInts(a, b []int) bool {
	if len(a) != len(b) {
		return false
	}
	for i := range a {
		if a[i] != b[i] {
			return false
		}
	}
	return true
}

// runOnce executes one schedule from a fresh clone.
func runOnce(ctx context.Context, sc *Scenario, prefix []int) (*Run, any, *world.World, string) {
	pg := sc.Base.Clone()
	w := world.Attach(pg)
	exec := NewExec(pg, sc.Threads)
	exec.Fault = sc.Fault
	w.Hook = exec.Hook
	bodies, state := sc.New(w)
	diverged := ""
	run := exec.Execute(ctx, bodies, prefix, func(s string) { diverged = s })
	w.Hook = nil
	pg.Mode = pgsim.ModeSequential
	pg.Sched = nil
	return run, state, w, diverged
}

// Replay runs one recorded schedule and returns the oracle's verdict.
func Replay(ctx context.Context, sc *Scenario, schedule []int) ([][2]string, *Run) {
	run, state, w, _ := runOnce(ctx, sc, schedule)
	defer w.Close()
	if run.Stuck != "" || run.HorizonHit {
		return nil, run
	}
	return sc.Check(ctx, w, state, run), run
}

var _ = time.Second
