// Package sched is the K2 explorer: a cooperative scheduler that owns every driver
// call and every lock wait of pgsim, and a stateless, preemption-bounded DFS over the
// scheduling choices (replay from the initial state for every schedule).
package sched

import (
	"context"
	"fmt"
	"sync"
	"time"

	"github.com/formancehq/ledger/verifh/pgsim"
)

type ctxKey struct{}

type ctxVal struct {
	tid  int
	exec *Exec
}

// WithThread tags ctx with a logical thread id (>= 0).
func WithThread(ctx context.Context, id int) context.Context {
	return context.WithValue(ctx, ctxKey{}, ctxVal{tid: id})
}

func threadOf(ctx context.Context) (int, bool) {
	if ctx == nil {
		return 0, false
	}
	v, ok := ctx.Value(ctxKey{}).(ctxVal)
	return v.tid, ok
}

// LastCommitPos returns the position, in the global order of COMMITs executed so far,
// of the calling thread's most recent COMMIT (-1 if it never committed). Because one
// thread runs at a time and a COMMIT executes as soon as it is scheduled, this is the
// commit order of the database.
func LastCommitPos(ctx context.Context) int {
	v, ok := ctx.Value(ctxKey{}).(ctxVal)
	if !ok || v.exec == nil {
		return -1
	}
	v.exec.mu.Lock()
	defer v.exec.mu.Unlock()
	for i := len(v.exec.commits) - 1; i >= 0; i-- {
		if v.exec.commits[i] == v.tid {
			return i
		}
	}
	return -1
}

type evKind int

const (
	evPoint evKind = iota
	evBlocked
	evFinished
)

type event struct {
	tid  int
	kind evKind
	what string
	wait pgsim.WaitInfo
}

type resume struct {
	err error // delivered to a blocked thread (deadlock victim)
}

type tstate int

const (
	tsRunning tstate = iota
	tsAtPoint
	tsBlocked
	tsDone
)

type thread struct {
	id     int
	state  tstate
	wait   pgsim.WaitInfo
	what   string
	resume chan resume
	calls  int
	// yields > 0: this thread was aborted as a deadlock victim (and sent back into the ledger's
	// retry loop) and no OTHER thread has completed a step since. Fairness (Musuvathi & Qadeer,
	// "Fair stateless model checking"): a retry loop is a yield; a thread that has yielded is not
	// scheduled while another thread can run. Without this the default schedule is the unfair
	// one — the victim retries at once, re-takes its row lock before the waiter it unblocked has
	// moved, deadlocks again — and every branch unrolls to the horizon. What is given up: the
	// schedules in which a victim barges in front of the waiter it has just unblocked (possible
	// on a real server only if the woken backend is not scheduled for a whole transaction's
	// worth of statements). Which member of a cycle is the victim stays a free choice.
	yields int
}

// Point is one scheduling decision.
type Point struct {
	Enabled []int  // thread ids, canonical order: the running thread first if still enabled, then ascending
	Chosen  int    // index into Enabled
	Running int    // thread that was running before the decision (-1 at start)
	Victim  bool   // the decision picked a deadlock victim
	What    string // what the chosen thread was about to do
}

// Run is one complete execution.
type Run struct {
	Choices     []int
	Points      []Point
	Preemptions int
	Deadlocks   int
	Blocks      int // lock waits met during the execution
	HorizonHit  bool
	Stuck       string // non-empty: threads blocked for ever without a cycle
	Steps       int
}

// Exec runs the bodies under the scheduler, following prefix and then the default
// choice (index 0) at every later point. The scheduler must be installed on db and on
// the connector hook by the caller through Install.
type Exec struct {
	db      *pgsim.DB
	threads []*thread
	events  chan event
	mu      sync.Mutex
	commits []int // thread id of every COMMIT, in execution order
	horizon int
	timeout time.Duration
	blocks  int
	// Fault, when set, is consulted at every driver call of a scheduled thread, after the
	// scheduling decision: (thread, 1-based index of the call within the thread, op, sql) ->
	// error to inject instead of executing the call (K2 x K3: a fault at a fixed position
	// combined with every schedule).
	Fault func(thread, call int, op, sql string) error
}

func NewExec(db *pgsim.DB, n int) *Exec {
	e := &Exec{db: db, events: make(chan event, n+4), horizon: 4000, timeout: 20 * time.Second}
	for i := 0; i < n; i++ {
		e.threads = append(e.threads, &thread{id: i, resume: make(chan resume, 1)})
	}
	db.Mode = pgsim.ModeScheduled
	db.Sched = e
	return e
}

// Hook is the pgsim.CallHook to install on the world.
func (e *Exec) Hook(ctx context.Context, s *pgsim.Session, op, sql string) error {
	tid, ok := threadOf(ctx)
	if !ok || tid < 0 || tid >= len(e.threads) {
		return nil
	}
	t := e.threads[tid]
	t.calls++
	what := op
	if sql != "" {
		w := sql
		if len(w) > 60 {
			w = w[:60]
		}
		what = op + ":" + w
	}
	e.events <- event{tid: tid, kind: evPoint, what: what}
	<-t.resume
	if e.Fault != nil {
		if err := e.Fault(tid, t.calls, op, sql); err != nil {
			return err
		}
	}
	if op == "commit" {
		e.mu.Lock()
		e.commits = append(e.commits, tid)
		e.mu.Unlock()
	}
	return nil
}

// ---- pgsim.Scheduler ----

func (e *Exec) Point(s *pgsim.Session, what string) {}

func (e *Exec) Wake() {}

func (e *Exec) Block(s *pgsim.Session, w pgsim.WaitInfo) error {
	tid, ok := threadOf(s.Ctx)
	if !ok {
		return fmt.Errorf("pgsim: session %d blocked outside a scheduled thread (%s)", s.ID, w.What)
	}
	t := e.threads[tid]
	e.db.Unlock()
	e.events <- event{tid: tid, kind: evBlocked, wait: w, what: "wait:" + w.What}
	r := <-t.resume
	e.db.Lock()
	return r.err
}

// Execute runs bodies[i] as thread i.
func (e *Exec) Execute(ctx context.Context, bodies []func(ctx context.Context), prefix []int, onDiverge func(string)) *Run {
	run := &Run{}
	var wg sync.WaitGroup
	for i, b := range bodies {
		i, b := i, b
		t := e.threads[i]
		t.state = tsRunning
		wg.Add(1)
		go func() {
			defer wg.Done()
			tctx := context.WithValue(ctx, ctxKey{}, ctxVal{tid: i, exec: e})
			// park before doing anything, so that thread start order is a choice
			e.events <- event{tid: i, kind: evPoint, what: "start"}
			<-t.resume
			b(tctx)
			e.events <- event{tid: i, kind: evFinished}
		}()
	}
	// collect the initial "start" events
	running := -1
	pending := len(bodies)
	for pending > 0 {
		ev := e.waitEvent()
		if ev == nil {
			run.Stuck = "threads did not reach their start point"
			return run
		}
		e.apply(*ev)
		pending--
	}
	step := 0
	for {
		run.Steps++
		if run.Steps > e.horizon {
			run.HorizonHit = true
			e.abandon()
			break
		}
		enabled, victimMode := e.enabled(running)
		if len(enabled) == 0 {
			allDone := true
			for _, t := range e.threads {
				if t.state != tsDone {
					allDone = false
				}
			}
			if allDone {
				break
			}
			run.Stuck = e.describeStuck()
			e.abandon()
			break
		}
		choice := 0
		if len(enabled) > 1 {
			if step < len(prefix) {
				choice = prefix[step]
				if choice >= len(enabled) {
					if onDiverge != nil {
						onDiverge(fmt.Sprintf("step %d: choice %d out of range (enabled %v)", step, choice, enabled))
					}
					choice = 0
				}
			}
			step++
			run.Choices = append(run.Choices, choice)
			run.Points = append(run.Points, Point{Enabled: append([]int(nil), enabled...), Chosen: choice, Running: running, Victim: victimMode})
			if !victimMode && running >= 0 && enabled[0] == running && choice != 0 {
				run.Preemptions++
			}
		}
		tid := enabled[choice]
		t := e.threads[tid]
		if len(run.Points) > 0 && len(enabled) > 1 {
			run.Points[len(run.Points)-1].What = t.what
		}
		if victimMode {
			run.Deadlocks++
			t.yields++
			t.state = tsRunning
			t.resume <- resume{err: deadlockErr()}
		} else {
			t.state = tsRunning
			t.resume <- resume{}
		}
		running = tid
		ev := e.waitEvent()
		if ev == nil {
			run.Stuck = fmt.Sprintf("thread %d did not reach a scheduling point within %s (Go-level blocking?)", tid, e.timeout)
			e.abandon()
			break
		}
		if !victimMode && ev.kind != evBlocked {
			// this thread completed a step (it did not merely wake up to block again): the
			// others' yields are no longer "in a row"
			for _, o := range e.threads {
				if o.id != tid {
					o.yields = 0
				}
			}
		}
		e.apply(*ev)
	}
	done := make(chan struct{})
	go func() { wg.Wait(); close(done) }()
	select {
	case <-done:
	case <-time.After(e.timeout):
		if run.Stuck == "" && !run.HorizonHit {
			run.Stuck = "thread goroutines did not exit"
		}
	}
	run.Blocks = e.blocks
	return run
}

func deadlockErr() error {
	return pgsim.NewPgError("40P01", "deadlock detected")
}

func (e *Exec) waitEvent() *event {
	select {
	case ev := <-e.events:
		return &ev
	case <-time.After(e.timeout):
		return nil
	}
}

func (e *Exec) apply(ev event) {
	t := e.threads[ev.tid]
	switch ev.kind {
	case evPoint:
		t.state, t.what = tsAtPoint, ev.what
	case evBlocked:
		e.blocks++
		t.state, t.wait, t.what = tsBlocked, ev.wait, ev.what
	case evFinished:
		t.state = tsDone
	}
}

// enabled lists runnable threads in canonical order. When nothing is runnable but a
// wait-for cycle exists, it returns the cycle members (victim candidates).
func (e *Exec) enabled(running int) ([]int, bool) {
	var out []int
	add := func(id int) {
		for _, x := range out {
			if x == id {
				return
			}
		}
		out = append(out, id)
	}
	ready := func(t *thread) bool {
		switch t.state {
		case tsAtPoint:
			return true
		case tsBlocked:
			return e.db.WaitSatisfied(t.wait, e.sessionOf(t))
		}
		return false
	}
	// fairness: a thread that has yielded stands back while somebody else can run
	fairOther := false
	for _, t := range e.threads {
		if t.yields == 0 && ready(t) {
			fairOther = true
		}
	}
	eligible := func(t *thread) bool { return ready(t) && (t.yields == 0 || !fairOther) }
	if running >= 0 && eligible(e.threads[running]) {
		add(running)
	}
	for _, t := range e.threads {
		if eligible(t) {
			add(t.id)
		}
	}
	if len(out) > 0 {
		return out, false
	}
	// deadlock? every unfinished thread is blocked; find those on a cycle
	var blocked []*thread
	for _, t := range e.threads {
		if t.state == tsBlocked {
			blocked = append(blocked, t)
		}
	}
	if len(blocked) < 2 {
		return nil, false
	}
	holderThread := func(t *thread) int {
		sid := e.db.HolderSession(t.wait)
		for _, o := range e.threads {
			if o.state == tsBlocked && e.sessionOf(o) == sid && sid != 0 {
				return o.id
			}
		}
		return -1
	}
	for _, t := range blocked {
		seen := map[int]bool{t.id: true}
		cur := holderThread(t)
		for cur >= 0 {
			if cur == t.id {
				add(t.id)
				break
			}
			if seen[cur] {
				break
			}
			seen[cur] = true
			cur = holderThread(e.threads[cur])
		}
	}
	return out, len(out) > 0
}

func (e *Exec) sessionOf(t *thread) int { return t.wait.WaiterSess }

func (e *Exec) describeStuck() string {
	s := "no runnable thread:"
	for _, t := range e.threads {
		switch t.state {
		case tsBlocked:
			s += fmt.Sprintf(" T%d blocked on %s;", t.id, t.wait.What)
		case tsAtPoint:
			s += fmt.Sprintf(" T%d at %s;", t.id, t.what)
		case tsRunning:
			s += fmt.Sprintf(" T%d running;", t.id)
		}
	}
	return s
}

// abandon releases every parked thread with an error so goroutines can unwind.
func (e *Exec) abandon() {
	for _, t := range e.threads {
		switch t.state {
		case tsBlocked:
			t.state = tsRunning
			t.resume <- resume{err: pgsim.NewPgError("57014", "canceling statement: exploration abandoned")}
		case tsAtPoint:
			t.state = tsRunning
			t.resume <- resume{}
		}
	}
	// drain events until all goroutines finish or time out
	deadline := time.After(e.timeout)
	for {
		alive := false
		for _, t := range e.threads {
			if t.state != tsDone {
				alive = true
			}
		}
		if !alive {
			return
		}
		select {
		case ev := <-e.events:
			e.apply(ev)
			t := e.threads[ev.tid]
			if t.state == tsAtPoint {
				t.state = tsRunning
				t.resume <- resume{}
			} else if t.state == tsBlocked {
				t.state = tsRunning
				t.resume <- resume{err: pgsim.NewPgError("57014", "canceling statement: exploration abandoned")}
			}
		case <-deadline:
			return
		}
	}
}
