package lx

import (
	"context"
	"fmt"
	"math/big"
	"sort"
	"strings"
	"time"

	"github.com/formancehq/go-libs/v5/pkg/query"
	"github.com/formancehq/go-libs/v5/pkg/storage/bun/paginate"
	"github.com/formancehq/go-libs/v5/pkg/types/pointer"
	libtime "github.com/formancehq/go-libs/v5/pkg/types/time"

	ledger "github.com/formancehq/ledger/internal"
	ledgercontroller "github.com/formancehq/ledger/internal/controller/ledger"
	"github.com/formancehq/ledger/internal/storage/common"
)

func ltp(t time.Time) *libtime.Time { x := libtime.New(t); return &x }

// allPages follows `next` cursors to the end.
func allPages[T any, O any](ctx context.Context, first common.PaginatedQuery[O],
	page func(context.Context, common.PaginatedQuery[O]) (*paginate.Cursor[T], error)) ([]T, error) {
	var out []T
	q := first
	for i := 0; i < 10000; i++ {
		c, err := page(ctx, q)
		if err != nil {
			return nil, err
		}
		out = append(out, c.Data...)
		if !c.HasMore || c.Next == "" {
			return out, nil
		}
		nq, err := common.UnmarshalCursor[O](c.Next)
		if err != nil {
			return nil, fmt.Errorf("bad next cursor: %w", err)
		}
		q = nq
	}
	return nil, fmt.Errorf("pagination did not terminate")
}

func asc() *paginate.Order { return pointer.For(paginate.Order(paginate.OrderAsc)) }

// ListTxs returns every transaction (ascending id).
func ListTxs(ctx context.Context, c ledgercontroller.Controller, rq common.ResourceQuery[any]) ([]ledger.Transaction, error) {
	return allPages(ctx, common.PaginatedQuery[any](common.InitialPaginatedQuery[any]{PageSize: 50, Order: asc(), Options: rq}), c.ListTransactions)
}

func ListAccs(ctx context.Context, c ledgercontroller.Controller, rq common.ResourceQuery[any]) ([]ledger.Account, error) {
	return allPages(ctx, common.PaginatedQuery[any](common.InitialPaginatedQuery[any]{PageSize: 50, Options: rq}), c.ListAccounts)
}

func ListLogs(ctx context.Context, c ledgercontroller.Controller) ([]ledger.Log, error) {
	return allPages(ctx, common.PaginatedQuery[any](common.InitialPaginatedQuery[any]{PageSize: 50, Order: asc()}), c.ListLogs)
}

func ListVols(ctx context.Context, c ledgercontroller.Controller, rq common.ResourceQuery[ledger.GetVolumesOptions]) ([]ledger.VolumesWithBalanceByAssetByAccount, error) {
	return allPages(ctx, common.PaginatedQuery[ledger.GetVolumesOptions](common.InitialPaginatedQuery[ledger.GetVolumesOptions]{PageSize: 50, Options: rq}), c.GetVolumesWithBalances)
}

// Mismatch collects oracle failures with a structural signature.
type Mismatch struct {
	Sig  string
	What string
}

type Report struct{ Items []Mismatch }

func (r *Report) Add(sig, format string, a ...any) {
	r.Items = append(r.Items, Mismatch{Sig: sig, What: fmt.Sprintf(format, a...)})
}
func (r *Report) Empty() bool { return len(r.Items) == 0 }

func volsEqualLedger(got ledger.VolumesByAssets, want map[string]*Vol) string {
	var diffs []string
	for asset, w := range want {
		g, ok := got[asset]
		if !ok {
			if w.In.Sign() == 0 && w.Out.Sign() == 0 {
				continue
			}
			diffs = append(diffs, fmt.Sprintf("%s: missing, want %s", asset, w))
			continue
		}
		if !w.Eq(g.Input, g.Output) {
			diffs = append(diffs, fmt.Sprintf("%s: got (%s,%s) want %s", asset, g.Input, g.Output, w))
		}
	}
	for asset, g := range got {
		if _, ok := want[asset]; !ok {
			diffs = append(diffs, fmt.Sprintf("%s: unexpected (%s,%s)", asset, g.Input, g.Output))
		}
	}
	sort.Strings(diffs)
	return strings.Join(diffs, "; ")
}

func pcvEqual(got ledger.PostCommitVolumes, want Vols) string {
	var diffs []string
	for acc, w := range want {
		if d := volsEqualLedger(got[acc], w); d != "" {
			diffs = append(diffs, acc+"{"+d+"}")
		}
	}
	for acc := range got {
		if _, ok := want[acc]; !ok {
			diffs = append(diffs, acc+"{unexpected}")
		}
	}
	sort.Strings(diffs)
	return strings.Join(diffs, " ")
}

func metaEqual(got map[string]string, want map[string]string) bool {
	if len(got) != len(want) {
		return false
	}
	for k, v := range want {
		if g, ok := got[k]; !ok || g != v {
			return false
		}
	}
	return true
}

// Features a check may rely on.
type Feat struct {
	MovesHistory, EffectiveVolumes, AccMetaHistory, TxMetaHistory bool
	HashLogs                                                      string
}

func FeatOf(l ledger.Ledger) Feat {
	return Feat{
		MovesHistory:     l.Features["MOVES_HISTORY"] == "ON",
		EffectiveVolumes: l.Features["MOVES_HISTORY_POST_COMMIT_EFFECTIVE_VOLUMES"] == "SYNC",
		AccMetaHistory:   l.Features["ACCOUNT_METADATA_HISTORY"] == "SYNC",
		TxMetaHistory:    l.Features["TRANSACTION_METADATA_HISTORY"] == "SYNC",
		HashLogs:         l.Features["HASH_LOGS"],
	}
}

// CheckCurrent compares every "current state" read with the reference:
// transactions (postings, metadata, revert marks, post-commit and effective volumes),
// accounts (set, first usage, insertion date, metadata, volumes), the volumes listing,
// aggregated balances, conservation, and the number/ids of logs.
func CheckCurrent(ctx context.Context, c ledgercontroller.Controller, ref *Ref, rep *Report) {
	f := FeatOf(c.Info())
	// ---- transactions
	expand := []string{"volumes"}
	if f.EffectiveVolumes {
		expand = append(expand, "effectiveVolumes")
	}
	txs, err := ListTxs(ctx, c, common.ResourceQuery[any]{Expand: expand})
	if err != nil {
		rep.Add("read:ListTransactions:"+Classify(err), "ListTransactions: %v", err)
		return
	}
	if len(txs) != len(ref.Txs) {
		rep.Add("tx:count", "ListTransactions returned %d transactions, reference has %d", len(txs), len(ref.Txs))
	}
	byID := map[uint64]ledger.Transaction{}
	var lastID uint64
	for i, t := range txs {
		if t.ID == nil {
			rep.Add("tx:nil-id", "transaction without id")
			continue
		}
		if i > 0 && *t.ID <= lastID {
			rep.Add("tx:order", "ListTransactions asc not strictly increasing: %d after %d", *t.ID, lastID)
		}
		lastID = *t.ID
		byID[*t.ID] = t
	}
	for _, rt := range ref.Txs {
		t, ok := byID[rt.ID]
		if !ok {
			rep.Add("tx:missing", "transaction %d missing from ListTransactions", rt.ID)
			continue
		}
		if !postingsEqual(t.Postings, rt.Postings) {
			rep.Add("tx:postings", "tx %d postings %v want %v", rt.ID, t.Postings, rt.Postings)
		}
		if !t.Timestamp.Time.Equal(rt.TS) {
			rep.Add("tx:timestamp", "tx %d timestamp %s want %s", rt.ID, t.Timestamp, rt.TS)
		}
		if t.Reference != rt.Reference {
			rep.Add("tx:reference", "tx %d reference %q want %q", rt.ID, t.Reference, rt.Reference)
		}
		if !metaEqual(t.Metadata, rt.Meta) {
			rep.Add("tx:metadata", "tx %d metadata %v want %v", rt.ID, t.Metadata, rt.Meta)
		}
		if (t.RevertedAt != nil && !t.RevertedAt.IsZero()) != (rt.RevertedAt != nil) {
			rep.Add("tx:reverted-flag", "tx %d reverted=%v want %v", rt.ID, t.RevertedAt != nil, rt.RevertedAt != nil)
		}
		if d := pcvEqual(t.PostCommitVolumes, ref.PCV(rt)); d != "" {
			rep.Add("tx:pcv", "tx %d postCommitVolumes: %s", rt.ID, d)
		}
		if f.EffectiveVolumes && f.MovesHistory {
			if d := pcvEqual(t.PostCommitEffectiveVolumes, ref.PCEV(rt)); d != "" {
				rep.Add("tx:pcev", "tx %d postCommitEffectiveVolumes: %s", rt.ID, d)
			}
		}
		// GetTransaction agrees with the listing
		one, err := c.GetTransaction(ctx, common.ResourceQuery[any]{Builder: query.Match("id", rt.ID), Expand: expand})
		if err != nil {
			rep.Add("read:GetTransaction:"+Classify(err), "GetTransaction(%d): %v", rt.ID, err)
		} else {
			if d := pcvEqual(one.PostCommitVolumes, ref.PCV(rt)); d != "" {
				rep.Add("tx:get-pcv", "GetTransaction(%d) postCommitVolumes: %s", rt.ID, d)
			}
			if !postingsEqual(one.Postings, rt.Postings) || !metaEqual(one.Metadata, rt.Meta) {
				rep.Add("tx:get-mismatch", "GetTransaction(%d) differs from reference", rt.ID)
			}
		}
	}
	// ---- accounts
	cur := ref.Volumes(nil)
	accExpand := []string{}
	if f.MovesHistory {
		accExpand = append(accExpand, "volumes")
	}
	if f.EffectiveVolumes {
		accExpand = append(accExpand, "effectiveVolumes")
	}
	accs, err := ListAccs(ctx, c, common.ResourceQuery[any]{Expand: accExpand})
	if err != nil {
		rep.Add("read:ListAccounts:"+Classify(err), "ListAccounts: %v", err)
		return
	}
	gotAcc := map[string]ledger.Account{}
	prev := ""
	for i, a := range accs {
		if i > 0 && a.Address <= prev {
			rep.Add("acc:order", "ListAccounts not strictly ascending: %q after %q", a.Address, prev)
		}
		prev = a.Address
		gotAcc[a.Address] = a
	}
	for addr := range gotAcc {
		if ref.Accs[addr] == nil {
			rep.Add("acc:unexpected", "account %q listed but never used", addr)
		}
	}
	for _, ra := range ref.SortedAccounts() {
		a, ok := gotAcc[ra.Addr]
		if !ok {
			rep.Add("acc:missing", "account %q missing from ListAccounts", ra.Addr)
			continue
		}
		if !a.FirstUsage.Time.Equal(ra.FirstUsage) {
			rep.Add("acc:first-usage", "account %q firstUsage %s want %s", ra.Addr, a.FirstUsage, ra.FirstUsage)
		}
		if !a.InsertionDate.Time.Equal(ra.InsertionDate) {
			rep.Add("acc:insertion-date", "account %q insertionDate %s want %s", ra.Addr, a.InsertionDate, ra.InsertionDate)
		}
		if !metaEqual(a.Metadata, ra.Meta) {
			rep.Add("acc:metadata", "account %q metadata %v want %v", ra.Addr, a.Metadata, ra.Meta)
		}
		want := cur[ra.Addr]
		if want == nil {
			want = map[string]*Vol{}
		}
		if f.MovesHistory {
			if d := volsEqualLedger(a.Volumes, want); d != "" {
				rep.Add("acc:volumes", "account %q volumes: %s", ra.Addr, d)
			}
		}
		if f.EffectiveVolumes {
			if d := volsEqualLedger(a.EffectiveVolumes, want); d != "" {
				rep.Add("acc:effective-volumes", "account %q effectiveVolumes: %s", ra.Addr, d)
			}
		}
		one, err := c.GetAccount(ctx, common.ResourceQuery[any]{Builder: query.Match("address", ra.Addr), Expand: accExpand})
		if err != nil {
			rep.Add("read:GetAccount:"+Classify(err), "GetAccount(%s): %v", ra.Addr, err)
		} else if f.MovesHistory {
			if d := volsEqualLedger(one.Volumes, want); d != "" {
				rep.Add("acc:get-volumes", "GetAccount(%q) volumes: %s", ra.Addr, d)
			}
		}
	}
	// ---- volumes listing
	vols, err := ListVols(ctx, c, common.ResourceQuery[ledger.GetVolumesOptions]{})
	if err != nil {
		rep.Add("read:GetVolumesWithBalances:"+Classify(err), "GetVolumesWithBalances: %v", err)
		return
	}
	checkVolumeListing(vols, cur, "cur", rep)
	// ---- aggregated balances + conservation
	ab, err := c.GetAggregatedBalances(ctx, common.ResourceQuery[ledger.GetAggregatedVolumesOptions]{})
	if err != nil {
		rep.Add("read:GetAggregatedBalances:"+Classify(err), "GetAggregatedBalances: %v", err)
		return
	}
	checkAggregated(ab, cur, "cur", rep)
	// ---- logs
	logs, err := ListLogs(ctx, c)
	if err != nil {
		rep.Add("read:ListLogs:"+Classify(err), "ListLogs: %v", err)
		return
	}
	if len(logs) != len(ref.Logs) {
		rep.Add("log:count", "ListLogs returned %d logs, %d successful writes were made", len(logs), len(ref.Logs))
	}
	for i, l := range logs {
		if i > 0 && *l.ID <= *logs[i-1].ID {
			rep.Add("log:order", "log ids not increasing")
		}
		if i < len(ref.Logs) && *l.ID != ref.Logs[i].ID {
			rep.Add("log:id", "log #%d has id %d, the write returned %d", i, *l.ID, ref.Logs[i].ID)
		}
	}
}

func postingsEqual(a, b []ledger.Posting) bool {
	if len(a) != len(b) {
		return false
	}
	for i := range a {
		if a[i].Source != b[i].Source || a[i].Destination != b[i].Destination || a[i].Asset != b[i].Asset || a[i].Amount.Cmp(b[i].Amount) != 0 {
			return false
		}
	}
	return true
}

func checkVolumeListing(vols []ledger.VolumesWithBalanceByAssetByAccount, want Vols, tag string, rep *Report) {
	seen := map[string]bool{}
	for i, v := range vols {
		key := v.Account + "|" + v.Asset
		if seen[key] {
			rep.Add("vol:duplicate:"+tag, "volumes listing repeats %s", key)
		}
		seen[key] = true
		if i > 0 {
			p := vols[i-1]
			if p.Account > v.Account || (p.Account == v.Account && p.Asset >= v.Asset) {
				rep.Add("vol:order:"+tag, "volumes listing out of order at %s", key)
			}
		}
		w := want[v.Account][v.Asset]
		if w == nil {
			sig := "vol:unexpected:" + tag
			if v.Input != nil && v.Output != nil && v.Input.Sign() == 0 && v.Output.Sign() == 0 {
				// a row without any volume (e.g. the zero row a funds check materialises for a
				// source it consulted and did not use): same prefix, so every check that
				// demands "no unexpected row" still sees it, but told apart structurally
				sig += ":zero-row"
			}
			rep.Add(sig, "volumes listing has %s (%s,%s), reference has nothing", key, v.Input, v.Output)
			continue
		}
		if !w.Eq(v.Input, v.Output) {
			rep.Add("vol:value:"+tag, "volumes %s got (%s,%s) want %s", key, v.Input, v.Output, w)
		}
		if v.Balance == nil || v.Balance.Cmp(w.Balance()) != 0 {
			rep.Add("vol:balance:"+tag, "volumes %s balance %v want %s", key, v.Balance, w.Balance())
		}
	}
	for acc, m := range want {
		for asset := range m {
			if !seen[acc+"|"+asset] {
				rep.Add("vol:missing:"+tag, "volumes listing lacks %s|%s", acc, asset)
			}
		}
	}
}

func checkAggregated(ab ledger.BalancesByAssets, want Vols, tag string, rep *Report) {
	sum := map[string]*big.Int{}
	for _, m := range want {
		for asset, v := range m {
			if sum[asset] == nil {
				sum[asset] = new(big.Int)
			}
			sum[asset].Add(sum[asset], v.Balance())
		}
	}
	for asset, s := range sum {
		g, ok := ab[asset]
		if !ok {
			rep.Add("agg:missing:"+tag, "aggregated balances lack asset %s", asset)
			continue
		}
		if g.Cmp(s) != 0 {
			rep.Add("agg:value:"+tag, "aggregated balance %s = %s want %s", asset, g, s)
		}
		if s.Sign() != 0 {
			rep.Add("agg:conservation:"+tag, "reference itself not conserved for %s (harness bug)", asset)
		}
	}
	for asset, g := range ab {
		if _, ok := sum[asset]; !ok {
			rep.Add("agg:unexpected:"+tag, "aggregated balances has asset %s = %s", asset, g)
		}
	}
}
