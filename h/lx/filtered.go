package lx

import (
	"context"
	"fmt"
	"math/big"
	"sort"
	"strings"
	"time"

	"github.com/formancehq/go-libs/v5/pkg/query"
	libtime "github.com/formancehq/go-libs/v5/pkg/types/time"

	ledger "github.com/formancehq/ledger/internal"
	ledgercontroller "github.com/formancehq/ledger/internal/controller/ledger"
	"github.com/formancehq/ledger/internal/storage/common"
)

// MetaFilter is one metadata filter of the filtered read set: metadata[Key] = Value, or
// (Value == "") `$exists` Key.
type MetaFilter struct {
	Key, Value string
}

func (f MetaFilter) String() string {
	if f.Value == "" {
		return "exists(" + f.Key + ")"
	}
	return f.Key + "=" + f.Value
}

func (f MetaFilter) accBuilder() query.Builder {
	if f.Value == "" {
		return query.Exists("metadata", f.Key)
	}
	return query.Match("metadata["+f.Key+"]", f.Value)
}

func (f MetaFilter) holds(m map[string]string) bool {
	v, ok := m[f.Key]
	return ok && (f.Value == "" || v == f.Value)
}

// FilteredTally counts what the filtered read set saw (vacuity guards of its callers).
type FilteredTally struct {
	Reads          int64 // reads issued
	NonEmpty       int64 // reads whose reference answer is not empty
	Selective      int64 // ... and is a proper subset of the unfiltered answer
	Rejected       int64 // date-bounded reads refused for a missing feature, as they must be
	CurrentMetaPIT int64 // date-bounded metadata-filtered reads answered from the CURRENT metadata (ACCOUNT_METADATA_HISTORY off), non-empty reference
}

func (t *FilteredTally) Add(o FilteredTally) {
	t.Reads += o.Reads
	t.NonEmpty += o.NonEmpty
	t.Selective += o.Selective
	t.Rejected += o.Rejected
	t.CurrentMetaPIT += o.CurrentMetaPIT
}

// bound is one shape of the date bounds of a read.
type bound struct {
	name     string
	pit, oot *time.Time
}

func (b bound) dated() bool { return b.pit != nil || b.oot != nil }

// CheckFiltered is the filtered / date-bounded half of the read oracle: the reads whose
// SQL joins the ledger's rows with its accounts (current metadata) or accounts_metadata
// (revisions) tables — the volumes listing, the aggregated balances and the accounts and
// transactions listings under a metadata filter, without date bound, with an end (PIT), a
// start (OOT) and both, on effective and on insertion dates. Every answer must be what the
// ledger's OWN reference says.
//
// The bounds are taken outside the history (end after the last recorded date, start before
// the first), so that the expected fold is the whole history and the metadata «as of the
// end» is the current metadata whether or not the ledger keeps the metadata history; with
// deep set, the end is also put at every recorded date of the history, where a ledger with
// ACCOUNT_METADATA_HISTORY reads the revision of that date and a ledger without it reads
// the current metadata (lx/pit.go, property C17).
//
// accFilters look at account metadata (volumes, aggregated balances, accounts), txFilters at
// transaction metadata (transactions).
//
// level selects how much of the set is read:
//
//	0: the volumes listing only, in the three shapes that differ by their joins: no bound
//	   (accounts_volumes ⨝ accounts), start+end on effective dates and end on insertion
//	   dates (moves ⨝ accounts_metadata, or ⨝ accounts without the metadata history)
//	1: also the aggregated balances (no bound, end on insertion dates), the accounts and the
//	   transactions listings (no bound, point in time)
//	2: every shape — volumes with no bound, end, start, both, each on both kinds of date;
//	   aggregated balances with no bound and an end on both kinds of date — and the end also
//	   at every recorded date of the history
func CheckFiltered(ctx context.Context, c ledgercontroller.Controller, ref *Ref, accFilters, txFilters []MetaFilter, level int, rep *Report) FilteredTally {
	deep := level >= 2
	var tally FilteredTally
	f := FeatOf(c.Info())
	instants := ref.Instants()
	after, before := Base.Add(48*time.Hour), Base.Add(-48*time.Hour)
	if n := len(instants); n > 0 {
		after, before = instants[n-1].Add(time.Hour), instants[0].Add(-time.Hour)
	}
	bounds := []bound{{name: "cur"}, {name: "end", pit: &after}, {name: "start", oot: &before}, {name: "window", pit: &after, oot: &before}}
	if deep {
		seen := map[int64]bool{}
		for _, t := range ref.Txs {
			for _, d := range []time.Time{t.TS, t.InsertedAt} {
				if !seen[d.UnixMicro()] {
					seen[d.UnixMicro()] = true
					d := d
					bounds = append(bounds, bound{name: "end@" + d.Format(time.RFC3339Nano), pit: &d})
				}
			}
		}
	}
	ts := func(t *time.Time) string {
		if t == nil {
			return "-"
		}
		return t.Format(time.RFC3339Nano)
	}
	metaFor := func(a *RefAcc, b bound) map[string]string {
		if a == nil {
			return nil
		}
		if b.pit == nil || !f.AccMetaHistory {
			return a.Meta
		}
		return MetaAt(a.MetaHist, *b.pit)
	}
	all := ref.Volumes(nil)
	for _, b := range bounds {
		for _, useIns := range []bool{false, true} {
			if useIns && !b.dated() {
				continue // the date mode means nothing without a date bound
			}
			if level < 2 && !(b.name == "cur" || (b.name == "window" && !useIns) || (b.name == "end" && useIns)) {
				continue
			}
			mode := "effective"
			if useIns {
				mode = "insertion"
			}
			fold := ref.Volumes(func(t *RefTx) bool {
				d := t.TS
				if useIns {
					d = t.InsertedAt
				}
				return (b.pit == nil || !d.After(*b.pit)) && (b.oot == nil || !d.Before(*b.oot))
			})
			for _, mf := range accFilters {
				want := Vols{}
				for addr, m := range fold {
					if mf.holds(metaFor(ref.Accs[addr], b)) {
						want[addr] = m
					}
				}
				tag := "filtered:" + b.name + ":" + mode
				if strings.HasPrefix(b.name, "end@") {
					tag = "filtered:end@date:" + mode
				}
				what := fmt.Sprintf("volumes[%s, end=%s, start=%s, %s dates]", mf, ts(b.pit), ts(b.oot), mode)
				// ---- volumes listing
				tally.Reads++
				vols, err := ListVols(ctx, c, common.ResourceQuery[ledger.GetVolumesOptions]{PIT: ltpp(b.pit), OOT: ltpp(b.oot), Builder: mf.accBuilder(),
					Opts: ledger.GetVolumesOptions{UseInsertionDate: useIns}})
				switch {
				case b.dated() && !f.MovesHistory:
					if err == nil {
						rep.Add("feature:filtered-volumes-without-moves-history", "%s answered although MOVES_HISTORY is OFF", what)
					} else if Classify(err) != "missing_feature" {
						rep.Add("feature:filtered-volumes-error-kind", "%s without MOVES_HISTORY: %v", what, err)
					} else {
						tally.Rejected++
					}
				case err != nil:
					rep.Add("read:GetVolumesWithBalances("+tag+"):"+Classify(err), "%s: %v", what, err)
				default:
					sub := &Report{}
					checkVolumeListing(vols, want, tag, sub)
					for _, m := range sub.Items {
						if !b.dated() && strings.HasSuffix(m.Sig, ":zero-row") {
							// the (0,0) row a funds check of this very ledger materialised for an
							// account that matches the filter: the unfiltered listing shows it too,
							// and whose row it is is decided there (see C19's projection oracle)
							continue
						}
						rep.Add(m.Sig, "%s: %s", what, m.What)
					}
					if len(want) > 0 {
						tally.NonEmpty++
						if len(want) < len(all) {
							tally.Selective++
						}
						if b.dated() && !f.AccMetaHistory {
							tally.CurrentMetaPIT++
						}
					}
				}
				// ---- aggregated balances (date-bounded form: end only)
				if b.oot != nil || level < 1 {
					continue
				}
				needs, feature := true, ""
				if b.pit != nil {
					needs, feature = f.MovesHistory, "MOVES_HISTORY"
					if !useIns && needs {
						needs, feature = f.EffectiveVolumes, "MOVES_HISTORY_POST_COMMIT_EFFECTIVE_VOLUMES"
					}
				}
				what = fmt.Sprintf("aggregated balances[%s, end=%s, %s dates]", mf, ts(b.pit), mode)
				tally.Reads++
				ab, err := c.GetAggregatedBalances(ctx, common.ResourceQuery[ledger.GetAggregatedVolumesOptions]{PIT: ltpp(b.pit), Builder: mf.accBuilder(),
					Opts: ledger.GetAggregatedVolumesOptions{UseInsertionDate: useIns}})
				switch {
				case !needs:
					if err == nil {
						rep.Add("feature:filtered-aggregate-without-feature:"+mode, "%s answered although %s is disabled", what, feature)
					} else if Classify(err) != "missing_feature" {
						rep.Add("feature:filtered-aggregate-error-kind:"+mode, "%s: %v", what, err)
					} else {
						tally.Rejected++
					}
				case err != nil:
					rep.Add("read:GetAggregatedBalances("+tag+"):"+Classify(err), "%s: %v", what, err)
				default:
					checkFilteredAggregate(ab, want, tag, what, rep)
				}
			}
		}
		// ---- accounts and transactions listings (no start bound on those)
		if b.oot != nil || level < 1 {
			continue
		}
		for _, mf := range accFilters {
			var want []string
			for _, a := range ref.SortedAccounts() {
				if (b.pit == nil || !a.FirstUsage.After(*b.pit)) && mf.holds(metaFor(a, b)) {
					want = append(want, a.Addr)
				}
			}
			what := fmt.Sprintf("accounts[%s, pit=%s]", mf, ts(b.pit))
			tally.Reads++
			accs, err := ListAccs(ctx, c, common.ResourceQuery[any]{PIT: ltpp(b.pit), Builder: mf.accBuilder()})
			if err != nil {
				rep.Add("read:ListAccounts(filtered):"+Classify(err), "%s: %v", what, err)
				continue
			}
			var got []string
			for _, a := range accs {
				got = append(got, a.Address)
				if ra := ref.Accs[a.Address]; ra != nil && !metaEqual(a.Metadata, metaFor(ra, b)) && !(len(a.Metadata) == 0 && len(metaFor(ra, b)) == 0) {
					rep.Add("acc:filtered:metadata", "%s: account %q carries metadata %v, reference %v", what, a.Address, a.Metadata, metaFor(ra, b))
				}
			}
			sort.Strings(got)
			if strings.Join(got, ",") != strings.Join(want, ",") {
				rep.Add("acc:filtered:set", "%s lists %v, reference %v", what, got, want)
			}
			if len(want) > 0 {
				tally.NonEmpty++
			}
		}
		for _, mf := range txFilters {
			var want []string
			for _, t := range ref.Txs {
				m := t.Meta
				if b.pit != nil && f.TxMetaHistory {
					m = MetaAt(t.MetaHist, *b.pit)
				}
				if (b.pit == nil || !t.TS.After(*b.pit)) && mf.holds(m) {
					want = append(want, fmt.Sprint(t.ID))
				}
			}
			what := fmt.Sprintf("transactions[%s, pit=%s]", mf, ts(b.pit))
			tally.Reads++
			txs, err := ListTxs(ctx, c, common.ResourceQuery[any]{PIT: ltpp(b.pit), Builder: mf.accBuilder()})
			if err != nil {
				rep.Add("read:ListTransactions(filtered):"+Classify(err), "%s: %v", what, err)
				continue
			}
			var got []string
			for _, t := range txs {
				got = append(got, fmt.Sprint(*t.ID))
			}
			if strings.Join(got, ",") != strings.Join(want, ",") {
				rep.Add("tx:filtered:set", "%s lists %v, reference %v", what, got, want)
			}
			if len(want) > 0 {
				tally.NonEmpty++
			}
		}
	}
	return tally
}

func ltpp(t *time.Time) *libtime.Time {
	if t == nil {
		return nil
	}
	return ltp(*t)
}

// checkFilteredAggregate: the aggregate over a filtered account set is the per-asset sum of
// the balances of the selected accounts (it is not conserved: the counterparties may not
// match the filter).
func checkFilteredAggregate(ab ledger.BalancesByAssets, want Vols, tag, what string, rep *Report) {
	sum := map[string]*big.Int{}
	for _, m := range want {
		for asset, v := range m {
			if sum[asset] == nil {
				sum[asset] = new(big.Int)
			}
			sum[asset].Add(sum[asset], v.Balance())
		}
	}
	for asset, s := range sum {
		g, ok := ab[asset]
		if !ok {
			if s.Sign() != 0 {
				rep.Add("agg:missing:"+tag, "%s lacks asset %s (reference %s)", what, asset, s)
			}
			continue
		}
		if g.Cmp(s) != 0 {
			rep.Add("agg:value:"+tag, "%s: %s = %s, reference %s", what, asset, g, s)
		}
	}
	for asset, g := range ab {
		if _, ok := sum[asset]; !ok && g.Sign() != 0 {
			rep.Add("agg:unexpected:"+tag, "%s has asset %s = %s, reference has none", what, asset, g)
		}
	}
}
