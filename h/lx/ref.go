package lx

import (
	"encoding/json"
	"fmt"
	"math/big"
	"sort"
	"time"

	ledger "github.com/formancehq/ledger/internal"
)

func jsonUnmarshal(s string, v any) error { return json.Unmarshal([]byte(s), v) }

// Vol is (input, output).
type Vol struct{ In, Out *big.Int }

func newVol() *Vol               { return &Vol{new(big.Int), new(big.Int)} }
func (v *Vol) Balance() *big.Int { return new(big.Int).Sub(v.In, v.Out) }
func (v *Vol) String() string    { return fmt.Sprintf("(%s,%s)", v.In, v.Out) }
func (v *Vol) Eq(in, out *big.Int) bool {
	return in != nil && out != nil && v.In.Cmp(in) == 0 && v.Out.Cmp(out) == 0
}

// Vols maps account -> asset -> Vol.
type Vols map[string]map[string]*Vol

func (vs Vols) at(acc, asset string) *Vol {
	m := vs[acc]
	if m == nil {
		m = map[string]*Vol{}
		vs[acc] = m
	}
	v := m[asset]
	if v == nil {
		v = newVol()
		m[asset] = v
	}
	return v
}

// Balance returns input-output of (acc, asset), 0 when absent.
func (vs Vols) Balance(acc, asset string) *big.Int {
	if m := vs[acc]; m != nil {
		if v := m[asset]; v != nil {
			return v.Balance()
		}
	}
	return new(big.Int)
}

func (vs Vols) applyPosting(p ledger.Posting) {
	vs.at(p.Source, p.Asset).Out.Add(vs.at(p.Source, p.Asset).Out, p.Amount)
	vs.at(p.Destination, p.Asset).In.Add(vs.at(p.Destination, p.Asset).In, p.Amount)
}

type MetaRev struct {
	At time.Time
	M  map[string]string
}

type RefTx struct {
	ID         uint64
	Postings   []ledger.Posting
	TS         time.Time
	InsertedAt time.Time
	Reference  string
	Meta       map[string]string
	RevertedAt *time.Time
	RevertOf   *uint64
	Seq        int
	MetaHist   []MetaRev
	Template   string
}

type RefAcc struct {
	Addr          string
	FirstUsage    time.Time
	InsertionDate time.Time
	Meta          map[string]string
	MetaHist      []MetaRev
}

type RefLog struct {
	ID   uint64
	Type string
	Date time.Time
	IK   string
}

// Ref is the boring reference ledger: what committed operations mean.
type Ref struct {
	Txs  []*RefTx
	Accs map[string]*RefAcc
	Logs []RefLog
}

func NewRef() *Ref { return &Ref{Accs: map[string]*RefAcc{}} }

func copyMeta(m map[string]string) map[string]string {
	out := map[string]string{}
	for k, v := range m {
		out[k] = v
	}
	return out
}

func (r *Ref) Clone() *Ref {
	n := NewRef()
	for _, t := range r.Txs {
		c := *t
		c.Postings = append([]ledger.Posting(nil), t.Postings...)
		c.Meta = copyMeta(t.Meta)
		c.MetaHist = append([]MetaRev(nil), t.MetaHist...)
		n.Txs = append(n.Txs, &c)
	}
	for k, a := range r.Accs {
		c := *a
		c.Meta = copyMeta(a.Meta)
		c.MetaHist = append([]MetaRev(nil), a.MetaHist...)
		n.Accs[k] = &c
	}
	n.Logs = append([]RefLog(nil), r.Logs...)
	return n
}

func (r *Ref) Tx(id uint64) *RefTx {
	for _, t := range r.Txs {
		if t.ID == id {
			return t
		}
	}
	return nil
}

func (r *Ref) touchAccount(addr string, ts, insertedAt time.Time, meta map[string]string) {
	a := r.Accs[addr]
	if a == nil {
		a = &RefAcc{Addr: addr, FirstUsage: ts, InsertionDate: insertedAt, Meta: copyMeta(meta)}
		a.MetaHist = append(a.MetaHist, MetaRev{At: insertedAt, M: copyMeta(a.Meta)})
		r.Accs[addr] = a
		return
	}
	if ts.Before(a.FirstUsage) {
		a.FirstUsage = ts
	}
	changed := false
	for k, v := range meta {
		if a.Meta[k] != v {
			changed = true
		}
		if _, ok := a.Meta[k]; !ok {
			changed = true
		}
	}
	if changed {
		for k, v := range meta {
			a.Meta[k] = v
		}
		a.MetaHist = append(a.MetaHist, MetaRev{At: insertedAt, M: copyMeta(a.Meta)})
	}
}

// Commit records the effect of a successful, non-dry-run, non-idempotent-hit operation.
// Postings of "post" operations come from the request (what was submitted), everything
// the property leaves to the implementation (ids, dates) comes from the outcome.
func (r *Ref) Commit(op Op, out Outcome) error {
	if !out.OK() || op.DryRun || out.Hit {
		return nil
	}
	if out.Log == nil || out.Log.ID == nil {
		return fmt.Errorf("successful %s returned no log", op.Kind)
	}
	r.Logs = append(r.Logs, RefLog{ID: *out.Log.ID, Type: out.Log.Type.String(), Date: out.Log.Date.Time, IK: op.IK})
	logDate := out.Log.Date.Time
	switch op.Kind {
	case "post", "script":
		if out.Tx == nil || out.Tx.ID == nil {
			return fmt.Errorf("successful %s returned no transaction", op.Kind)
		}
		t := &RefTx{ID: *out.Tx.ID, TS: out.Tx.Timestamp.Time, InsertedAt: out.Tx.InsertedAt.Time, Reference: op.Ref, Seq: len(r.Txs), Template: op.Template}
		if op.Kind == "post" {
			for _, p := range op.Postings {
				t.Postings = append(t.Postings, p.Posting())
			}
			t.Meta = copyMeta(op.Meta)
		} else {
			t.Postings = append(t.Postings, out.Tx.Postings...)
			t.Meta = copyMeta(out.Tx.Metadata)
		}
		if op.TSOff != nil {
			t.TS = Base.Add(time.Duration(*op.TSOff) * time.Microsecond)
		}
		t.MetaHist = []MetaRev{{At: t.TS, M: copyMeta(t.Meta)}}
		r.Txs = append(r.Txs, t)
		touched := map[string]bool{}
		for _, p := range t.Postings {
			touched[p.Source], touched[p.Destination] = true, true
		}
		am := map[string]map[string]string{}
		if op.ScriptAccMeta != nil {
			for a, m := range op.ScriptAccMeta {
				am[a] = copyMeta(m)
				touched[a] = true
			}
		} else {
			for a, m := range out.AccMeta {
				am[a] = copyMeta(m)
				touched[a] = true
			}
		}
		// the AccountMetadata request parameter is what was submitted: it counts even
		// if the implementation forgot it in its result
		for a, m := range op.AccMeta {
			if am[a] == nil {
				am[a] = map[string]string{}
			}
			for k, v := range m {
				am[a][k] = v // the request's value wins over the script's for the same key
			}
			touched[a] = true
		}
		var addrs []string
		for a := range touched {
			addrs = append(addrs, a)
		}
		sort.Strings(addrs)
		for _, a := range addrs {
			r.touchAccount(a, t.TS, t.InsertedAt, am[a])
		}
	case "revert":
		if out.Tx == nil || out.Reverted == nil {
			return fmt.Errorf("successful revert returned no transactions")
		}
		orig := r.Tx(op.TxID)
		if orig == nil {
			return fmt.Errorf("revert of unknown transaction %d succeeded", op.TxID)
		}
		if out.Reverted.RevertedAt != nil {
			at := out.Reverted.RevertedAt.Time
			orig.RevertedAt = &at
		}
		id := orig.ID
		t := &RefTx{ID: *out.Tx.ID, TS: out.Tx.Timestamp.Time, InsertedAt: out.Tx.InsertedAt.Time, Seq: len(r.Txs), RevertOf: &id}
		// the documented inverse: swapped, reversed
		for i := len(orig.Postings) - 1; i >= 0; i-- {
			p := orig.Postings[i]
			t.Postings = append(t.Postings, ledger.NewPosting(p.Destination, p.Source, p.Asset, p.Amount))
		}
		t.Meta = copyMeta(out.Tx.Metadata)
		t.MetaHist = []MetaRev{{At: t.TS, M: copyMeta(t.Meta)}}
		r.Txs = append(r.Txs, t)
	case "txmeta":
		t := r.Tx(op.TxID)
		if t == nil {
			return fmt.Errorf("txmeta on unknown transaction %d succeeded", op.TxID)
		}
		for k, v := range op.Meta {
			t.Meta[k] = v
		}
		t.MetaHist = append(t.MetaHist, MetaRev{At: logDate, M: copyMeta(t.Meta)})
	case "deltxmeta":
		t := r.Tx(op.TxID)
		if t == nil {
			return fmt.Errorf("deltxmeta on unknown transaction %d succeeded", op.TxID)
		}
		delete(t.Meta, op.Key)
		t.MetaHist = append(t.MetaHist, MetaRev{At: logDate, M: copyMeta(t.Meta)})
	case "accmeta":
		a := r.Accs[op.Address]
		if a == nil {
			r.touchAccount(op.Address, logDate, logDate, op.Meta)
		} else {
			for k, v := range op.Meta {
				a.Meta[k] = v
			}
			a.MetaHist = append(a.MetaHist, MetaRev{At: logDate, M: copyMeta(a.Meta)})
		}
	case "delaccmeta":
		if a := r.Accs[op.Address]; a != nil {
			delete(a.Meta, op.Key)
			a.MetaHist = append(a.MetaHist, MetaRev{At: logDate, M: copyMeta(a.Meta)})
		}
	case "schema":
	}
	return nil
}

// ---------- folds ----------

// Volumes folds the postings of every transaction accepted by keep.
func (r *Ref) Volumes(keep func(t *RefTx) bool) Vols {
	vs := Vols{}
	for _, t := range r.Txs {
		if keep != nil && !keep(t) {
			continue
		}
		for _, p := range t.Postings {
			vs.applyPosting(p)
		}
	}
	return vs
}

// PCV is the volumes of the (account, asset) pairs t touches right after t, in insertion order.
func (r *Ref) PCV(t *RefTx) Vols {
	all := r.Volumes(func(o *RefTx) bool { return o.Seq <= t.Seq })
	return restrict(all, t)
}

// PCEV is the effective volumes of the pairs t touches: everything with an earlier
// effective timestamp, or the same timestamp and inserted no later than t.
func (r *Ref) PCEV(t *RefTx) Vols {
	all := r.Volumes(func(o *RefTx) bool {
		return o.TS.Before(t.TS) || (o.TS.Equal(t.TS) && o.Seq <= t.Seq)
	})
	return restrict(all, t)
}

func restrict(all Vols, t *RefTx) Vols {
	out := Vols{}
	for _, p := range t.Postings {
		for _, a := range []string{p.Source, p.Destination} {
			v := all.at(a, p.Asset)
			o := out.at(a, p.Asset)
			o.In, o.Out = v.In, v.Out
		}
	}
	return out
}

// Instants returns the interesting points in time of the history: every recorded date,
// just before and after each, sorted and de-duplicated.
func (r *Ref) Instants() []time.Time {
	set := map[int64]bool{}
	add := func(t time.Time) {
		if t.IsZero() {
			return
		}
		us := t.UnixMicro()
		set[us-1], set[us], set[us+1] = true, true, true
	}
	for _, t := range r.Txs {
		add(t.TS)
		add(t.InsertedAt)
		if t.RevertedAt != nil {
			add(*t.RevertedAt)
		}
		for _, h := range t.MetaHist {
			add(h.At)
		}
	}
	for _, a := range r.Accs {
		add(a.FirstUsage)
		add(a.InsertionDate)
		for _, h := range a.MetaHist {
			add(h.At)
		}
	}
	var us []int64
	for k := range set {
		us = append(us, k)
	}
	sort.Slice(us, func(i, j int) bool { return us[i] < us[j] })
	out := make([]time.Time, len(us))
	for i, u := range us {
		out[i] = time.UnixMicro(u).UTC()
	}
	return out
}

// MetaAt returns the last revision at or before t (nil when none).
func MetaAt(h []MetaRev, t time.Time) map[string]string {
	var cur map[string]string
	for _, r := range h {
		if !r.At.After(t) {
			cur = r.M
		}
	}
	return cur
}

func (r *Ref) SortedAccounts() []*RefAcc {
	var out []*RefAcc
	for _, a := range r.Accs {
		out = append(out, a)
	}
	sort.Slice(out, func(i, j int) bool { return out[i].Addr < out[j].Addr })
	return out
}
