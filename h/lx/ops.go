// Package lx ("ledger exercise") defines the operation alphabet the explorers drive
// through the real controllers, the reference ledger that mirrors committed effects,
// and the observers that read everything back through the public read API.
package lx

import (
	"context"
	"errors"
	"fmt"
	"math/big"
	"strings"
	"time"

	"github.com/formancehq/go-libs/v5/pkg/storage/postgres"
	"github.com/formancehq/go-libs/v5/pkg/types/metadata"
	libtime "github.com/formancehq/go-libs/v5/pkg/types/time"

	ledger "github.com/formancehq/ledger/internal"
	ledgercontroller "github.com/formancehq/ledger/internal/controller/ledger"
	"github.com/formancehq/ledger/internal/machine"
	storagecommon "github.com/formancehq/ledger/internal/storage/common"
	ledgerstore "github.com/formancehq/ledger/internal/storage/ledger"
)

// P is one posting with a decimal-string amount (JSON friendly, any magnitude).
type P struct {
	Src string `json:"src"`
	Dst string `json:"dst"`
	Ast string `json:"asset"`
	Amt string `json:"amount"`
}

func (p P) Posting() ledger.Posting {
	a, ok := new(big.Int).SetString(p.Amt, 10)
	if !ok {
		panic("bad amount " + p.Amt)
	}
	return ledger.NewPosting(p.Src, p.Dst, p.Ast, a)
}

// Op is one operation of an alphabet. It is plain data so that replays are files.
type Op struct {
	// Kind: post script revert txmeta accmeta deltxmeta delaccmeta schema (ledger operations,
	// run by Apply); createledger (Ledger in bucket Address), deletebucket / restorebucket
	// (soft delete / restore of bucket Address) are system operations, run by the sequence
	// explorer through the system controller.
	Kind   string `json:"kind"`
	Ledger string `json:"ledger,omitempty"`
	Name   string `json:"name,omitempty"` // short label for evidence

	Postings []P               `json:"postings,omitempty"`
	Script   string            `json:"script,omitempty"`
	Vars     map[string]string `json:"vars,omitempty"`
	Runtime  string            `json:"runtime,omitempty"`
	Template string            `json:"template,omitempty"`

	Meta    map[string]string            `json:"meta,omitempty"`
	AccMeta map[string]map[string]string `json:"accMeta,omitempty"`
	// ScriptAccMeta declares what the set_account_meta statements of Script write (the
	// alphabet's author states it next to the script text). When set, the reference takes the
	// script's account metadata from here instead of from the result the implementation
	// returned, so that a merge that loses script keys is not mirrored by the reference.
	ScriptAccMeta map[string]map[string]string `json:"scriptAccMeta,omitempty"`
	// DeadlockAt > 0: the n-th driver call (exec/query) issued while this operation runs
	// fails, once, with SQLSTATE 40P01. The ledger retries a deadlock victim (forgeLogRetry): the
	// operation is then expected to behave exactly as without the fault (sequence explorers only).
	DeadlockAt int    `json:"deadlockAt,omitempty"`
	TSOff      *int64 `json:"tsOffUs,omitempty"` // explicit timestamp = Base + TSOff µs
	Ref        string `json:"ref,omitempty"`
	IK         string `json:"ik,omitempty"`
	DryRun     bool   `json:"dryRun,omitempty"`
	Force      bool   `json:"force,omitempty"`
	AtEff      bool   `json:"atEff,omitempty"`
	TxID       uint64 `json:"txID,omitempty"`
	Address    string `json:"address,omitempty"`
	Key        string `json:"key,omitempty"`
	Schema     string `json:"schemaVersion,omitempty"`
	// OnSchema (Kind=="schema"): the schemaVersion parameter of the InsertSchema REQUEST (the
	// schema version the write itself is made under; it only has to name an existing schema).
	OnSchema string `json:"onSchema,omitempty"`
	// SchemaData is the raw JSON of a schema for Kind=="schema".
	SchemaData string `json:"schemaData,omitempty"`
}

func (o Op) String() string {
	if o.Name != "" {
		return o.Name
	}
	switch o.Kind {
	case "post":
		var ps []string
		for _, p := range o.Postings {
			ps = append(ps, fmt.Sprintf("%s>%s %s %s", p.Src, p.Dst, p.Amt, p.Ast))
		}
		s := "post[" + strings.Join(ps, ";") + "]"
		if o.TSOff != nil {
			s += fmt.Sprintf("@%+d", *o.TSOff)
		}
		if o.Force {
			s += "!force"
		}
		if o.DryRun {
			s += "!dry"
		}
		return s
	case "revert":
		return fmt.Sprintf("revert(%d,force=%v,atEff=%v)", o.TxID, o.Force, o.AtEff)
	case "txmeta":
		return fmt.Sprintf("txmeta(%d,%v)", o.TxID, o.Meta)
	case "accmeta":
		return fmt.Sprintf("accmeta(%s,%v)", o.Address, o.Meta)
	case "deltxmeta":
		return fmt.Sprintf("deltxmeta(%d,%s)", o.TxID, o.Key)
	case "delaccmeta":
		return fmt.Sprintf("delaccmeta(%s,%s)", o.Address, o.Key)
	case "createledger":
		return fmt.Sprintf("createledger(%s in %s)", o.Ledger, o.Address)
	case "deletebucket", "restorebucket":
		return fmt.Sprintf("%s(%s)", o.Kind, o.Address)
	}
	return o.Kind
}

// Base is the origin of explicit timestamps: one hour after the pgsim epoch so that
// "past" offsets are still after the Unix epoch and "future" ones are plausible.
var Base = time.UnixMicro(1_700_000_000_000_000).UTC()

func TS(offUs int64) *int64 { return &offUs }

// Outcome is what one operation returned.
type Outcome struct {
	Err      error
	Class    string // "" on success, else a stable error class
	Hit      bool   // idempotency hit
	Log      *ledger.Log
	Tx       *ledger.Transaction // created transaction / revert transaction
	Reverted *ledger.Transaction // the transaction that was reverted
	AccMeta  ledger.AccountMetadata
}

func (o Outcome) OK() bool { return o.Err == nil }

// Classify maps an error to a stable class name (what the properties talk about).
func Classify(err error) string {
	if err == nil {
		return ""
	}
	var (
		insufficient  *machine.ErrInsufficientFund
		alreadyRev    ledgercontroller.ErrAlreadyReverted
		refConflict   ledgercontroller.ErrTransactionReferenceConflict
		refConflict2  ledgerstore.ErrTransactionReferenceConflict
		ikConflict    ledgercontroller.ErrIdempotencyKeyConflict
		ikConflict2   ledgerstore.ErrIdempotencyKeyConflict
		invalidIK     ledgercontroller.ErrInvalidIdempotencyInput
		compile       ledgercontroller.ErrCompilationFailed
		metaOverride  *ledgercontroller.ErrMetadataOverride
		schemaNF      ledgercontroller.ErrSchemaNotFound
		schemaVal     ledgercontroller.ErrSchemaValidationError
		schemaNS      ledgercontroller.ErrSchemaNotSpecified
		schemaExists  ledgercontroller.ErrSchemaAlreadyExists
		importErr     ledgercontroller.ErrImport
		missingFeat   ledgerstore.ErrMissingFeature
		invalidQuery  ledgerstore.ErrInvalidQuery
		invalidQuery2 storagecommon.ErrInvalidQuery
		concurrentTx  ledgerstore.ErrConcurrentTransaction
		invalidVars   *machine.ErrInvalidVars
	)
	switch {
	case errors.As(err, &insufficient) || errors.Is(err, &machine.ErrInsufficientFund{}):
		return "insufficient_funds"
	case errors.As(err, &alreadyRev):
		return "already_reverted"
	case errors.As(err, &refConflict), errors.As(err, &refConflict2):
		return "reference_conflict"
	case errors.As(err, &invalidIK):
		return "idempotency_input_mismatch"
	case errors.As(err, &ikConflict), errors.As(err, &ikConflict2):
		return "idempotency_conflict"
	case errors.As(err, &compile):
		return "compilation_failed"
	case errors.As(err, &metaOverride):
		return "metadata_override"
	case errors.As(err, &schemaNF):
		return "schema_not_found"
	case errors.As(err, &schemaVal):
		return "schema_validation"
	case errors.As(err, &schemaNS):
		return "schema_not_specified"
	case errors.As(err, &schemaExists):
		return "schema_already_exists"
	case errors.As(err, &importErr):
		return "import_error"
	case errors.As(err, &missingFeat):
		return "missing_feature"
	case errors.As(err, &invalidQuery), errors.As(err, &invalidQuery2):
		return "invalid_query"
	case errors.As(err, &concurrentTx):
		return "concurrent_transaction"
	case errors.As(err, &invalidVars):
		return "invalid_vars"
	case errors.Is(err, ledgercontroller.ErrNoPostings):
		return "no_postings"
	case errors.Is(err, postgres.ErrNotFound), errors.Is(err, ledgercontroller.ErrNotFound):
		return "not_found"
	case errors.Is(err, postgres.ErrDeadlockDetected):
		return "deadlock"
	case errors.Is(err, context.Canceled):
		return "canceled"
	}
	msg := err.Error()
	switch {
	case strings.Contains(msg, "insufficient fund"):
		return "insufficient_funds"
	case strings.Contains(msg, "failed to compile script"):
		return "compilation_failed"
	case strings.Contains(msg, "injected"):
		return "injected_fault"
	case strings.Contains(msg, "pgsim:"):
		return "ENGINE"
	}
	return "other"
}

func mdOf(m map[string]string) metadata.Metadata {
	if m == nil {
		return nil
	}
	out := metadata.Metadata{}
	for k, v := range m {
		out[k] = v
	}
	return out
}

// Apply runs op on the controller.
func Apply(ctx context.Context, ctrl ledgercontroller.Controller, op Op) Outcome {
	var out Outcome
	switch op.Kind {
	case "post", "script":
		var rs ledgercontroller.RunScript
		var ts libtime.Time
		if op.TSOff != nil {
			ts = libtime.New(Base.Add(time.Duration(*op.TSOff) * time.Microsecond))
		}
		if op.Kind == "post" {
			td := ledger.TransactionData{Metadata: mdOf(op.Meta), Reference: op.Ref, Timestamp: ts}
			for _, p := range op.Postings {
				td.Postings = append(td.Postings, p.Posting())
			}
			rs = ledgercontroller.TxToScriptData(td, op.Force)
		} else {
			rs = ledgercontroller.RunScript{
				Script:    ledgercontroller.Script{Plain: op.Script, Vars: op.Vars, Template: op.Template},
				Timestamp: ts, Metadata: mdOf(op.Meta), Reference: op.Ref,
			}
			if rs.Vars == nil {
				rs.Vars = map[string]string{}
			}
		}
		var am map[string]metadata.Metadata
		if op.AccMeta != nil {
			am = map[string]metadata.Metadata{}
			for a, m := range op.AccMeta {
				am[a] = mdOf(m)
			}
		}
		log, res, hit, err := ctrl.CreateTransaction(ctx, ledgercontroller.Parameters[ledgercontroller.CreateTransaction]{
			DryRun: op.DryRun, IdempotencyKey: op.IK, SchemaVersion: op.Schema,
			Input: ledgercontroller.CreateTransaction{RunScript: rs, AccountMetadata: am, Runtime: ledger.RuntimeType(op.Runtime)},
		})
		out.Err, out.Log, out.Hit = err, log, hit
		if res != nil {
			tx := res.Transaction
			out.Tx = &tx
			out.AccMeta = res.AccountMetadata
		}
	case "revert":
		log, res, hit, err := ctrl.RevertTransaction(ctx, ledgercontroller.Parameters[ledgercontroller.RevertTransaction]{
			DryRun: op.DryRun, IdempotencyKey: op.IK, SchemaVersion: op.Schema,
			Input: ledgercontroller.RevertTransaction{Force: op.Force, AtEffectiveDate: op.AtEff, TransactionID: op.TxID, Metadata: mdOf(op.Meta)},
		})
		out.Err, out.Log, out.Hit = err, log, hit
		if res != nil {
			tx, rv := res.RevertTransaction, res.RevertedTransaction
			out.Tx, out.Reverted = &tx, &rv
		}
	case "txmeta":
		log, hit, err := ctrl.SaveTransactionMetadata(ctx, ledgercontroller.Parameters[ledgercontroller.SaveTransactionMetadata]{
			DryRun: op.DryRun, IdempotencyKey: op.IK, SchemaVersion: op.Schema,
			Input: ledgercontroller.SaveTransactionMetadata{TransactionID: op.TxID, Metadata: mdOf(op.Meta)},
		})
		out.Err, out.Log, out.Hit = err, log, hit
	case "accmeta":
		log, hit, err := ctrl.SaveAccountMetadata(ctx, ledgercontroller.Parameters[ledgercontroller.SaveAccountMetadata]{
			DryRun: op.DryRun, IdempotencyKey: op.IK, SchemaVersion: op.Schema,
			Input: ledgercontroller.SaveAccountMetadata{Address: op.Address, Metadata: mdOf(op.Meta)},
		})
		out.Err, out.Log, out.Hit = err, log, hit
	case "deltxmeta":
		log, hit, err := ctrl.DeleteTransactionMetadata(ctx, ledgercontroller.Parameters[ledgercontroller.DeleteTransactionMetadata]{
			DryRun: op.DryRun, IdempotencyKey: op.IK, SchemaVersion: op.Schema,
			Input: ledgercontroller.DeleteTransactionMetadata{TransactionID: op.TxID, Key: op.Key},
		})
		out.Err, out.Log, out.Hit = err, log, hit
	case "delaccmeta":
		log, hit, err := ctrl.DeleteAccountMetadata(ctx, ledgercontroller.Parameters[ledgercontroller.DeleteAccountMetadata]{
			DryRun: op.DryRun, IdempotencyKey: op.IK, SchemaVersion: op.Schema,
			Input: ledgercontroller.DeleteAccountMetadata{Address: op.Address, Key: op.Key},
		})
		out.Err, out.Log, out.Hit = err, log, hit
	case "schema":
		var sd ledger.SchemaData
		if err := jsonUnmarshal(op.SchemaData, &sd); err != nil {
			out.Err = fmt.Errorf("harness: bad schema data: %w", err)
			break
		}
		log, _, hit, err := ctrl.InsertSchema(ctx, ledgercontroller.Parameters[ledgercontroller.InsertSchema]{
			DryRun: op.DryRun, IdempotencyKey: op.IK, SchemaVersion: op.OnSchema,
			Input: ledgercontroller.InsertSchema{Version: op.Schema, Data: sd},
		})
		out.Err, out.Log, out.Hit = err, log, hit
	default:
		out.Err = fmt.Errorf("harness: unknown op kind %q", op.Kind)
	}
	out.Class = Classify(out.Err)
	return out
}
