package lx

import (
	"context"
	"crypto/sha256"
	"encoding/hex"
	"fmt"
	"regexp"
	"runtime"
	"sort"
	"strings"
	"sync"
	"sync/atomic"

	ledger "github.com/formancehq/ledger/internal"
	ledgercontroller "github.com/formancehq/ledger/internal/controller/ledger"
	"github.com/formancehq/ledger/verifh/ev"
	"github.com/formancehq/ledger/verifh/pgsim"
	"github.com/formancehq/ledger/verifh/world"
)

type LedgerSpec struct {
	Name     string            `json:"name"`
	Bucket   string            `json:"bucket,omitempty"`
	Features map[string]string `json:"features,omitempty"`
}

// Boot creates a database with the given ledgers through the real system controller.
func Boot(ctx context.Context, ledgers []LedgerSpec) (*pgsim.DB, error) {
	w, err := world.NewSystem(ctx)
	if err != nil {
		return nil, err
	}
	defer w.Close()
	for i, l := range ledgers {
		if i > 0 {
			// one fresh pool (hence fresh sessions) per ledger: migration 17 leaves a
			// session-lifetime temporary table behind, so creating a second BUCKET on the
			// same connection fails with 42P07 — an observation outside the listed
			// properties, recorded in DESIGN.md
			w.Close()
			w = world.Attach(w.PG)
		}
		conf := ledger.Configuration{Bucket: l.Bucket}
		if l.Features != nil {
			conf.Features = map[string]string{}
			for k, v := range l.Features {
				conf.Features[k] = v
			}
		}
		if err := w.CreateLedger(ctx, l.Name, conf); err != nil {
			return nil, fmt.Errorf("create ledger %s: %w", l.Name, err)
		}
	}
	if len(w.PG.SkippedInMigration) > 0 {
		return nil, fmt.Errorf("pgsim skipped migration statements: %v", w.PG.SkippedInMigration)
	}
	return w.PG, nil
}

// StepInfo is handed to the oracle after the last operation of a path.
type StepInfo struct {
	Path           []Op
	Last           Op
	Out            Outcome
	W              *world.World
	Ctrl           ledgercontroller.Controller // controller of Last.Ledger (or the first ledger)
	Ref            *Ref                        // reference of that ledger after the step
	RefPrev        *Ref                        // reference before the step
	Refs           map[string]*Ref
	Ctrls          map[string]ledgercontroller.Controller // every ROUTABLE ledger's live controller
	DumpPrev, Dump string

	// Gone: the ledgers that exist but cannot be routed any more (their bucket was soft-deleted:
	// the API answers 404 for them). Their rows are still in the bucket schema and their
	// reference is still in Refs (a restore makes them routable again, unchanged).
	Gone map[string]bool
	// Buckets: ledger -> bucket, of every ledger created so far.
	Buckets map[string]string
	// Ledgers: the configuration the sequence runs in (names, buckets, features of the
	// ledgers that exist from the start).
	Ledgers []LedgerSpec
	// Fresh: this evaluation of the oracle runs on a freshly attached process (Restart).
	Fresh bool
}

type SeqExplorer struct {
	Ledgers  []LedgerSpec
	Alphabet []Op
	Depth    int
	// Check is the oracle, evaluated once per distinct operation sequence.
	Check func(ctx context.Context, s *StepInfo, rep *Report)
	// Sigs restricts which mismatch signatures are violations of the property being
	// checked (prefix match); others are counted as observations only.
	Sigs []string
	// Restart re-evaluates Check on a freshly attached world (no Go-side caches).
	Restart bool
	Workers int
	// OnlyDepth > 0: enumerate only the sequences of exactly that length (Depth must equal it):
	// lets a caller with several configurations go depth-major, so that a time cut loses depth,
	// never a whole configuration.
	OnlyDepth int
}

type SeqStats struct {
	States, Transitions, Paths int64
	DepthDone                  int
	Exhaustive                 bool
	Outcomes                   map[string]int64
	Observations               map[string]int64
	Samples                    []any
}

func dumpFilter(schema, table string) bool { return table == "goose_db_version" }

// DeleteBucket stamps _system.ledgers.deleted_at with the WALL clock (time.Now() in the
// system store, not the database clock): the value is masked in the canonical dumps so that
// the state count does not depend on when a run took place.
var deletedAtValue = regexp.MustCompile(`deleted_at=[^|\n]*`)

func canonDump(pg *pgsim.DB) string {
	return deletedAtValue.ReplaceAllString(pg.DumpFiltered(false, dumpFilter), "deleted_at=<wall-clock>")
}

func hashOf(s string) string {
	h := sha256.Sum256([]byte(s))
	return hex.EncodeToString(h[:8])
}

func (e *SeqExplorer) matches(sig string) bool {
	if len(e.Sigs) == 0 {
		return true
	}
	sig = strings.TrimPrefix(sig, "restart:")
	for _, p := range e.Sigs {
		if strings.HasPrefix(sig, p) {
			return true
		}
	}
	return false
}

// Run enumerates every operation sequence of length 1..Depth (iterative deepening)
// and evaluates the oracle after the last operation of each.
func (e *SeqExplorer) Run(ctx context.Context, r *ev.Run) (*SeqStats, error) {
	boot, err := Boot(ctx, e.Ledgers)
	if err != nil {
		return nil, err
	}
	st := &SeqStats{Outcomes: map[string]int64{}, Observations: map[string]int64{}, Exhaustive: true}
	var mu sync.Mutex
	states := map[string]bool{}
	samples := ev.NewSamples(4)
	workers := e.Workers
	if workers == 0 {
		workers = runtime.NumCPU()
	}
	A := len(e.Alphabet)
	from := 1
	if e.OnlyDepth > 0 {
		from = e.OnlyDepth
	}
	for d := from; d <= e.Depth; d++ {
		total := 1
		for i := 0; i < d; i++ {
			total *= A
		}
		var next atomic.Int64
		var wg sync.WaitGroup
		var stopped atomic.Bool
		for w := 0; w < workers; w++ {
			wg.Add(1)
			go func() {
				defer wg.Done()
				for {
					if r.Expired() || r.HasEngineError() {
						stopped.Store(true)
						return
					}
					n := int(next.Add(1) - 1)
					if n >= total {
						return
					}
					idx := make([]int, d)
					x := n
					for i := d - 1; i >= 0; i-- {
						idx[i] = x % A
						x /= A
					}
					path := make([]Op, d)
					for i, k := range idx {
						path[i] = e.Alphabet[k]
					}
					info, rep, err := e.runPath(ctx, boot, path)
					if err != nil {
						r.EngineError(fmt.Sprintf("path %v: %v", opNames(path), err))
						return
					}
					mu.Lock()
					st.Paths++
					st.Transitions++
					h := hashOf(info.Dump)
					if !states[h] {
						states[h] = true
					}
					cls := info.Last.Kind + ":" + info.Out.Class
					if info.Out.OK() {
						cls = info.Last.Kind + ":ok"
						if info.Out.Hit {
							cls += "(hit)"
						}
					}
					st.Outcomes[cls]++
					mu.Unlock()
					samples.Add(map[string]any{"ops": opNames(path), "outcome": cls})
					for _, m := range rep.Items {
						if e.matches(m.Sig) {
							r.Violation(r.ID+":"+m.Sig, fmt.Sprintf("after %v: %s", opNames(path), m.What), map[string]any{"ledgers": e.Ledgers, "ops": path})
						} else {
							mu.Lock()
							st.Observations[m.Sig]++
							mu.Unlock()
						}
					}
				}
			}()
		}
		wg.Wait()
		if stopped.Load() {
			st.Exhaustive = false
			break
		}
		st.DepthDone = d
	}
	st.States = int64(len(states))
	st.Samples = samples.List()
	return st, nil
}

func opNames(path []Op) []string {
	out := make([]string, len(path))
	for i, o := range path {
		out[i] = o.String()
		if o.Ledger != "" {
			out[i] = o.Ledger + "/" + out[i]
		}
	}
	return out
}

// RunPath executes one operation sequence from the booted state (also used by replays).
func (e *SeqExplorer) RunPath(ctx context.Context, path []Op) (*Report, error) {
	boot, err := Boot(ctx, e.Ledgers)
	if err != nil {
		return nil, err
	}
	_, rep, err := e.runPath(ctx, boot, path)
	return rep, err
}

// firstLive names the first routable ledger: the first of the configuration that has a
// controller, else the first (by name) of those created mid-history, else "".
func (e *SeqExplorer) firstLive(ctrls map[string]ledgercontroller.Controller) string {
	for _, l := range e.Ledgers {
		if ctrls[l.Name] != nil {
			return l.Name
		}
	}
	var names []string
	for n := range ctrls {
		names = append(names, n)
	}
	sort.Strings(names)
	if len(names) > 0 {
		return names[0]
	}
	return ""
}

func (e *SeqExplorer) runPath(ctx context.Context, boot *pgsim.DB, path []Op) (*StepInfo, *Report, error) {
	pg := boot.Clone()
	w := world.Attach(pg)
	defer w.Close()
	ctrls := map[string]ledgercontroller.Controller{}
	refs := map[string]*Ref{}
	gone := map[string]bool{}
	buckets := map[string]string{}
	for _, l := range e.Ledgers {
		c, err := w.Sys.GetLedgerController(ctx, l.Name)
		if err != nil {
			return nil, nil, fmt.Errorf("GetLedgerController(%s): %w", l.Name, err)
		}
		ctrls[l.Name] = c
		refs[l.Name] = NewRef()
		buckets[l.Name] = l.Bucket
		if l.Bucket == "" {
			buckets[l.Name] = ledger.DefaultBucket
		}
	}
	info := &StepInfo{Path: path, W: w, Refs: refs, Ctrls: ctrls, Gone: gone, Buckets: buckets, Ledgers: e.Ledgers}
	// systemLast records a system-level last operation (ledger creation, bucket soft delete /
	// restore): the "current ledger" of the step is then the first routable one
	systemLast := func(op Op, out Outcome) {
		info.Last, info.Out = op, out
		n := e.firstLive(ctrls)
		info.Ctrl, info.Ref = ctrls[n], refs[n]
		if info.Ref != nil {
			info.RefPrev = info.Ref.Clone()
		}
	}
	for i, op := range path {
		name := op.Ledger
		if name == "" {
			name = e.Ledgers[0].Name
		}
		if op.Kind == "createledger" {
			// creates ledger op.Ledger in bucket op.Address mid-history (idempotent for the path)
			last := i == len(path)-1
			if last {
				info.DumpPrev = canonDump(pg)
			}
			var out Outcome
			if ctrls[name] == nil {
				// (also reached when the ledger exists but was soft-deleted with its bucket: the
				// system controller then refuses the name, and nothing changes)
				out.Err = w.CreateLedger(ctx, name, ledger.Configuration{Bucket: op.Address})
				if out.Err == nil {
					c, err := w.Sys.GetLedgerController(ctx, name)
					if err != nil {
						return nil, nil, err
					}
					ctrls[name] = c
					refs[name] = NewRef()
					buckets[name] = op.Address
					delete(gone, name)
				}
			} else {
				out.Err = fmt.Errorf("ledger already exists")
			}
			out.Class = Classify(out.Err)
			if out.Class == "ENGINE" {
				return nil, nil, fmt.Errorf("engine error in %s: %v", op, out.Err)
			}
			if last {
				systemLast(op, out)
			}
			continue
		}
		if op.Kind == "deletebucket" || op.Kind == "restorebucket" {
			// DELETE /v2/_/buckets/{bucket} (soft delete: every ledger of the bucket gets a
			// deleted_at, the rows stay in the bucket schema until the cleanup worker drops it
			// after the retention period) and POST /v2/_/buckets/{bucket}/restore. op.Address
			// is the bucket.
			last := i == len(path)-1
			if last {
				info.DumpPrev = canonDump(pg)
			}
			var out Outcome
			if op.Kind == "deletebucket" {
				out.Err = w.Sys.DeleteBucket(ctx, op.Address)
			} else {
				out.Err = w.Sys.RestoreBucket(ctx, op.Address)
			}
			out.Class = Classify(out.Err)
			if out.Class == "ENGINE" {
				return nil, nil, fmt.Errorf("engine error in %s: %v", op, out.Err)
			}
			// Which ledgers can still be routed is the implementation's answer, asked the way
			// the API's ledger middleware asks it for every request (system store GetLedger,
			// first step of Driver.OpenLedger); it is asked for EVERY ledger, not only for those
			// of op.Address. A ledger that stopped being routable is "gone": its controller is
			// dropped (the API would answer 404), its reference is kept. A gone ledger that is
			// routable again is re-opened and must read exactly as its reference says.
			// Controllers of ledgers that stayed routable are kept as they are (live stores of a
			// bucket share the alone-in-bucket flag).
			known := make([]string, 0, len(refs))
			for n := range refs {
				known = append(known, n)
			}
			sort.Strings(known)
			for _, n := range known {
				_, err := w.Sys.GetLedger(ctx, n)
				switch cl := Classify(err); {
				case err == nil && ctrls[n] == nil:
					c, err := w.Sys.GetLedgerController(ctx, n)
					if err != nil {
						return nil, nil, fmt.Errorf("GetLedgerController(%s) after %s: %w", n, op, err)
					}
					ctrls[n] = c
					delete(gone, n)
				case err == nil:
				case cl == "not_found":
					delete(ctrls, n)
					gone[n] = true
				default:
					return nil, nil, fmt.Errorf("GetLedger(%s) after %s: %v", n, op, err)
				}
			}
			if last {
				systemLast(op, out)
			}
			continue
		}
		c := ctrls[name]
		last := i == len(path)-1
		if c == nil {
			// the ledger does not exist (yet) or was soft-deleted with its bucket: the request
			// cannot even be routed
			if last {
				info.DumpPrev = canonDump(pg)
				systemLast(op, Outcome{Err: fmt.Errorf("ledger %s does not exist", name), Class: "no_such_ledger"})
			}
			continue
		}
		if last {
			info.DumpPrev = canonDump(pg)
			info.RefPrev = refs[name].Clone()
		}
		if op.DeadlockAt > 0 {
			n, at := 0, op.DeadlockAt
			w.Hook = func(_ context.Context, _ *pgsim.Session, hop, _ string) error {
				if hop != "exec" && hop != "query" {
					return nil
				}
				n++
				if n == at {
					return &pgsim.StmtFault{Code: "40P01", Msg: "deadlock detected"}
				}
				return nil
			}
		}
		out := Apply(ctx, c, op)
		w.Hook = nil
		if out.Class == "ENGINE" {
			return nil, nil, fmt.Errorf("engine error in %s: %v", op, out.Err)
		}
		if err := refs[name].Commit(op, out); err != nil {
			// the implementation accepted something the reference cannot interpret:
			// report through the oracle of the last step, not as an engine error
			if last {
				info.Last, info.Out, info.Ctrl, info.Ref = op, out, c, refs[name]
				info.Dump = canonDump(pg)
				rep := &Report{}
				rep.Add("ref:uninterpretable", "%v", err)
				return info, rep, nil
			}
			return nil, nil, fmt.Errorf("reference cannot follow prefix op %s: %v", op, err)
		}
		if last {
			info.Last, info.Out, info.Ctrl, info.Ref = op, out, c, refs[name]
		}
	}
	info.Dump = canonDump(pg)
	rep := &Report{}
	e.Check(ctx, info, rep)
	if e.Restart {
		w2 := world.Attach(pg)
		defer w2.Close()
		name := info.Last.Ledger
		if name == "" || ctrls[name] == nil || info.Last.Kind == "createledger" {
			name = e.firstLive(ctrls)
		}
		var c2 ledgercontroller.Controller
		if name != "" {
			var err error
			if c2, err = w2.Sys.GetLedgerController(ctx, name); err != nil {
				return nil, nil, err
			}
		}
		rep2 := &Report{}
		i2 := *info
		i2.W, i2.Ctrl, i2.Fresh = w2, c2, true
		i2.Ctrls = map[string]ledgercontroller.Controller{}
		for ln := range ctrls {
			cc, err := w2.Sys.GetLedgerController(ctx, ln)
			if err != nil {
				return nil, nil, err
			}
			i2.Ctrls[ln] = cc
		}
		e.Check(ctx, &i2, rep2)
		for _, m := range rep2.Items {
			rep.Add("restart:"+m.Sig, "(fresh process) %s", m.What)
		}
	}
	return info, rep, nil
}
