package lx

import (
	"context"
	"encoding/json"
	"fmt"
	"math/big"
	"sort"
	"strconv"
	"time"

	ledger "github.com/formancehq/ledger/internal"
	ledgercontroller "github.com/formancehq/ledger/internal/controller/ledger"
	"github.com/formancehq/ledger/internal/storage/common"
	"github.com/formancehq/ledger/verifh/world"
)

// RawRows runs a read-only SQL query on the world's database and returns text cells.
func RawRows(ctx context.Context, w *world.World, q string) ([][]string, error) {
	rows, err := w.SQL.QueryContext(ctx, q)
	if err != nil {
		return nil, err
	}
	defer rows.Close()
	cols, _ := rows.Columns()
	var out [][]string
	for rows.Next() {
		cells := make([]any, len(cols))
		ptrs := make([]any, len(cols))
		for i := range cells {
			ptrs[i] = &cells[i]
		}
		if err := rows.Scan(ptrs...); err != nil {
			return nil, err
		}
		r := make([]string, len(cols))
		for i, c := range cells {
			switch v := c.(type) {
			case nil:
				r[i] = "NULL"
			case []byte:
				r[i] = string(v)
			case time.Time:
				r[i] = v.UTC().Format(time.RFC3339Nano)
			default:
				r[i] = fmt.Sprint(v)
			}
		}
		out = append(out, r)
	}
	return out, rows.Err()
}

func bigOf(s string) *big.Int {
	b, ok := new(big.Int).SetString(s, 10)
	if !ok {
		return big.NewInt(-999999)
	}
	return b
}

// CheckConservation: per asset, total input == total output, in every view (C01).
func CheckConservation(ctx context.Context, w *world.World, c ledgercontroller.Controller, ref *Ref, rep *Report) {
	l := c.Info()
	f := FeatOf(l)
	sumListing := func(vols []ledger.VolumesWithBalanceByAssetByAccount, tag string) {
		in, out := map[string]*big.Int{}, map[string]*big.Int{}
		for _, v := range vols {
			if in[v.Asset] == nil {
				in[v.Asset], out[v.Asset] = new(big.Int), new(big.Int)
			}
			in[v.Asset].Add(in[v.Asset], v.Input)
			out[v.Asset].Add(out[v.Asset], v.Output)
		}
		for a := range in {
			if in[a].Cmp(out[a]) != 0 {
				rep.Add("conserve:volumes:"+tag, "%s: asset %s total input %s != total output %s", tag, a, in[a], out[a])
			}
		}
	}
	vols, err := ListVols(ctx, c, common.ResourceQuery[ledger.GetVolumesOptions]{})
	if err != nil {
		rep.Add("read:GetVolumesWithBalances:"+Classify(err), "%v", err)
		return
	}
	sumListing(vols, "current")
	ab, err := c.GetAggregatedBalances(ctx, common.ResourceQuery[ledger.GetAggregatedVolumesOptions]{})
	if err != nil {
		rep.Add("read:GetAggregatedBalances:"+Classify(err), "%v", err)
		return
	}
	for a, b := range ab {
		if b.Sign() != 0 {
			rep.Add("conserve:aggregate:current", "aggregated balance of %s over all accounts is %s, not 0", a, b)
		}
	}
	for _, t := range ref.Instants() {
		for _, useIns := range []bool{false, true} {
			if !f.MovesHistory {
				continue
			}
			mode := "effective"
			if useIns {
				mode = "insertion"
			}
			v, err := ListVols(ctx, c, common.ResourceQuery[ledger.GetVolumesOptions]{PIT: ltp(t), Opts: ledger.GetVolumesOptions{UseInsertionDate: useIns}})
			if err != nil {
				rep.Add("read:GetVolumesWithBalances(pit):"+Classify(err), "%v", err)
				continue
			}
			sumListing(v, "pit-"+mode)
			if useIns || f.EffectiveVolumes {
				ab, err := c.GetAggregatedBalances(ctx, common.ResourceQuery[ledger.GetAggregatedVolumesOptions]{PIT: ltp(t), Opts: ledger.GetAggregatedVolumesOptions{UseInsertionDate: useIns}})
				if err != nil {
					rep.Add("read:GetAggregatedBalances(pit):"+Classify(err), "%v", err)
					continue
				}
				for a, b := range ab {
					if b.Sign() != 0 {
						rep.Add("conserve:aggregate:pit-"+mode, "PIT %s: aggregated balance of %s is %s, not 0", t.Format(time.RFC3339Nano), a, b)
					}
				}
			}
		}
	}
	// raw tables
	q := fmt.Sprintf(`select asset, sum(input), sum(output) from "%s".accounts_volumes where ledger = '%s' group by asset order by asset`, l.Bucket, l.Name)
	rows, err := RawRows(ctx, w, q)
	if err != nil {
		rep.Add("read:raw:"+Classify(err), "%v", err)
		return
	}
	for _, r := range rows {
		if bigOf(r[1]).Cmp(bigOf(r[2])) != 0 {
			rep.Add("conserve:raw:accounts_volumes", "accounts_volumes asset %s: sum(input)=%s sum(output)=%s", r[0], r[1], r[2])
		}
	}
	if f.MovesHistory {
		q = fmt.Sprintf(`select asset, sum(case when is_source then 0 else amount end), sum(case when is_source then amount else 0 end) from "%s".moves where ledger = '%s' group by asset order by asset`, l.Bucket, l.Name)
		rows, err = RawRows(ctx, w, q)
		if err != nil {
			rep.Add("read:raw:"+Classify(err), "%v", err)
			return
		}
		for _, r := range rows {
			if bigOf(r[1]).Cmp(bigOf(r[2])) != 0 {
				rep.Add("conserve:raw:moves", "moves asset %s: inputs=%s outputs=%s", r[0], r[1], r[2])
			}
		}
	}
}

// CheckPCVDetails covers the parts of C03 beyond CheckCurrent's tx:pcv: the JSON
// preCommitVolumes, the per-move post-commit volumes, and the log payload.
func CheckPCVDetails(ctx context.Context, w *world.World, c ledgercontroller.Controller, ref *Ref, rep *Report) {
	l := c.Info()
	f := FeatOf(l)
	txs, err := ListTxs(ctx, c, common.ResourceQuery[any]{Expand: []string{"volumes"}})
	if err != nil {
		rep.Add("read:ListTransactions:"+Classify(err), "%v", err)
		return
	}
	for _, t := range txs {
		rt := ref.Tx(*t.ID)
		if rt == nil {
			continue
		}
		b, err := json.Marshal(t)
		if err != nil {
			rep.Add("tx:json", "marshal tx %d: %v", *t.ID, err)
			continue
		}
		var dec struct {
			Pre  map[string]map[string]struct{ Input, Output, Balance json.Number } `json:"preCommitVolumes"`
			Post map[string]map[string]struct{ Input, Output, Balance json.Number } `json:"postCommitVolumes"`
		}
		if err := json.Unmarshal(b, &dec); err != nil {
			rep.Add("tx:json", "unmarshal tx %d: %v", *t.ID, err)
			continue
		}
		// pre = state just before the transaction, restricted to what it touches
		before := ref.Volumes(func(o *RefTx) bool { return o.Seq < rt.Seq })
		for acc, m := range ref.PCV(rt) {
			for asset := range m {
				wv := before.at(acc, asset)
				g, ok := dec.Pre[acc][asset]
				if !ok {
					rep.Add("tx:precommit:missing", "tx %d preCommitVolumes lacks %s/%s", *t.ID, acc, asset)
					continue
				}
				if g.Input.String() != wv.In.String() || g.Output.String() != wv.Out.String() {
					rep.Add("tx:precommit:value", "tx %d preCommitVolumes %s/%s = (%s,%s) want %s", *t.ID, acc, asset, g.Input, g.Output, wv)
				}
			}
		}
	}
	if f.MovesHistory {
		q := fmt.Sprintf(`select transactions_id, accounts_address, asset, is_source, amount, (post_commit_volumes).inputs, (post_commit_volumes).outputs from "%s".moves where ledger = '%s' order by seq`, l.Bucket, l.Name)
		rows, err := RawRows(ctx, w, q)
		if err != nil {
			rep.Add("read:raw:"+Classify(err), "%v", err)
			return
		}
		byTx := map[uint64][][]string{}
		for _, r := range rows {
			id, _ := strconv.ParseUint(r[0], 10, 64)
			byTx[id] = append(byTx[id], r)
		}
		for _, rt := range ref.Txs {
			mv := byTx[rt.ID]
			if len(mv) != 2*len(rt.Postings) {
				rep.Add("moves:count", "tx %d has %d moves for %d postings", rt.ID, len(mv), len(rt.Postings))
				continue
			}
			run := ref.Volumes(func(o *RefTx) bool { return o.Seq < rt.Seq })
			for i, p := range rt.Postings {
				src, dst := mv[2*i], mv[2*i+1]
				vs := run.at(p.Source, p.Asset)
				vs.Out = new(big.Int).Add(vs.Out, p.Amount)
				if src[1] != p.Source || src[2] != p.Asset || src[3] != "true" || src[4] != p.Amount.String() {
					rep.Add("moves:shape", "tx %d posting %d source move is %v", rt.ID, i, src)
				} else if src[5] != vs.In.String() || src[6] != vs.Out.String() {
					rep.Add("moves:pcv", "tx %d posting %d source move pcv (%s,%s) want %s", rt.ID, i, src[5], src[6], vs)
				}
				vd := run.at(p.Destination, p.Asset)
				vd.In = new(big.Int).Add(vd.In, p.Amount)
				if dst[1] != p.Destination || dst[2] != p.Asset || dst[3] != "false" || dst[4] != p.Amount.String() {
					rep.Add("moves:shape", "tx %d posting %d destination move is %v", rt.ID, i, dst)
				} else if dst[5] != vd.In.String() || dst[6] != vd.Out.String() {
					rep.Add("moves:pcv", "tx %d posting %d destination move pcv (%s,%s) want %s", rt.ID, i, dst[5], dst[6], vd)
				}
			}
		}
	}
	// log payloads
	logs, err := ListLogs(ctx, c)
	if err != nil {
		rep.Add("read:ListLogs:"+Classify(err), "%v", err)
		return
	}
	for _, lg := range logs {
		var tx *ledger.Transaction
		switch p := lg.Data.(type) {
		case ledger.CreatedTransaction:
			tx = &p.Transaction
		case ledger.RevertedTransaction:
			tx = &p.RevertTransaction
		}
		if tx == nil || tx.ID == nil {
			continue
		}
		rt := ref.Tx(*tx.ID)
		if rt == nil {
			rep.Add("log:unknown-tx", "log %d carries unknown transaction %d", *lg.ID, *tx.ID)
			continue
		}
		if d := pcvEqual(tx.PostCommitVolumes, ref.PCV(rt)); d != "" {
			rep.Add("log:pcv", "log %d payload postCommitVolumes of tx %d: %s", *lg.ID, rt.ID, d)
		}
	}
}

// CheckRevert is the C15 oracle for the last operation of a path.
func CheckRevert(ctx context.Context, s *StepInfo, rep *Report) {
	if s.Last.Kind != "revert" {
		return
	}
	orig := s.RefPrev.Tx(s.Last.TxID)
	if !s.Out.OK() {
		if s.Dump != s.DumpPrev {
			rep.Add("revert:failed-with-effect", "revert(%d) failed with %s but the database changed", s.Last.TxID, s.Out.Class)
		}
		if orig != nil && orig.RevertedAt != nil && s.Out.Class != "already_reverted" {
			rep.Add("revert:second-revert-error-kind", "second revert of %d failed with %q, not already_reverted", s.Last.TxID, s.Out.Class)
		}
		return
	}
	if s.Last.DryRun {
		return
	}
	if orig == nil {
		rep.Add("revert:unknown-succeeded", "revert of unknown transaction %d succeeded", s.Last.TxID)
		return
	}
	if orig.RevertedAt != nil {
		rep.Add("revert:twice", "transaction %d was reverted a second time", s.Last.TxID)
	}
	rv := s.Out.Tx
	var want []ledger.Posting
	for i := len(orig.Postings) - 1; i >= 0; i-- {
		p := orig.Postings[i]
		want = append(want, ledger.NewPosting(p.Destination, p.Source, p.Asset, p.Amount))
	}
	if !postingsEqual(rv.Postings, want) {
		rep.Add("revert:postings", "revert of %d has postings %v, want %v", orig.ID, rv.Postings, want)
	}
	if rv.Metadata["com.formance.spec/state/reverts"] != strconv.FormatUint(orig.ID, 10) {
		rep.Add("revert:mark", "revert transaction metadata %v lacks the revert mark for %d", rv.Metadata, orig.ID)
	}
	for k, v := range s.Last.Meta {
		if k == "com.formance.spec/state/reverts" {
			continue // reserved: the mark (checked above) wins over what the request says
		}
		if rv.Metadata[k] != v {
			rep.Add("revert:metadata", "revert metadata %v lacks requested %s=%s", rv.Metadata, k, v)
		}
	}
	if s.Out.Reverted == nil || s.Out.Reverted.RevertedAt == nil {
		rep.Add("revert:no-reverted-at", "reverted transaction returned without revertedAt")
		return
	}
	if s.Last.AtEff {
		if !rv.Timestamp.Time.Equal(orig.TS) {
			rep.Add("revert:timestamp:at-effective-date", "revert at effective date has timestamp %s, original %s", rv.Timestamp, orig.TS)
		}
	} else if !rv.Timestamp.Time.Equal(s.Out.Reverted.RevertedAt.Time) {
		rep.Add("revert:timestamp:now", "revert timestamp %s differs from revert time %s", rv.Timestamp, s.Out.Reverted.RevertedAt)
	}
	// exactly one more transaction, original marked reverted (checked by CheckCurrent)
	txs, err := ListTxs(ctx, s.Ctrl, common.ResourceQuery[any]{})
	if err == nil && len(txs) != len(s.RefPrev.Txs)+1 {
		rep.Add("revert:tx-count", "revert created %d transactions", len(txs)-len(s.RefPrev.Txs))
	}
	// T + revert(T) leave every balance unchanged: volumes now minus both == volumes without T
	without := s.Ref.Volumes(func(t *RefTx) bool { return t.ID != orig.ID && (t.RevertOf == nil || *t.RevertOf != orig.ID) })
	vols, err := ListVols(ctx, s.Ctrl, common.ResourceQuery[ledger.GetVolumesOptions]{})
	if err == nil {
		for _, v := range vols {
			w := without.at(v.Account, v.Asset)
			if v.Balance.Cmp(w.Balance()) != 0 {
				rep.Add("revert:balance-changed", "after revert of %d, balance of %s/%s is %s, without the pair it would be %s", orig.ID, v.Account, v.Asset, v.Balance, w.Balance())
			}
		}
	}
}

// RefFromLogs rebuilds a reference ledger from log payloads only (C08, C11).
func RefFromLogs(logs []ledger.Log) (*Ref, error) {
	ref := NewRef()
	sort.SliceStable(logs, func(i, j int) bool { return *logs[i].ID < *logs[j].ID })
	for _, lg := range logs {
		ref.Logs = append(ref.Logs, RefLog{ID: *lg.ID, Type: lg.Type.String(), Date: lg.Date.Time, IK: lg.IdempotencyKey})
		switch p := lg.Data.(type) {
		case ledger.CreatedTransaction:
			tx := p.Transaction
			t := &RefTx{ID: *tx.ID, TS: tx.Timestamp.Time, InsertedAt: tx.InsertedAt.Time, Reference: tx.Reference, Seq: len(ref.Txs), Meta: copyMeta(tx.Metadata), Template: tx.Template}
			t.Postings = append(t.Postings, tx.Postings...)
			t.MetaHist = []MetaRev{{At: t.TS, M: copyMeta(t.Meta)}}
			ref.Txs = append(ref.Txs, t)
			touched := map[string]bool{}
			for _, po := range t.Postings {
				touched[po.Source], touched[po.Destination] = true, true
			}
			for a := range p.AccountMetadata {
				touched[a] = true
			}
			var addrs []string
			for a := range touched {
				addrs = append(addrs, a)
			}
			sort.Strings(addrs)
			for _, a := range addrs {
				ref.touchAccount(a, t.TS, t.InsertedAt, p.AccountMetadata[a])
			}
		case ledger.RevertedTransaction:
			orig := ref.Tx(*p.RevertedTransaction.ID)
			if orig == nil {
				return nil, fmt.Errorf("log %d reverts unknown transaction %d", *lg.ID, *p.RevertedTransaction.ID)
			}
			if p.RevertedTransaction.RevertedAt != nil {
				at := p.RevertedTransaction.RevertedAt.Time
				orig.RevertedAt = &at
			}
			tx := p.RevertTransaction
			id := orig.ID
			t := &RefTx{ID: *tx.ID, TS: tx.Timestamp.Time, InsertedAt: tx.InsertedAt.Time, Seq: len(ref.Txs), Meta: copyMeta(tx.Metadata), RevertOf: &id}
			t.Postings = append(t.Postings, tx.Postings...)
			t.MetaHist = []MetaRev{{At: t.TS, M: copyMeta(t.Meta)}}
			ref.Txs = append(ref.Txs, t)
		case ledger.SavedMetadata:
			switch p.TargetType {
			case ledger.MetaTargetTypeTransaction:
				id, ok := toU64(p.TargetID)
				if !ok {
					return nil, fmt.Errorf("log %d: bad transaction target %v", *lg.ID, p.TargetID)
				}
				t := ref.Tx(id)
				if t == nil {
					return nil, fmt.Errorf("log %d: metadata on unknown transaction %d", *lg.ID, id)
				}
				for k, v := range p.Metadata {
					t.Meta[k] = v
				}
				t.MetaHist = append(t.MetaHist, MetaRev{At: lg.Date.Time, M: copyMeta(t.Meta)})
			case ledger.MetaTargetTypeAccount:
				addr, _ := p.TargetID.(string)
				a := ref.Accs[addr]
				if a == nil {
					ref.touchAccount(addr, lg.Date.Time, lg.Date.Time, p.Metadata)
				} else {
					for k, v := range p.Metadata {
						a.Meta[k] = v
					}
					a.MetaHist = append(a.MetaHist, MetaRev{At: lg.Date.Time, M: copyMeta(a.Meta)})
				}
			}
		case ledger.DeletedMetadata:
			switch p.TargetType {
			case ledger.MetaTargetTypeTransaction:
				id, _ := toU64(p.TargetID)
				if t := ref.Tx(id); t != nil {
					delete(t.Meta, p.Key)
					t.MetaHist = append(t.MetaHist, MetaRev{At: lg.Date.Time, M: copyMeta(t.Meta)})
				}
			case ledger.MetaTargetTypeAccount:
				addr, _ := p.TargetID.(string)
				if a := ref.Accs[addr]; a != nil {
					delete(a.Meta, p.Key)
					a.MetaHist = append(a.MetaHist, MetaRev{At: lg.Date.Time, M: copyMeta(a.Meta)})
				}
			}
		}
	}
	return ref, nil
}

func toU64(v any) (uint64, bool) {
	switch x := v.(type) {
	case uint64:
		return x, true
	case int64:
		return uint64(x), true
	case int:
		return uint64(x), true
	case float64:
		return uint64(x), true
	case json.Number:
		n, err := strconv.ParseUint(x.String(), 10, 64)
		return n, err == nil
	case *big.Int:
		return x.Uint64(), true
	case string:
		n, err := strconv.ParseUint(x, 10, 64)
		return n, err == nil
	}
	return 0, false
}

// CheckJournal is the C08 oracle: one log per successful write and nothing else, ids
// increasing, and the log payloads alone reproduce what the read API shows.
func CheckJournal(ctx context.Context, s *StepInfo, rep *Report) {
	logs, err := ListLogs(ctx, s.Ctrl)
	if err != nil {
		rep.Add("read:ListLogs:"+Classify(err), "%v", err)
		return
	}
	wantDelta := 0
	if s.Out.OK() && !s.Last.DryRun && !s.Out.Hit {
		wantDelta = 1
	}
	if got := len(logs) - len(s.RefPrev.Logs); got != wantDelta {
		rep.Add("journal:delta", "%s (%s) appended %d logs, want %d", s.Last, s.Out.Class, got, wantDelta)
	}
	for i := 1; i < len(logs); i++ {
		if *logs[i].ID <= *logs[i-1].ID {
			rep.Add("journal:order", "log ids not strictly increasing: %d then %d", *logs[i-1].ID, *logs[i].ID)
		}
	}
	fromLogs, err := RefFromLogs(logs)
	if err != nil {
		rep.Add("journal:not-replayable", "%v", err)
		return
	}
	sub := &Report{}
	CheckCurrent(ctx, s.Ctrl, fromLogs, sub)
	for _, m := range sub.Items {
		rep.Add("journal:replay:"+m.Sig, "state rebuilt from log payloads disagrees with the read API: %s", m.What)
	}
}
