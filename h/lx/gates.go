package lx

import (
	"context"

	ledger "github.com/formancehq/ledger/internal"
	ledgercontroller "github.com/formancehq/ledger/internal/controller/ledger"
	"github.com/formancehq/ledger/internal/storage/common"
)

// CheckFeatureGates: a read that needs a disabled feature must be rejected (missing
// feature / invalid query), never answered (C35).
func CheckFeatureGates(ctx context.Context, c ledgercontroller.Controller, ref *Ref, rep *Report) {
	f := FeatOf(c.Info())
	if len(ref.Txs) == 0 {
		return
	}
	t := ref.Txs[len(ref.Txs)-1].InsertedAt
	if ts := ref.Txs[len(ref.Txs)-1].TS; ts.After(t) {
		t = ts
	}
	rejected := func(err error) bool {
		cl := Classify(err)
		return cl == "missing_feature" || cl == "invalid_query"
	}
	expect := func(sig string, needOK bool, err error) {
		if needOK {
			return
		}
		if err == nil {
			rep.Add("feature:answered:"+sig, "%s answered although a feature it needs is disabled (%+v)", sig, f)
		} else if !rejected(err) {
			rep.Add("feature:error-kind:"+sig, "%s failed with %v instead of a missing-feature error", sig, err)
		}
	}
	// PIT volumes need MOVES_HISTORY
	_, err := ListVols(ctx, c, common.ResourceQuery[ledger.GetVolumesOptions]{PIT: ltp(t)})
	expect("volumes-pit", f.MovesHistory, err)
	_, err = c.GetAggregatedBalances(ctx, common.ResourceQuery[ledger.GetAggregatedVolumesOptions]{PIT: ltp(t), Opts: ledger.GetAggregatedVolumesOptions{UseInsertionDate: true}})
	expect("aggregate-pit-insertion", f.MovesHistory, err)
	_, err = c.GetAggregatedBalances(ctx, common.ResourceQuery[ledger.GetAggregatedVolumesOptions]{PIT: ltp(t)})
	expect("aggregate-pit-effective", f.MovesHistory && f.EffectiveVolumes, err)
	_, err = ListAccs(ctx, c, common.ResourceQuery[any]{Expand: []string{"volumes"}})
	expect("accounts-expand-volumes", f.MovesHistory, err)
	_, err = ListAccs(ctx, c, common.ResourceQuery[any]{PIT: ltp(t), Expand: []string{"volumes"}})
	expect("accounts-pit-expand-volumes", f.MovesHistory, err)
	_, err = ListAccs(ctx, c, common.ResourceQuery[any]{Expand: []string{"effectiveVolumes"}})
	expect("accounts-expand-effective-volumes", f.EffectiveVolumes, err)
	_, err = ListAccs(ctx, c, common.ResourceQuery[any]{PIT: ltp(t), Expand: []string{"effectiveVolumes"}})
	expect("accounts-pit-expand-effective-volumes", f.EffectiveVolumes && f.MovesHistory, err)
	_, err = ListTxs(ctx, c, common.ResourceQuery[any]{Expand: []string{"effectiveVolumes"}})
	expect("transactions-expand-effective-volumes", f.EffectiveVolumes && f.MovesHistory, err)
}
