package lx

import (
	"context"
	"sort"
	"sync"
	"time"

	ledger "github.com/formancehq/ledger/internal"
	ledgercontroller "github.com/formancehq/ledger/internal/controller/ledger"
	"github.com/formancehq/ledger/internal/storage/common"
)

// GateTally counts, per gated read of the menu, how often it was rejected for a disabled
// feature and how often it was answered with every needed feature enabled (keys
// "<read>:rejected", "<read>:answered"; "<read>:answered-without-feature" and
// "<read>:wrong-error" accompany the mismatches). It is what the vacuity guard of C35
// reads: a gate that was never observed closed was not checked.
type GateTally struct {
	mu sync.Mutex
	N  map[string]int64
}

func NewGateTally() *GateTally { return &GateTally{N: map[string]int64{}} }

func (t *GateTally) add(k string) {
	if t == nil {
		return
	}
	t.mu.Lock()
	t.N[k]++
	t.mu.Unlock()
}

// Snapshot returns a copy of the counters.
func (t *GateTally) Snapshot() map[string]int64 {
	t.mu.Lock()
	defer t.mu.Unlock()
	out := make(map[string]int64, len(t.N))
	for k, v := range t.N {
		out[k] = v
	}
	return out
}

// VolumeGateReads names the date-bounded volumes reads of the gate menu: every shape of
// the date bounds the volumes API accepts (end only, start only, both) in both date modes.
// All of them are rebuilt from the moves history, so all of them need MOVES_HISTORY.
func VolumeGateReads() []string {
	var out []string
	for _, shape := range []string{"pit", "oot", "window"} {
		for _, mode := range []string{"effective", "insertion"} {
			out = append(out, "volumes-"+shape+"-"+mode)
		}
	}
	return out
}

// CheckFeatureGates: a read that needs a disabled feature must be rejected (missing
// feature / invalid query), never answered (C35).
func CheckFeatureGates(ctx context.Context, c ledgercontroller.Controller, ref *Ref, rep *Report) {
	CheckFeatureGatesTally(ctx, c, ref, rep, nil)
}

// CheckFeatureGatesTally is CheckFeatureGates with the per-read counters.
func CheckFeatureGatesTally(ctx context.Context, c ledgercontroller.Controller, ref *Ref, rep *Report, tally *GateTally) {
	f := FeatOf(c.Info())
	if len(ref.Txs) == 0 {
		return
	}
	t := ref.Txs[len(ref.Txs)-1].InsertedAt
	if ts := ref.Txs[len(ref.Txs)-1].TS; ts.After(t) {
		t = ts
	}
	rejected := func(err error) bool {
		cl := Classify(err)
		return cl == "missing_feature" || cl == "invalid_query"
	}
	expect := func(sig string, needOK bool, err error) {
		if needOK {
			if err == nil {
				tally.add(sig + ":answered")
			}
			return
		}
		if err == nil {
			tally.add(sig + ":answered-without-feature")
			rep.Add("feature:answered:"+sig, "%s answered although a feature it needs is disabled (%+v)", sig, f)
		} else if !rejected(err) {
			tally.add(sig + ":wrong-error")
			rep.Add("feature:error-kind:"+sig, "%s failed with %v instead of a missing-feature error", sig, err)
		} else {
			tally.add(sig + ":rejected")
		}
	}
	// Date-bounded volumes need MOVES_HISTORY, whatever the shape of the bounds: end only
	// (PIT), start only (OOT), both (window), on effective or insertion dates. The bounds
	// range over every recorded transaction date, oldest first, so that a start-only read
	// answered from an empty moves table is a wrong answer (the history has transactions
	// at or after the bound), never a vacuously right one.
	var dates []time.Time
	seen := map[int64]bool{}
	for _, x := range ref.Txs {
		for _, d := range []time.Time{x.TS, x.InsertedAt} {
			if !seen[d.UnixMicro()] {
				seen[d.UnixMicro()] = true
				dates = append(dates, d)
			}
		}
	}
	sort.Slice(dates, func(i, j int) bool { return dates[i].Before(dates[j]) })
	for _, useIns := range []bool{false, true} {
		useIns := useIns
		mode := "effective"
		if useIns {
			mode = "insertion"
		}
		opts := ledger.GetVolumesOptions{UseInsertionDate: useIns}
		dateOf := func(x *RefTx) time.Time {
			if useIns {
				return x.InsertedAt
			}
			return x.TS
		}
		_, err := ListVols(ctx, c, common.ResourceQuery[ledger.GetVolumesOptions]{PIT: ltp(t), Opts: opts})
		expect("volumes-pit-"+mode, f.MovesHistory, err)
		for _, oot := range dates {
			oot := oot
			vols, err := ListVols(ctx, c, common.ResourceQuery[ledger.GetVolumesOptions]{OOT: ltp(oot), Opts: opts})
			expect("volumes-oot-"+mode, f.MovesHistory, err)
			if f.MovesHistory {
				// enabled: the start-only read is answered, and equals the reference fold
				// of the transactions dated at or after the bound
				if err != nil {
					rep.Add("vol:error:since-"+mode+":"+Classify(err), "GetVolumesWithBalances(OOT=%s, %s) with MOVES_HISTORY=ON: %v", oot.Format(time.RFC3339Nano), mode, err)
				} else {
					checkVolumeListing(vols, ref.Volumes(func(x *RefTx) bool { return !dateOf(x).Before(oot) }), "since-"+mode, rep)
				}
				continue // windows on an enabled ledger are compared by CheckPIT
			}
			for _, pit := range dates {
				if pit.Before(oot) {
					continue
				}
				_, err := ListVols(ctx, c, common.ResourceQuery[ledger.GetVolumesOptions]{PIT: ltp(pit), OOT: ltp(oot), Opts: opts})
				expect("volumes-window-"+mode, false, err)
			}
		}
	}
	_, err := c.GetAggregatedBalances(ctx, common.ResourceQuery[ledger.GetAggregatedVolumesOptions]{PIT: ltp(t), Opts: ledger.GetAggregatedVolumesOptions{UseInsertionDate: true}})
	expect("aggregate-pit-insertion", f.MovesHistory, err)
	_, err = c.GetAggregatedBalances(ctx, common.ResourceQuery[ledger.GetAggregatedVolumesOptions]{PIT: ltp(t)})
	expect("aggregate-pit-effective", f.MovesHistory && f.EffectiveVolumes, err)
	_, err = ListAccs(ctx, c, common.ResourceQuery[any]{Expand: []string{"volumes"}})
	expect("accounts-expand-volumes", f.MovesHistory, err)
	_, err = ListAccs(ctx, c, common.ResourceQuery[any]{PIT: ltp(t), Expand: []string{"volumes"}})
	expect("accounts-pit-expand-volumes", f.MovesHistory, err)
	_, err = ListAccs(ctx, c, common.ResourceQuery[any]{Expand: []string{"effectiveVolumes"}})
	expect("accounts-expand-effective-volumes", f.EffectiveVolumes, err)
	_, err = ListAccs(ctx, c, common.ResourceQuery[any]{PIT: ltp(t), Expand: []string{"effectiveVolumes"}})
	expect("accounts-pit-expand-effective-volumes", f.EffectiveVolumes && f.MovesHistory, err)
	_, err = ListTxs(ctx, c, common.ResourceQuery[any]{Expand: []string{"effectiveVolumes"}})
	expect("transactions-expand-effective-volumes", f.EffectiveVolumes && f.MovesHistory, err)
}
