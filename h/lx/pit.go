package lx

import (
	"context"
	"time"

	ledger "github.com/formancehq/ledger/internal"
	ledgercontroller "github.com/formancehq/ledger/internal/controller/ledger"
	"github.com/formancehq/ledger/internal/storage/common"
)

// CheckPIT compares point-in-time and window reads with the reference folds, at every
// interesting instant of the history (each recorded date, 1µs before and after).
func CheckPIT(ctx context.Context, c ledgercontroller.Controller, ref *Ref, rep *Report) {
	f := FeatOf(c.Info())
	instants := ref.Instants()
	for _, t := range instants {
		t := t
		// ---- volumes listing, both date modes
		for _, useIns := range []bool{false, true} {
			mode := "effective"
			if useIns {
				mode = "insertion"
			}
			vols, err := ListVols(ctx, c, common.ResourceQuery[ledger.GetVolumesOptions]{PIT: ltp(t), Opts: ledger.GetVolumesOptions{UseInsertionDate: useIns}})
			if !f.MovesHistory {
				if err == nil {
					rep.Add("feature:pit-volumes-without-moves-history", "GetVolumesWithBalances(PIT) answered although MOVES_HISTORY is OFF")
				} else if Classify(err) != "missing_feature" {
					rep.Add("feature:pit-volumes-error-kind", "GetVolumesWithBalances(PIT) without MOVES_HISTORY: %v", err)
				}
				continue
			}
			if err != nil {
				rep.Add("read:GetVolumesWithBalances(pit):"+Classify(err), "PIT=%s %s: %v", t.Format(time.RFC3339Nano), mode, err)
				continue
			}
			want := ref.Volumes(func(x *RefTx) bool {
				if useIns {
					return !x.InsertedAt.After(t)
				}
				return !x.TS.After(t)
			})
			checkVolumeListing(vols, want, "pit-"+mode, rep)
		}
		// ---- aggregated balances
		for _, useIns := range []bool{false, true} {
			mode := "effective"
			needs := f.EffectiveVolumes
			if useIns {
				mode, needs = "insertion", f.MovesHistory
			}
			ab, err := c.GetAggregatedBalances(ctx, common.ResourceQuery[ledger.GetAggregatedVolumesOptions]{PIT: ltp(t), Opts: ledger.GetAggregatedVolumesOptions{UseInsertionDate: useIns}})
			if !needs {
				if err == nil {
					rep.Add("feature:pit-aggregate-without-feature:"+mode, "GetAggregatedBalances(PIT,%s) answered although the feature is disabled", mode)
				} else if Classify(err) != "missing_feature" {
					rep.Add("feature:pit-aggregate-error-kind:"+mode, "GetAggregatedBalances(PIT,%s): %v", mode, err)
				}
				continue
			}
			if err != nil {
				rep.Add("read:GetAggregatedBalances(pit):"+Classify(err), "PIT=%s %s: %v", t.Format(time.RFC3339Nano), mode, err)
				continue
			}
			want := ref.Volumes(func(x *RefTx) bool {
				if useIns {
					return !x.InsertedAt.After(t)
				}
				return !x.TS.After(t)
			})
			checkAggregated(ab, want, "pit-"+mode, rep)
		}
		// ---- accounts at t
		var accExpand []string
		if f.MovesHistory {
			accExpand = append(accExpand, "volumes")
		}
		if f.EffectiveVolumes {
			accExpand = append(accExpand, "effectiveVolumes")
		}
		accs, err := ListAccs(ctx, c, common.ResourceQuery[any]{PIT: ltp(t), Expand: accExpand})
		if err != nil {
			rep.Add("read:ListAccounts(pit):"+Classify(err), "PIT=%s: %v", t.Format(time.RFC3339Nano), err)
		} else {
			got := map[string]ledger.Account{}
			for _, a := range accs {
				got[a.Address] = a
			}
			insVols := ref.Volumes(func(x *RefTx) bool { return !x.InsertedAt.After(t) })
			effVols := ref.Volumes(func(x *RefTx) bool { return !x.TS.After(t) })
			for _, ra := range ref.SortedAccounts() {
				exists := !ra.FirstUsage.After(t)
				a, ok := got[ra.Addr]
				if ok != exists {
					rep.Add("pit:acc:set", "ListAccounts(PIT=%s): account %q listed=%v, first usage %s", t.Format(time.RFC3339Nano), ra.Addr, ok, ra.FirstUsage.Format(time.RFC3339Nano))
					continue
				}
				if !ok {
					continue
				}
				if f.MovesHistory {
					w := insVols[ra.Addr]
					if w == nil {
						w = map[string]*Vol{}
					}
					if d := volsEqualLedger(a.Volumes, w); d != "" {
						rep.Add("pit:acc:volumes", "ListAccounts(PIT=%s) %q volumes: %s", t.Format(time.RFC3339Nano), ra.Addr, d)
					}
				}
				if f.EffectiveVolumes {
					w := effVols[ra.Addr]
					if w == nil {
						w = map[string]*Vol{}
					}
					if d := volsEqualLedger(a.EffectiveVolumes, w); d != "" {
						rep.Add("pit:acc:effective-volumes", "ListAccounts(PIT=%s) %q effectiveVolumes: %s", t.Format(time.RFC3339Nano), ra.Addr, d)
					}
				}
				wantMeta := ra.Meta
				if f.AccMetaHistory {
					wantMeta = MetaAt(ra.MetaHist, t)
					if wantMeta == nil {
						wantMeta = map[string]string{}
					}
				}
				if !metaEqual(a.Metadata, wantMeta) {
					sig := "pit:acc:metadata:history-on"
					if !f.AccMetaHistory {
						sig = "pit:acc:metadata:history-off"
					}
					rep.Add(sig, "ListAccounts(PIT=%s) %q metadata %v want %v", t.Format(time.RFC3339Nano), ra.Addr, a.Metadata, wantMeta)
				}
			}
			for addr := range got {
				if ref.Accs[addr] == nil {
					rep.Add("pit:acc:unexpected", "ListAccounts(PIT) lists unknown account %q", addr)
				}
			}
		}
		// ---- transactions at t
		txs, err := ListTxs(ctx, c, common.ResourceQuery[any]{PIT: ltp(t)})
		if err != nil {
			rep.Add("read:ListTransactions(pit):"+Classify(err), "PIT=%s: %v", t.Format(time.RFC3339Nano), err)
			continue
		}
		got := map[uint64]ledger.Transaction{}
		for _, x := range txs {
			got[*x.ID] = x
		}
		for _, rt := range ref.Txs {
			exists := !rt.TS.After(t)
			x, ok := got[rt.ID]
			if ok != exists {
				rep.Add("pit:tx:set", "ListTransactions(PIT=%s): tx %d listed=%v, timestamp %s", t.Format(time.RFC3339Nano), rt.ID, ok, rt.TS.Format(time.RFC3339Nano))
				continue
			}
			if !ok {
				continue
			}
			wantRev := rt.RevertedAt != nil && !rt.RevertedAt.After(t)
			if (x.RevertedAt != nil && !x.RevertedAt.IsZero()) != wantRev {
				rep.Add("pit:tx:reverted", "ListTransactions(PIT=%s): tx %d reverted=%v want %v", t.Format(time.RFC3339Nano), rt.ID, x.RevertedAt != nil, wantRev)
			}
			wantMeta := rt.Meta
			if f.TxMetaHistory {
				wantMeta = MetaAt(rt.MetaHist, t)
				if wantMeta == nil {
					wantMeta = map[string]string{}
				}
			}
			if !metaEqual(x.Metadata, wantMeta) {
				sig := "pit:tx:metadata:history-on"
				if !f.TxMetaHistory {
					sig = "pit:tx:metadata:history-off"
				}
				rep.Add(sig, "ListTransactions(PIT=%s): tx %d metadata %v want %v", t.Format(time.RFC3339Nano), rt.ID, x.Metadata, wantMeta)
			}
		}
		for id := range got {
			if ref.Tx(id) == nil {
				rep.Add("pit:tx:unexpected", "ListTransactions(PIT) lists unknown tx %d", id)
			}
		}
	}
	// ---- windows (OOT..PIT) on exact recorded dates
	if f.MovesHistory {
		var dates []time.Time
		seen := map[int64]bool{}
		for _, x := range ref.Txs {
			for _, d := range []time.Time{x.TS, x.InsertedAt} {
				if !seen[d.UnixMicro()] {
					seen[d.UnixMicro()] = true
					dates = append(dates, d)
				}
			}
		}
		// a start time alone (OOT set, no PIT): everything since oot, in both date modes
		// (seeded change C05 applied the lower bound to effective_date in insertion mode
		// when no PIT was given)
		for _, oot := range dates {
			for _, useIns := range []bool{false, true} {
				mode := "effective"
				if useIns {
					mode = "insertion"
				}
				vols, err := ListVols(ctx, c, common.ResourceQuery[ledger.GetVolumesOptions]{OOT: ltp(oot), Opts: ledger.GetVolumesOptions{UseInsertionDate: useIns}})
				if err != nil {
					rep.Add("read:GetVolumesWithBalances(window-oot-only):"+Classify(err), "%v", err)
					continue
				}
				want := ref.Volumes(func(x *RefTx) bool {
					d := x.TS
					if useIns {
						d = x.InsertedAt
					}
					return !d.Before(oot)
				})
				checkVolumeListing(vols, want, "window-oot-only-"+mode, rep)
			}
		}
		for _, oot := range dates {
			for _, pit := range dates {
				if pit.Before(oot) {
					continue
				}
				for _, useIns := range []bool{false, true} {
					mode := "effective"
					if useIns {
						mode = "insertion"
					}
					vols, err := ListVols(ctx, c, common.ResourceQuery[ledger.GetVolumesOptions]{PIT: ltp(pit), OOT: ltp(oot), Opts: ledger.GetVolumesOptions{UseInsertionDate: useIns}})
					if err != nil {
						rep.Add("read:GetVolumesWithBalances(window):"+Classify(err), "%v", err)
						continue
					}
					want := ref.Volumes(func(x *RefTx) bool {
						d := x.TS
						if useIns {
							d = x.InsertedAt
						}
						return !d.After(pit) && !d.Before(oot)
					})
					checkVolumeListing(vols, want, "window-"+mode, rep)
				}
			}
		}
	}
}
