package lx

import (
	"context"
	"testing"
)

func TestOnePath(t *testing.T) {
	ctx := context.Background()
	e := &SeqExplorer{Ledgers: []LedgerSpec{{Name: "l1"}}, Check: func(ctx context.Context, s *StepInfo, rep *Report) {
		t.Logf("outcome: class=%q err=%v", s.Out.Class, s.Out.Err)
		CheckCurrent(ctx, s.Ctrl, s.Ref, rep)
	}}
	rep, err := e.RunPath(ctx, []Op{{Kind: "post", Postings: []P{{"world", "a", "USD", "100"}}}})
	if err != nil {
		t.Fatal(err)
	}
	for _, m := range rep.Items {
		t.Log(m.Sig, m.What)
	}
}
