package lx

import (
	"context"
	"fmt"

	ledger "github.com/formancehq/ledger/internal"
	ledgercontroller "github.com/formancehq/ledger/internal/controller/ledger"
)

// ImportedTwin gives the oracle a second ledger reached by ANOTHER route than the history
// itself: the export of the ledger under test imported into the pre-created empty ledger
// `twin` of the configuration (another bucket). Everything a read reports about the twin must
// be what the same read reports about the original, so the reference of the original is the
// reference of the twin (a differential oracle with no expected value of its own: state
// reached from the initial state vs state reached through export/import). Returns nil when
// the ledger under test has no log yet. On the restart leg the twin already holds the logs.
func ImportedTwin(ctx context.Context, s *StepInfo, twin string) (ledgercontroller.Controller, error) {
	tc := s.Ctrls[twin]
	if tc == nil || s.Ctrl == nil {
		return nil, fmt.Errorf("harness: no ledger %q in the configuration", twin)
	}
	var logs []ledger.Log
	if err := s.Ctrl.Export(ctx, ledgercontroller.ExportWriterFn(func(_ context.Context, l ledger.Log) error {
		logs = append(logs, l)
		return nil
	})); err != nil {
		return nil, fmt.Errorf("export: %w", err)
	}
	if len(logs) == 0 {
		return nil, nil
	}
	have, err := ListLogs(ctx, tc)
	if err != nil {
		return nil, err
	}
	if len(have) == len(logs) {
		return tc, nil
	}
	if len(have) != 0 {
		return nil, fmt.Errorf("harness: twin holds %d logs, the original %d", len(have), len(logs))
	}
	ch := make(chan ledger.Log, len(logs))
	for _, l := range logs {
		ch <- l
	}
	close(ch)
	if err := tc.Import(ctx, ch); err != nil {
		return nil, fmt.Errorf("import of the export: %w", err)
	}
	return tc, nil
}
