package pfault

import (
	"os"
	"testing"
)

// REPLAY=/verif/replays/C07-….json go test ./pfault -run TestReplay -v
func TestReplay(t *testing.T) {
	path := os.Getenv("REPLAY")
	if path == "" {
		t.Skip("set REPLAY=<replay file>")
	}
	code, err := Replay(path)
	if err != nil {
		t.Fatal(err)
	}
	if code != 0 {
		t.Fail()
	}
}
