package pfault

import (
	"context"
	"encoding/json"
	"fmt"
	"os"

	"github.com/formancehq/ledger/verifh/lx"
)

// Replay re-executes one recorded trial of C07 / C31 (base state, probe operations, fault
// positions, dry run, streamed or not) without the explorer and prints what happened: every
// driver call with the faults that struck, what the request answered, whether the database
// changed, how many logs were added and which events were published. It reports 1 when the
// trial shows one of the two facts the properties forbid outright — a failed or dry-run
// request that changed the database, or events without a committed write (or before it) —
// and 0 otherwise.
func Replay(path string) (int, error) {
	b, err := os.ReadFile(path)
	if err != nil {
		return 2, err
	}
	var f struct {
		Property string `json:"property"`
		Replay   struct {
			Base   string  `json:"base"`
			Probe  string  `json:"probe"`
			Ops    []lx.Op `json:"ops"`
			Kind   string  `json:"kind"`
			Faults []fault `json:"faults"`
			Dry    bool    `json:"dryRun"`
			Stream *stream `json:"stream"`
		} `json:"replay"`
	}
	if err := json.Unmarshal(b, &f); err != nil {
		return 2, err
	}
	ctx := context.Background()
	bs, err := bases(ctx)
	if err != nil {
		return 2, err
	}
	base := bs[f.Replay.Base]
	if base == nil {
		return 2, fmt.Errorf("unknown base state %q", f.Replay.Base)
	}
	p := probe{Name: f.Replay.Probe, Base: f.Replay.Base, Kind: f.Replay.Kind, Ops: f.Replay.Ops}
	t := runTrialOpts(ctx, base, p, f.Replay.Faults, f.Replay.Dry, f.Replay.Stream)
	if t.stuck != "" {
		return 2, fmt.Errorf("trial did not complete: %s", t.stuck)
	}
	at := map[int][]string{}
	for _, fl := range f.Replay.Faults {
		at[fl.At] = append(at[fl.At], fl.String())
	}
	for i, c := range t.calls {
		sql := c.SQL
		if len(sql) > 110 {
			sql = sql[:110] + "…"
		}
		fmt.Printf("  %3d %-8s %s %v\n", i, c.Op, sql, at[i])
	}
	fmt.Printf("request: ok=%v applied=%d class=%q err=%v\n", t.res.OK, t.res.Applied, t.res.Class, t.res.Err)
	fmt.Printf("database changed: %v; logs %d -> %d; events published: %d %v\n", t.before != t.after, t.logsB, t.logsA, len(t.events), t.events)
	verdict := 0
	if (f.Replay.Dry || !t.res.OK && t.res.Applied == 0) && t.before != t.after {
		fmt.Println("replay: a dry-run or failed request changed the database")
		verdict = 1
	}
	if len(t.events) > t.logsA-t.logsB {
		fmt.Println("replay: more events published than writes committed")
		verdict = 1
	}
	for _, e := range t.events {
		if !e.Visible {
			fmt.Printf("replay: event %s(%s) published before its write was visible\n", e.Kind, e.Subject)
			verdict = 1
		}
	}
	if verdict == 0 {
		fmt.Println("replay: nothing forbidden outright in this trial (the full oracle is in ./check " + f.Property + ")")
	}
	return verdict, nil
}
