// Package pfault holds the fault-enumeration checks (K3): C07 (failed and dry-run
// writes leave no trace) and C31 (events exactly for committed writes, after commit).
package pfault

import (
	"context"
	"errors"
	"fmt"
	"runtime"
	"strings"
	"sync"
	"time"

	"github.com/formancehq/go-libs/v5/pkg/types/metadata"

	ledger "github.com/formancehq/ledger/internal"
	"github.com/formancehq/ledger/verifh/ev"
	"github.com/formancehq/ledger/verifh/lx"
	"github.com/formancehq/ledger/verifh/pgsim"
	"github.com/formancehq/ledger/verifh/pimport"
	"github.com/formancehq/ledger/verifh/reg"
	"github.com/formancehq/ledger/verifh/world"
)

var pgsimAssumption = "pgsim: hand-written in-process model of the Postgres subset the ledger uses; faults are injected at the database/sql driver boundary (statement error with the transaction aborted, dropped connection, failed COMMIT, failed BEGIN, context cancellation)"

func skipGoose(schema, table string) bool { return table == "goose_db_version" }

// ---------- recorded events ----------

type event struct {
	Kind    string
	Ledger  string
	Subject string // what the event is about (tx id, target)
	Visible bool   // was the write visible to a fresh session when the event fired?
	Commits int    // number of commits the database had executed when it fired
}

type recorder struct {
	mu     sync.Mutex
	w      *world.World
	bucket string
	events []event
}

func (r *recorder) visible(q string) bool {
	var n int
	// a fresh autocommit statement only sees committed data
	if err := r.w.SQL.QueryRowContext(context.Background(), q).Scan(&n); err != nil {
		return false
	}
	return n > 0
}

func (r *recorder) add(e event) {
	r.mu.Lock()
	e.Commits = len(r.w.PG.Commits)
	r.events = append(r.events, e)
	r.mu.Unlock()
}

func (r *recorder) CommittedTransactions(ctx context.Context, l string, res ledger.Transaction, _ ledger.AccountMetadata) {
	vis := r.visible(fmt.Sprintf(`select count(*) from "%s".transactions where ledger = '%s' and id = %d`, r.bucket, l, *res.ID))
	r.add(event{Kind: "COMMITTED_TRANSACTIONS", Ledger: l, Subject: fmt.Sprint(*res.ID), Visible: vis})
}
func (r *recorder) SavedMetadata(ctx context.Context, l string, targetType, id string, m metadata.Metadata) {
	// the log of the write is the durable trace
	vis := r.visible(fmt.Sprintf(`select count(*) from "%s".logs where ledger = '%s' and type = 'SET_METADATA' and data->>'targetId' = '%s'`, r.bucket, l, strings.ReplaceAll(id, "'", "''")))
	r.add(event{Kind: "SAVED_METADATA", Ledger: l, Subject: targetType + ":" + id, Visible: vis})
}
func (r *recorder) RevertedTransaction(ctx context.Context, l string, reverted, revert ledger.Transaction) {
	vis := r.visible(fmt.Sprintf(`select count(*) from "%s".transactions where ledger = '%s' and id = %d`, r.bucket, l, *revert.ID))
	r.add(event{Kind: "REVERTED_TRANSACTION", Ledger: l, Subject: fmt.Sprint(*reverted.ID), Visible: vis})
}
func (r *recorder) DeletedMetadata(ctx context.Context, l string, targetType string, targetID any, key string) {
	vis := r.visible(fmt.Sprintf(`select count(*) from "%s".logs where ledger = '%s' and type = 'DELETE_METADATA' and data->>'key' = '%s'`, r.bucket, l, key))
	r.add(event{Kind: "DELETED_METADATA", Ledger: l, Subject: fmt.Sprint(targetType, ":", targetID, ":", key), Visible: vis})
}
func (r *recorder) InsertedSchema(ctx context.Context, l string, data ledger.Schema) {
	vis := r.visible(fmt.Sprintf(`select count(*) from "%s".schemas where ledger = '%s' and version = '%s'`, r.bucket, l, data.Version))
	r.add(event{Kind: "INSERTED_SCHEMA", Ledger: l, Subject: data.Version, Visible: vis})
}

// ---------- probes ----------

type probe struct {
	Name   string
	Base   string // pristine | in-use
	Kind   string // single | atomic-bulk | bulk
	Ops    []lx.Op
	Expect int // number of committed writes (= events) when nothing fails
}

type result struct {
	OK       bool   // the request as a whole reported success
	Applied  int    // number of successful elements
	Class    string // error class for single writes
	Err      error
	Hit      bool
	Postings string
}

func runProbe(ctx context.Context, w *world.World, p probe) result {
	c, err := w.Sys.GetLedgerController(ctx, "l1")
	if err != nil {
		return result{Err: err, Class: lx.Classify(err)}
	}
	switch p.Kind {
	case "single":
		out := lx.Apply(ctx, c, p.Ops[0])
		r := result{OK: out.OK(), Class: out.Class, Err: out.Err, Hit: out.Hit}
		if out.OK() {
			r.Applied = 1
			if out.Tx != nil {
				r.Postings = fmt.Sprint(out.Tx.Postings)
			}
		}
		return r
	default:
		bo, err := pimport.RunBulkOps(ctx, c, p.Kind == "atomic-bulk", p.Ops)
		if err != nil {
			return result{Err: err, Class: "harness"}
		}
		r := result{OK: bo.AllOK, Err: bo.RunErr}
		for _, e := range bo.ElemErr {
			if e == nil {
				r.Applied++
			} else if r.Err == nil {
				r.Err = e
			}
		}
		if bo.RunErr != nil {
			r.Applied = 0
		}
		r.Class = lx.Classify(r.Err)
		return r
	}
}

func probes() []probe {
	fund := lx.Op{Kind: "post", Name: "fund-a", Postings: []lx.P{{Src: "world", Dst: "a", Ast: "USD", Amt: "10"}}, Meta: map[string]string{"k": "v"}}
	script := lx.Op{Kind: "script", Name: "script", Script: "send [USD 3] (\n source = @world\n destination = @s\n)\nset_account_meta(@s, \"k\", \"v\")"}
	accmeta := lx.Op{Kind: "accmeta", Name: "accmeta", Address: "m", Meta: map[string]string{"k": "v"}}
	var out []probe
	for _, base := range []string{"pristine", "in-use"} {
		out = append(out,
			probe{Name: "post", Base: base, Kind: "single", Ops: []lx.Op{fund}, Expect: 1},
			probe{Name: "script", Base: base, Kind: "single", Ops: []lx.Op{script}, Expect: 1},
			probe{Name: "accmeta", Base: base, Kind: "single", Ops: []lx.Op{accmeta}, Expect: 1},
			probe{Name: "schema", Base: base, Kind: "single", Ops: []lx.Op{{Kind: "schema", Name: "schema", Schema: "v1", SchemaData: `{"chart":{"world":{},"a":{},"s":{},"m":{},"z":{}}}`}}, Expect: 1},
			probe{Name: "atomic-bulk", Base: base, Kind: "atomic-bulk", Ops: []lx.Op{fund, accmeta}, Expect: 2},
			probe{Name: "bulk", Base: base, Kind: "bulk", Ops: []lx.Op{fund, accmeta}, Expect: 2},
		)
	}
	// writes that need history
	out = append(out,
		probe{Name: "revert", Base: "in-use", Kind: "single", Ops: []lx.Op{{Kind: "revert", Name: "revert1", TxID: 1}}, Expect: 1},
		probe{Name: "txmeta", Base: "in-use", Kind: "single", Ops: []lx.Op{{Kind: "txmeta", Name: "txmeta1", TxID: 1, Meta: map[string]string{"n": "1"}}}, Expect: 1},
		probe{Name: "deltxmeta", Base: "in-use", Kind: "single", Ops: []lx.Op{{Kind: "deltxmeta", Name: "deltxmeta1", TxID: 1, Key: "seed"}}, Expect: 1},
		probe{Name: "delaccmeta", Base: "in-use", Kind: "single", Ops: []lx.Op{{Kind: "delaccmeta", Name: "delaccmeta", Address: "z", Key: "seed"}}, Expect: 1},
	)
	return out
}

// naturally failing inputs (on the in-use base)
func failingProbes() []probe {
	one := func(name string, op lx.Op) probe {
		return probe{Name: name, Base: "in-use", Kind: "single", Ops: []lx.Op{op}}
	}
	return []probe{
		one("insufficient-funds", lx.Op{Kind: "post", Postings: []lx.P{{Src: "q", Dst: "z", Ast: "USD", Amt: "5"}}}),
		one("reference-conflict", lx.Op{Kind: "post", Postings: []lx.P{{Src: "world", Dst: "q", Ast: "USD", Amt: "5"}}, Ref: "seed-ref"}),
		one("ik-different-input", lx.Op{Kind: "post", Postings: []lx.P{{Src: "world", Dst: "q", Ast: "USD", Amt: "5"}}, IK: "seed-ik"}),
		one("script-compile-error", lx.Op{Kind: "script", Script: "send [USD 3] ( source = "}),
		one("script-runtime-error", lx.Op{Kind: "script", Script: "vars {\n account $a\n}\nsend [USD 3] (\n source = @world\n destination = $a\n)", Vars: map[string]string{}}),
		one("script-fail-statement", lx.Op{Kind: "script", Script: "send [USD 3] (\n source = @world\n destination = @q\n)\nfail"}),
		one("script-no-postings", lx.Op{Kind: "script", Script: "set_tx_meta(\"a\", \"b\")"}),
		one("metadata-override", lx.Op{Kind: "script", Script: "send [USD 3] (\n source = @world\n destination = @q\n)\nset_tx_meta(\"k\", \"s\")", Meta: map[string]string{"k": "x"}}),
		one("already-reverted", lx.Op{Kind: "revert", TxID: 2}),
		one("revert-unknown", lx.Op{Kind: "revert", TxID: 99}),
		one("revert-insufficient", lx.Op{Kind: "revert", TxID: 3}),
		one("txmeta-unknown", lx.Op{Kind: "txmeta", TxID: 99, Meta: map[string]string{"a": "b"}}),
		one("deltxmeta-missing-key", lx.Op{Kind: "deltxmeta", TxID: 1, Key: "nope"}),
		one("schema-duplicate-version", lx.Op{Kind: "schema", Schema: "v0", SchemaData: `{"chart":{"world":{}}}`}),
		one("unknown-schema-version", lx.Op{Kind: "post", Postings: []lx.P{{Src: "world", Dst: "q", Ast: "USD", Amt: "5"}}, Schema: "v9"}),
		one("invalid-posting-address", lx.Op{Kind: "script", Script: "vars {\n account $a\n}\nsend [USD 3] (\n source = @world\n destination = $a\n)", Vars: map[string]string{"a": "not valid!"}}),
		{Name: "atomic-bulk-second-fails", Base: "in-use", Kind: "atomic-bulk", Ops: []lx.Op{
			{Kind: "post", Postings: []lx.P{{Src: "world", Dst: "q", Ast: "USD", Amt: "5"}}},
			{Kind: "post", Postings: []lx.P{{Src: "nobody", Dst: "q", Ast: "USD", Amt: "5"}}}}},
	}
}

func bases(ctx context.Context) (map[string]*pgsim.DB, error) {
	pristine, err := lx.Boot(ctx, []lx.LedgerSpec{{Name: "l1"}})
	if err != nil {
		return nil, err
	}
	inuse := pristine.Clone()
	w := world.Attach(inuse)
	defer w.Close()
	c, err := w.Sys.GetLedgerController(ctx, "l1")
	if err != nil {
		return nil, err
	}
	seed := []lx.Op{
		{Kind: "post", Postings: []lx.P{{Src: "world", Dst: "z", Ast: "USD", Amt: "1"}}, Meta: map[string]string{"seed": "1"}, Ref: "seed-ref", IK: "seed-ik"}, // tx 1
		{Kind: "post", Postings: []lx.P{{Src: "world", Dst: "y", Ast: "USD", Amt: "1"}}},                                                                       // tx 2
		{Kind: "post", Postings: []lx.P{{Src: "world", Dst: "x", Ast: "USD", Amt: "4"}}},                                                                       // tx 3
		{Kind: "post", Postings: []lx.P{{Src: "x", Dst: "y", Ast: "USD", Amt: "4"}}},                                                                           // tx 4: x emptied, revert of 3 lacks funds
		{Kind: "revert", TxID: 2, Force: true},                                                                                                                 // tx 5
		{Kind: "accmeta", Address: "z", Meta: map[string]string{"seed": "1"}},
		{Kind: "schema", Schema: "v0", SchemaData: `{"chart":{"world":{},"a":{},"s":{},"m":{},"z":{},"y":{},"x":{},"q":{}}}`},
	}
	for _, op := range seed {
		if out := lx.Apply(ctx, c, op); !out.OK() {
			return nil, fmt.Errorf("seed op %s: %v", op, out.Err)
		}
	}
	return map[string]*pgsim.DB{"pristine": pristine, "in-use": inuse}, nil
}

// ---------- fault plans ----------

type call struct{ Op, SQL string }

type fault struct {
	At   int    // index of the driver call (0-based) within the probe
	Kind string // conn | stmt | cancel | commit | begin | deadlock | gone
	Span string `json:",omitempty"` // kind gone: the store span at whose start the client goes away
}

// Kind "gone" does not strike INSIDE a driver call like the others but BETWEEN two of
// them: the client of the request goes away (its context is cancelled) at the start of a
// store span (World.Span) — for the span "Commit": after the last statement of the
// transaction has returned and before the sql COMMIT is issued — while driver call number
// At is the next one due. database/sql reacts to the cancellation of the context given to
// BeginTx by rolling the transaction back on a goroutine of its own; the trial waits until
// that rollback has reached the driver (an event, not a delay) before it lets the request
// go on, so the order "cancelled, rolled back, then Commit" is the same on every run.

// stream describes a bulk sent as a STREAM (one element at a time, each result awaited):
// the first Cut elements are sent, then — when Gone — the client goes away (request
// context cancelled, database/sql rollback awaited as for kind "gone"), then the stream
// ends, which is what the streamed bulk handlers do when the request context is done.
type stream struct {
	Cut  int
	Gone bool
}

func (f fault) String() string {
	if f.Span != "" {
		return fmt.Sprintf("%s(before %s)@%d", f.Kind, f.Span, f.At)
	}
	return fmt.Sprintf("%s@%d", f.Kind, f.At)
}

// spanPoint: a store span started while driver call number At was the next one due.
type spanPoint struct {
	Name string
	At   int
}

var errCommit = errors.New("injected: commit failed")

func faultKinds(op string) []string {
	switch op {
	case "begin":
		return []string{"conn"}
	case "commit":
		return []string{"commit", "conn"}
	case "exec", "query":
		// deadlock: SQLSTATE 40P01 at this statement, the one failure the ledger retries
		// (forgeLogRetry) instead of reporting: the failed first attempt must leave no
		// trace, and a retried dry run must still not be committed (seeded change C07)
		return []string{"stmt", "conn", "cancel", "deadlock"}
	}
	return nil
}

type trial struct {
	res    result
	before string
	after  string
	events []event
	calls  []call
	logsB  int
	logsA  int
	// spans: every start of a store span with the index of the driver call that was due
	// next (where a fault of kind "gone" can strike; name "Commit" = just before a commit)
	spans      []spanPoint
	goneFired  bool   // the client went away (request context cancelled) during the trial
	goneInTx   bool   // … while a sql transaction of the request was open
	goneRolled bool   // … and database/sql was seen rolling it back before the request went on
	stuck      string // harness-level failure of the trial (never a verdict)
}

func countLogs(ctx context.Context, w *world.World) int {
	var n int
	_ = w.SQL.QueryRowContext(ctx, `select count(*) from "_default".logs`).Scan(&n)
	return n
}

func runTrial(ctx context.Context, base *pgsim.DB, p probe, faults []fault, dry bool) trial {
	return runTrialOpts(ctx, base, p, faults, dry, nil)
}

// goneWait bounds the wait for database/sql's rollback after the client went away: a
// liveness guard of the harness (its expiry is an ENGINE error), never part of a verdict.
const goneWait = 3 * time.Minute

func runTrialOpts(ctx context.Context, base *pgsim.DB, p probe, faults []fault, dry bool, st *stream) trial {
	pg := base.Clone()
	w := world.Attach(pg)
	defer w.Close()
	rec := &recorder{w: w, bucket: "_default"}
	w.Listener = rec
	t := trial{before: pg.DumpFiltered(false, skipGoose)}
	t.logsB = countLogs(ctx, w)
	type key struct{}
	pctx, cancel := context.WithCancel(context.WithValue(ctx, key{}, true))
	defer cancel()
	n := 0
	openTx := 0 // sql transactions of the request currently open at the driver
	var mu sync.Mutex
	var rolledSess *pgsim.Session
	rolled := make(chan struct{}, 64)
	w.Hook = func(hctx context.Context, s *pgsim.Session, op, sql string) error {
		if hctx.Value(key{}) == nil {
			return nil // the harness' own reads
		}
		mu.Lock()
		idx := n
		n++
		t.calls = append(t.calls, call{op, sql})
		switch op {
		case "begin":
			openTx++
		case "commit":
			openTx--
		case "rollback":
			openTx--
			rolledSess = s
			select {
			case rolled <- struct{}{}:
			default:
			}
		}
		mu.Unlock()
		for _, f := range faults {
			if f.At != idx {
				continue
			}
			switch f.Kind {
			case "conn":
				return &pgsim.BadConnFault{Msg: "connection reset by peer"}
			case "stmt":
				return &pgsim.StmtFault{Code: "57014", Msg: "canceling statement due to statement timeout"}
			case "deadlock":
				return &pgsim.StmtFault{Code: "40P01", Msg: "deadlock detected"}
			case "cancel":
				return context.Canceled
			case "commit":
				return errCommit
			}
		}
		return nil
	}
	// the client goes away between two driver calls; called on the goroutine that drives
	// the request (span start) or on the one that feeds the stream, never inside a driver call
	clientGone := func() {
		mu.Lock()
		inTx := openTx > 0
		t.goneFired = true
		t.goneInTx = t.goneInTx || inTx
		for len(rolled) > 0 {
			<-rolled
		}
		mu.Unlock()
		cancel()
		if !inTx {
			return
		}
		// database/sql rolls back a transaction whose BeginTx context is cancelled: wait
		// for that rollback to reach the driver, then for the session to have left the
		// transaction
		select {
		case <-rolled:
		case <-time.After(goneWait):
			t.stuck = "the request context was cancelled while a sql transaction of the request was open, but no rollback reached the driver"
			return
		}
		mu.Lock()
		s := rolledSess
		mu.Unlock()
		deadline := time.Now().Add(goneWait)
		for s.TxOpen() {
			if time.Now().After(deadline) {
				t.stuck = "the session never left the transaction database/sql rolled back"
				return
			}
			runtime.Gosched()
		}
		t.goneRolled = true
	}
	w.Span = func(sctx context.Context, name string) {
		if sctx.Value(key{}) == nil {
			return
		}
		mu.Lock()
		idx := n
		t.spans = append(t.spans, spanPoint{name, idx})
		fired := t.goneFired
		mu.Unlock()
		if fired {
			return
		}
		for _, f := range faults {
			if f.Kind == "gone" && f.At == idx && f.Span == name {
				clientGone()
				return
			}
		}
	}
	pp := p
	if dry {
		pp.Ops = append([]lx.Op(nil), p.Ops...)
		for i := range pp.Ops {
			pp.Ops[i].DryRun = true
		}
	}
	if st != nil {
		t.res = runStreamed(pctx, w, pp, *st, clientGone)
	} else {
		t.res = runProbe(pctx, w, pp)
	}
	w.Hook = nil
	w.Span = nil
	t.after = pg.DumpFiltered(false, skipGoose)
	t.logsA = countLogs(ctx, w)
	t.events = rec.events
	return t
}

// runStreamed sends the probe (a bulk) as a stream cut after st.Cut elements.
func runStreamed(ctx context.Context, w *world.World, p probe, st stream, clientGone func()) result {
	c, err := w.Sys.GetLedgerController(ctx, "l1")
	if err != nil {
		return result{Err: err, Class: lx.Classify(err)}
	}
	var onCut func()
	if st.Gone {
		onCut = clientGone
	}
	bo, err := pimport.RunBulkStreamed(ctx, c, p.Kind == "atomic-bulk", p.Ops, st.Cut, onCut)
	if err != nil {
		return result{Err: err, Class: "harness"}
	}
	r := result{OK: bo.AllOK, Err: bo.RunErr}
	for _, e := range bo.ElemErr {
		if e == nil {
			r.Applied++
		} else if r.Err == nil {
			r.Err = e
		}
	}
	if bo.RunErr != nil {
		r.Applied = 0
	}
	r.Class = lx.Classify(r.Err)
	return r
}

// ---------- C07 ----------

type counters struct {
	sync.Mutex
	evaluations, failedClean, absorbed, dryRuns, natural int
	dryFaulted, dryRetried, absorbedCounted              int
	distinct                                             map[string]bool
}

func parallelDo(n int, stop func() bool, fn func(i int)) bool {
	var wg sync.WaitGroup
	ch := make(chan int)
	complete := true
	var mu sync.Mutex
	for w := 0; w < runtime.NumCPU(); w++ {
		wg.Add(1)
		go func() {
			defer wg.Done()
			for i := range ch {
				if stop() {
					mu.Lock()
					complete = false
					mu.Unlock()
					continue
				}
				fn(i)
			}
		}()
	}
	for i := 0; i < n; i++ {
		ch <- i
	}
	close(ch)
	wg.Wait()
	return complete
}

func c07() int {
	r := ev.Start("C07", ev.LevelFault, 110*time.Second, 15*time.Minute)
	ctx := context.Background()
	bs, err := bases(ctx)
	if err != nil {
		r.EngineError(err.Error())
		return r.Finish(nil, []string{pgsimAssumption})
	}
	cnt := &counters{distinct: map[string]bool{}}
	samples := ev.NewSamples(6)
	type job struct {
		p      probe
		faults []fault
		dry    bool
		nat    bool
	}
	var jobs []job
	for _, p := range probes() {
		clean := runTrial(ctx, bs[p.Base], p, nil, false)
		if !clean.res.OK {
			r.EngineError(fmt.Sprintf("probe %s/%s does not succeed without faults: %v", p.Base, p.Name, clean.res.Err))
			continue
		}
		if p.Expect > 0 && (clean.logsA-clean.logsB != p.Expect || len(clean.events) != p.Expect) {
			// the count of logs/events of a SUCCESSFUL write is the business of C08 / C31, not of
			// this property: note it and do not use this probe for the "shows exactly once" oracle
			r.Note(fmt.Sprintf("probe %s/%s: fault-free run produced %d logs and %d events, the probe table says %d (retried-write count not checked for this probe)", p.Base, p.Name, clean.logsA-clean.logsB, len(clean.events), p.Expect))
			p.Expect = 0
		}
		for i, c := range clean.calls {
			for _, k := range faultKinds(c.Op) {
				jobs = append(jobs, job{p: p, faults: []fault{{At: i, Kind: k}}})
				// the same fault striking the dry run of the probe
				jobs = append(jobs, job{p: p, faults: []fault{{At: i, Kind: k}}, dry: true})
			}
		}
		if r.Thorough() && p.Kind == "single" {
			// two faults: the second one strikes later (rollback / retry path included)
			for i := range clean.calls {
				for j := i + 1; j < len(clean.calls)+3; j++ {
					jobs = append(jobs, job{p: p, faults: []fault{{At: i, Kind: "stmt"}, {At: j, Kind: "conn"}}})
				}
			}
		}
		jobs = append(jobs, job{p: p, dry: true})
	}
	for _, p := range failingProbes() {
		jobs = append(jobs, job{p: p, nat: true}, job{p: p, nat: true, dry: true})
	}
	complete := parallelDo(len(jobs), r.Expired, func(i int) {
		j := jobs[i]
		t := runTrial(ctx, bs[j.p.Base], j.p, j.faults, j.dry)
		if t.res.Class == "ENGINE" {
			r.EngineError(fmt.Sprintf("%s/%s %v: %v", j.p.Base, j.p.Name, j.faults, t.res.Err))
			return
		}
		label := fmt.Sprintf("%s/%s", j.p.Base, j.p.Name)
		fl := fmt.Sprint(j.faults)
		cnt.Lock()
		cnt.evaluations++
		cnt.distinct[label+fl+fmt.Sprint(j.dry)] = true
		cnt.Unlock()
		replay := map[string]any{"base": j.p.Base, "probe": j.p.Name, "ops": j.p.Ops, "kind": j.p.Kind, "faults": j.faults, "dryRun": j.dry}
		sigKind := func() string {
			if len(j.faults) == 0 {
				return "natural"
			}
			var ks []string
			for _, f := range j.faults {
				op := "end"
				if f.At < len(t.calls) {
					op = t.calls[f.At].Op
				}
				ks = append(ks, f.Kind+"-at-"+op)
			}
			return strings.Join(ks, "+")
		}
		switch {
		case j.dry:
			cnt.Lock()
			cnt.dryRuns++
			cnt.Unlock()
			if t.after != t.before {
				r.Violation("C07:dry-run-left-trace:"+j.p.Name, fmt.Sprintf("%s dry run changed the database", label), replay)
			}
			if len(t.events) > 0 {
				r.Violation("C07:dry-run-event:"+j.p.Name, fmt.Sprintf("%s dry run published %d events", label, len(t.events)), replay)
			}
			if len(j.faults) > 0 {
				cnt.Lock()
				cnt.dryFaulted++
				if t.res.OK {
					cnt.dryRetried++
				}
				cnt.Unlock()
			}
			if !j.nat && j.p.Kind == "single" && len(j.faults) == 0 {
				real := runTrial(ctx, bs[j.p.Base], j.p, nil, false)
				if real.res.OK != t.res.OK || real.res.Postings != t.res.Postings {
					r.Violation("C07:dry-run-result-differs:"+j.p.Name, fmt.Sprintf("%s dry run returned ok=%v %s, the real write ok=%v %s", label, t.res.OK, t.res.Postings, real.res.OK, real.res.Postings), replay)
				}
			}
			if j.nat && t.res.OK && j.p.Kind == "single" {
				r.Violation("C07:failing-input-accepted-in-dry-run:"+j.p.Name, fmt.Sprintf("%s succeeds as a dry run", label), replay)
			}
		case j.p.Kind == "bulk":
			// every element is its own write: as many logs and events as successful elements
			if t.logsA-t.logsB != t.res.Applied || len(t.events) != t.res.Applied {
				r.Violation("C07:bulk-element-trace:"+sigKind(), fmt.Sprintf("%s %s: %d elements succeeded, %d logs and %d events were produced", label, fl, t.res.Applied, t.logsA-t.logsB, len(t.events)), replay)
			}
			cnt.Lock()
			cnt.failedClean++
			cnt.Unlock()
		case !t.res.OK:
			if j.nat {
				cnt.Lock()
				cnt.natural++
				cnt.Unlock()
			}
			if t.after != t.before {
				r.Violation("C07:error-left-trace:"+j.p.Name+":"+sigKind(), fmt.Sprintf("%s %s returned %q (%v) but the database changed: %s", label, fl, t.res.Class, t.res.Err, firstDiff(t.before, t.after)), replay)
			}
			if len(t.events) > 0 {
				r.Violation("C07:error-with-event:"+j.p.Name+":"+sigKind(), fmt.Sprintf("%s %s returned an error but published %v", label, fl, t.events), replay)
			}
			cnt.Lock()
			cnt.failedClean++
			cnt.Unlock()
		default:
			if j.nat {
				r.Violation("C07:failing-input-accepted:"+j.p.Name, fmt.Sprintf("%s was expected to fail but succeeded", label), replay)
			}
			cnt.Lock()
			cnt.absorbed++
			cnt.Unlock()
			// the write succeeded although a fault struck (retried deadlock, fault after the
			// commit point): whatever attempt failed on the way must have left no trace, so
			// the write shows exactly once
			if !j.nat && j.p.Kind != "bulk" && j.p.Expect > 0 {
				cnt.Lock()
				cnt.absorbedCounted++
				cnt.Unlock()
				if t.logsA-t.logsB != j.p.Expect || len(t.events) != j.p.Expect {
					r.Violation("C07:retried-write-trace:"+j.p.Name+":"+sigKind(), fmt.Sprintf("%s %s succeeded; it produced %d logs and %d events, a single execution produces %d", label, fl, t.logsA-t.logsB, len(t.events), j.p.Expect), replay)
				}
			}
		}
		samples.Add(map[string]any{"probe": label, "faults": fl, "dryRun": j.dry, "result_ok": t.res.OK, "class": t.res.Class, "driver_calls": len(t.calls)})
	})
	if r.ViolationCount() == 0 {
		switch {
		case cnt.failedClean == 0:
			r.EngineError("vacuous: no injected fault made a write fail")
		case cnt.dryRetried == 0:
			r.EngineError("vacuous: no dry run struck by a fault went on to succeed (the retry path of a dry run was never taken)")
		case cnt.absorbedCounted == 0:
			r.EngineError("vacuous: no write succeeded despite a fault (retry path never taken)")
		}
	}
	return r.Finish(ev.Coverage{
		"evaluations":                cnt.evaluations,
		"distinct_nontrivial":        len(cnt.distinct),
		"rule":                       "probes = every write kind (create by postings, by script with account metadata, account/transaction metadata set/delete, revert, insert schema, atomic bulk, non-atomic bulk) from a pristine (initializing) and an in-use ledger; for each, a fault at EVERY driver call of its fault-free trace x every applicable kind (statement error with aborted transaction, deadlock 40P01 — which the ledger retries —, dropped connection, context cancellation, failed COMMIT, failed BEGIN), against the write and against its dry run; thorough adds every pair (statement error at i, dropped connection at j>i, rollback path included) for single writes; plus 17 naturally failing inputs and a dry run of every probe. Oracle: error returned => canonical dump of every table before == after and no event; dry run (struck by a fault or not) => database unchanged and no event, fault-free dry run => same result as the real write on a clone; a write that succeeds despite a fault (retry) => exactly the logs and events of one execution; non-atomic bulk => logs and events == successful elements. distinct_nontrivial = distinct (probe, fault plan, dry) cases executed",
		"samples":                    samples.List(),
		"fault_cases_failed_cleanly": cnt.failedClean,
		"faults_absorbed":            cnt.absorbed,
		"dry_runs":                   cnt.dryRuns,
		"dry_runs_struck_by_a_fault": cnt.dryFaulted,
		"faulted_dry_runs_that_went_on_to_succeed":         cnt.dryRetried,
		"successes_despite_fault_with_trace_count_checked": cnt.absorbedCounted,
		"natural_failures": cnt.natural,
		"exhaustive":       complete,
	}, []string{pgsimAssumption})
}

func firstDiff(a, b string) string {
	la, lb := strings.Split(a, "\n"), strings.Split(b, "\n")
	for i := 0; i < len(la) && i < len(lb); i++ {
		if la[i] != lb[i] {
			x, y := la[i], lb[i]
			if len(x) > 200 {
				x = x[:200]
			}
			if len(y) > 200 {
				y = y[:200]
			}
			return x + "  =>  " + y
		}
	}
	return fmt.Sprintf("%d lines => %d lines", len(la), len(lb))
}

func init() {
	reg.Register("C07", c07)
	reg.Register("C31", c31)
}
