package pfault

import (
	"context"
	"fmt"
	"sort"
	"strings"
	"sync"
	"time"

	"github.com/formancehq/ledger/verifh/ev"
)

func expectedKinds(p probe) []string {
	var out []string
	for _, op := range p.Ops {
		switch op.Kind {
		case "post", "script":
			out = append(out, "COMMITTED_TRANSACTIONS")
		case "revert":
			out = append(out, "REVERTED_TRANSACTION")
		case "txmeta", "accmeta":
			out = append(out, "SAVED_METADATA")
		case "deltxmeta", "delaccmeta":
			out = append(out, "DELETED_METADATA")
		case "schema":
			out = append(out, "INSERTED_SCHEMA")
		}
	}
	sort.Strings(out)
	return out
}

// C31: events are published exactly for committed writes, and only after the commit.
func c31() int {
	r := ev.Start("C31", ev.LevelFault, 100*time.Second, 12*time.Minute)
	ctx := context.Background()
	bs, err := bases(ctx)
	if err != nil {
		r.EngineError(err.Error())
		return r.Finish(nil, []string{pgsimAssumption})
	}
	type job struct {
		p      probe
		faults []fault
		dry    bool
		nat    bool
	}
	var jobs []job
	for _, p := range probes() {
		clean := runTrial(ctx, bs[p.Base], p, nil, false)
		if !clean.res.OK {
			r.EngineError(fmt.Sprintf("probe %s/%s does not succeed without faults: %v", p.Base, p.Name, clean.res.Err))
			continue
		}
		jobs = append(jobs, job{p: p}, job{p: p, dry: true})
		for i, c := range clean.calls {
			switch c.Op {
			case "commit":
				jobs = append(jobs, job{p: p, faults: []fault{{At: i, Kind: "commit"}}}, job{p: p, faults: []fault{{At: i, Kind: "conn"}}})
			case "exec", "query":
				if r.Thorough() || strings.HasPrefix(strings.ToUpper(strings.TrimSpace(c.SQL)), "RELEASE") || strings.HasPrefix(strings.ToUpper(strings.TrimSpace(c.SQL)), "INSERT") {
					jobs = append(jobs, job{p: p, faults: []fault{{At: i, Kind: "stmt"}}})
				}
			}
		}
	}
	for _, p := range failingProbes() {
		jobs = append(jobs, job{p: p, nat: true})
	}
	var mu sync.Mutex
	evaluations, withEvents, committedNoFault, commitFaults := 0, 0, 0, 0
	distinct := map[string]bool{}
	samples := ev.NewSamples(6)
	complete := parallelDo(len(jobs), r.Expired, func(i int) {
		j := jobs[i]
		t := runTrial(ctx, bs[j.p.Base], j.p, j.faults, j.dry)
		if t.res.Class == "ENGINE" {
			r.EngineError(fmt.Sprintf("%s/%s %v: %v", j.p.Base, j.p.Name, j.faults, t.res.Err))
			return
		}
		label := fmt.Sprintf("%s/%s", j.p.Base, j.p.Name)
		fl := fmt.Sprint(j.faults)
		replay := map[string]any{"base": j.p.Base, "probe": j.p.Name, "ops": j.p.Ops, "kind": j.p.Kind, "faults": j.faults, "dryRun": j.dry}
		committed := t.logsA - t.logsB // one log per committed write
		if j.dry {
			committed = 0
		}
		mode := "single"
		switch {
		case j.p.Kind != "single":
			mode = j.p.Kind
		case j.p.Base == "pristine":
			mode = "first-write"
		}
		situation := "success"
		switch {
		case j.dry:
			situation = "dry-run"
		case len(j.faults) > 0:
			situation = "fault:" + j.faults[0].Kind
		case j.nat:
			situation = "business-failure"
		}
		mu.Lock()
		evaluations++
		distinct[label+fl+situation] = true
		if len(t.events) > 0 {
			withEvents++
		}
		if situation == "success" {
			committedNoFault++
		}
		if strings.HasPrefix(situation, "fault:") {
			commitFaults++
		}
		mu.Unlock()
		if len(t.events) != committed {
			kind := "missing"
			if len(t.events) > committed {
				kind = "spurious"
			}
			r.Violation(fmt.Sprintf("C31:event-%s:%s:%s", kind, mode, situation), fmt.Sprintf("%s %s (%s): %d writes were committed (logs %d -> %d) but %d events were published: %v", label, fl, situation, committed, t.logsB, t.logsA, len(t.events), t.events), replay)
		}
		for _, e := range t.events {
			if !e.Visible {
				r.Violation(fmt.Sprintf("C31:event-before-commit:%s:%s", mode, e.Kind), fmt.Sprintf("%s %s: event %s(%s) was published while its write was not yet visible to other sessions (commits so far: %d)", label, fl, e.Kind, e.Subject, e.Commits), replay)
			}
		}
		if situation == "success" {
			var got []string
			for _, e := range t.events {
				got = append(got, e.Kind)
			}
			sort.Strings(got)
			if fmt.Sprint(got) != fmt.Sprint(expectedKinds(j.p)) {
				r.Violation("C31:event-kinds:"+mode, fmt.Sprintf("%s: events %v, want %v", label, got, expectedKinds(j.p)), replay)
			}
		}
		samples.Add(map[string]any{"probe": label, "mode": mode, "situation": situation, "faults": fl, "committed_writes": committed, "events": len(t.events)})
	})
	if withEvents == 0 || commitFaults == 0 {
		r.EngineError("vacuous: no event observed or no commit fault injected")
	}
	return r.Finish(ev.Coverage{
		"evaluations":         evaluations,
		"distinct_nontrivial": len(distinct),
		"rule":                "every write kind x {single write on an in-use ledger, first write on an initializing ledger (state-tracker path: outer transaction + ledger lock + nested savepoint), atomic bulk, non-atomic bulk} x {success, dry run, failure of EVERY COMMIT (error and dropped connection), statement failure at every INSERT/RELEASE (thorough: at every statement), 17 business failures}; a recording Listener notes for each event whether the write it describes is visible to a fresh database session at that very moment; oracle: number of events == number of logs committed by the request, event kinds match, and every event fired after the commit that made its write durable",
		"samples":             samples.List(),
		"runs_with_events":    withEvents,
		"fault_runs":          commitFaults,
		"exhaustive":          complete,
	}, []string{pgsimAssumption})
}
