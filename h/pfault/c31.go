package pfault

import (
	"context"
	"fmt"
	"sort"
	"strings"
	"sync"
	"time"

	"github.com/formancehq/ledger/verifh/ev"
)

func expectedKinds(p probe) []string {
	var out []string
	for _, op := range p.Ops {
		switch op.Kind {
		case "post", "script":
			out = append(out, "COMMITTED_TRANSACTIONS")
		case "revert":
			out = append(out, "REVERTED_TRANSACTION")
		case "txmeta", "accmeta":
			out = append(out, "SAVED_METADATA")
		case "deltxmeta", "delaccmeta":
			out = append(out, "DELETED_METADATA")
		case "schema":
			out = append(out, "INSERTED_SCHEMA")
		}
	}
	sort.Strings(out)
	return out
}

// C31: events are published exactly for committed writes, and only after the commit.
func c31() int {
	r := ev.Start("C31", ev.LevelFault, 100*time.Second, 12*time.Minute)
	ctx := context.Background()
	bs, err := bases(ctx)
	if err != nil {
		r.EngineError(err.Error())
		return r.Finish(nil, []string{pgsimAssumption})
	}
	type job struct {
		p      probe
		faults []fault
		dry    bool
		nat    bool
		st     *stream
	}
	var jobs []job
	commitPoints := 0
	for _, p := range probes() {
		clean := runTrial(ctx, bs[p.Base], p, nil, false)
		if !clean.res.OK {
			r.EngineError(fmt.Sprintf("probe %s/%s does not succeed without faults: %v", p.Base, p.Name, clean.res.Err))
			continue
		}
		jobs = append(jobs, job{p: p}, job{p: p, dry: true})
		// the client goes away BETWEEN two driver calls: right before every commit point of
		// the store (after the last statement of the transaction, before the sql COMMIT /
		// the release of the nested savepoint); thorough: at the start of every store span
		seen := map[spanPoint]bool{}
		for _, sp := range clean.spans {
			if seen[sp] || (sp.Name != "Commit" && !r.Thorough()) {
				continue
			}
			seen[sp] = true
			if sp.Name == "Commit" {
				commitPoints++
			}
			jobs = append(jobs, job{p: p, faults: []fault{{At: sp.At, Kind: "gone", Span: sp.Name}}})
		}
		// the bulk sent as a stream: complete, and cut after each element by a client that
		// goes away while the server waits for the next element
		if p.Kind != "single" {
			jobs = append(jobs, job{p: p, st: &stream{Cut: len(p.Ops)}})
			for k := 1; k <= len(p.Ops); k++ {
				jobs = append(jobs, job{p: p, st: &stream{Cut: k, Gone: true}})
			}
		}
		for i, c := range clean.calls {
			switch c.Op {
			case "commit":
				jobs = append(jobs, job{p: p, faults: []fault{{At: i, Kind: "commit"}}}, job{p: p, faults: []fault{{At: i, Kind: "conn"}}})
			case "exec", "query":
				if r.Thorough() || strings.HasPrefix(strings.ToUpper(strings.TrimSpace(c.SQL)), "RELEASE") || strings.HasPrefix(strings.ToUpper(strings.TrimSpace(c.SQL)), "INSERT") {
					jobs = append(jobs, job{p: p, faults: []fault{{At: i, Kind: "stmt"}}})
				}
			}
		}
	}
	for _, p := range failingProbes() {
		jobs = append(jobs, job{p: p, nat: true})
	}
	var mu sync.Mutex
	evaluations, withEvents, committedNoFault, commitFaults := 0, 0, 0, 0
	goneRuns, goneRolled, goneFailed, streamedRuns, streamedGone := 0, 0, 0, 0, 0
	distinct := map[string]bool{}
	samples := ev.NewSamples(6)
	complete := parallelDo(len(jobs), r.Expired, func(i int) {
		j := jobs[i]
		t := runTrialOpts(ctx, bs[j.p.Base], j.p, j.faults, j.dry, j.st)
		if t.res.Class == "ENGINE" {
			r.EngineError(fmt.Sprintf("%s/%s %v: %v", j.p.Base, j.p.Name, j.faults, t.res.Err))
			return
		}
		label := fmt.Sprintf("%s/%s", j.p.Base, j.p.Name)
		fl := fmt.Sprint(j.faults)
		replay := map[string]any{"base": j.p.Base, "probe": j.p.Name, "ops": j.p.Ops, "kind": j.p.Kind, "faults": j.faults, "dryRun": j.dry}
		wantGone := j.st != nil && j.st.Gone
		for _, f := range j.faults {
			wantGone = wantGone || f.Kind == "gone"
		}
		if j.st != nil {
			fl = fmt.Sprintf("[streamed, %d of %d elements sent, client gone: %v]", j.st.Cut, len(j.p.Ops), j.st.Gone)
			replay["stream"] = j.st
		}
		if t.stuck != "" {
			r.EngineError(fmt.Sprintf("%s %s: %s", label, fl, t.stuck))
			return
		}
		if wantGone && !t.goneFired {
			r.EngineError(fmt.Sprintf("%s %s: the point where the client goes away was not reached (the fault-free trace of the probe is not reproducible)", label, fl))
			return
		}
		committed := t.logsA - t.logsB // one log per committed write
		if j.dry {
			committed = 0
		}
		mode := "single"
		switch {
		case j.st != nil:
			mode = j.p.Kind + "-streamed"
		case j.p.Kind != "single":
			mode = j.p.Kind
		case j.p.Base == "pristine":
			mode = "first-write"
		}
		situation := "success"
		switch {
		case j.dry:
			situation = "dry-run"
		case j.st != nil && j.st.Gone:
			situation = "client-gone"
		case len(j.faults) > 0:
			situation = "fault:" + j.faults[0].Kind
		case j.nat:
			situation = "business-failure"
		}
		mu.Lock()
		evaluations++
		distinct[label+fl+situation] = true
		if len(t.events) > 0 {
			withEvents++
		}
		if situation == "success" {
			committedNoFault++
		}
		if strings.HasPrefix(situation, "fault:") {
			commitFaults++
		}
		if j.st != nil {
			streamedRuns++
		}
		if t.goneFired {
			goneRuns++
			if t.goneRolled {
				goneRolled++
				if j.st != nil {
					streamedGone++
				}
				if !t.res.OK {
					goneFailed++
				}
			}
		}
		mu.Unlock()
		if len(t.events) != committed {
			kind := "missing"
			if len(t.events) > committed {
				kind = "spurious"
			}
			r.Violation(fmt.Sprintf("C31:event-%s:%s:%s", kind, mode, situation), fmt.Sprintf("%s %s (%s): %d writes were committed (logs %d -> %d) but %d events were published: %v", label, fl, situation, committed, t.logsB, t.logsA, len(t.events), t.events), replay)
		}
		for _, e := range t.events {
			if !e.Visible {
				r.Violation(fmt.Sprintf("C31:event-before-commit:%s:%s", mode, e.Kind), fmt.Sprintf("%s %s: event %s(%s) was published while its write was not yet visible to other sessions (commits so far: %d)", label, fl, e.Kind, e.Subject, e.Commits), replay)
			}
		}
		if situation == "success" {
			var got []string
			for _, e := range t.events {
				got = append(got, e.Kind)
			}
			sort.Strings(got)
			if fmt.Sprint(got) != fmt.Sprint(expectedKinds(j.p)) {
				r.Violation("C31:event-kinds:"+mode, fmt.Sprintf("%s: events %v, want %v", label, got, expectedKinds(j.p)), replay)
			}
		}
		samples.Add(map[string]any{"probe": label, "mode": mode, "situation": situation, "faults": fl, "committed_writes": committed, "events": len(t.events), "request_ok": t.res.OK, "client_gone_rollback_observed": t.goneRolled})
	})
	if withEvents == 0 || commitFaults == 0 {
		r.EngineError("vacuous: no event observed or no commit fault injected")
	}
	if complete {
		switch {
		case commitPoints == 0:
			r.EngineError("vacuous: no commit point of the store was observed (store span hook not called)")
		case goneRolled == 0:
			r.EngineError("vacuous: the client never went away while a sql transaction of its request was open (no rollback by database/sql observed before the commit)")
		case streamedGone == 0:
			r.EngineError("vacuous: no streamed atomic bulk lost its client between two elements with its transaction open")
		case goneFailed == 0 && r.ViolationCount() == 0:
			r.EngineError("vacuous: no request whose transaction was rolled back under it (client gone) reported a failure: the commit of a rolled back transaction was never attempted")
		}
	}
	return r.Finish(ev.Coverage{
		"evaluations":         evaluations,
		"distinct_nontrivial": len(distinct),
		"rule":                "every write kind x {single write on an in-use ledger, first write on an initializing ledger (state-tracker path: outer transaction + ledger lock + nested savepoint), atomic bulk, non-atomic bulk} x {success, dry run, failure of EVERY COMMIT (error and dropped connection), statement failure at every INSERT/RELEASE (thorough: at every statement), CLIENT GONE right before EVERY commit point of the store (thorough: at the start of every store span): the request context is cancelled BETWEEN two driver calls, after the last statement of the transaction and before the sql COMMIT, and database/sql's own rollback of the transaction is awaited (driver-level event) before the request goes on, so that the commit finds a transaction that is already gone, 17 business failures}; plus every bulk sent as a STREAM (one element at a time, result awaited) x {complete, client gone after element k for every k with the stream then closed as the streamed handlers do}; a recording Listener notes for each event whether the write it describes is visible to a fresh database session at that very moment; oracle: number of events == number of logs committed by the request, event kinds match, and every event fired after the commit that made its write durable",
		"samples":             samples.List(),
		"runs_with_events":    withEvents,
		"fault_runs":          commitFaults,
		"store_commit_points": commitPoints,
		"client_gone_runs":    goneRuns,
		"client_gone_runs_with_open_transaction_rolled_back_by_database_sql": goneRolled,
		"client_gone_runs_reported_as_failed":                                goneFailed,
		"streamed_bulk_runs":                                                 streamedRuns,
		"streamed_bulk_runs_client_gone_in_open_transaction":                 streamedGone,
		"exhaustive": complete,
	}, []string{pgsimAssumption, goneAssumption})
}

var goneAssumption = "client gone: the cancellation of the request context is placed at the start of a span of the ledger store (OpenTelemetry tracer given to the store factory, otherwise the no-op tracer) or between two elements of a streamed bulk; what follows is the real database/sql (Tx.awaitDone rolls the transaction back through the driver, Tx.Commit then answers sql.ErrTxDone), not a model; the trial waits for the driver-level rollback (bounded liveness guard, an ENGINE error when it expires), so no verdict depends on timing"
