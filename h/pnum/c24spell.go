package pnum

import (
	"fmt"
	"math/big"
	"runtime"
	"sort"
	"strconv"
	"strings"
	"sync"
	"sync/atomic"

	"github.com/formancehq/ledger/internal/machine"
	"github.com/formancehq/ledger/internal/machine/script/compiler"
	"github.com/formancehq/ledger/internal/machine/vm/program"
	"github.com/formancehq/ledger/verifh/ev"
)

// C24, spelling leg. "Its portion" in the property is the portion the author WROTE. The
// other legs build their portions from rationals (NewPortionSpecific) or spell them in
// one canonical way, and leg (B) takes the value of a literal from the very parser it
// exercises; so nothing compared what ParsePortionSpecific makes of a text with what the
// text says. This leg enumerates the TEXTS of the PORTION token (NumScript.g4):
//
//	percent   I[.F]%      I, F digit strings (leading zeros, trailing zeros, values below 1%)
//	fraction  N[ ]/[ ]D   N, D digit strings (leading zeros), optional blank around the bar
//
// and reads each one independently, in base ten: I.F% = int(IF) / 10^(len(F)+2), N/D.
// Oracle: a text denoting a portion in [0,1] is accepted and parses to exactly that
// rational; an accepted text never has another value (so a text above 100% or with a
// zero denominator can only be refused). The same texts are then put where an author can
// put them - allotment literal, `portion` variable, `portion` read from account metadata -
// in `{ <text> to @d0 ; remaining to @d1 }` (and `<text> to @d0 ; <complement> to @d1`,
// and the source form), compiled and run by the real machine, and the C24 rule is checked
// on the postings for the portion that was written.

type c24spelling struct {
	text     string
	notation string // percent | fraction
	class    string // plain | leading-zero (a number of the text has a superfluous leading 0)
	a, b     string // percent: I, F ("" = no decimals); fraction: N, D
	rank     int
}

func smallDecimal(s string) uint64 {
	n, err := strconv.ParseUint(s, 10, 64)
	if err != nil {
		panic("c24 spelling: not a short digit string: " + s)
	}
	return n
}

var c24pow10 = func() []uint64 {
	out := []uint64{1}
	for k := 1; k <= 18; k++ {
		out = append(out, out[k-1]*10)
	}
	return out
}()

// ratio: what the text denotes, read in base ten, as numerator / denominator (den 0: nothing).
func (s c24spelling) ratio() (num, den uint64) {
	if s.notation == "percent" {
		return smallDecimal(s.a + s.b), c24pow10[len(s.b)+2]
	}
	return smallDecimal(s.a), smallDecimal(s.b)
}

// valid: the text denotes a portion in [0,1].
func (s c24spelling) valid() bool {
	num, den := s.ratio()
	return den != 0 && num <= den
}

// denotes is the rational of ratio(); nil when the denominator is zero.
func (s c24spelling) denotes() *big.Rat {
	num, den := s.ratio()
	if den == 0 {
		return nil
	}
	return new(big.Rat).SetFrac(new(big.Int).SetUint64(num), new(big.Int).SetUint64(den))
}

// subOne: a percent below 1% written with two or more decimals.
func (s c24spelling) subOne() bool {
	return s.notation == "percent" && len(s.b) >= 2 && smallDecimal(s.a) == 0
}

// digitStrings: every string over alphabet of length minLen..maxLen, shortest first.
func digitStrings(alphabet string, minLen, maxLen int) []string {
	var out []string
	var rec func(prefix string, n int)
	rec = func(prefix string, n int) {
		if n == 0 {
			out = append(out, prefix)
			return
		}
		for i := 0; i < len(alphabet); i++ {
			rec(prefix+string(alphabet[i]), n-1)
		}
	}
	for n := minLen; n <= maxLen; n++ {
		rec("", n)
	}
	return out
}

func hasLeadingZero(s string) bool { return len(s) > 1 && s[0] == '0' }

// percentSpellings: I[.F]% for every I of ints and every F of fracs ("" = no decimals).
func percentSpellings(ints, fracs []string) []c24spelling {
	out := make([]c24spelling, 0, len(ints)*len(fracs))
	for _, i := range ints {
		class := "plain"
		if hasLeadingZero(i) {
			class = "leading-zero"
		}
		for _, f := range fracs {
			text := i + "%"
			if f != "" {
				text = i + "." + f + "%"
			}
			out = append(out, c24spelling{text: text, notation: "percent", class: class, a: i, b: f})
		}
	}
	return out
}

// complement spells, in the notation of s and with canonical digits, the portion that
// completes s to 100% ("" when s is no portion of [0,1]): 0.25% -> 99.75%, 03/4 -> 1/4.
func (s c24spelling) complement() string {
	if !s.valid() {
		return ""
	}
	c := new(big.Rat).Sub(big.NewRat(1, 1), s.denotes())
	if s.notation == "fraction" {
		return c.Num().String() + "/" + c.Denom().String()
	}
	return new(big.Rat).Mul(c, big.NewRat(100, 1)).FloatString(len(s.b)) + "%"
}

// fractionSpellings: N<sep>D for every N, D, separator.
func fractionSpellings(nums, dens, seps []string) []c24spelling {
	out := make([]c24spelling, 0, len(nums)*len(dens)*len(seps))
	for _, n := range nums {
		for _, d := range dens {
			class := "plain"
			if hasLeadingZero(n) || hasLeadingZero(d) {
				class = "leading-zero"
			}
			for _, sep := range seps {
				out = append(out, c24spelling{text: n + sep + d, notation: "fraction", class: class, a: n, b: d})
			}
		}
	}
	return out
}

func intsUpTo(strs []string, max uint64) []string {
	var out []string
	for _, s := range strs {
		if smallDecimal(s) <= max {
			out = append(out, s)
		}
	}
	return out
}

type c24spellRoute struct {
	name  string // literal | variable | metadata
	forms []string
}

// c24spellScript renders one script of a route. form: dst-remaining | dst-explicit | src-remaining.
func c24spellScript(route, form string, s c24spelling) (text string, vars map[string]string, meta map[string]map[string]string) {
	vars = map[string]string{}
	por := s.text
	decl := "\tmonetary $amt\n"
	switch route {
	case "variable":
		decl += "\tportion $p\n"
		vars["p"] = s.text
		por = "$p"
	case "metadata":
		decl += "\tportion $p = meta(@m, \"por\")\n"
		meta = map[string]map[string]string{"m": {"por": s.text}}
		por = "$p"
	}
	second := "remaining"
	if form == "dst-explicit" {
		second = s.complement()
	}
	var b strings.Builder
	b.WriteString("vars {\n" + decl + "}\nsend $amt (\n")
	if form == "src-remaining" {
		fmt.Fprintf(&b, "\tsource = {\n\t\t%s from @s0\n\t\t%s from @s1\n\t}\n\tdestination = @d\n", por, second)
	} else {
		fmt.Fprintf(&b, "\tsource = @world\n\tdestination = {\n\t\t%s to @d0\n\t\t%s to @d1\n\t}\n", por, second)
	}
	b.WriteString(")\n")
	return b.String(), vars, meta
}

func c24spellLeg(r *ev.Run, exhaustive *atomic.Bool) (ev.Coverage, []any) {
	legStart := r.Elapsed()
	// at most a quarter of the budget: the leg is small, the cap only matters on an overloaded machine
	expired := func() bool { return r.Expired() || r.Elapsed()-legStart > r.Budget()/4 }
	thorough := r.Thorough()
	all := "0123456789"

	// ---- the spelling spaces ------------------------------------------------------------
	// ParsePortionSpecific compiles its two regular expressions at every call (~20 us): the
	// quick tier keeps the long tails (3 decimals, blanks around the bar) for a few heads.
	fracLen := ev.Pick(r, 2, 3)     // decimals of a percent, every I
	fracLenFew := ev.Pick(r, 3, 4)  // decimals of a percent, I in fewInts
	numLen := ev.Pick(r, 2, 3)      // digits of a numerator / denominator, separator "/"
	numLenBlank := ev.Pick(r, 1, 2) // same, the three separators holding a blank
	vmAlphabet := ev.Pick(r, "01258", all)
	ints := intsUpTo(digitStrings(all, 1, 3), 109) // 0..109 in every spelling of up to 3 digits: 7, 07, 007
	fewInts := []string{"0", "00", "1", "99", "100"}
	parsePercent := append(percentSpellings(ints, append([]string{""}, digitStrings(all, 1, fracLen)...)),
		percentSpellings(fewInts, digitStrings(all, fracLen+1, fracLenFew))...)
	parseFraction := append(fractionSpellings(digitStrings(all, 1, numLen), digitStrings(all, 1, numLen), []string{"/"}),
		fractionSpellings(digitStrings(all, 1, numLenBlank), digitStrings(all, 1, numLenBlank), []string{" /", "/ ", " / "})...)
	if numLen < 3 {
		// three-digit numbers over {0,1}: 010/100, 001/010, 100/101 ...
		parseFraction = append(parseFraction, fractionSpellings(digitStrings("01", 3, 3), digitStrings("01", 3, 3), []string{"/"})...)
	}
	// through the machine: 0, 1, 2, 5, 8 = the leading zero, ordinary digits, a digit that is none in base eight
	vmInts := append(digitStrings(vmAlphabet, 1, 2), "100", "010", "000")
	vmPercent := percentSpellings(vmInts, append([]string{""}, digitStrings(vmAlphabet, 1, 2)...))
	vmFraction := append(fractionSpellings(digitStrings(vmAlphabet, 1, 2), digitStrings(vmAlphabet, 1, 2), []string{"/", " / "}),
		fractionSpellings(digitStrings("01", 3, 3), digitStrings("01", 3, 3), []string{"/"})...)
	if thorough {
		vmPercent = append(vmPercent, percentSpellings(fewInts, digitStrings(all, 3, 3))...)
	}
	number := func(lists ...[]c24spelling) []c24spelling {
		var out []c24spelling
		for _, l := range lists {
			out = append(out, l...)
		}
		for i := range out {
			out[i].rank = i
		}
		return out
	}
	parseSpace := number(parsePercent, parseFraction)
	onlyValid := func(in []c24spelling) []c24spelling {
		var out []c24spelling
		for _, s := range in {
			if s.valid() {
				out = append(out, s)
			}
		}
		return out
	}
	vmSpace := onlyValid(number(vmPercent, vmFraction))

	// ---- findings: first failing case of a signature in enumeration order ------------------
	type finding struct {
		rank   [4]int
		what   string
		replay map[string]any
	}
	var fmu sync.Mutex
	findings := map[string]*finding{}
	less := func(a, b [4]int) bool {
		for i := range a {
			if a[i] != b[i] {
				return a[i] < b[i]
			}
		}
		return false
	}
	report := func(sig string, rank [4]int, what string, replay map[string]any) {
		fmu.Lock()
		defer fmu.Unlock()
		if f, ok := findings[sig]; ok && !less(rank, f.rank) {
			return
		}
		findings[sig] = &finding{rank, what, replay}
	}

	var cut atomic.Bool
	parallel := func(n int, f func(i int)) {
		var wg sync.WaitGroup
		var next atomic.Int64
		for w := 0; w < runtime.NumCPU(); w++ {
			wg.Add(1)
			go func() {
				defer wg.Done()
				for {
					lo := int(next.Add(256)) - 256
					if lo >= n {
						return
					}
					if expired() {
						cut.Store(true)
						return
					}
					for i := lo; i < lo+256 && i < n; i++ {
						f(i)
					}
				}
			}()
		}
		wg.Wait()
	}

	// ---- direct: ParsePortionSpecific(text) ----------------------------------------------
	var parsed, accepted, refused, parsedLeadingZero, parsedSubOne atomic.Int64
	parallel(len(parseSpace), func(i int) {
		s := parseSpace[i]
		parsed.Add(1)
		if s.class == "leading-zero" {
			parsedLeadingZero.Add(1)
		}
		if s.subOne() {
			parsedSubOne.Add(1)
		}
		sig := "C24:spelling:parse:" + s.notation + ":" + s.class
		val := s.denotes()
		denotes := "nothing (zero denominator)"
		if val != nil {
			denotes = val.RatString()
		}
		p, err := machine.ParsePortionSpecific(s.text)
		replay := map[string]any{"text": s.text, "denotes": denotes}
		switch {
		case err != nil:
			refused.Add(1)
			if s.valid() {
				report(sig, [4]int{0, 1, s.rank, 0}, fmt.Sprintf("ParsePortionSpecific(%q) refuses a portion that denotes %s: %v", s.text, denotes, err), replay)
			}
		case p == nil || p.Remaining || p.Specific == nil:
			report(sig, [4]int{0, 1, s.rank, 0}, fmt.Sprintf("ParsePortionSpecific(%q) returns no specific portion and no error", s.text), replay)
		default:
			accepted.Add(1)
			if val == nil || p.Specific.Cmp(val) != 0 {
				report(sig, [4]int{0, 0, s.rank, 0}, fmt.Sprintf("ParsePortionSpecific(%q) = %s, the text denotes %s", s.text, p.Specific.RatString(), denotes), replay)
			}
		}
	})

	// ---- through the machine ---------------------------------------------------------------
	funds := new(big.Int).Exp(big.NewInt(10), big.NewInt(40), nil)
	amounts := []*big.Int{big.NewInt(1000000), big.NewInt(999983)} // exact for every percent of the space; prime
	var scripts, runs, runsLeadingZero, runsSubOne, runsLeftover atomic.Int64
	var byRoute [3]atomic.Int64
	samples := ev.NewSamples(4)
	routes := []c24spellRoute{
		{"literal", []string{"dst-remaining", "dst-explicit"}},
		{"variable", []string{"dst-remaining", "src-remaining"}},
		{"metadata", []string{"dst-remaining", "src-remaining"}},
	}
	one := big.NewRat(1, 1)
	evalRun := func(ri int, route, form string, fi int, s c24spelling, val *big.Rat, text string, res machineRun, vars map[string]string, meta map[string]map[string]string, amt *big.Int, ai int) {
		runs.Add(1)
		byRoute[ri].Add(1)
		if s.class == "leading-zero" {
			runsLeadingZero.Add(1)
		}
		if s.subOne() {
			runsSubOne.Add(1)
		}
		sig := "C24:spelling:" + route + ":" + s.notation + ":" + s.class
		// within a signature a wrong amount is reported before a refusal, then in enumeration order
		rank := [4]int{ri + 1, 0, s.rank, fi*len(amounts) + ai}
		refusal := rank
		refusal[1] = 1
		replay := map[string]any{"program": text, "vars": vars, "metadata": meta, "uniform_balance": funds.String(), "amount": amt.String(), "written_portion": s.text, "denotes": val.RatString()}
		if res.Panic != nil {
			report(sig, refusal, fmt.Sprintf("portion %q (%s, %s route): the machine panics: %v | %s", s.text, val.RatString(), route, res.Panic, text), replay)
			return
		}
		if res.Err != nil {
			report(sig, refusal, fmt.Sprintf("portion %q denotes %s, a valid portion, but the script fails at stage %s: %s | %s", s.text, val.RatString(), res.Stage, shortErr(res.Err), text), replay)
			return
		}
		resolved := []*big.Rat{val, new(big.Rat).Sub(one, val)}
		floors := make([]*big.Int, 2)
		total := new(big.Int)
		for i, q := range resolved {
			f := new(big.Int).Mul(amt, q.Num())
			f.Div(f, q.Denom())
			floors[i] = f
			total.Add(total, f)
		}
		left := new(big.Int).Sub(amt, total)
		if left.Sign() > 0 {
			runsLeftover.Add(1)
		}
		got := []*big.Int{new(big.Int), new(big.Int)}
		sum := new(big.Int)
		for _, po := range res.Postings {
			a := po.Amount.ToBigInt()
			sum.Add(sum, a)
			acc, pfx := po.Destination, "d"
			if form == "src-remaining" {
				acc, pfx = po.Source, "s"
			}
			switch acc {
			case pfx + "0":
				got[0].Add(got[0], a)
			case pfx + "1":
				got[1].Add(got[1], a)
			}
		}
		replay["postings"] = postingsString(res.Postings)
		for i := range got {
			want := new(big.Int).Set(floors[i])
			if big.NewInt(int64(i)).Cmp(left) < 0 {
				want.Add(want, big.NewInt(1))
			}
			if got[i].Cmp(want) != 0 {
				report(sig, rank, fmt.Sprintf("send [%s %s] through `%s` written %q (= %s): part %d is %s on the postings, want %s (floor %s, %s leftover unit(s) to the earliest parts); parts %v sum to %s | %s",
					assetMain, amt, form, s.text, val.RatString(), i, got[i], want, floors[i], left, got, sum, text), replay)
				return
			}
		}
		if sum.Cmp(amt) != 0 {
			report(sig, rank, fmt.Sprintf("send [%s %s] through `%s` written %q: postings sum to %s | %s", assetMain, amt, form, s.text, sum, text), replay)
		}
	}
	runAmounts := func(form string) []*big.Int {
		if form == "src-remaining" {
			return amounts[1:]
		}
		return amounts
	}
	for ri, rt := range routes {
		space := vmSpace
		// variable / metadata: the text is an input of the run, not of the compilation: one
		// compilation per form serves every spelling (a compiled program is shared between
		// requests by the ledger too)
		shared := map[string]*program.Program{}
		if rt.name != "literal" && len(space) > 0 {
			for _, form := range rt.forms {
				text, _, _ := c24spellScript(rt.name, form, space[0])
				prog, err := compiler.Compile(text)
				if err != nil {
					r.EngineError("spelling leg: the compiler rejects the " + rt.name + " script: " + shortErr(err) + " | " + text)
					continue
				}
				scripts.Add(1)
				shared[form] = prog
			}
		}
		parallel(len(space), func(i int) {
			s := space[i]
			val := s.denotes()
			for fi, form := range rt.forms {
				if rt.name == "literal" && form == "dst-remaining" && val.Cmp(one) == 0 {
					continue // the compiler refuses `remaining` next to literals that already make 100%
				}
				text, vars, meta := c24spellScript(rt.name, form, s)
				prog := shared[form]
				if rt.name == "literal" {
					var err error
					scripts.Add(1)
					prog, err = compiler.Compile(text)
					if err != nil {
						sig := "C24:spelling:" + rt.name + ":" + s.notation + ":" + s.class
						report(sig, [4]int{ri + 1, 1, s.rank, fi * len(amounts)}, fmt.Sprintf("portion %q denotes %s (with %q: 100%%), but the compiler refuses the allotment: %s | %s", s.text, val.RatString(), map[bool]string{true: s.complement(), false: "remaining"}[form == "dst-explicit"], shortErr(err), text),
							map[string]any{"program": text, "written_portion": s.text, "denotes": val.RatString()})
						continue
					}
				}
				if prog == nil {
					continue
				}
				for ai, amt := range runAmounts(form) {
					v := make(map[string]string, len(vars)+1)
					for k, x := range vars {
						v[k] = x
					}
					v["amt"] = assetMain + " " + amt.String()
					res := runMachine(prog, v, vmStore{&fakeStore{allAccountsExist: true, uniform: funds, meta: meta}})
					evalRun(ri, rt.name, form, fi, s, val, text, res, v, meta, amt, ai)
				}
				if s.subOne() && s.class == "plain" && fi == 0 {
					samples.Add(map[string]any{"route": rt.name, "program": text, "vars": vars, "metadata": meta, "denotes": val.RatString()})
				}
			}
		})
	}

	sigs := make([]string, 0, len(findings))
	for sig := range findings {
		sigs = append(sigs, sig)
	}
	sort.Strings(sigs)
	for _, sig := range sigs {
		r.Violation(sig, findings[sig].what, findings[sig].replay)
	}
	legCut := cut.Load()
	if legCut {
		exhaustive.Store(false)
		r.Note(fmt.Sprintf("spelling leg cut by the time budget after %v: its vacuity guards are not evaluated", r.Elapsed()-legStart))
	}
	if !legCut { // coverage guards: they do not depend on what was found
		switch {
		case accepted.Load() == 0 || refused.Load() == 0:
			r.EngineError(fmt.Sprintf("vacuous: spelling leg, ParsePortionSpecific accepted %d and refused %d texts", accepted.Load(), refused.Load()))
		case parsedLeadingZero.Load() == 0 || parsedSubOne.Load() == 0:
			r.EngineError("vacuous: spelling leg parsed no text with a leading zero / no percent below 1% with two or more decimals")
		case byRoute[0].Load() == 0 || byRoute[1].Load() == 0 || byRoute[2].Load() == 0:
			r.EngineError(fmt.Sprintf("vacuous: spelling leg ran %d literal, %d variable, %d metadata scripts", byRoute[0].Load(), byRoute[1].Load(), byRoute[2].Load()))
		case runsLeadingZero.Load() == 0 || runsSubOne.Load() == 0 || runsLeftover.Load() == 0:
			r.EngineError("vacuous: spelling leg ran no script with a leading-zero portion / a percent below 1% with two or more decimals / a leftover unit")
		}
	}
	count := func(in []c24spelling, notation string) int {
		n := 0
		for _, s := range in {
			if s.notation == notation {
				n++
			}
		}
		return n
	}
	cov := ev.Coverage{
		"rule": fmt.Sprintf("(S, spellings) texts of the PORTION token read independently in base ten (I.F%% = int(IF)/10^(len(F)+2); N/D): (S-parse) ParsePortionSpecific on every percent I[.F]%% with I any digit string of <=3 digits and value <=109 (leading zeros included: 7, 07, 007) and F absent or any digit string of <=%d digits, plus I in %v with every F of <=%d digits (%d texts), and on every fraction N/D with N, D any digit string of <=%d digits, plus N, D of <=%d digits around ' /', '/ ', ' / ', plus (quick) the 3-digit N, D over {0,1} (%d texts): a text denoting a portion in [0,1] is accepted with exactly that value, an accepted text has no other value; (S-vm) the texts over the digits %s (I of <=2 digits plus 100, 010, 000; F absent or of <=2 digits%s; N, D of <=2 digits, sep '/' or ' / ', plus the 3-digit N, D over {0,1}) that denote a portion in [0,1] (%d texts), each as an allotment LITERAL (`{ <text> to @d0 ; remaining to @d1 }` and `{ <text> to @d0 ; <complement to 100%%> to @d1 }`, one compilation per text and form), as a `portion` VARIABLE and as a portion read from account METADATA (`{ $p to @d0 ; remaining to @d1 }` and `{ $p from @s0 ; remaining from @s1 }`, compiled once: the text is an input), run by the machine with amounts %v, C24 rule checked on the postings for the portion that was written",
			fracLen, fewInts, fracLenFew, count(parseSpace, "percent"), numLen, numLenBlank, count(parseSpace, "fraction"), vmAlphabet, map[bool]string{true: ", 3 digits after " + fmt.Sprint(fewInts), false: ""}[thorough], len(vmSpace), amounts),
		"wall_s":                          r.Elapsed().Seconds() - legStart.Seconds(),
		"completed":                       !legCut,
		"texts_parsed":                    parsed.Load(),
		"texts_accepted":                  accepted.Load(),
		"texts_refused":                   refused.Load(),
		"texts_with_leading_zero":         parsedLeadingZero.Load(),
		"percent_below_1_with_2+decimals": parsedSubOne.Load(),
		"scripts_compiled":                scripts.Load(),
		"runs":                            runs.Load(),
		"runs_literal":                    byRoute[0].Load(),
		"runs_variable":                   byRoute[1].Load(),
		"runs_metadata":                   byRoute[2].Load(),
		"runs_leading_zero_portion":       runsLeadingZero.Load(),
		"runs_percent_below_1_2+decimals": runsSubOne.Load(),
		"runs_with_leftover":              runsLeftover.Load(),
	}
	return cov, samples.List()
}
