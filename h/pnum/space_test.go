package pnum

import (
	"fmt"
	"testing"
	"time"

	"github.com/formancehq/ledger/internal/machine/script/compiler"
	"github.com/formancehq/ledger/verifh/gen"
)

func TestSpaceCounts(t *testing.T) {
	for _, th := range []bool{false, true} {
		sp := numscriptSpace(th)
		fmt.Println(sp.Rule)
		for _, st := range sp.Stages {
			n, cases := 0, 0
			compiled := 0
			var first *gen.Program
			start := time.Now()
			st.Progs(func(p *gen.Program) bool {
				if first == nil {
					first = p
				}
				n++
				if (!th && n%7 == 0) || n%501 == 0 {
					if _, err := compiler.Compile(p.Text()); err == nil {
						compiled++
						forEachEnv(p, func(*gen.Env) { cases++ })
					}
				}
				return true
			})
			fmt.Printf("thorough=%v %s: programs=%d compiled=%d cases=%d in %v\n", th, st.Name, n, compiled, cases, time.Since(start))
			_ = first
		}
	}
}
