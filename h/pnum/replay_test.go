package pnum

import (
	"flag"
	"testing"
)

var replayFile = flag.String("replay", "", "replay file written by a C22..C27 check")

// go test ./pnum -run TestReplay -replay=/verif/replays/C26-xxxx.json -v
func TestReplay(t *testing.T) {
	if *replayFile == "" {
		t.Skip("no -replay file")
	}
	if err := Replay(*replayFile); err != nil {
		t.Fatal(err)
	}
}
