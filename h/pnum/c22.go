package pnum

import (
	"fmt"
	"math/big"
	"sync/atomic"
	"time"

	"github.com/formancehq/ledger/internal/machine/script/compiler"
	"github.com/formancehq/ledger/internal/machine/vm"
	"github.com/formancehq/ledger/internal/machine/vm/program"
	"github.com/formancehq/ledger/verifh/ev"
	"github.com/formancehq/ledger/verifh/gen"
	"github.com/formancehq/ledger/verifh/reg"
)

// C22 — Numscript sends move exactly the requested amount.
//
// Every program of numscriptSpace is compiled by the real compiler and executed
// by the real VM (same call sequence as MachineNumscriptRuntimeAdapter) for
// every variable assignment and balance vector. On each successful run:
//   - every posting amount >= 0 and in the asset of the send that produced it
//   - the postings of a send sum to its amount minus what its destination keeps
//     (`kept` => no posting); for `send [A *]` the amount is what refAvailable
//     says the sources can give, from the balances at that point of the script
//   - Machine.Balances (tracked pairs) == initial - saved + postings
//
// The amount of `send $bal` ($bal = balance(@a, COIN), resolved before the script
// runs) is the INITIAL balance of @a from the input vector, never a value read back
// from the machine: the pair stage has every order (statement crediting / saving /
// draining @a ; send $bal ...).
//
// Two stages of space_ext.go come on top of the shared space: X1 sends machine-word sized
// amounts (10^18 .. 2^64 .. 10^30, balances up to 10^31) through every flat source and
// destination allotment of a portion menu with numerators > 1, so that the conservation
// law is also evaluated where amount x numerator leaves the 64-bit word although the amount
// fits it (signature suffix :amount-x-numerator-ge-2^64); X2a writes sums and differences of
// monetaries where a send takes a monetary (amount, `max`, overdraft bound): the sent amount
// is then the value of the expression.
//
// After every run (successful or not) the state that outlives it is checked: the
// package-level values machine.Zero and ledger.Zero are still 0 and the compiled
// program (cached and shared between requests by the ledger) still has its constants.
// A run is a function of (program, vars, balances): one that changes this state makes
// every later send of the process move a wrong amount. globalGuard (explore.go) keeps
// the parallel workers independent when that happens and names the run that did it.
//
// Postings are attributed to statements by running the one-statement prefix of a
// two-send program on the same input: its postings are a prefix of the full run.
func init() { reg.Register("C22", c22) }

type c22Local struct {
	prefix     *program.Program // program made of the first statement only (two-send programs)
	prefixVars []string
	nontrivial bool
	hasSave    bool
	fp         string // programFingerprint of the compiled program before its first run
}

func c22() int {
	tuneRuntime()
	r := ev.Start("C22", ev.LevelExploration, 100*time.Second, 15*time.Minute)
	sp := numscriptSpace(r.Thorough())
	// X1 (word-sized amounts through allotments) and X2a (sums / differences of monetaries in the
	// positions of a send): see space_ext.go. X2b (`save <expr>`) is C23's: what `save` does to
	// the tracked balance is not part of this property's statement.
	x1, x1Rule := largeAmountStage(r.Thorough())
	x2, x2Rule := exprStages(r.Thorough(), false)
	sp.Stages = append(append([]stage{x1}, x2...), sp.Stages...)
	sp.Rule += "; " + x1Rule + "; " + x2Rule
	// The small stages go first (statement menu alone, variable amounts, every ordered pair
	// of the statement menu: save, balance() variables, two sends, second asset): a run cut
	// by its budget on a loaded machine has then covered every statement kind and every
	// two-statement order, and what it loses is the tail of the big one-send products.
	sp.Stages = stagesFirst(sp.Stages, "X1:", "X2a:", "E4:", "E3:", "E5:")
	guard := &globalGuard{}
	samples := ev.NewSamples(6)
	var nontrivial, sendsChecked, sendAllChecked, sendAllPositive, keptChecked, keptPositive, balancesChecked, balancePairs, refUndecided, twoSend atomic.Int64
	var balVarSends, balVarAfterCredit, balVarAfterChange, creditAfterSaveAll, programChecks atomic.Int64
	var wordProductSrc, wordProductDst, exprAmountSends atomic.Int64

	viol := func(sig, what string, pc *progCtx, env *gen.Env, res *machineRun) {
		r.Violation(sig, what+" | program: "+pc.Text, replayObj(pc.Text, env, map[string]any{"postings": postingsString(res.Postings), "machine_balances": balString(res.Balances)}))
	}

	// state that outlives the run: evaluated for EVERY run, before anything else
	globalChecks := func(pc *progCtx, l *c22Local, env *gen.Env, res *machineRun, which string) {
		for _, d := range res.GlobalsMutated {
			viol("C22:global-state:"+d.Name, fmt.Sprintf("after this run (%s, outcome %s, alone in the process, from restored globals) the package-level value %s is %s instead of 0: every later run of the process computes with it", which, runOutcome(res), d.Name, d.What), pc, env, res)
		}
		if which == "program" {
			programChecks.Add(1)
			if fp := programFingerprint(pc.Prog); fp != l.fp {
				viol("C22:global-state:compiled-program", fmt.Sprintf("the run (outcome %s) changed the compiled program (instructions|resources): before %s, after %s", runOutcome(res), l.fp, fp), pc, env, res)
				l.fp = fp
			}
		}
	}

	v := machineVisitor{
		Guard: guard,
		Begin: func(pc *progCtx) {
			l := &c22Local{fp: programFingerprint(pc.Prog)}
			pc.Local = l
			nSend := 0
			for _, s := range pc.P.Stmts {
				if s.K == gen.StSend {
					nSend++
				}
				if s.K == gen.StSave {
					l.hasSave = true
				}
			}
			if nSend == 2 {
				pp := &gen.Program{Stmts: pc.P.Stmts[:1], Cat: pc.P.Cat}
				prog, err := compiler.Compile(pp.Text())
				if err != nil {
					r.EngineError("attribution: prefix of a compiled program does not compile: " + pc.Text)
					return
				}
				l.prefix = prog
				l.prefixVars = pp.UsedVars()
			}
		},
		Each: func(pc *progCtx, env *gen.Env, res *machineRun) {
			globalChecks(pc, pc.Local.(*c22Local), env, res, "program")
			if res.Panic != nil {
				r.Note(fmt.Sprintf("panic (reported by C27, not a C22 matter): %v | %s", res.Panic, pc.Text))
				return
			}
			if res.Err != nil {
				return
			}
			l := pc.Local.(*c22Local)
			if len(res.Postings) > 0 {
				l.nontrivial = true
			}
			// ---- attribute postings to send statements --------------------------------
			segs := make([][]vm.Posting, len(pc.P.Stmts))
			var sendIdx []int
			for i, s := range pc.P.Stmts {
				if s.K == gen.StSend {
					sendIdx = append(sendIdx, i)
				}
			}
			switch len(sendIdx) {
			case 0:
				if len(res.Postings) != 0 {
					viol("C22:postings-without-send", fmt.Sprintf("%d postings from a program without send", len(res.Postings)), pc, env, res)
				}
			case 1:
				segs[sendIdx[0]] = res.Postings
			case 2:
				if l.prefix == nil {
					return
				}
				twoSend.Add(1)
				pv := map[string]string{}
				for _, n := range l.prefixVars {
					if val, ok := env.Vars[n]; ok {
						pv[n] = val
					}
				}
				pres, _ := guard.run(l.prefix, pv, func() *fakeStore { return newFakeStore(env) })
				globalChecks(pc, l, env, &pres, "its first statement alone")
				if pres.Err != nil || pres.Panic != nil {
					r.EngineError(fmt.Sprintf("attribution: first statement alone fails (%v/%v) while the two-statement program succeeds: %s", pres.Err, pres.Panic, pc.Text))
					return
				}
				n := len(pres.Postings)
				if n > len(res.Postings) {
					r.EngineError("attribution: prefix run has more postings than the full run: " + pc.Text)
					return
				}
				for i := 0; i < n; i++ {
					a, b := pres.Postings[i], res.Postings[i]
					if a.Source != b.Source || a.Destination != b.Destination || a.Asset != b.Asset || a.Amount.Cmp(b.Amount) != 0 {
						r.EngineError("attribution: postings of the first statement alone are not a prefix of the full run: " + pc.Text)
						return
					}
				}
				segs[sendIdx[0]] = res.Postings[:n]
				segs[sendIdx[1]] = res.Postings[n:]
			}

			// ---- walk the script with the reference state -------------------------------
			cur := balState{}
			for a, m := range env.Bal {
				for k, val := range m {
					cur.get(a, k).Set(val)
				}
			}
			credited := map[string]bool{} // pairs an earlier posting credited with a positive amount
			savedAll := map[string]bool{} // tracked pairs a `save [A *]` emptied (positive balance) so far
			for i, s := range pc.P.Stmts {
				switch s.K {
				case gen.StSave:
					acc, ok := env.Account(s.Acc)
					if !ok {
						continue
					}
					if s.All {
						asset, _ := env.AssetOf(s.Asset)
						if b := cur.get(acc, asset); b.Sign() > 0 {
							b.SetInt64(0)
							if _, tracked := res.Balances[acc][asset]; tracked {
								savedAll[acc+"\x00"+asset] = true
							}
						}
					} else if asset, amt, ok := env.Monetary(s.Amt); ok {
						b := cur.get(acc, asset)
						b.Sub(b, amt)
					}
				case gen.StSend:
					seg := segs[i]
					var asset string
					var amount *big.Int
					decided := true
					kind := "send-amount"
					// amount = a balance() variable: was its account credited / changed before?
					balVar, balCredited, balChanged := false, false, false
					if d, isVar := pc.P.Cat[s.Amt.Var]; !s.All && isVar && d.Origin == "balance" {
						if oacc, ok1 := env.Account(d.OAcc); ok1 {
							if oasset, ok2 := env.AssetOf(d.OKey); ok2 {
								balVar = true
								kind = "send-amount:balance-variable"
								balCredited = credited[oacc+"\x00"+oasset]
								balChanged = cur.get(oacc, oasset).Cmp(env.Balance(oacc, oasset)) != 0
							}
						}
					}
					if s.All {
						kind = "send-star"
						asset, _ = env.AssetOf(s.Asset)
						amount, decided = refAvailable(s.Src, env, asset, cur)
					} else {
						var ok bool
						asset, amount, ok = env.Monetary(s.Amt)
						decided = ok
					}
					sum := new(big.Int)
					for _, p := range seg {
						amt := p.Amount.ToBigInt()
						if amt.Sign() < 0 {
							viol("C22:negative-posting:"+kind, fmt.Sprintf("posting %s->%s %s %s is negative", p.Source, p.Destination, amt, p.Asset), pc, env, res)
						}
						if asset != "" && p.Asset != asset {
							viol("C22:foreign-asset:"+kind, fmt.Sprintf("posting %s->%s %s in asset %s, statement asset %s", p.Source, p.Destination, amt, p.Asset, asset), pc, env, res)
						}
						sum.Add(sum, amt)
						// apply to the reference state
						sb := cur.get(p.Source, p.Asset)
						sb.Sub(sb, amt)
						db := cur.get(p.Destination, p.Asset)
						db.Add(db, amt)
						if amt.Sign() > 0 {
							key := p.Destination + "\x00" + p.Asset
							credited[key] = true
							if savedAll[key] {
								creditAfterSaveAll.Add(1)
							}
						}
					}
					if !decided {
						refUndecided.Add(1)
						continue
					}
					kept, ok := refKept(s.Dst, env, asset, amount)
					if !ok {
						refUndecided.Add(1)
						continue
					}
					want := new(big.Int).Sub(amount, kept)
					sendsChecked.Add(1)
					// the send goes through a top-level allotment whose amount fits a 64-bit word while
					// amount x (numerator of one of its portions) does not
					wordSrc := s.Src.K == gen.SAllot && wordProduct(amount, s.Src.Por, env)
					wordDst := s.Dst.K == gen.DAllot && wordProduct(amount, s.Dst.Por, env)
					if wordSrc {
						wordProductSrc.Add(1)
					}
					if wordDst {
						wordProductDst.Add(1)
					}
					if !s.All && s.Amt.IsExpr() {
						exprAmountSends.Add(1)
					}
					if balVar {
						balVarSends.Add(1)
						if balCredited {
							balVarAfterCredit.Add(1)
						}
						if balChanged {
							balVarAfterChange.Add(1)
						}
					}
					if s.All {
						sendAllChecked.Add(1)
						if amount.Sign() > 0 {
							sendAllPositive.Add(1)
						}
					}
					if dstHasKept(s.Dst) {
						keptChecked.Add(1)
						if kept.Sign() > 0 {
							keptPositive.Add(1)
						}
					}
					if sum.Cmp(want) != 0 {
						sig := "C22:sum-mismatch:" + kind
						if kept.Sign() > 0 {
							sig += ":kept"
						}
						note := ""
						if wordSrc || wordDst {
							sig += ":amount-x-numerator-ge-2^64"
							note = "; the amount fits a 64-bit word, its product with a numerator of the allotment does not"
						}
						viol(sig, fmt.Sprintf("statement %d: postings sum to %s, expected %s (sent %s, kept %s)%s", i+1, sum, want, amount, kept, note), pc, env, res)
					}
				}
			}
			// ---- tracked balances ---------------------------------------------------------
			balancesChecked.Add(1)
			for acc, m := range res.Balances {
				for asset, got := range m {
					balancePairs.Add(1)
					want := cur.get(acc, asset)
					if got.Cmp(want) != 0 {
						sig := "C22:tracked-balance-mismatch"
						if !res.Queried[acc+"\x00"+asset] {
							// an entry of Machine.Balances the machine never fetched from the store
							sig += ":pair-never-fetched"
						}
						if l.hasSave {
							sig += ":with-save"
						}
						viol(sig, fmt.Sprintf("Machine.Balances[%s][%s] = %s, initial%s+postings = %s", acc, asset, got, map[bool]string{true: "-saved", false: ""}[l.hasSave], want), pc, env, res)
					}
				}
			}
			if len(res.Postings) > 0 {
				samples.Add(map[string]any{"program": pc.Text, "vars": env.Vars, "balances": balString(env.Bal), "postings": postingsString(res.Postings), "machine_balances": balString(res.Balances)})
			}
		},
		End: func(pc *progCtx) {
			if l, ok := pc.Local.(*c22Local); ok && l.nontrivial {
				nontrivial.Add(1)
			}
		},
	}
	st, stages, all := exploreMachineSpace(r, sp, v)

	if r.ViolationCount() == 0 {
		switch {
		case st.Compiled.Load() == 0:
			r.EngineError("vacuous: no generated program compiled")
		case st.Postings.Load() == 0:
			r.EngineError("vacuous: no posting was produced")
		case sendAllPositive.Load() == 0:
			r.EngineError("vacuous: no `send [A *]` with positive available funds was checked")
		case keptPositive.Load() == 0:
			r.EngineError("vacuous: no send with a positive kept amount was checked")
		case balancePairs.Load() == 0:
			r.EngineError("vacuous: Machine.Balances never had a tracked pair")
		case twoSend.Load() == 0:
			r.EngineError("vacuous: no two-send program succeeded")
		case balVarAfterCredit.Load() == 0:
			r.EngineError("vacuous: no `send $bal` ($bal = balance(X, A)) was checked after an earlier statement had credited X in A")
		case wordProductSrc.Load() == 0 || wordProductDst.Load() == 0:
			r.EngineError(fmt.Sprintf("vacuous: no successful send through an allotment whose amount fits a 64-bit word while amount x numerator does not (source allotments %d, destination allotments %d)", wordProductSrc.Load(), wordProductDst.Load()))
		case exprAmountSends.Load() == 0:
			r.EngineError("vacuous: no successful send whose amount is a sum / difference of monetaries was checked")
		case creditAfterSaveAll.Load() == 0:
			r.EngineError("vacuous: no successful run credited a tracked account after `save [A *]` had emptied it")
		case guard.Checks.Load() < st.Evals.Load() || programChecks.Load() != st.Evals.Load():
			r.EngineError(fmt.Sprintf("vacuous: the global-state invariant was not evaluated after every run (%d package-level / %d compiled-program evaluations for %d runs)", guard.Checks.Load(), programChecks.Load(), st.Evals.Load()))
		}
	}
	cov := ev.Coverage{
		"distinct_nontrivial":        nontrivial.Load(),
		"rule":                       sp.Rule + "; stages run small-first (X1, X2a, statement menu, variable amounts, ordered pairs, then the one-send products); after EVERY run, failed ones included: machine.Zero == 0, ledger.Zero == 0, compiled program (instructions, constant resources) unchanged; distinct_nontrivial = distinct programs that compiled AND had at least one successful run producing >= 1 posting",
		"samples":                    samples.List(),
		"exhaustive":                 all,
		"stages":                     stages,
		"bounds_fully_covered":       coveredStages(stages),
		"sends_checked":              sendsChecked.Load(),
		"send_star_checked":          sendAllChecked.Load(),
		"send_star_positive":         sendAllPositive.Load(),
		"sends_with_kept_checked":    keptChecked.Load(),
		"sends_with_positive_kept":   keptPositive.Load(),
		"runs_balance_checked":       balancesChecked.Load(),
		"tracked_pairs_checked":      balancePairs.Load(),
		"two_send_runs_attributed":   twoSend.Load(),
		"balance_var_sends_checked":  balVarSends.Load(),
		"bal_var_sends_after_credit": balVarAfterCredit.Load(),
		"bal_var_sends_after_change": balVarAfterChange.Load(),
		"credits_after_save_all":     creditAfterSaveAll.Load(),
		"sends_checked_src_allotment_amount_lt_2^64_product_ge_2^64": wordProductSrc.Load(),
		"sends_checked_dst_allotment_amount_lt_2^64_product_ge_2^64": wordProductDst.Load(),
		"sends_checked_expression_amount":                            exprAmountSends.Load(),
		"global_state_checks":                                        guard.Checks.Load(),
		"compiled_program_checks":                                    programChecks.Load(),
		"runs_redone_after_damage":                                   guard.Redone.Load(),
		"reference_undecided_sends":                                  refUndecided.Load(),
		"traces_validated_against_impl":                              st.Evals.Load(),
	}
	st.fill(cov)
	return r.Finish(cov, []string{
		"the machine is driven with the call sequence of MachineNumscriptRuntimeAdapter.Execute (NewMachine, SetVarsFromJSON, ResolveResources, ResolveBalances, Execute) on an in-memory store that answers every balance query with the case's vector (0 for unknown pairs)",
		"postings of a two-send program are attributed by running its first statement alone on the same input and requiring its postings to be a prefix (a mismatch is an engine error)",
		"the amount of a send whose amount is a balance() variable is the input vector's balance of that account (resolved before execution), whatever earlier statements did to the account",
		"state outliving a run = the exported package-level values of internal/machine and internal (machine.Zero, ledger.Zero) and the compiled program; every run holds a read lock, a run that finds the state damaged is redone alone under the write lock from restored values, and only a run that damages it again when alone is reported (signature C22:global-state:<value>)",
		"`save` is read as lowering the tracked balance (monetary: minus the amount; `*`: to 0 if positive); programs with save use signature suffix :with-save",
		"a send's expected sum is amount minus what the reference destination evaluator routes to `kept` (allotment split = floor + leftover to earliest parts, the C24 rule)",
	})
}

func runOutcome(res *machineRun) string {
	switch {
	case res.Panic != nil:
		return "panic"
	case res.Err != nil:
		return res.Stage + ":" + errKind(res.Err)
	}
	return "ok"
}
