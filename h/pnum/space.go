package pnum

import (
	"fmt"
	"strings"

	"github.com/formancehq/ledger/verifh/gen"
)

// The Numscript program space shared by C22, C23, C26 and C27 (DESIGN §5 group E).
//
// Everything below is a plain cartesian enumeration over explicit menus; nothing
// is sampled. The space is organised in stages (bounds) of growing size so that a
// run that hits its time budget can say which bounds were covered completely.

func catalog(thorough bool) gen.Catalog {
	accVals := []string{"c", "a"}
	monVals := []string{"COIN 3"}
	pVals := []string{"1/4"}
	// a second account variable over the same accounts as $acc, so that two DIFFERENT
	// expressions ($acc / $acc2 / the literal @a) can denote the SAME account (aliasStage)
	acc2Vals := []string{"a", "c"}
	if thorough {
		acc2Vals = []string{"a", "c", "b"}
		accVals = []string{"c", "a", "world"}
		monVals = []string{"COIN 3", "COIN 0"}
		pVals = []string{"1/4", "0%", "100%"}
	}
	return gen.Catalog{
		"acc":  {Type: "account", Name: "acc", Values: accVals},
		"acc2": {Type: "account", Name: "acc2", Values: acc2Vals},
		"mon":  {Type: "monetary", Name: "mon", Values: monVals},
		"p":    {Type: "portion", Name: "p", Values: pVals},
		"n":    {Type: "number", Name: "n", Values: []string{"42"}},
		"s":    {Type: "string", Name: "s", Values: []string{"hello"}},
		"ast":  {Type: "asset", Name: "ast", Values: []string{"COIN"}},
		"macc": {Type: "account", Name: "macc", Origin: "meta", OAcc: "@m", OKey: "acc"},
		"mp":   {Type: "portion", Name: "mp", Origin: "meta", OAcc: "@m", OKey: "por"},
		"mmon": {Type: "monetary", Name: "mmon", Origin: "meta", OAcc: "@m", OKey: "mon"},
		"bal":  {Type: "monetary", Name: "bal", Origin: "balance", OAcc: "@a", OKey: "COIN"},
		"balv": {Type: "monetary", Name: "balv", Origin: "balance", OAcc: "$acc", OKey: "COIN"},
	}
}

type spaceDesc struct {
	Stages []stage
	Rule   string
}

func coin(n int64) gen.Mon { return gen.LitMon(assetMain, n) }

func amountMenuText(as []gen.Amount) string {
	out := make([]string, len(as))
	for i, a := range as {
		if a.All {
			out[i] = "[" + a.Asset + " *]"
		} else {
			out[i] = a.Mon.String()
		}
	}
	return "{" + strings.Join(out, ", ") + "}"
}

func concatSrc(xs ...[]*gen.Src) []*gen.Src {
	var out []*gen.Src
	for _, x := range xs {
		out = append(out, x...)
	}
	return out
}
func concatDst(xs ...[]*gen.Dst) []*gen.Dst {
	var out []*gen.Dst
	for _, x := range xs {
		out = append(out, x...)
	}
	return out
}

func yieldStmts(cat gen.Catalog, stmts []*gen.Stmt) func(func(*gen.Program) bool) {
	return func(yield func(*gen.Program) bool) {
		for _, s := range stmts {
			if !yield(&gen.Program{Stmts: []*gen.Stmt{s}, Cat: cat}) {
				return
			}
		}
	}
}

func yieldProduct(cat gen.Catalog, as []gen.Amount, ss []*gen.Src, ds []*gen.Dst) func(func(*gen.Program) bool) {
	return func(yield func(*gen.Program) bool) {
		for _, s := range ss {
			for _, d := range ds {
				for _, a := range as {
					if !yield(&gen.Program{Stmts: []*gen.Stmt{gen.Send(a, s, d)}, Cat: cat}) {
						return
					}
				}
			}
		}
	}
}

func yieldPairs(cat gen.Catalog, first, second []*gen.Stmt) func(func(*gen.Program) bool) {
	return func(yield func(*gen.Program) bool) {
		for _, a := range first {
			for _, b := range second {
				if !yield(&gen.Program{Stmts: []*gen.Stmt{a, b}, Cat: cat}) {
					return
				}
			}
		}
	}
}

// aliasStage: two-send programs whose sources are written as DIFFERENT expressions that the
// inputs bind to the SAME account (and to different ones): the literal @a, the variables
// $acc and $acc2 (both range over {a, c}), an in-order source of both, a bounded overdraft on
// a variable; amounts in both assets (and balance($acc, COIN), which makes the runtime fetch
// a balance for the variable's account on its own). A runtime that keys anything it fetches
// or tracks by EXPRESSION (resource) rather than by account name is only exercised by these
// inputs: every other stage names an account through one expression per program, or uses one
// asset per account.
func aliasStage(thorough bool) stage {
	cat := catalog(thorough)
	acc := func(a string) *gen.Src { return &gen.Src{K: gen.SAcc, Acc: a} }
	srcs := []*gen.Src{
		acc("@a"), acc("$acc"), acc("$acc2"),
		{K: gen.SSeq, Sub: []*gen.Src{acc("$acc"), acc("$acc2")}},
		{K: gen.SOver, Acc: "$acc2", Bound: coin(2)},
	}
	amts := []gen.Amount{
		{Mon: coin(1)}, {Mon: coin(7)}, {Mon: gen.LitMon(assetOther, 1)}, {All: true, Asset: assetOther}, {Mon: gen.VarMon("balv")},
	}
	if thorough {
		srcs = append(srcs, &gen.Src{K: gen.SMax, Max: coin(5), Sub: []*gen.Src{acc("$acc2")}},
			&gen.Src{K: gen.SSeq, Sub: []*gen.Src{acc("@a"), acc("$acc")}})
		amts = append(amts, gen.Amount{Mon: gen.LitMon(assetOther, 7)}, gen.Amount{All: true, Asset: assetMain})
	}
	sends := gen.Sends(amts, srcs, []*gen.Dst{{K: gen.DAcc, Acc: "@b"}})
	// crediting the account through one expression before debiting it through another
	sends = append(sends, gen.Send(gen.Amount{Mon: coin(1)}, acc("@world"), &gen.Dst{K: gen.DAcc, Acc: "$acc2"}))
	return stage{
		Name: fmt.Sprintf("E0: aliasing: every ordered pair of %d sends over sources {@a, $acc, $acc2, {$acc $acc2}, $acc2 overdraft<=[COIN 2]%s} x amounts %s to @b (+ [COIN 1] from @world to $acc2), $acc and $acc2 both ranging over %v / %v", len(sends),
			map[bool]string{false: "", true: ", max [COIN 5] from $acc2, {@a $acc}"}[thorough], amountMenuText(amts), cat["acc"].Values, cat["acc2"].Values),
		Progs: yieldPairs(cat, sends, sends),
	}
}

type menus struct {
	S2, SA1, SA2 []*gen.Src
}

// numscriptMenus returns some of the source menus of a tier (the thorough tier
// reuses the quick depth-2 menus for its largest products).
func numscriptMenus(thorough bool) menus {
	var m menus
	numscriptSpaceInto(thorough, &m)
	return m
}

// numscriptSpace builds the stage list for a tier.
func numscriptSpace(thorough bool) spaceDesc { return numscriptSpaceInto(thorough, nil) }

func numscriptSpaceInto(thorough bool, out *menus) spaceDesc {
	cat := catalog(thorough)

	// ---- menus -------------------------------------------------------------
	amtLits := []int64{0, 1, 7, 100}
	amounts := gen.Amounts(assetMain, amtLits, true, nil)
	amountsVar := []gen.Amount{{Mon: gen.VarMon("mon")}, {Mon: gen.VarMon("bal")}, {Mon: gen.VarMon("mmon")},
		{Mon: gen.Mon{Asset: "$ast", Amt: "7"}}, {All: true, Asset: "$ast"}}

	srcAccs := []string{"@a", "@b", "$acc"}
	bounds := []gen.Mon{coin(2)}
	maxes := []gen.Mon{coin(1), coin(5)}
	if thorough {
		bounds = []gen.Mon{coin(2), coin(10)}
		maxes = []gen.Mon{coin(0), coin(1), coin(5), gen.VarMon("mon")}
	}
	L := gen.SrcLeaves(srcAccs, bounds, true, true) // full leaf menu
	// reduced leaf menu used below nesting depth 1
	R := []*gen.Src{
		{K: gen.SAcc, Acc: "@a"}, {K: gen.SAcc, Acc: "@b"}, {K: gen.SAcc, Acc: "@world"}, {K: gen.SAcc, Acc: "$acc"},
		{K: gen.SOver, Acc: "@a", Bound: coin(2)}, {K: gen.SUnb, Acc: "@b"},
	}
	if thorough {
		R = append(R, &gen.Src{K: gen.SOver, Acc: "@b", Bound: coin(10)}, &gen.Src{K: gen.SAcc, Acc: "$macc"})
	}
	S1 := concatSrc(gen.SrcMaxOf(maxes, L), gen.SrcSeq2(L, L)) // depth 1 over the full leaf menu
	maxesR := []gen.Mon{coin(5)}
	maxesR2 := []gen.Mon{coin(1)}
	if thorough {
		maxesR = []gen.Mon{coin(1), coin(5)}
		maxesR2 = []gen.Mon{coin(1), coin(5)}
	}
	S1R := concatSrc(gen.SrcMaxOf(maxesR, R), gen.SrcSeq2(R, R)) // depth 1 over the reduced menu
	S2 := concatSrc(gen.SrcMaxOf(maxesR2, S1R), gen.SrcSeq2(S1R, R), gen.SrcSeq2(R, S1R))
	if thorough {
		S2 = concatSrc(S2, gen.SrcSeq2(S1R, S1R), gen.SrcSeq3(R, R, R))
	}

	porMenu := []string{"1/2", "1/3", "2/3", "remaining"}
	porMenuFull := []string{"1/2", "1/3", "2/3", "50%", "remaining", "$p"}
	pv2 := gen.PortionVectors(porMenu, 2)
	pv2full := gen.PortionVectors(porMenuFull, 2)
	pv3 := gen.PortionVectors([]string{"1/3", "1/2", "remaining", "$mp"}, 3)
	pvNest := [][]string{{"1/3", "2/3"}, {"1/2", "remaining"}}
	if thorough {
		pvNest = append(pvNest, []string{"$p", "remaining"}, []string{"remaining", "50%"})
	}
	// three-part allotments holding an EMPTY portion (0%) at some position: the rounding
	// leftover goes to the earliest parts whatever their ratio, so an empty portion placed
	// before a non-empty one receives a unit (seeded changes C24b / C26b treated a zero
	// portion specially in the VM / in Allocate)
	var pvZero [][]string
	for _, pv := range gen.PortionVectors([]string{"0%", "1/2", "1/3", "remaining"}, 3) {
		for _, x := range pv {
			if x == "0%" {
				pvZero = append(pvZero, pv)
				break
			}
		}
	}
	Rz := R
	if len(Rz) > 3 {
		Rz = Rz[:3]
	}
	SA1 := concatSrc(gen.SrcAllots(pv2, R), gen.SrcAllots(pvZero, Rz)) // allotment of leaves
	if thorough {
		SA1 = concatSrc(gen.SrcAllots(pv2full, L), gen.SrcAllots(pv3, R), gen.SrcAllots(pvZero, Rz))
	}
	// allotment with one nested (depth-1) item and one leaf
	var SA2 []*gen.Src
	for _, pv := range pvNest {
		for _, x := range S1R {
			for _, y := range R {
				SA2 = append(SA2, &gen.Src{K: gen.SAllot, Por: pv, Sub: []*gen.Src{x, y}})
				SA2 = append(SA2, &gen.Src{K: gen.SAllot, Por: pv, Sub: []*gen.Src{y, x}})
			}
		}
	}
	allSrc := concatSrc(L, S1, S2, SA1, SA2)
	if out != nil {
		out.S2, out.SA1, out.SA2 = S2, SA1, SA2
		return spaceDesc{}
	}

	dstAccs := []string{"@a", "@b", "@world", "$acc"}
	if thorough {
		dstAccs = append(dstAccs, "$macc")
	}
	DL := gen.DstLeaves(dstAccs)
	KD0 := gen.KDs(DL, true)
	dmaxes := []gen.Mon{coin(1), coin(5)}
	if thorough {
		dmaxes = []gen.Mon{coin(0), coin(1), coin(5), gen.VarMon("mon")}
	}
	D1seq := gen.DstSeq1(dmaxes, KD0, KD0)
	D1all := concatDst(gen.DstAllots(pv2, KD0), gen.DstAllots(pvZero, gen.KDs(gen.DstLeaves([]string{"@a", "@b", "@world"}), false)))
	if thorough {
		D1all = concatDst(gen.DstAllots(pv2full, KD0), gen.DstAllots(pv3, gen.KDs(gen.DstLeaves([]string{"@a", "@b", "@world"}), true)), gen.DstAllots(pvZero, gen.KDs(gen.DstLeaves([]string{"@a", "@b", "@world"}), false)))
		D1seq = concatDst(D1seq, gen.DstSeq2([]gen.Mon{coin(1), coin(5)}, KD0, KD0, KD0))
	}
	// reduced menus for depth 2
	DR := gen.DstLeaves([]string{"@a", "@b", "@world"})
	KDR := gen.KDs(DR, true)
	D1R := concatDst(gen.DstSeq1([]gen.Mon{coin(5)}, KDR, KDR), gen.DstAllots(pvNest[:2], KDR))
	KD1R := gen.KDs(D1R, false)
	m2 := []gen.Mon{coin(1)}
	if thorough {
		m2 = []gen.Mon{coin(1), coin(5)}
	}
	D2 := concatDst(
		gen.DstSeq1(m2, KD1R, KDR), gen.DstSeq1(m2, KDR, KD1R),
	)
	for _, pv := range pvNest {
		for _, x := range KD1R {
			for _, y := range KDR {
				D2 = append(D2, &gen.Dst{K: gen.DAllot, Por: pv, Items: []gen.KD{x, y}})
				D2 = append(D2, &gen.Dst{K: gen.DAllot, Por: pv, Items: []gen.KD{y, x}})
			}
		}
	}
	if thorough {
		D2 = concatDst(D2, gen.DstSeq1(m2, KD1R, KD1R))
	}
	allDst := concatDst(DL, D1seq, D1all, D2)

	// small "probe" menus used on the other side of a full enumeration
	dstProbe := []*gen.Dst{
		{K: gen.DAcc, Acc: "@b"}, {K: gen.DAcc, Acc: "@world"},
		{K: gen.DSeq, Max: []gen.Mon{coin(1)}, To: []gen.KD{{D: &gen.Dst{K: gen.DAcc, Acc: "@a"}}}, Rem: gen.KD{Kept: true}},
	}
	srcProbe := []*gen.Src{
		{K: gen.SAcc, Acc: "@a"}, {K: gen.SAcc, Acc: "@world"},
		{K: gen.SOver, Acc: "@a", Bound: coin(2)},
		{K: gen.SSeq, Sub: []*gen.Src{{K: gen.SAcc, Acc: "@a"}, {K: gen.SAcc, Acc: "@b"}}},
		{K: gen.SMax, Max: coin(5), Sub: []*gen.Src{{K: gen.SAcc, Acc: "@b"}}},
	}

	// ---- statement menu for two-statement programs ---------------------------
	// $bal = balance(@a, COIN) is resolved BEFORE the script runs: as the amount of a second
	// statement it must still be the initial balance of @a, whatever the first statement did
	// to @a (credited it, saved it, drained it). Every (credit @a ; send $bal ...) and
	// (save ... from @a ; send $bal ... to @a) order is in the pair stage of both tiers.
	tAmts := []gen.Amount{{Mon: coin(1)}, {Mon: coin(7)}, {All: true, Asset: assetMain}, {Mon: gen.VarMon("bal")}}
	tSrc := []*gen.Src{
		{K: gen.SAcc, Acc: "@a"}, {K: gen.SAcc, Acc: "@world"}, {K: gen.SOver, Acc: "@b", Bound: coin(2)},
		{K: gen.SSeq, Sub: []*gen.Src{{K: gen.SAcc, Acc: "@a"}, {K: gen.SAcc, Acc: "@b"}}},
	}
	tDst := []*gen.Dst{
		{K: gen.DAcc, Acc: "@b"}, {K: gen.DAcc, Acc: "@a"},
		{K: gen.DSeq, Max: []gen.Mon{coin(1)}, To: []gen.KD{{D: &gen.Dst{K: gen.DAcc, Acc: "@a"}}}, Rem: gen.KD{Kept: true}},
	}
	if thorough {
		tAmts = append(tAmts, gen.Amount{Mon: coin(100)})
		tSrc = append(tSrc, &gen.Src{K: gen.SAcc, Acc: "$acc"}, &gen.Src{K: gen.SUnb, Acc: "@a"},
			&gen.Src{K: gen.SMax, Max: coin(5), Sub: []*gen.Src{{K: gen.SAcc, Acc: "@b"}}},
			&gen.Src{K: gen.SAllot, Por: []string{"1/2", "remaining"}, Sub: []*gen.Src{{K: gen.SAcc, Acc: "@a"}, {K: gen.SAcc, Acc: "@b"}}})
		tDst = append(tDst, &gen.Dst{K: gen.DAcc, Acc: "@world"}, &gen.Dst{K: gen.DAcc, Acc: "$acc"},
			&gen.Dst{K: gen.DAllot, Por: []string{"1/3", "remaining"}, Items: []gen.KD{{D: &gen.Dst{K: gen.DAcc, Acc: "@a"}}, {Kept: true}}})
	}
	T := gen.Sends(tAmts, tSrc, tDst)
	usd := func(n int64) gen.Amount { return gen.Amount{Mon: gen.LitMon(assetOther, n)} }
	T = append(T,
		gen.Send(usd(7), &gen.Src{K: gen.SAcc, Acc: "@a"}, &gen.Dst{K: gen.DAcc, Acc: "@b"}),
		gen.Send(usd(4), &gen.Src{K: gen.SAcc, Acc: "@world"}, &gen.Dst{K: gen.DAcc, Acc: "@a"}),
		gen.Send(gen.Amount{All: true, Asset: assetOther}, &gen.Src{K: gen.SAcc, Acc: "@b"}, &gen.Dst{K: gen.DAcc, Acc: "@a"}),
	)
	nonSend := []*gen.Stmt{
		gen.Save(gen.Amount{Mon: coin(5)}, "@a"),
		gen.Save(gen.Amount{All: true, Asset: assetMain}, "@a"),
		gen.Save(gen.Amount{Mon: coin(1)}, "@b"),
		gen.Save(gen.Amount{Mon: gen.VarMon("mon")}, "$acc"),
		{K: gen.StTxMeta, Key: "k", Val: "42"},
		{K: gen.StTxMeta, Key: "k", Val: "$s"},
		{K: gen.StTxMeta, Key: "k2", Val: "[COIN 7]"},
		{K: gen.StTxMeta, Key: "k3", Val: "@a"},
		{K: gen.StTxMeta, Key: "k4", Val: "1/3"},
		{K: gen.StTxMeta, Key: "k5", Val: "COIN"},
		{K: gen.StAccMeta, Acc: "@a", Key: "k", Val: "$n"},
		{K: gen.StAccMeta, Acc: "$acc", Key: "k", Val: `"v"`},
		{K: gen.StAccMeta, Acc: "@b", Key: "k", Val: "$mon"},
		{K: gen.StFail},
	}
	if thorough {
		nonSend = append(nonSend,
			gen.Save(gen.Amount{Mon: coin(100)}, "@a"),
			gen.Save(gen.Amount{Mon: gen.LitMon(assetOther, 2)}, "@a"),
			gen.Save(gen.Amount{All: true, Asset: assetMain}, "@b"),
			&gen.Stmt{K: gen.StTxMeta, Key: "k", Val: "$mp"},
			&gen.Stmt{K: gen.StTxMeta, Key: "k", Val: "$macc"},
			&gen.Stmt{K: gen.StTxMeta, Key: "k", Val: "$bal"},
			&gen.Stmt{K: gen.StTxMeta, Key: "k", Val: "50%"},
			&gen.Stmt{K: gen.StAccMeta, Acc: "@a", Key: "k", Val: "@b"},
			&gen.Stmt{K: gen.StAccMeta, Acc: "@world", Key: "k", Val: "[COIN 1]"},
		)
	}
	T = append(T, nonSend...)

	// ---- stages ------------------------------------------------------------
	var st []stage
	var rule string
	if !thorough {
		st = []stage{
			{"E1: 1 send, every source (depth<=2, allotments) x 3 probe destinations x 5 amounts", yieldProduct(cat, amounts, allSrc, dstProbe)},
			{"E2: 1 send, 5 probe sources x every destination (depth<=2) x 5 amounts", yieldProduct(cat, amounts, srcProbe, allDst)},
			{"E3: 1 send, variable amounts ($mon,$bal,$mmon,[$ast 7],[$ast *]) x depth<=1 leaf sources x leaf destinations", yieldProduct(cat, amountsVar, L, DL)},
			{"E4: single non-send statements and statement menu alone", yieldStmts(cat, T)},
			{"E5: every ordered pair of the statement menu", yieldPairs(cat, T, T)},
		}
	} else {
		// quick-sized menus reused for the large products of the thorough tier
		q := numscriptMenus(false)
		s01 := concatSrc(L, S1)
		d01 := concatDst(DL, gen.DstSeq1(dmaxes, KD0, KD0), gen.DstAllots(pv2, KD0))
		st = []stage{
			{"E1: 1 send, every source (depth<=2, allotments) x 3 probe destinations x 5 amounts", yieldProduct(cat, amounts, allSrc, dstProbe)},
			{"E2: 1 send, 5 probe sources x every destination (depth<=2) x 5 amounts", yieldProduct(cat, amounts, srcProbe, allDst)},
			{"E3: 1 send, variable amounts x every depth<=1 source (incl. flat allotments of the quick menu) x leaf destinations", yieldProduct(cat, amountsVar, concatSrc(s01, q.SA1), DL)},
			{"E4: single statements of the statement menu", yieldStmts(cat, T)},
			{"E5: every ordered pair of the statement menu", yieldPairs(cat, T, T)},
			{"E6: 1 send, every depth<=1 non-allotment source x every depth<=1 destination (1 in-order clause / 2-way allotment) x 5 amounts (full product)", yieldProduct(cat, amounts, s01, d01)},
			{"E7: 1 send, every depth-2 source of the quick menus x reduced depth<=1 destinations x amounts {1,7,*}", yieldProduct(cat, []gen.Amount{{Mon: coin(1)}, {Mon: coin(7)}, {All: true, Asset: assetMain}}, concatSrc(q.S2, q.SA2), concatDst(DR, D1R))},
		}
	}
	rule = fmt.Sprintf("grammar enumeration (no sampling) of NumScript.g4 programs: leaf sources = {@a,@b,$acc} x {plain, overdraft up to %v, unbounded} + @world (%d); depth-1 = max M from leaf (M in %v) and in-order {leaf leaf} (%d); depth-2 over a reduced leaf menu of %d (%d sources); source allotments (%d flat, %d nested); destinations: %d leaves (+kept), %d in-order, %d allotments, %d depth-2; portions %v; amounts {0,1,7,100,*} plus variable amounts; statement menu of %d (sends with amounts %s over %d sources x %d destinations, save, set_tx_meta, set_account_meta, fail; second asset USD/2) and all its ordered pairs (so every `credit X ; send $bal`, `save from X ; credit X` order with $bal = balance(@a, COIN)); every program x every assignment of its variables from the catalog menus (acc=%v mon=%v p=%v, meta(@m,..), balance(@a,COIN)) x every balance vector over {-3,-1,0,1,5,100} for each account in source/save/balance() position",
		bounds, len(L), maxes, len(S1), len(R), len(S2), len(SA1), len(SA2), len(DL), len(D1seq), len(D1all), len(D2), porMenuFull, len(T), amountMenuText(tAmts), len(tSrc), len(tDst),
		cat["acc"].Values, cat["mon"].Values, cat["p"].Values)
	return spaceDesc{Stages: st, Rule: rule}
}
