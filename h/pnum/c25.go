package pnum

import (
	"context"
	"errors"
	"fmt"
	"math/big"
	"runtime"
	"sync"
	"sync/atomic"
	"time"

	ledger "github.com/formancehq/ledger/internal"
	"github.com/formancehq/ledger/internal/api/bulking"
	ledgercontroller "github.com/formancehq/ledger/internal/controller/ledger"
	"github.com/formancehq/ledger/internal/machine"
	"github.com/formancehq/ledger/internal/storage/common"
	"github.com/formancehq/ledger/verifh/ev"
	"github.com/formancehq/ledger/verifh/gen"
	"github.com/formancehq/ledger/verifh/lx"
	"github.com/formancehq/ledger/verifh/pgsim"
	"github.com/formancehq/ledger/verifh/reg"
	"github.com/formancehq/ledger/verifh/world"
)

// C25 — a postings request is recorded exactly as submitted.
//
// Two executors answer the same requests; the oracle is the same for both.
//
// (1) SQL store (runs FIRST, so that a time cut never drops it): every postings list of
// length 1..2 over the 72-posting menu {world,a,b}^2 x {COIN,USD/2} x {0,1,5,2^64}, for
// every initial balance vector of a and b over {0,5} and force on/off, is submitted to the
// REAL ledger on pgsim: a ledger whose accounts were funded by an earlier committed
// transaction (world -> a / b, both assets) is cloned per request, then
//
//	bulking.TransactionRequest{Postings, Force}.ToCore()       (validation + TxToScriptData)
//	-> Controller.CreateTransaction (full controller stack of the system controller)
//	   -> machine runtime -> vmStoreAdapter -> ledgerstore.Store.GetBalances (the locking
//	      SELECT over accounts_volumes + the zero fill) -> commit
//	-> the transaction is read back through Controller.ListTransactions
//
// so the balances the machine sees are the ones the storage layer answers for the
// (account, asset) pairs of the WHOLE request (one account asked for one or two assets, two
// accounts, a pair never written before...), not the ones of an in-memory map.
//
// (2) in-memory store: every list of length <= L (see below) goes through
//
//	bulking.TransactionRequest{Postings, Force}.ToCore()      (validation + TxToScriptData)
//	-> CachedParser(DefaultNumscriptParser).Parse(script)      (as createTransaction does)
//	-> MachineNumscriptRuntimeAdapter.Execute(store, vars)
//
// `force` is implemented by ToCore passing req.Force to TxToScriptData, which
// renders every non-world source with `allowing unbounded overdraft`.
//
// Oracle (a sequential ledger of the two accounts): success <=> force or no
// posting debits a non-world source below zero when applied in order (debit
// before credit); on success result postings == submitted postings, field by
// field, zero amounts included (SQL store: the returned transaction AND the one read
// back, and exactly one transaction was added); on failure the error is insufficient
// funds (SQL store: and no transaction was added).
func init() { reg.Register("C25", c25) }

type c25Posting struct {
	src, dst, asset string
	amt             *big.Int
}

// c25Answer is what one executor answers to one request.
type c25Answer struct {
	compileErr error            // in-memory executor: the generated script does not parse
	engineErr  error            // the harness (pgsim, boot) failed: never a violation
	err        error            // the request failed
	hasResult  bool             // a result came back (with or without an error)
	returned   []ledger.Posting // postings of the returned result
	// SQL store executor only
	viaStore bool
	stored   []ledger.Posting // postings of the newest transaction read back from the ledger
	added    int              // transactions the request added to the ledger
}

// c25Exec runs one converted request against initial balances a={COIN ba, USD/2 bb},
// b={COIN bb, USD/2 ba}.
type c25Exec func(core *ledgercontroller.CreateTransaction, ba, bb int64) c25Answer

func c25Balances(ba, bb int64) map[string]map[string]*big.Int {
	return map[string]map[string]*big.Int{
		"a": {assetMain: big.NewInt(ba), assetOther: big.NewInt(bb)},
		"b": {assetMain: big.NewInt(bb), assetOther: big.NewInt(ba)},
	}
}

// c25MemExec: the machine adapter over the in-memory store.
func c25MemExec(parser ledgercontroller.NumscriptParser) c25Exec {
	return func(core *ledgercontroller.CreateTransaction, ba, bb int64) (ans c25Answer) {
		rt, err := parser.Parse(core.Plain)
		if err != nil {
			ans.compileErr = err
			return
		}
		res, err := rt.Execute(context.Background(), newFakeStore(&gen.Env{Bal: c25Balances(ba, bb)}), core.Vars)
		ans.err, ans.hasResult = err, res != nil
		if res != nil {
			ans.returned = res.Postings
		}
		return
	}
}

const c25Ledger = "c25"

// c25SQL holds one booted pgsim database per initial balance vector: ledger c25 with the
// accounts funded by ONE committed transaction (world -> a, world -> b, both assets, the
// zero balances left out so that those (account, asset) pairs have never been written).
type c25SQL struct {
	funded  map[[2]int64]*pgsim.DB
	fundTxs map[[2]int64]int
}

func newC25SQL(ctx context.Context, balVals []int64) (*c25SQL, error) {
	boot, err := lx.Boot(ctx, []lx.LedgerSpec{{Name: c25Ledger}})
	if err != nil {
		return nil, err
	}
	s := &c25SQL{funded: map[[2]int64]*pgsim.DB{}, fundTxs: map[[2]int64]int{}}
	for _, ba := range balVals {
		for _, bb := range balVals {
			pg := boot.Clone()
			var ps []lx.P
			for _, acc := range []string{"a", "b"} {
				for _, as := range []string{assetMain, assetOther} {
					if v := c25Balances(ba, bb)[acc][as]; v.Sign() > 0 {
						ps = append(ps, lx.P{Src: "world", Dst: acc, Ast: as, Amt: v.String()})
					}
				}
			}
			if len(ps) > 0 {
				w := world.Attach(pg)
				ctrl, err := w.Sys.GetLedgerController(ctx, c25Ledger)
				if err != nil {
					w.Close()
					return nil, err
				}
				out := lx.Apply(ctx, ctrl, lx.Op{Kind: "post", Postings: ps})
				w.Close()
				if out.Err != nil {
					return nil, fmt.Errorf("funding %v: %w", ps, out.Err)
				}
				s.fundTxs[[2]int64{ba, bb}] = 1
			}
			s.funded[[2]int64{ba, bb}] = pg
		}
	}
	return s, nil
}

// exec: one request on a private clone of the funded ledger, through the real controller
// stack (as the bulker / the v2 transaction route call it), then the read back.
func (s *c25SQL) exec(core *ledgercontroller.CreateTransaction, ba, bb int64) (ans c25Answer) {
	ans.viaStore = true
	ctx := context.Background()
	key := [2]int64{ba, bb}
	base, ok := s.funded[key]
	if !ok {
		ans.engineErr = fmt.Errorf("no funded database for balances %v", key)
		return
	}
	w := world.Attach(base.Clone())
	defer w.Close()
	ctrl, err := w.Sys.GetLedgerController(ctx, c25Ledger)
	if err != nil {
		ans.engineErr = err
		return
	}
	_, res, _, err := ctrl.CreateTransaction(ctx, ledgercontroller.Parameters[ledgercontroller.CreateTransaction]{Input: *core})
	if lx.Classify(err) == "ENGINE" {
		ans.engineErr = err
		return
	}
	ans.err, ans.hasResult = err, res != nil
	if res != nil {
		ans.returned = res.Transaction.Postings
	}
	txs, lerr := lx.ListTxs(ctx, ctrl, common.ResourceQuery[any]{})
	if lerr != nil {
		ans.engineErr = fmt.Errorf("reading the transactions back: %w", lerr)
		return
	}
	ans.added = len(txs) - s.fundTxs[key]
	var newest *ledger.Transaction
	for i := range txs {
		if newest == nil || (txs[i].ID != nil && newest.ID != nil && *txs[i].ID > *newest.ID) {
			newest = &txs[i]
		}
	}
	if newest != nil && ans.added > 0 {
		ans.stored = newest.Postings
	}
	return
}

func c25() int {
	tuneRuntime()
	r := ev.Start("C25", ev.LevelExploration, 100*time.Second, 15*time.Minute)
	two64 := new(big.Int).Lsh(big.NewInt(1), 64)
	accounts := []string{"world", "a", "b"}
	assets := []string{assetMain, assetOther}
	amounts := []*big.Int{big.NewInt(0), big.NewInt(1), big.NewInt(5), two64}
	var menu []c25Posting
	for _, s := range accounts {
		for _, d := range accounts {
			for _, as := range assets {
				for _, am := range amounts {
					menu = append(menu, c25Posting{s, d, as, am})
				}
			}
		}
	}
	// quick: full space up to length 2, length 3 over the sub-menu
	// {COIN 0, COIN 5, COIN 2^64, USD/2 5} (all 9 account pairs);
	// thorough: full space up to length 3.
	var menu3 []c25Posting
	for _, p := range menu {
		five := p.amt.Cmp(big.NewInt(5)) == 0
		if r.Thorough() || (p.asset == assetMain && p.amt.Cmp(big.NewInt(1)) != 0) || (p.asset == assetOther && five) {
			menu3 = append(menu3, p)
		}
	}
	balVals := []int64{0, 5}

	var st c25Stats
	var exhaustive atomic.Bool
	exhaustive.Store(true)

	// runPhase feeds every list produced by gen to NumCPU workers; each worker builds its
	// executor with mk.
	runPhase := func(ph *c25Phase, mk func() c25Exec, gen func(emit func([]c25Posting))) {
		type job struct{ list []c25Posting }
		jobs := make(chan []job, 64)
		var wg sync.WaitGroup
		for w := 0; w < runtime.NumCPU(); w++ {
			wg.Add(1)
			go func() {
				defer wg.Done()
				exec := mk()
				for batch := range jobs {
					for _, j := range batch {
						if r.Expired() || r.HasEngineError() {
							exhaustive.Store(false)
							ph.cut.Store(true)
							continue
						}
						listOK := false
						for _, ba := range balVals {
							for _, bb := range balVals {
								for _, force := range []bool{false, true} {
									ph.evals.Add(1)
									if c25Case(r, ph, exec, j.list, ba, bb, force, &st) {
										ph.okRuns.Add(1)
										listOK = true
									} else {
										ph.failRuns.Add(1)
									}
								}
							}
						}
						if listOK {
							ph.nontrivial.Add(1)
						}
					}
				}
			}()
		}
		var batch []job
		gen(func(l []c25Posting) {
			ph.lists++
			batch = append(batch, job{append([]c25Posting{}, l...)})
			if len(batch) == ph.batch {
				jobs <- batch
				batch = nil
			}
		})
		if len(batch) > 0 {
			jobs <- batch
		}
		close(jobs)
		wg.Wait()
	}

	// ---- (1) the SQL store ------------------------------------------------------------
	sqlPhase := &c25Phase{name: "sql-store", sigPrefix: "C25:sql-store:", batch: 8, samples: ev.NewSamples(3)}
	sql, err := newC25SQL(context.Background(), balVals)
	if err != nil {
		r.EngineError("C25 SQL store: " + err.Error())
	} else {
		runPhase(sqlPhase, func() c25Exec { return sql.exec }, func(emit func([]c25Posting)) {
			for _, p1 := range menu {
				emit([]c25Posting{p1})
			}
			for _, p1 := range menu {
				if r.Expired() {
					exhaustive.Store(false)
					sqlPhase.cut.Store(true)
					break
				}
				for _, p2 := range menu {
					emit([]c25Posting{p1, p2})
				}
			}
		})
	}

	// ---- (2) the in-memory store ------------------------------------------------------
	memPhase := &c25Phase{name: "in-memory-store", sigPrefix: "C25:", batch: 64, samples: ev.NewSamples(3)}
	runPhase(memPhase, func() c25Exec {
		// one production-style parser per worker: cache in front of the compiler,
		// so compiled programs are reused across executions as in the server
		return c25MemExec(ledgercontroller.NewCachedNumscriptParser(ledgercontroller.NewDefaultNumscriptParser(), ledgercontroller.CacheConfiguration{MaxCount: 4096}))
	}, func(emit func([]c25Posting)) {
		for _, p1 := range menu {
			emit([]c25Posting{p1})
		}
		for _, p1 := range menu {
			for _, p2 := range menu {
				emit([]c25Posting{p1, p2})
			}
		}
		for _, p1 := range menu3 {
			if r.Expired() {
				exhaustive.Store(false)
				memPhase.cut.Store(true)
				break
			}
			for _, p2 := range menu3 {
				for _, p3 := range menu3 {
					emit([]c25Posting{p1, p2, p3})
				}
			}
		}
	})

	if r.ViolationCount() == 0 {
		for _, ph := range []*c25Phase{sqlPhase, memPhase} {
			switch {
			case ph.okRuns.Load() == 0:
				r.EngineError("vacuous: " + ph.name + ": no request succeeded")
			case ph.failRuns.Load() == 0:
				r.EngineError("vacuous: " + ph.name + ": no request failed with insufficient funds")
			case ph.forcedOverdraft.Load() == 0:
				r.EngineError("vacuous: " + ph.name + ": force never rescued an overdrawing list")
			case ph.zeroRecorded.Load() == 0:
				r.EngineError("vacuous: " + ph.name + ": no zero-amount posting was recorded")
			}
		}
		switch {
		case st.sameSourceTwoAssetsOK.Load() == 0:
			r.EngineError("vacuous: sql-store: no successful unforced request in which one funded account is the source for two different assets")
		case st.readBack.Load() == 0:
			r.EngineError("vacuous: sql-store: no committed transaction was read back")
		case st.failedAddedNothing.Load() == 0:
			r.EngineError("vacuous: sql-store: no failed request was checked for leaving the ledger unchanged")
		}
	}
	bound3 := "length 3 over all 9 account pairs x {COIN 0, COIN 5, COIN 2^64, USD/2 5}"
	if r.Thorough() {
		bound3 = "length 3 over the full menu"
	}
	cov := ev.Coverage{
		"evaluations":         sqlPhase.evals.Load() + memPhase.evals.Load(),
		"distinct_nontrivial": sqlPhase.nontrivial.Load() + memPhase.nontrivial.Load(),
		"rule": fmt.Sprintf("72-posting menu {world,a,b}^2 x {COIN,USD/2} x {0,1,5,2^64}; balances of a,b in {0,5}^2 (USD/2 balances = COIN balances swapped) x force off/on for every list. "+
			"(1) sql-store, first: every list of length 1..2 over the menu (%d lists) submitted through the real controller stack to a ledger on pgsim whose accounts were funded by an earlier committed transaction (one clone per request; balances come from ledgerstore.Store.GetBalances for all (account, asset) pairs of the request at once: one source with one or two assets, two sources, never-written pairs), result compared with the submitted postings both as returned and as read back by ListTransactions, a failed request must add no transaction; "+
			"(2) in-memory-store: every list of length 1..2 over the menu, plus %s (%d-posting menu), on MachineNumscriptRuntimeAdapter over an in-memory store (%d lists); "+
			"distinct_nontrivial = distinct lists (per executor) with at least one successful request whose recorded postings were compared field by field",
			sqlPhase.lists, bound3, len(menu3), memPhase.lists),
		"samples":    append(sqlPhase.samples.List(), memPhase.samples.List()...),
		"exhaustive": exhaustive.Load(),
		"lists":      sqlPhase.lists + memPhase.lists,
		"phases": []any{
			sqlPhase.coverage(),
			memPhase.coverage(),
		},
		"requests_succeeded":                                              sqlPhase.okRuns.Load() + memPhase.okRuns.Load(),
		"requests_failed_insufficient":                                    sqlPhase.failRuns.Load() + memPhase.failRuns.Load(),
		"forced_requests_that_overdraw":                                   sqlPhase.forcedOverdraft.Load() + memPhase.forcedOverdraft.Load(),
		"zero_amount_postings_recorded":                                   sqlPhase.zeroRecorded.Load() + memPhase.zeroRecorded.Load(),
		"self_postings_checked":                                           sqlPhase.selfPostings.Load() + memPhase.selfPostings.Load(),
		"sql_store_unforced_successes_with_one_source_sending_two_assets": st.sameSourceTwoAssetsOK.Load(),
		"sql_store_transactions_read_back":                                st.readBack.Load(),
		"sql_store_failed_requests_that_added_nothing":                    st.failedAddedNothing.Load(),
		"traces_validated_against_impl":                                   sqlPhase.evals.Load() + memPhase.evals.Load(),
	}
	return r.Finish(cov, []string{
		"in-memory-store: `recorded` = NumscriptExecutionResult.Postings returned by MachineNumscriptRuntimeAdapter, which createTransaction commits unchanged (ledger.NewTransaction().WithPostings(result.Postings...)); sql-store: `recorded` = the postings of the transaction CreateTransaction returns and of the one ListTransactions reads back after the commit",
		"sequential application debits the source before crediting the destination, so a->a for more than a's balance counts as overdrawing",
		"in-memory store: every queried (account, asset) pair is answered (0 when never seen) as the SQL store does",
		"sql-store: default runtime (machine) and default ledger features; the interpreter runtime drops zero-amount postings (C26's documented difference) and is not submitted here",
		"pgsim: hand-written in-process model of the Postgres subset the ledger uses (READ COMMITTED MVCC, row/advisory locks, triggers, PL/pgSQL); it cannot be validated against a real server in this sandbox",
	})
}

// c25Phase: the counters of one executor.
type c25Phase struct {
	name, sigPrefix string
	batch           int
	samples         *ev.Samples
	lists           int64
	cut             atomic.Bool

	evals, okRuns, failRuns, nontrivial         atomic.Int64
	forcedOverdraft, zeroRecorded, selfPostings atomic.Int64
}

func (ph *c25Phase) coverage() map[string]any {
	return map[string]any{
		"executor": ph.name, "lists": ph.lists, "requests": ph.evals.Load(), "completed": !ph.cut.Load(),
		"requests_succeeded": ph.okRuns.Load(), "requests_failed_insufficient": ph.failRuns.Load(),
		"lists_with_a_compared_success": ph.nontrivial.Load(),
	}
}

type c25Stats struct {
	sameSourceTwoAssetsOK, readBack, failedAddedNothing atomic.Int64
}

// c25SameSourceTwoAssets: some non-world account is the source of postings in two
// different assets.
func c25SameSourceTwoAssets(list []c25Posting) bool {
	seen := map[string]string{}
	for _, p := range list {
		if p.src == "world" {
			continue
		}
		if a, ok := seen[p.src]; ok && a != p.asset {
			return true
		}
		seen[p.src] = p.asset
	}
	return false
}

// c25Case runs one request; returns true when it succeeded.
func c25Case(r *ev.Run, ph *c25Phase, exec c25Exec, list []c25Posting, ba, bb int64, force bool, st *c25Stats) (ok bool) {
	bal := c25Balances(ba, bb)
	sig := func(s string) string { return ph.sigPrefix + s }
	replay := func() map[string]any {
		var ps []string
		for _, p := range list {
			ps = append(ps, fmt.Sprintf("%s->%s %s %s", p.src, p.dst, p.amt, p.asset))
		}
		return map[string]any{"postings": ps, "balances": balString(bal), "force": force, "executor": ph.name}
	}
	defer func() {
		if p := recover(); p != nil {
			r.Violation(sig("panic"), fmt.Sprintf("panic on the request path (%s): %v", ph.name, p), replay())
			ok = false
		}
	}()
	req := bulking.TransactionRequest{Force: force}
	for _, p := range list {
		req.Postings = append(req.Postings, ledger.NewPosting(p.src, p.dst, p.asset, new(big.Int).Set(p.amt)))
	}
	// reference: apply in order
	refBal := balState{}
	for a, m := range bal {
		for k, v := range m {
			refBal.get(a, k).Set(v)
		}
	}
	overdraws := false
	for _, p := range list {
		if p.src != "world" {
			b := refBal.get(p.src, p.asset)
			b.Sub(b, p.amt)
			if b.Sign() < 0 {
				overdraws = true
			}
		}
		if p.dst != "world" {
			b := refBal.get(p.dst, p.asset)
			b.Add(b, p.amt)
		}
	}
	wantOK := force || !overdraws

	core, err := req.ToCore()
	if err != nil {
		r.Violation(sig("tocore-rejects-valid-postings"), "ToCore: "+err.Error(), replay())
		return false
	}
	ans := exec(core, ba, bb)
	if ans.engineErr != nil {
		r.EngineError(fmt.Sprintf("%s: %v | request %v", ph.name, shortErr(ans.engineErr), replay()))
		return false
	}
	if ans.compileErr != nil {
		r.Violation(sig("generated-script-does-not-compile"), "Parse: "+shortErr(ans.compileErr)+" | script: "+core.Plain, replay())
		return false
	}
	if err := ans.err; err != nil {
		if ans.hasResult {
			r.Violation(sig("result-with-error"), "the request returned both a result and an error", replay())
		}
		insufficient := machine.IsInsufficientFundError(err) || errors.Is(err, &ledgercontroller.ErrInsufficientFunds{}) || lx.Classify(err) == "insufficient_funds"
		switch {
		case force:
			r.Violation(sig("fails-with-force"), "request with force failed: "+shortErr(err), replay())
		case wantOK:
			r.Violation(sig("fails-without-overdraw"), fmt.Sprintf("postings %v with balances %v: applying them in order takes no non-world source below zero, yet the request fails: %s", replay()["postings"], balString(bal), shortErr(err)), replay())
		case !insufficient:
			r.Violation(sig("wrong-error-kind"), "overdrawing request failed with something else than insufficient funds: "+shortErr(err), replay())
		}
		if ans.viaStore {
			if ans.added != 0 {
				r.Violation(sig("failed-request-recorded-a-transaction"), fmt.Sprintf("the request failed (%s) but the ledger holds %d more transaction(s): %v", shortErr(err), ans.added, ans.stored), replay())
			} else {
				st.failedAddedNothing.Add(1)
			}
		}
		return false
	}
	if !wantOK {
		r.Violation(sig("succeeds-while-overdrawing"), fmt.Sprintf("applying the postings in order overdraws a source, but the request succeeded with %d postings", len(ans.returned)), replay())
		return true
	}
	if force && overdraws {
		ph.forcedOverdraft.Add(1)
	}
	views := []struct {
		what string
		ps   []ledger.Posting
	}{{"recorded", ans.returned}}
	if ans.viaStore {
		if ans.added != 1 {
			r.Violation(sig("successful-request-did-not-add-one-transaction"), fmt.Sprintf("the request succeeded but the ledger holds %d more transaction(s) than before", ans.added), replay())
			return true
		}
		st.readBack.Add(1)
		views[0].what = "returned"
		views = append(views, struct {
			what string
			ps   []ledger.Posting
		}{"read back", ans.stored})
	}
	for _, v := range views {
		if len(v.ps) != len(list) {
			s := "recorded-count-differs"
			for _, p := range list {
				if p.amt.Sign() == 0 {
					s = "recorded-count-differs:zero-amount-present"
				}
			}
			r.Violation(sig(s), fmt.Sprintf("submitted %d postings, %s %d: %v", len(list), v.what, len(v.ps), v.ps), replay())
			return true
		}
		for i, p := range list {
			g := v.ps[i]
			if g.Source != p.src || g.Destination != p.dst || g.Asset != p.asset || g.Amount == nil || g.Amount.Cmp(p.amt) != 0 {
				r.Violation(sig("recorded-posting-differs"), fmt.Sprintf("posting %d: submitted %s->%s %s %s, %s %s->%s %v %s", i, p.src, p.dst, p.amt, p.asset, v.what, g.Source, g.Destination, g.Amount, g.Asset), replay())
				return true
			}
		}
	}
	for _, p := range list {
		if p.amt.Sign() == 0 {
			ph.zeroRecorded.Add(1)
		}
		if p.src == p.dst {
			ph.selfPostings.Add(1)
		}
	}
	if ans.viaStore && !force && c25SameSourceTwoAssets(list) {
		st.sameSourceTwoAssetsOK.Add(1)
	}
	if (len(list) == 3 || ans.viaStore && len(list) == 2) && force {
		ph.samples.Add(map[string]any{"request": replay(), "script": core.Plain, "vars": core.Vars, "recorded": fmt.Sprint(ans.returned)})
	}
	return true
}
