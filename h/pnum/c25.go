package pnum

import (
	"context"
	"errors"
	"fmt"
	"math/big"
	"runtime"
	"sync"
	"sync/atomic"
	"time"

	ledger "github.com/formancehq/ledger/internal"
	"github.com/formancehq/ledger/internal/api/bulking"
	ledgercontroller "github.com/formancehq/ledger/internal/controller/ledger"
	"github.com/formancehq/ledger/internal/machine"
	"github.com/formancehq/ledger/verifh/ev"
	"github.com/formancehq/ledger/verifh/gen"
	"github.com/formancehq/ledger/verifh/reg"
)

// C25 — a postings request is recorded exactly as submitted.
//
// Every postings list of length <= L over {world,a,b}^2 x {COIN,USD/2} x
// {0,1,5,2^64}, for every initial balance vector of a and b over {0,5} and
// force on/off, goes through the real request path:
//
//	bulking.TransactionRequest{Postings, Force}.ToCore()      (validation + TxToScriptData)
//	-> CachedParser(DefaultNumscriptParser).Parse(script)      (as createTransaction does)
//	-> MachineNumscriptRuntimeAdapter.Execute(store, vars)
//
// `force` is implemented by ToCore passing req.Force to TxToScriptData, which
// renders every non-world source with `allowing unbounded overdraft`.
//
// Oracle (a sequential ledger of the two accounts): success <=> force or no
// posting debits a non-world source below zero when applied in order (debit
// before credit); on success result postings == submitted postings, field by
// field, zero amounts included; on failure the error is insufficient funds.
func init() { reg.Register("C25", c25) }

type c25Posting struct {
	src, dst, asset string
	amt             *big.Int
}

func c25() int {
	tuneRuntime()
	r := ev.Start("C25", ev.LevelExploration, 100*time.Second, 15*time.Minute)
	two64 := new(big.Int).Lsh(big.NewInt(1), 64)
	accounts := []string{"world", "a", "b"}
	assets := []string{assetMain, assetOther}
	amounts := []*big.Int{big.NewInt(0), big.NewInt(1), big.NewInt(5), two64}
	var menu []c25Posting
	for _, s := range accounts {
		for _, d := range accounts {
			for _, as := range assets {
				for _, am := range amounts {
					menu = append(menu, c25Posting{s, d, as, am})
				}
			}
		}
	}
	// quick: full space up to length 2, length 3 over the sub-menu
	// {COIN 0, COIN 5, COIN 2^64, USD/2 5} (all 9 account pairs);
	// thorough: full space up to length 3.
	var menu3 []c25Posting
	for _, p := range menu {
		five := p.amt.Cmp(big.NewInt(5)) == 0
		if r.Thorough() || (p.asset == assetMain && p.amt.Cmp(big.NewInt(1)) != 0) || (p.asset == assetOther && five) {
			menu3 = append(menu3, p)
		}
	}
	balVals := []int64{0, 5}

	var evals, okRuns, failRuns, nontrivial, forcedOverdraft, zeroRecorded, selfPostings atomic.Int64
	samples := ev.NewSamples(6)
	var exhaustive atomic.Bool
	exhaustive.Store(true)

	type job struct{ list []c25Posting }
	jobs := make(chan []job, 64)
	var wg sync.WaitGroup
	for w := 0; w < runtime.NumCPU(); w++ {
		wg.Add(1)
		go func() {
			defer wg.Done()
			// one production-style parser per worker: cache in front of the compiler,
			// so compiled programs are reused across executions as in the server
			parser := ledgercontroller.NewCachedNumscriptParser(ledgercontroller.NewDefaultNumscriptParser(), ledgercontroller.CacheConfiguration{MaxCount: 4096})
			for batch := range jobs {
				for _, j := range batch {
					if r.Expired() {
						exhaustive.Store(false)
						continue
					}
					listOK := false
					for _, ba := range balVals {
						for _, bb := range balVals {
							for _, force := range []bool{false, true} {
								evals.Add(1)
								if c25Case(r, parser, j.list, ba, bb, force, samples, &forcedOverdraft, &zeroRecorded, &selfPostings) {
									okRuns.Add(1)
									listOK = true
								} else {
									failRuns.Add(1)
								}
							}
						}
					}
					if listOK {
						nontrivial.Add(1)
					}
				}
			}
		}()
	}
	var lists int64
	var batch []job
	emit := func(l []c25Posting) {
		lists++
		batch = append(batch, job{append([]c25Posting{}, l...)})
		if len(batch) == 64 {
			jobs <- batch
			batch = nil
		}
	}
	for _, p1 := range menu {
		emit([]c25Posting{p1})
	}
	for _, p1 := range menu {
		for _, p2 := range menu {
			emit([]c25Posting{p1, p2})
		}
	}
	for _, p1 := range menu3 {
		if r.Expired() {
			exhaustive.Store(false)
			break
		}
		for _, p2 := range menu3 {
			for _, p3 := range menu3 {
				emit([]c25Posting{p1, p2, p3})
			}
		}
	}
	if len(batch) > 0 {
		jobs <- batch
	}
	close(jobs)
	wg.Wait()

	if r.ViolationCount() == 0 {
		switch {
		case okRuns.Load() == 0:
			r.EngineError("vacuous: no request succeeded")
		case failRuns.Load() == 0:
			r.EngineError("vacuous: no request failed with insufficient funds")
		case forcedOverdraft.Load() == 0:
			r.EngineError("vacuous: force never rescued an overdrawing list")
		case zeroRecorded.Load() == 0:
			r.EngineError("vacuous: no zero-amount posting was recorded")
		}
	}
	bound3 := "length 3 over all 9 account pairs x {COIN 0, COIN 5, COIN 2^64, USD/2 5}"
	if r.Thorough() {
		bound3 = "length 3 over the full menu"
	}
	cov := ev.Coverage{
		"evaluations":         evals.Load(),
		"distinct_nontrivial": nontrivial.Load(),
		"rule": fmt.Sprintf("every postings list of length 1..2 over the 72-posting menu {world,a,b}^2 x {COIN,USD/2} x {0,1,5,2^64}, plus %s (%d-posting menu), x balances of a,b in {0,5}^2 (USD/2 balances = COIN balances swapped) x force off/on; %d lists; distinct_nontrivial = distinct lists with at least one successful request whose recorded postings were compared field by field",
			bound3, len(menu3), lists),
		"samples":                       samples.List(),
		"exhaustive":                    exhaustive.Load(),
		"lists":                         lists,
		"requests_succeeded":            okRuns.Load(),
		"requests_failed_insufficient":  failRuns.Load(),
		"forced_requests_that_overdraw": forcedOverdraft.Load(),
		"zero_amount_postings_recorded": zeroRecorded.Load(),
		"self_postings_checked":         selfPostings.Load(),
		"traces_validated_against_impl": evals.Load(),
	}
	return r.Finish(cov, []string{
		"`recorded` = NumscriptExecutionResult.Postings returned by MachineNumscriptRuntimeAdapter, which createTransaction commits unchanged (ledger.NewTransaction().WithPostings(result.Postings...)); the SQL commit itself is outside this check",
		"sequential application debits the source before crediting the destination, so a->a for more than a's balance counts as overdrawing",
		"store = in-memory balances; every queried (account, asset) pair is answered (0 when never seen) as the SQL store does",
	})
}

// c25Case runs one request; returns true when it succeeded.
func c25Case(r *ev.Run, parser ledgercontroller.NumscriptParser, list []c25Posting, ba, bb int64, force bool,
	samples *ev.Samples, forcedOverdraft, zeroRecorded, selfPostings *atomic.Int64) (ok bool) {
	bal := map[string]map[string]*big.Int{
		"a": {assetMain: big.NewInt(ba), assetOther: big.NewInt(bb)},
		"b": {assetMain: big.NewInt(bb), assetOther: big.NewInt(ba)},
	}
	replay := func() map[string]any {
		var ps []string
		for _, p := range list {
			ps = append(ps, fmt.Sprintf("%s->%s %s %s", p.src, p.dst, p.amt, p.asset))
		}
		return map[string]any{"postings": ps, "balances": balString(bal), "force": force}
	}
	defer func() {
		if p := recover(); p != nil {
			r.Violation("C25:panic", fmt.Sprintf("panic on the request path: %v", p), replay())
			ok = false
		}
	}()
	req := bulking.TransactionRequest{Force: force}
	for _, p := range list {
		req.Postings = append(req.Postings, ledger.NewPosting(p.src, p.dst, p.asset, new(big.Int).Set(p.amt)))
	}
	// reference: apply in order
	refBal := balState{}
	for a, m := range bal {
		for k, v := range m {
			refBal.get(a, k).Set(v)
		}
	}
	overdraws := false
	for _, p := range list {
		if p.src != "world" {
			b := refBal.get(p.src, p.asset)
			b.Sub(b, p.amt)
			if b.Sign() < 0 {
				overdraws = true
			}
		}
		if p.dst != "world" {
			b := refBal.get(p.dst, p.asset)
			b.Add(b, p.amt)
		}
	}
	wantOK := force || !overdraws

	core, err := req.ToCore()
	if err != nil {
		r.Violation("C25:tocore-rejects-valid-postings", "ToCore: "+err.Error(), replay())
		return false
	}
	rt, err := parser.Parse(core.Plain)
	if err != nil {
		r.Violation("C25:generated-script-does-not-compile", "Parse: "+shortErr(err)+" | script: "+core.Plain, replay())
		return false
	}
	env := &gen.Env{Bal: bal}
	res, err := rt.Execute(context.Background(), newFakeStore(env), core.Vars)
	if err != nil {
		if res != nil {
			r.Violation("C25:result-with-error", "Execute returned both a result and an error", replay())
		}
		insufficient := machine.IsInsufficientFundError(err) || errors.Is(err, &ledgercontroller.ErrInsufficientFunds{})
		switch {
		case force:
			r.Violation("C25:fails-with-force", "request with force failed: "+shortErr(err), replay())
		case wantOK:
			r.Violation("C25:fails-without-overdraw", "no non-world source goes below zero, yet: "+shortErr(err), replay())
		case !insufficient:
			r.Violation("C25:wrong-error-kind", "overdrawing request failed with something else than insufficient funds: "+shortErr(err), replay())
		}
		return false
	}
	if !wantOK {
		r.Violation("C25:succeeds-while-overdrawing", fmt.Sprintf("applying the postings in order overdraws a source, but the request succeeded with %d postings", len(res.Postings)), replay())
		return true
	}
	if force && overdraws {
		forcedOverdraft.Add(1)
	}
	if len(res.Postings) != len(list) {
		sig := "C25:recorded-count-differs"
		for _, p := range list {
			if p.amt.Sign() == 0 {
				sig = "C25:recorded-count-differs:zero-amount-present"
			}
		}
		r.Violation(sig, fmt.Sprintf("submitted %d postings, recorded %d: %v", len(list), len(res.Postings), res.Postings), replay())
		return true
	}
	for i, p := range list {
		g := res.Postings[i]
		if g.Source != p.src || g.Destination != p.dst || g.Asset != p.asset || g.Amount == nil || g.Amount.Cmp(p.amt) != 0 {
			r.Violation("C25:recorded-posting-differs", fmt.Sprintf("posting %d: submitted %s->%s %s %s, recorded %s->%s %v %s", i, p.src, p.dst, p.amt, p.asset, g.Source, g.Destination, g.Amount, g.Asset), replay())
			return true
		}
		if p.amt.Sign() == 0 {
			zeroRecorded.Add(1)
		}
		if p.src == p.dst {
			selfPostings.Add(1)
		}
	}
	if len(list) == 3 && force {
		samples.Add(map[string]any{"request": replay(), "script": core.Plain, "vars": core.Vars, "recorded": fmt.Sprint(res.Postings)})
	}
	return true
}
