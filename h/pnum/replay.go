package pnum

import (
	"context"
	"encoding/json"
	"fmt"
	"math/big"
	"os"
	"strings"

	ledger "github.com/formancehq/ledger/internal"
	"github.com/formancehq/ledger/internal/api/bulking"
	ledgercontroller "github.com/formancehq/ledger/internal/controller/ledger"
	"github.com/formancehq/ledger/internal/machine"
	"github.com/formancehq/ledger/internal/machine/script/compiler"
	"github.com/formancehq/ledger/verifh/gen"
)

// Replay re-executes one replay file written by C22/C23/C24 (VM leg)/C25/C26/C27 outside of
// any enumerator and prints what the real code does with it. It does not judge:
// the output is meant to be read next to the "what" field of the file.
func Replay(path string) error {
	raw, err := os.ReadFile(path)
	if err != nil {
		return err
	}
	var doc struct {
		Property  string `json:"property"`
		Signature string `json:"signature"`
		What      string `json:"what"`
		Replay    struct {
			Program  string                       `json:"program"`
			Hex      string                       `json:"program_bytes_hex"`
			Vars     map[string]string            `json:"vars"`
			Balances map[string]map[string]string `json:"balances"`
			Metadata map[string]map[string]string `json:"metadata"`
			Uniform  string                       `json:"uniform_balance"`
			Postings []string                     `json:"postings"`
			Force    bool                         `json:"force"`
			Executor string                       `json:"executor"` // C25: "sql-store" | "in-memory-store"
			Text     string                       `json:"text"` // C24 spelling leg, direct parse: the portion text
			// C27 histories: the executions to run, in order, on one cached runtime
			History []struct {
				Vars      map[string]string            `json:"vars"`
				Balances  map[string]map[string]string `json:"balances"`
				Metadata  map[string]map[string]string `json:"metadata"`
				Uniform   string                       `json:"uniform_balance"`
				StoreSpec *c27StoreSpec                `json:"store_spec"`
			} `json:"history"`
		} `json:"replay"`
	}
	if err := json.Unmarshal(raw, &doc); err != nil {
		return err
	}
	rp := doc.Replay
	fmt.Printf("property %s\nsignature %s\n", doc.Property, doc.Signature)
	env := &gen.Env{Vars: rp.Vars, Meta: rp.Metadata, Bal: map[string]map[string]*big.Int{}}
	for a, m := range rp.Balances {
		env.Bal[a] = map[string]*big.Int{}
		for k, v := range m {
			n, _ := new(big.Int).SetString(v, 10)
			env.Bal[a][k] = n
		}
	}
	if env.Meta == nil {
		env.Meta = storeMeta()
	}
	mkStore := func() *fakeStore {
		s := newFakeStore(env)
		if rp.Uniform != "" {
			s.uniform, _ = new(big.Int).SetString(rp.Uniform, 10)
		}
		return s
	}
	if doc.Property == "C25" {
		req := bulking.TransactionRequest{Force: rp.Force}
		for _, p := range rp.Postings {
			var src, dst, amt, asset string
			parts := strings.Fields(strings.Replace(p, "->", " ", 1))
			if len(parts) != 4 {
				return fmt.Errorf("bad posting %q", p)
			}
			src, dst, amt, asset = parts[0], parts[1], parts[2], parts[3]
			n, _ := new(big.Int).SetString(amt, 10)
			req.Postings = append(req.Postings, ledger.NewPosting(src, dst, asset, n))
		}
		core, err := req.ToCore()
		if err != nil {
			fmt.Println("ToCore error:", err)
			return nil
		}
		fmt.Println(core.Plain)
		if rp.Executor == "sql-store" {
			// the real ledger on pgsim, accounts funded by an earlier transaction (see c25SQL)
			ba, bb := env.Balance("a", assetMain).Int64(), env.Balance("a", assetOther).Int64()
			sql, err := newC25SQL(context.Background(), []int64{ba, bb})
			if err != nil {
				return err
			}
			ans := sql.exec(core, ba, bb)
			fmt.Printf("real ledger on pgsim: engine error=%v err=%v returned=%v transactions added=%d read back=%v\n", ans.engineErr, ans.err, ans.returned, ans.added, ans.stored)
			return nil
		}
		rt, err := ledgercontroller.NewDefaultNumscriptParser().Parse(core.Plain)
		if err != nil {
			fmt.Println("Parse error:", err)
			return nil
		}
		res, err := rt.Execute(context.Background(), mkStore(), core.Vars)
		fmt.Printf("machine adapter: err=%v result=%+v\n", err, res)
		return nil
	}
	if rp.Text != "" && rp.Program == "" {
		p, err := machine.ParsePortionSpecific(rp.Text)
		if err != nil {
			fmt.Printf("ParsePortionSpecific(%q): error %v\n", rp.Text, err)
		} else {
			fmt.Printf("ParsePortionSpecific(%q) = %s\n", rp.Text, p.String())
		}
		return nil
	}
	text := rp.Program
	if len(rp.History) > 0 {
		// one CachedParser, Parse + Execute per step, as createTransaction does with the
		// numscript cache on
		fmt.Printf("program:\n%s\nhistory of %d executions on the runtime of one CachedParser:\n", text, len(rp.History))
		parser := ledgercontroller.NewCachedNumscriptParser(ledgercontroller.NewDefaultNumscriptParser(), ledgercontroller.CacheConfiguration{MaxCount: 1024})
		for i, stp := range rp.History {
			var mk func() *fakeStore
			switch {
			case stp.StoreSpec != nil:
				mk = stp.StoreSpec.mk
			case stp.Uniform != "":
				mk = c27StoreSpec{Uniform: stp.Uniform}.mk
			default:
				e := &gen.Env{Vars: stp.Vars, Meta: stp.Metadata, Bal: map[string]map[string]*big.Int{}}
				for a, m := range stp.Balances {
					e.Bal[a] = map[string]*big.Int{}
					for k, v := range m {
						n, _ := new(big.Int).SetString(v, 10)
						e.Bal[a][k] = n
					}
				}
				if e.Meta == nil {
					e.Meta = storeMeta()
				}
				mk = func() *fakeStore { return newFakeStore(e) }
			}
			func() {
				defer func() {
					if p := recover(); p != nil {
						fmt.Printf("  %d: vars=%v balances=%v uniform=%q -> PANIC: %v\n", i, stp.Vars, stp.Balances, stp.Uniform, p)
					}
				}()
				rt, err := parser.Parse(text)
				if err != nil {
					fmt.Printf("  %d: Parse error: %s\n", i, shortErr(err))
					return
				}
				res, err := rt.Execute(context.Background(), mk(), stp.Vars)
				class, out := c27AdapterOutcome(res, err)
				fmt.Printf("  %d: vars=%v balances=%v uniform=%q -> %s %s (runtime %p)\n", i, stp.Vars, stp.Balances, stp.Uniform, class, out, rt)
			}()
		}
		return nil
	}
	fmt.Printf("program:\n%s\nvars: %v\nbalances: %v\n", text, rp.Vars, rp.Balances)
	func() {
		defer func() {
			if p := recover(); p != nil {
				fmt.Println("compile PANIC:", p)
			}
		}()
		prog, err := compiler.Compile(text)
		if err != nil {
			fmt.Println("machine compile error:", shortErr(err))
			return
		}
		vars := rp.Vars
		if vars == nil {
			_, vars = declaredVars(prog)
		}
		fp := programFingerprint(prog)
		res := runMachine(prog, vars, vmStore{mkStore()})
		fmt.Printf("machine: stage=%q err=%v panic=%v at=%s\n  postings=%v\n  balances=%v\n  txmeta=%v accmeta=%v\n",
			res.Stage, res.Err, res.Panic, res.PanicAt, postingsString(res.Postings), balString(res.Balances), res.TxMeta, res.AccMeta)
		// state that outlives the run (C22:global-state:*)
		fmt.Printf("  after the run: package-level values damaged=%v compiled program changed=%v\n", globalStateDamage(), programFingerprint(prog) != fp)
		if doc.Property == "C27" {
			// the adapter, under every logger configuration, each execution with its deadline
			for _, a := range c27ExecAdapter(prog, c27LoggerContexts(), mkStore, vars) {
				switch {
				case !a.Answered:
					fmt.Printf("adapter, context with %s: NO ANSWER within %s\n", a.Logger, c27AnswerDeadline)
				case a.Panic != nil:
					fmt.Printf("adapter, context with %s: PANIC %v at %s\n", a.Logger, a.Panic, a.Site)
				default:
					class, out := c27AdapterOutcome(a.Res, a.Err)
					fmt.Printf("adapter, context with %s: %s %s\n", a.Logger, class, out)
				}
			}
		}
	}()
	if doc.Property == "C26" {
		func() {
			defer func() {
				if p := recover(); p != nil {
					fmt.Println("interpreter PANIC:", p)
				}
			}()
			irt, err := ledgercontroller.NewInterpreterNumscriptParser(nil).Parse(text)
			if err != nil {
				fmt.Println("interpreter parse error:", shortErr(err))
				return
			}
			res, err := irt.Execute(context.Background(), mkStore(), rp.Vars)
			if err != nil {
				fmt.Println("interpreter: err =", shortErr(err))
				return
			}
			fmt.Printf("interpreter: postings=%v txmeta=%v accmeta=%v\n", postingsText(res.Postings), res.Metadata, res.AccountMetadata)
		}()
	}
	return nil
}
