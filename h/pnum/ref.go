package pnum

import (
	"math/big"

	"github.com/formancehq/ledger/verifh/gen"
)

// Independent reference evaluators used by the C22 oracle. They are written
// from the language description (docs + property text), not from the VM code:
//   - refAvailable: funds a source can provide for `send [A *]`
//   - refKept: how much of an amount entering a destination ends in `kept`

type balState map[string]map[string]*big.Int

func (b balState) get(acc, asset string) *big.Int {
	m, ok := b[acc]
	if !ok {
		m = map[string]*big.Int{}
		b[acc] = m
	}
	v, ok := m[asset]
	if !ok {
		v = new(big.Int)
		m[asset] = v
	}
	return v
}

func (b balState) clone() balState {
	out := balState{}
	for a, m := range b {
		out[a] = map[string]*big.Int{}
		for k, v := range m {
			out[a][k] = new(big.Int).Set(v)
		}
	}
	return out
}

type refPart struct {
	acc string
	amt *big.Int // nil = unlimited (world / unbounded overdraft)
}

// refPull lists, in order, what each account of the source can give (mutating
// cur as funds are reserved). ok=false when the reference cannot decide (asset
// mismatch, unresolved variable): the caller then skips the availability check.
func refPull(s *gen.Src, env *gen.Env, asset string, cur balState) (parts []refPart, ok bool) {
	switch s.K {
	case gen.SAcc, gen.SOver, gen.SUnb:
		acc, ok := env.Account(s.Acc)
		if !ok {
			return nil, false
		}
		if acc == "world" || s.K == gen.SUnb {
			return []refPart{{acc, nil}}, true
		}
		bound := new(big.Int)
		if s.K == gen.SOver {
			ba, bv, ok := env.Monetary(s.Bound)
			if !ok || ba != asset || bv.Sign() < 0 {
				return nil, false
			}
			bound = bv
		}
		bal := cur.get(acc, asset)
		a := new(big.Int).Add(bal, bound)
		if a.Sign() < 0 {
			a.SetInt64(0)
		}
		bal.Sub(bal, a)
		return []refPart{{acc, a}}, true
	case gen.SMax:
		ma, mv, ok := env.Monetary(s.Max)
		if !ok || ma != asset || mv.Sign() < 0 {
			return nil, false
		}
		sub, ok := refPull(s.Sub[0], env, asset, cur)
		if !ok {
			return nil, false
		}
		left := new(big.Int).Set(mv)
		var out []refPart
		for _, p := range sub {
			if p.amt == nil {
				// unlimited account: it gives whatever the cap still lets through,
				// and its balance goes down by that much
				if left.Sign() > 0 {
					b := cur.get(p.acc, asset)
					b.Sub(b, left)
					out = append(out, refPart{p.acc, new(big.Int).Set(left)})
					left.SetInt64(0)
				}
				continue
			}
			take := new(big.Int).Set(p.amt)
			if take.Cmp(left) > 0 {
				take.Set(left)
			}
			left.Sub(left, take)
			// give back what the cap does not let through
			back := new(big.Int).Sub(p.amt, take)
			b := cur.get(p.acc, asset)
			b.Add(b, back)
			out = append(out, refPart{p.acc, take})
		}
		return out, true
	case gen.SSeq:
		var out []refPart
		for _, c := range s.Sub {
			sub, ok := refPull(c, env, asset, cur)
			if !ok {
				return nil, false
			}
			out = append(out, sub...)
		}
		return out, true
	}
	return nil, false
}

// refAvailable: total funds available from the source for `send [asset *]`.
func refAvailable(s *gen.Src, env *gen.Env, asset string, cur balState) (*big.Int, bool) {
	parts, ok := refPull(s, env, asset, cur.clone())
	if !ok {
		return nil, false
	}
	total := new(big.Int)
	for _, p := range parts {
		if p.amt == nil {
			return nil, false // unlimited: `*` is not defined (the compiler rejects it)
		}
		total.Add(total, p.amt)
	}
	return total, true
}

// refAllocate splits amount by portions: floor(amount*p) each, the leftover units
// one by one to the earliest parts (the rule C24 states).
func refAllocate(amount *big.Int, por []string, env *gen.Env) ([]*big.Int, bool) {
	rats, ok := resolvePortions(por, env)
	if !ok {
		return nil, false
	}
	parts := make([]*big.Int, len(rats))
	total := new(big.Int)
	for i, r := range rats {
		f := new(big.Int).Mul(amount, r.Num())
		f.Div(f, r.Denom())
		parts[i] = f
		total.Add(total, f)
	}
	for i := range parts {
		if total.Cmp(amount) >= 0 {
			break
		}
		parts[i].Add(parts[i], big.NewInt(1))
		total.Add(total, big.NewInt(1))
	}
	return parts, true
}

// refKept: how much of `amount` entering destination d is kept.
func refKept(d *gen.Dst, env *gen.Env, asset string, amount *big.Int) (*big.Int, bool) {
	kd := func(k gen.KD, amt *big.Int) (*big.Int, bool) {
		if k.Kept {
			return new(big.Int).Set(amt), true
		}
		return refKept(k.D, env, asset, amt)
	}
	switch d.K {
	case gen.DAcc:
		return new(big.Int), true
	case gen.DSeq:
		rem := new(big.Int).Set(amount)
		kept := new(big.Int)
		for i := range d.Max {
			ma, mv, ok := env.Monetary(d.Max[i])
			if !ok || ma != asset || mv.Sign() < 0 {
				return nil, false
			}
			take := new(big.Int).Set(mv)
			if take.Cmp(rem) > 0 {
				take.Set(rem)
			}
			k, ok := kd(d.To[i], take)
			if !ok {
				return nil, false
			}
			kept.Add(kept, k)
			rem.Sub(rem, take)
		}
		k, ok := kd(d.Rem, rem)
		if !ok {
			return nil, false
		}
		return kept.Add(kept, k), true
	case gen.DAllot:
		parts, ok := refAllocate(amount, d.Por, env)
		if !ok {
			return nil, false
		}
		kept := new(big.Int)
		for i, it := range d.Items {
			k, ok := kd(it, parts[i])
			if !ok {
				return nil, false
			}
			kept.Add(kept, k)
		}
		return kept, true
	}
	return nil, false
}

func dstHasKept(d *gen.Dst) bool {
	if d == nil || d.K == gen.DAcc {
		return false
	}
	f := func(k gen.KD) bool { return k.Kept || dstHasKept(k.D) }
	for _, k := range d.To {
		if f(k) {
			return true
		}
	}
	for _, k := range d.Items {
		if f(k) {
			return true
		}
	}
	return d.K == gen.DSeq && f(d.Rem)
}

// srcLeafBounds walks a source and reports, per resolved account, the most
// permissive overdraft clause it appears with: nil = unbounded.
type srcBound struct {
	unbounded bool
	bound     *big.Int
}

func collectSrcBounds(s *gen.Src, env *gen.Env, into map[string]*srcBound) bool {
	switch s.K {
	case gen.SAcc, gen.SOver, gen.SUnb:
		acc, ok := env.Account(s.Acc)
		if !ok {
			return false
		}
		sb, exists := into[acc]
		if !exists {
			sb = &srcBound{bound: new(big.Int)}
			into[acc] = sb
		}
		if acc == "world" || s.K == gen.SUnb {
			sb.unbounded = true
		}
		if s.K == gen.SOver {
			_, bv, ok := env.Monetary(s.Bound)
			if !ok {
				return false
			}
			if bv.Cmp(sb.bound) > 0 {
				sb.bound = bv
			}
		}
		return true
	}
	for _, c := range s.Sub {
		if !collectSrcBounds(c, env, into) {
			return false
		}
	}
	return true
}
