package pnum

import (
	"fmt"
	"math/big"
	"strings"

	"github.com/formancehq/ledger/verifh/gen"
)

// Two dimensions of the Numscript input space that the shared stages E1..E7 of
// numscriptSpace keep at their smallest values, added as stages of their own for the
// checks whose oracle can judge them (C22, C23):
//
//	X1  machine-word sized numbers. E1..E7 send at most 100 units from balances of at
//	    most 100; ledgers of many-decimals assets (ETH/18: 1 ETH = 10^18) move amounts
//	    around 2^63..2^64, where amount x (numerator of a portion) no longer fits a
//	    word although the amount does. X1 sends such amounts through every flat
//	    allotment (source and destination) of a portion menu with numerators > 1.
//	X2  monetary arithmetic. The grammar lets every monetary position hold `L + R` /
//	    `L - R` (rule ExprAddSub); E1..E7 only write literals and variables. A
//	    difference can be NEGATIVE, which no literal or variable can be (the machine
//	    refuses negative monetary variables). X2a writes sums and differences in the
//	    positions of a send (amount, `max`, overdraft bound, destination `max`), X2b
//	    in `save <expr> from A` followed by a send that draws on A.
//
// Like E1..E7 these are plain cartesian products over explicit menus.

func pow10(n int64) *big.Int { return new(big.Int).Exp(big.NewInt(10), big.NewInt(n), nil) }
func pow2(n uint, k int64) *big.Int {
	return new(big.Int).Add(new(big.Int).Lsh(big.NewInt(1), n), big.NewInt(k))
}

func copyCatalog(c gen.Catalog) gen.Catalog {
	out := gen.Catalog{}
	for k, v := range c {
		out[k] = v
	}
	return out
}

// largeAmountStage is X1.
func largeAmountStage(thorough bool) (stage, string) {
	cat := copyCatalog(catalog(thorough))
	bigVar := "10000000000000000000" // 10^19 (10 ETH in wei), in [2^63, 2^64)
	cat["mon"] = gen.VarDecl{Type: "monetary", Name: "mon", Values: []string{"COIN 3", "COIN " + bigVar}}
	cat["p"] = gen.VarDecl{Type: "portion", Name: "p", Values: []string{"1/4", "99.9%"}}

	// amounts: 1 ETH, the word boundaries, 10 ETH, beyond a word
	amts := []*big.Int{pow10(18), pow2(63, 0), pow10(19), pow2(64, -1), pow2(64, 0), pow10(30)}
	if thorough {
		amts = []*big.Int{pow2(32, 0), pow10(16), pow10(18), pow2(63, -1), pow2(63, 0), pow2(63, 1), pow10(19),
			new(big.Int).Div(pow2(64, 0), big.NewInt(3)), new(big.Int).Add(new(big.Int).Div(pow2(64, 0), big.NewInt(3)), big.NewInt(1)),
			pow2(64, -1), pow2(64, 0), pow2(64, 1), pow10(30)}
	}
	var amounts []gen.Amount
	var amtNames []string
	for _, a := range amts {
		amounts = append(amounts, gen.Amount{Mon: gen.BigMon(assetMain, a.String())})
		amtNames = append(amtNames, a.String())
	}
	amounts = append(amounts, gen.Amount{Mon: gen.VarMon("mon")}, gen.Amount{All: true, Asset: assetMain})
	amtNames = append(amtNames, "$mon", "*")

	// portion vectors: numerators > 1 (2/3, 15% = 3/20, 33.3% = 333/1000, 66.7%, 99.9%),
	// `remaining` first / last, a portion variable, a metadata portion ($mp = 2/3), an empty portion
	pvs := [][]string{
		{"1/3", "2/3"}, {"2/3", "remaining"}, {"remaining", "2/3"}, {"15%", "remaining"},
		{"33.3%", "66.7%"}, {"remaining", "$p"}, {"$mp", "remaining"}, {"1/2", "1/2"},
		{"1/3", "1/3", "remaining"}, {"12.5%", "37.5%", "50%"}, {"0%", "2/3", "remaining"},
	}
	if thorough {
		pvs = append(pvs, []string{"$p", "remaining"}, []string{"remaining", "$mp"}, []string{"99.9%", "0.1%"},
			[]string{"2/3", "remaining", "1/7"}, []string{"remaining", "15%", "$p"})
	}
	balMenu := []*big.Int{new(big.Int), pow10(19), pow10(31)}

	srcLeaf := []*gen.Src{{K: gen.SAcc, Acc: "@a"}, {K: gen.SAcc, Acc: "@b"}, {K: gen.SAcc, Acc: "@world"}, {K: gen.SUnb, Acc: "@b"}}
	srcPlain := []*gen.Src{{K: gen.SAcc, Acc: "@world"}, {K: gen.SAcc, Acc: "@a"}, {K: gen.SUnb, Acc: "@a"}}
	kds := gen.KDs(gen.DstLeaves([]string{"@a", "@b"}), true)
	dstAllots := gen.DstAllots(pvs, kds)
	srcAllots := gen.SrcAllots(pvs, srcLeaf)
	dstPlain := []*gen.Dst{
		{K: gen.DAcc, Acc: "@b"},
		{K: gen.DSeq, Max: []gen.Mon{coin(1)}, To: []gen.KD{{D: &gen.Dst{K: gen.DAcc, Acc: "@a"}}}, Rem: gen.KD{Kept: true}},
	}
	progs := func(yield func(*gen.Program) bool) {
		emit := func(ss []*gen.Src, ds []*gen.Dst) bool {
			for _, s := range ss {
				for _, d := range ds {
					for _, a := range amounts {
						if !yield(&gen.Program{Stmts: []*gen.Stmt{gen.Send(a, s, d)}, Cat: cat, BalMenu: balMenu}) {
							return false
						}
					}
				}
			}
			return true
		}
		if emit(srcPlain, dstAllots) {
			emit(srcAllots, dstPlain)
		}
	}
	name := "X1: 1 send of a machine-word sized amount through a flat allotment (every destination allotment x 3 plain sources; every source allotment x 2 plain destinations)"
	rule := fmt.Sprintf("X1 (word-sized numbers): 1 send, amounts %s x { %d destination allotments (portion vectors %v over {to @a, to @b, kept}) x sources {@world, @a, @a unbounded} ; %d source allotments (same vectors over {@a, @b, @world, @b unbounded}) x destinations {@b, {max [COIN 1] to @a, remaining kept}} }, $mon in %v, $p in %v, $mp = 2/3, every balance vector over {0, 10^19, 10^31}",
		"{"+strings.Join(amtNames, ", ")+"}", len(dstAllots), pvs, len(srcAllots), cat["mon"].Values, cat["p"].Values)
	return stage{name, progs}, rule
}

// monExprs lists `l op r` for every ordered pair of operands and both operators, and,
// when nested is set, `l op r op2 s` (left-associative, as the grammar reads it) over
// the first two operands.
func monExprs(operands []gen.Mon, nested bool) []gen.Mon {
	var out []gen.Mon
	ops := []string{"-", "+"}
	for _, op := range ops {
		for _, l := range operands {
			for _, r := range operands {
				out = append(out, gen.BinMon(l, op, r))
			}
		}
	}
	if nested && len(operands) >= 2 {
		small := operands[:2]
		for _, op1 := range ops {
			for _, op2 := range ops {
				for _, l := range small {
					for _, r := range small {
						for _, s := range small {
							out = append(out, gen.BinMon(gen.BinMon(l, op1, r), op2, s))
						}
					}
				}
			}
		}
	}
	return out
}

func monTexts(ms []gen.Mon) string {
	out := make([]string, len(ms))
	for i, m := range ms {
		out[i] = m.String()
	}
	return "{" + strings.Join(out, ", ") + "}"
}

// exprStages is X2: (X2a) expressions in the monetary positions of one send, (X2b)
// `save <expr> from A` followed by a send. withSave selects X2b.
func exprStages(thorough bool, withSave bool) ([]stage, string) {
	cat := catalog(thorough)
	// operands: differences of these are negative, zero and positive; $mon = [COIN 3]
	operands := []gen.Mon{coin(1), coin(5), gen.VarMon("mon")}
	if thorough {
		operands = []gen.Mon{coin(1), coin(5), gen.VarMon("mon"), coin(20), gen.VarMon("bal")}
	}
	X := monExprs(operands, thorough)

	leaves := gen.SrcLeaves([]string{"@a", "@b", "$acc"}, []gen.Mon{coin(2)}, true, true)
	toB := &gen.Dst{K: gen.DAcc, Acc: "@b"}
	var one []*gen.Stmt
	// amount
	for _, x := range X {
		for _, s := range leaves {
			one = append(one, gen.Send(gen.Amount{Mon: x}, s, toB))
		}
	}
	// max <expr> from leaf
	for _, x := range X {
		for _, s := range leaves {
			for _, a := range []gen.Amount{{Mon: coin(7)}, {All: true, Asset: assetMain}} {
				one = append(one, gen.Send(a, &gen.Src{K: gen.SMax, Max: x, Sub: []*gen.Src{s}}, toB))
			}
		}
	}
	// A allowing overdraft up to <expr>
	for _, x := range X {
		for _, acc := range []string{"@a", "@b", "$acc"} {
			for _, a := range []gen.Amount{{Mon: coin(1)}, {Mon: coin(7)}, {Mon: coin(100)}, {All: true, Asset: assetMain}} {
				one = append(one, gen.Send(a, &gen.Src{K: gen.SOver, Acc: acc, Bound: x}, toB))
			}
		}
	}
	// destination { max <expr> to @a ; remaining to @b / kept }
	for _, x := range X {
		for _, rem := range []gen.KD{{D: toB}, {Kept: true}} {
			d := &gen.Dst{K: gen.DSeq, Max: []gen.Mon{x}, To: []gen.KD{{D: &gen.Dst{K: gen.DAcc, Acc: "@a"}}}, Rem: rem}
			one = append(one, gen.Send(gen.Amount{Mon: coin(7)}, &gen.Src{K: gen.SAcc, Acc: "@world"}, d))
		}
	}
	stages := []stage{{"X2a: 1 send with a sum / difference of monetaries as its amount, as a source `max`, as an overdraft bound, as a destination `max`", yieldStmts(cat, one)}}
	rule := fmt.Sprintf("X2 (monetary arithmetic): expressions %s; X2a = 1 send with an expression as amount (x %d leaf sources), as `max <expr> from leaf` (amounts 7, *), as `A allowing overdraft up to <expr>` (A in {@a,@b,$acc}, amounts 1, 7, 100, *), as destination `{max <expr> to @a ; remaining to @b | kept}` (%d programs)",
		monTexts(X), len(leaves), len(one))

	if withSave {
		// `save <expr> from A` then a send of the two-statement menu's shape: the saved amount may be
		// negative (a difference), the send draws on A alone, on A with a bounded overdraft, after
		// another account, or does not touch A
		var saves []*gen.Stmt
		for _, x := range X {
			for _, acc := range []string{"@a", "@b"} {
				saves = append(saves, gen.Save(gen.Amount{Mon: x}, acc))
			}
		}
		sAmts := []gen.Amount{{Mon: coin(1)}, {Mon: coin(7)}, {All: true, Asset: assetMain}, {Mon: gen.VarMon("bal")}}
		sSrc := []*gen.Src{
			{K: gen.SAcc, Acc: "@a"}, {K: gen.SOver, Acc: "@a", Bound: coin(2)}, {K: gen.SOver, Acc: "@b", Bound: coin(2)},
			{K: gen.SSeq, Sub: []*gen.Src{{K: gen.SAcc, Acc: "@b"}, {K: gen.SAcc, Acc: "@a"}}},
			{K: gen.SMax, Max: coin(5), Sub: []*gen.Src{{K: gen.SAcc, Acc: "@a"}}},
		}
		sDst := []*gen.Dst{{K: gen.DAcc, Acc: "@b"}, {K: gen.DAcc, Acc: "@world"}}
		if thorough {
			sAmts = append(sAmts, gen.Amount{Mon: coin(100)})
			sSrc = append(sSrc, &gen.Src{K: gen.SAcc, Acc: "@b"}, &gen.Src{K: gen.SAcc, Acc: "$acc"},
				&gen.Src{K: gen.SAllot, Por: []string{"1/2", "remaining"}, Sub: []*gen.Src{{K: gen.SAcc, Acc: "@a"}, {K: gen.SAcc, Acc: "@b"}}})
			sDst = append(sDst, &gen.Dst{K: gen.DAcc, Acc: "@a"})
		}
		sends := gen.Sends(sAmts, sSrc, sDst)
		stages = append(stages, stage{"X2b: `save <sum / difference> from A` followed by a send", yieldPairs(cat, saves, sends)})
		rule += fmt.Sprintf("; X2b = `save <expr> from A` (A in {@a,@b}) ; send, the send over amounts %s x %d sources (A plain, with a bounded overdraft, behind another account, under a max) x %d destinations (%d x %d programs)",
			amountMenuText(sAmts), len(sSrc), len(sDst), len(saves), len(sends))
	}
	return stages, rule
}

// ---- classification helpers for the vacuity guards of the new stages ----------------

// resolvePortions resolves a written portion vector (`remaining` included) to rationals.
func resolvePortions(por []string, env *gen.Env) ([]*big.Rat, bool) {
	rats := make([]*big.Rat, len(por))
	sum := new(big.Rat)
	remIdx := -1
	one := big.NewRat(1, 1)
	for i, p := range por {
		r, rem, ok := env.Portion(p)
		if !ok {
			return nil, false
		}
		if rem {
			if remIdx >= 0 {
				return nil, false
			}
			remIdx = i
			continue
		}
		if r.Sign() < 0 || r.Cmp(one) > 0 {
			return nil, false
		}
		rats[i] = r
		sum.Add(sum, r)
	}
	if sum.Cmp(one) > 0 {
		return nil, false
	}
	if remIdx >= 0 {
		rats[remIdx] = new(big.Rat).Sub(one, sum)
	} else if sum.Cmp(one) != 0 {
		return nil, false
	}
	return rats, true
}

// wordProduct reports whether amount fits a 64-bit word while amount x numerator does not,
// for some portion of the vector.
func wordProduct(amount *big.Int, por []string, env *gen.Env) bool {
	if amount == nil || amount.Sign() <= 0 || amount.BitLen() > 64 {
		return false
	}
	rats, ok := resolvePortions(por, env)
	if !ok {
		return false
	}
	for _, r := range rats {
		if new(big.Int).Mul(amount, r.Num()).BitLen() > 64 {
			return true
		}
	}
	return false
}
