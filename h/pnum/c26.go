package pnum

import (
	"context"
	"encoding/json"
	"errors"
	"fmt"
	"math/big"
	"os"
	"regexp"
	"sort"
	"strings"
	"sync"
	"sync/atomic"
	"time"

	ledger "github.com/formancehq/ledger/internal"
	ledgercontroller "github.com/formancehq/ledger/internal/controller/ledger"
	"github.com/formancehq/ledger/internal/machine/script/compiler"
	"github.com/formancehq/ledger/verifh/ev"
	"github.com/formancehq/ledger/verifh/gen"
	"github.com/formancehq/ledger/verifh/reg"
)

// C26 — machine and interpreter runtimes agree on the shared language.
//
// Every program of numscriptSpace is handed to both parsers of
// numscript_parser.go (DefaultNumscriptParser -> MachineNumscriptRuntimeAdapter,
// InterpreterNumscriptParser with no feature flag -> DefaultInterpreterMachineAdapter).
// The "language subset both runtimes support" is taken literally: the programs
// BOTH parsers accept (this drops `fail`, which the interpreter grammar does not
// have, and everything the machine compiler rejects statically). Each accepted
// program runs on both adapters for every variable assignment and balance vector,
// against the same in-memory store.
//
// Oracle: both fail, or both succeed with the same non-zero postings in the same
// order, the same transaction metadata and the same account metadata. Nothing is
// normalised beyond dropping zero-amount postings (the one documented difference).
//
// Subset boundary (evidence: coverage.subset_boundary_by_rejection): the machine
// compiler statically rejects an unbounded subsource that is not last, `[A *]` from
// an allotment or unbounded source, and an account that is "already empty at this
// stage"; the interpreter grammar has no `fail`. One input-level exclusion: an account
// VARIABLE holding `world` used as a plain / bounded-overdraft source, which the
// machine declares unsupported at run time (ResolveBalances). Inputs where a variable
// merely aliases an account the program also names literally are kept: the machine
// runs them without complaint.
//
// Disagreements are filed under root-cause classes (c26Classify); each class needs a
// structural precondition on the (program, input) pair AND an observable shape, so a
// different disagreement on the same construct still gets a new, generic signature.
func init() { reg.Register("C26", c26) }

// c26Feat: structural facts about one (program, input) pair. They serve two purposes:
// the one input-level exclusion from the shared subset (worldVarAsBoundedSource) and
// the root-cause classes a disagreement is filed under (see classify).
type c26Feat struct {
	// an account VARIABLE holding "world" is used as a bounded source (plain or bounded
	// overdraft): the machine declares this unsupported
	worldVarAsBoundedSource bool
	// an allotment (source or destination) has a `remaining` item while its explicit
	// portions already add up to more than 1
	remainingWithPortionsOver100 bool
	// in some send's destination a `kept` comes (in evaluation order) before a clause/item
	// that delivers to an account
	keptBeforeReceiver bool
	// some in-order destination has a max clause whose subtree contains `kept` and which
	// is followed by another max clause
	keptClauseThenMaxClause bool
	// `save [A n] from X` with n above X's balance at that point (no send before it), and a
	// later send of A draws from X with a bounded overdraft; saveAcc/saveAsset name X and A
	saveBeyondBalanceThenOverdraft bool
	saveAcc, saveAsset             string
	// a `send [A *]` draws from an account `allowing overdraft up to [B n]` with B != A
	sendAllOverdraftOtherAsset bool
	otherAssetAcc, otherAsset  string // the account and the asset of that overdraft bound
	// two DIFFERENT source expressions (two variables, a variable and a literal) denote the
	// same non-world account and are used, as plain or bounded-overdraft sources, for two
	// different assets (coverage only: the aliasing stage must have produced such inputs)
	aliasedSourceTwoAssets bool
	// coarse construct flags for the generic signature
	save, kept, srcAllot, dstAllot, star, twoSends bool
}

func portionsExceedOne(por []string, env *gen.Env) (over, hasRemaining bool) {
	sum := new(big.Rat)
	for _, p := range por {
		r, rem, ok := env.Portion(p)
		if !ok {
			continue
		}
		if rem {
			hasRemaining = true
			continue
		}
		sum.Add(sum, r)
	}
	return sum.Cmp(big.NewRat(1, 1)) > 0, hasRemaining
}

// walkDst visits the destination in evaluation order. seenKept says whether a `kept`
// was met before the node being visited; it returns whether the subtree contains kept.
func (f *c26Feat) walkDst(d *gen.Dst, env *gen.Env, seenKept *bool) (hasKept bool) {
	if d == nil {
		return false
	}
	if d.K == gen.DAcc {
		if *seenKept {
			f.keptBeforeReceiver = true
		}
		return false
	}
	kd := func(k gen.KD) bool {
		if k.Kept {
			*seenKept = true
			f.kept = true
			return true
		}
		return f.walkDst(k.D, env, seenKept)
	}
	switch d.K {
	case gen.DSeq:
		for i, k := range d.To {
			if kd(k) {
				hasKept = true
				if i < len(d.To)-1 {
					f.keptClauseThenMaxClause = true
				}
			}
		}
		if kd(d.Rem) {
			hasKept = true
		}
	case gen.DAllot:
		f.dstAllot = true
		if over, rem := portionsExceedOne(d.Por, env); over && rem {
			f.remainingWithPortionsOver100 = true
		}
		for _, k := range d.Items {
			if kd(k) {
				hasKept = true
			}
		}
	}
	return hasKept
}

// srcOverdraftAccounts: resolved accounts appearing in s with a bounded overdraft clause.
func srcOverdraftAccounts(s *gen.Src, env *gen.Env, into map[string]bool) {
	if s.K == gen.SOver {
		if a, ok := env.Account(s.Acc); ok {
			into[a] = true
		}
	}
	for _, c := range s.Sub {
		srcOverdraftAccounts(c, env, into)
	}
}

func stmtAsset(s *gen.Stmt, env *gen.Env) (string, bool) {
	if s.All {
		return env.AssetOf(s.Asset)
	}
	a, _, ok := env.Monetary(s.Amt)
	return a, ok
}

func c26Features(p *gen.Program, env *gen.Env) c26Feat {
	var f c26Feat
	sends := 0
	type pendingSave struct{ acc, asset string }
	var clamped []pendingSave
	usedFor := map[string]map[string]map[string]bool{} // account -> expression -> assets
	for _, s := range p.Stmts {
		switch s.K {
		case gen.StSave:
			f.save = true
			if s.All || sends > 0 {
				break
			}
			acc, ok1 := env.Account(s.Acc)
			asset, amt, ok2 := env.Monetary(s.Amt)
			if ok1 && ok2 && amt.Sign() > 0 && env.Balance(acc, asset).Cmp(amt) < 0 {
				clamped = append(clamped, pendingSave{acc, asset})
			}
		case gen.StSend:
			sends++
			if s.All {
				f.star = true
			}
			seenKept := false
			f.walkDst(s.Dst, env, &seenKept)
			var walk func(x *gen.Src)
			walk = func(x *gen.Src) {
				if x.K == gen.SAllot {
					f.srcAllot = true
					if over, rem := portionsExceedOne(x.Por, env); over && rem {
						f.remainingWithPortionsOver100 = true
					}
				}
				if (x.K == gen.SAcc || x.K == gen.SOver) && strings.HasPrefix(x.Acc, "$") {
					if a, ok := env.Account(x.Acc); ok && a == "world" {
						f.worldVarAsBoundedSource = true
					}
				}
				if x.K == gen.SOver && s.All {
					want, ok1 := stmtAsset(s, env)
					got, _, ok2 := env.Monetary(x.Bound)
					if acc, ok3 := env.Account(x.Acc); ok1 && ok2 && ok3 && want != got && !f.sendAllOverdraftOtherAsset {
						f.sendAllOverdraftOtherAsset = true
						f.otherAssetAcc, f.otherAsset = acc, got
					}
				}
				if x.K == gen.SAcc || x.K == gen.SOver {
					a, ok1 := env.Account(x.Acc)
					asset, ok2 := stmtAsset(s, env)
					if ok1 && ok2 && a != "world" {
						if usedFor[a] == nil {
							usedFor[a] = map[string]map[string]bool{}
						}
						if usedFor[a][x.Acc] == nil {
							usedFor[a][x.Acc] = map[string]bool{}
						}
						usedFor[a][x.Acc][asset] = true
					}
				}
				for _, c := range x.Sub {
					walk(c)
				}
			}
			walk(s.Src)
			if len(clamped) > 0 && !f.saveBeyondBalanceThenOverdraft {
				over := map[string]bool{}
				srcOverdraftAccounts(s.Src, env, over)
				asset, ok := stmtAsset(s, env)
				for _, c := range clamped {
					if ok && asset == c.asset && over[c.acc] {
						f.saveBeyondBalanceThenOverdraft = true
						f.saveAcc, f.saveAsset = c.acc, c.asset
					}
				}
			}
		}
	}
	f.twoSends = sends > 1
	for _, byExpr := range usedFor {
		for e1, as1 := range byExpr {
			for e2, as2 := range byExpr {
				if e1 == e2 {
					continue
				}
				for x := range as1 {
					for y := range as2 {
						if x != y {
							f.aliasedSourceTwoAssets = true
						}
					}
				}
			}
		}
	}
	return f
}

// construct names the coarse language construct of the program; it is only used in the
// generic signature of a disagreement no root-cause class explains.
func (f c26Feat) construct() string {
	var parts []string
	for _, x := range []struct {
		on   bool
		name string
	}{{f.save, "save"}, {f.kept, "kept"}, {f.srcAllot, "source-allotment"}, {f.dstAllot, "destination-allotment"}, {f.twoSends, "two-sends"}, {f.star, "send-star"}} {
		if x.on {
			parts = append(parts, x.name)
		}
	}
	if len(parts) == 0 {
		return "plain-send"
	}
	return strings.Join(parts, "+")
}

func nonZero(ps ledger.Postings) []ledger.Posting {
	var out []ledger.Posting
	for _, p := range ps {
		if p.Amount != nil && p.Amount.Sign() != 0 {
			out = append(out, p)
		}
	}
	return out
}

func samePostings(a, b []ledger.Posting) bool {
	if len(a) != len(b) {
		return false
	}
	for i := range a {
		if a[i].Source != b[i].Source || a[i].Destination != b[i].Destination || a[i].Asset != b[i].Asset || a[i].Amount.Cmp(b[i].Amount) != 0 {
			return false
		}
	}
	return true
}

// mergeAdjacent sums runs of consecutive postings with equal source, destination and asset.
func mergeAdjacent(ps []ledger.Posting) []ledger.Posting {
	var out []ledger.Posting
	for _, p := range ps {
		n := len(out)
		if n > 0 && out[n-1].Source == p.Source && out[n-1].Destination == p.Destination && out[n-1].Asset == p.Asset {
			out[n-1].Amount = new(big.Int).Add(out[n-1].Amount, p.Amount)
			continue
		}
		out = append(out, ledger.Posting{Source: p.Source, Destination: p.Destination, Asset: p.Asset, Amount: new(big.Int).Set(p.Amount)})
	}
	return out
}

// adjacentNonZeroTwins: two consecutive non-zero postings of the raw list share source,
// destination and asset (so a run of mergeAdjacent(nonZero(ps)) did not need a zero
// posting in between to come apart).
func adjacentNonZeroTwins(ps ledger.Postings) bool {
	for i := 0; i+1 < len(ps); i++ {
		p, q := ps[i], ps[i+1]
		if p.Amount.Sign() != 0 && q.Amount.Sign() != 0 && p.Source == q.Source && p.Destination == q.Destination && p.Asset == q.Asset {
			return true
		}
	}
	return false
}

// destSequence erases the sources: what each destination receives, in order, with
// consecutive deliveries to the same (destination, asset) summed.
func destSequence(ps []ledger.Posting) string {
	var b strings.Builder
	var cur *ledger.Posting
	flush := func() {
		if cur != nil {
			fmt.Fprintf(&b, "%s %s %s;", cur.Destination, cur.Amount, cur.Asset)
		}
	}
	for _, p := range ps {
		if cur != nil && cur.Destination == p.Destination && cur.Asset == p.Asset {
			cur.Amount = new(big.Int).Add(cur.Amount, p.Amount)
			continue
		}
		flush()
		cur = &ledger.Posting{Destination: p.Destination, Asset: p.Asset, Amount: new(big.Int).Set(p.Amount)}
	}
	flush()
	return b.String()
}

func drawnFrom(ps []ledger.Posting, acc, asset string) *big.Int {
	sum := new(big.Int)
	for _, p := range ps {
		if p.Source == acc && p.Asset == asset {
			sum.Add(sum, p.Amount)
		}
	}
	return sum
}

// Root-cause classes of machine/interpreter disagreements (each is a recorded finding,
// see known_findings.json). A class is only chosen when BOTH its structural precondition
// on the (program, input) pair and its observable shape hold; every other disagreement
// gets a generic signature (outcome kind + coarse construct) and is a new VIOLATION.
const (
	// numscript's runSaveStatement clamps the balance left after `save [A n] from X` at
	// zero; the machine keeps balance-n. Visible when X is later a source with a bounded
	// overdraft: the interpreter lets X give more than the machine does.
	c26SigSave = "C26:save-beyond-balance-then-bounded-overdraft-source:interpreter-gives-more"
	// the machine keeps the LAST funds of the funding (kept is a counter, taken from the
	// tail when the destination block ends), the interpreter the funds that reach the kept
	// clause: every destination receives the same amounts, from different sources.
	c26SigKeptAttribution = "C26:postings-differ:source-attribution-only:kept-before-a-receiving-destination"
	// the machine's zero-amount posting sits between two postings with the same source,
	// destination and asset; the interpreter, which never has the zero sender, emits one.
	c26SigZeroSplit = "C26:postings-differ:machine-zero-posting-separates-postings-the-interpreter-merges"
	// numscript's makeAllotment gives `remaining` the negative portion 1-sum instead of
	// failing when the explicit portions exceed 1; the machine fails.
	c26SigRemainingOver100 = "C26:only-machine-fails:allotment-with-remaining-and-portions-over-100pct"
	// machine: the funds of a kept clause stay at the head of the working funding, a later
	// max clause takes them again, and the final take of the kept total runs short.
	c26SigKeptThenMax = "C26:only-machine-fails:insufficient-funds:inorder-kept-clause-followed-by-max-clause"
	// machine: OP_TAKE_ALL withdraws the asset of the OVERDRAFT monetary, whatever the asset
	// of the `send [A *]` statement it serves: with `allowing overdraft up to [B n]`, B != A,
	// the machine moves B (balance + n) and succeeds; the interpreter refuses the currency
	// mismatch. (With a fixed amount both fail.)
	c26SigSendAllOtherAsset = "C26:only-interpreter-fails:send-all-from-overdraft-bounded-in-another-asset:machine-moves-the-bound's-asset"
)

// c26Classify returns the signature of a disagreement on outcome or postings.
func c26Classify(f c26Feat, mres, ires *ledgercontroller.NumscriptExecutionResult, me, ie error) string {
	cons := f.construct()
	switch {
	case me != nil && ie != nil:
		return ""
	case me != nil:
		kind := errKind(me)
		switch {
		case kind == "invalid-script" && f.remainingWithPortionsOver100:
			return c26SigRemainingOver100
		case kind == "insufficient-funds" && f.saveBeyondBalanceThenOverdraft:
			return c26SigSave
		case kind == "insufficient-funds" && f.keptClauseThenMaxClause:
			return c26SigKeptThenMax
		}
		return "C26:only-machine-fails:" + kind + ":construct=" + cons
	case ie != nil:
		if f.sendAllOverdraftOtherAsset && c26MovesTheBoundsAsset(f, mres) {
			return c26SigSendAllOtherAsset
		}
		return "C26:only-interpreter-fails:construct=" + cons
	}
	a, b := nonZero(mres.Postings), nonZero(ires.Postings)
	switch {
	case samePostings(a, b):
		return ""
	case samePostings(mergeAdjacent(a), b) && !adjacentNonZeroTwins(mres.Postings):
		return c26SigZeroSplit
	case f.saveBeyondBalanceThenOverdraft && drawnFrom(a, f.saveAcc, f.saveAsset).Cmp(drawnFrom(b, f.saveAcc, f.saveAsset)) < 0:
		return c26SigSave
	case f.keptBeforeReceiver && destSequence(a) == destSequence(b):
		return c26SigKeptAttribution
	}
	kind := "net-effect-differs"
	if netEffect(a) == netEffect(b) {
		kind = "same-net-effect"
		if samePostings(mergeAdjacent(a), mergeAdjacent(b)) {
			kind = "split-of-adjacent-postings-only"
		}
	}
	return "C26:postings-differ:" + kind + ":construct=" + cons
}

// c26MovesTheBoundsAsset: the observable shape of c26SigSendAllOtherAsset: the machine
// posted, from the account with the foreign overdraft bound, the asset of that bound.
func c26MovesTheBoundsAsset(f c26Feat, mres *ledgercontroller.NumscriptExecutionResult) bool {
	if mres == nil {
		return false
	}
	for _, p := range mres.Postings {
		if p.Source == f.otherAssetAcc && p.Asset == f.otherAsset {
			return true
		}
	}
	return false
}

func netEffect(ps []ledger.Posting) string {
	d := balState{}
	for _, p := range ps {
		s := d.get(p.Source, p.Asset)
		s.Sub(s, p.Amount)
		t := d.get(p.Destination, p.Asset)
		t.Add(t, p.Amount)
	}
	var keys []string
	for a, m := range d {
		for k, v := range m {
			if v.Sign() != 0 {
				keys = append(keys, a+"/"+k+"="+v.String())
			}
		}
	}
	sort.Strings(keys)
	return strings.Join(keys, " ")
}

func postingsText(ps []ledger.Posting) []string {
	out := make([]string, len(ps))
	for i, p := range ps {
		out[i] = fmt.Sprintf("%s->%s %s %s", p.Source, p.Destination, p.Amount, p.Asset)
	}
	return out
}

func metaEqual(a, b map[string]string) bool {
	if len(a) != len(b) {
		return false
	}
	for k, v := range a {
		if w, ok := b[k]; !ok || w != v {
			return false
		}
	}
	return true
}

var c26Volatile = regexp.MustCompile(`[0-9]+|"[^"]*"|'[^']*'|@[a-z]+|\\$[a-z]+`)

// c26BoundaryClass says why one of the two parsers rejects a program: the wording of its
// first error with positions, names and literals removed. It is evidence of where the
// boundary of the shared subset lies (coverage only, never a signature).
func c26BoundaryClass(text string, merr, ierr error) string {
	msg := ""
	who := "machine compiler"
	if merr != nil {
		_, err := compiler.Compile(text)
		var l *compiler.CompileErrorList
		if errors.As(err, &l) && len(l.Errors) > 0 {
			msg = l.Errors[0].Msg
		} else {
			msg = shortErr(merr)
		}
	} else {
		who = "interpreter parser"
		var pe ledgercontroller.ErrParsing
		if errors.As(ierr, &pe) && len(pe.Errors) > 0 {
			msg = pe.Errors[0].Msg
		} else {
			msg = shortErr(ierr)
		}
	}
	msg = c26Volatile.ReplaceAllString(msg, "_")
	if len(msg) > 100 {
		msg = msg[:100]
	}
	return who + ": " + msg
}

func c26StageOrder(in []stage) []stage {
	var out []stage
	taken := make([]bool, len(in))
	for _, prefix := range []string{"E4:", "E5:", "E3:"} {
		for i, st := range in {
			if !taken[i] && strings.HasPrefix(st.Name, prefix) {
				out = append(out, st)
				taken[i] = true
			}
		}
	}
	for i, st := range in {
		if !taken[i] {
			out = append(out, st)
		}
	}
	return out
}

var c26DumpMu sync.Mutex
var c26DumpFile *os.File

// c26Dump: debugging aid. With C26_DUMP=<file> every disagreeing input (not only the
// first per signature) is appended to <file> as one JSON line.
func c26Dump(sig string, o map[string]any) {
	path := os.Getenv("C26_DUMP")
	if path == "" {
		return
	}
	c26DumpMu.Lock()
	defer c26DumpMu.Unlock()
	if c26DumpFile == nil {
		f, err := os.Create(path)
		if err != nil {
			return
		}
		c26DumpFile = f
	}
	o["signature"] = sig
	b, _ := json.Marshal(o)
	c26DumpFile.Write(append(b, '\n'))
}

func c26() int {
	tuneRuntime()
	r := ev.Start("C26", ev.LevelExploration, 100*time.Second, 15*time.Minute)
	sp := numscriptSpace(r.Thorough())
	if r.Thorough() {
		// two runtimes per input: the last (least novel) stage of the thorough space is left to C22/C23
		sp.Stages = sp.Stages[:len(sp.Stages)-1]
	}
	// The small stages go first (statement menu alone and in pairs: save, metadata, two
	// sends, second asset; then variable amounts): a run cut by its budget has then covered
	// every statement kind, and what is left uncovered is the tail of the big send products.
	sp.Stages = c26StageOrder(sp.Stages)
	// Before everything else (small, and never lost to a time cut): the aliasing stage. The
	// other stages name every account through ONE expression per program (or one asset per
	// account); here the same account is reached through two different expressions — two
	// variables, a variable and a literal — used for different assets, which is where a runtime
	// that batches its balance queries per expression and one that batches per account name
	// can come apart.
	alias := aliasStage(r.Thorough())
	sp.Stages = append([]stage{alias}, sp.Stages...)
	mp := ledgercontroller.NewDefaultNumscriptParser()
	ip := ledgercontroller.NewInterpreterNumscriptParser(nil)
	samples := ev.NewSamples(6)
	var programs, inSubset, onlyMachine, onlyInterp, neither, excludedWorldVar atomic.Int64
	var evals, bothFail, bothOK, agreeWithPostings, zeroIgnored, metaCompared, accMetaCompared, nontrivial, disagreements atomic.Int64
	var txMetaAgreeNonEmpty, accMetaAgreeNonEmpty, aliasedInputs, aliasedAgree atomic.Int64
	var disagreeKinds, boundary counterSet

	stages, all := runStages(r, sp.Stages, func(p *gen.Program) {
		programs.Add(1)
		text := p.Text()
		mrt, merr := mp.Parse(text)
		irt, ierr := ip.Parse(text)
		switch {
		case merr != nil && ierr != nil:
			neither.Add(1)
			return
		case merr != nil:
			onlyInterp.Add(1)
			boundary.Add(c26BoundaryClass(text, merr, nil))
			return
		case ierr != nil:
			onlyMachine.Add(1)
			boundary.Add(c26BoundaryClass(text, nil, ierr))
			return
		}
		inSubset.Add(1)
		progNontrivial := false
		forEachEnv(p, func(env *gen.Env) {
			feat := c26Features(p, env)
			if feat.worldVarAsBoundedSource {
				// the machine states it does not support this: "`@world` can only be used as a
				// variable in the experimental interpreter, or if it is never used as a source"
				excludedWorldVar.Add(1)
				return
			}
			evals.Add(1)
			if feat.aliasedSourceTwoAssets {
				aliasedInputs.Add(1)
			}
			var mres, ires *ledgercontroller.NumscriptExecutionResult
			var me, ie error
			var mpanic, ipanic any
			func() {
				defer func() { mpanic = recover() }()
				mres, me = mrt.Execute(context.Background(), newFakeStore(env), env.Vars)
			}()
			func() {
				defer func() { ipanic = recover() }()
				ires, ie = irt.Execute(context.Background(), newFakeStore(env), env.Vars)
			}()
			rep := func(extra map[string]any) map[string]any {
				o := replayObj(text, env, extra)
				if mres != nil {
					o["machine_postings"] = postingsText(mres.Postings)
					o["machine_tx_meta"] = mres.Metadata
					o["machine_account_meta"] = mres.AccountMetadata
				}
				if ires != nil {
					o["interpreter_postings"] = postingsText(ires.Postings)
					o["interpreter_tx_meta"] = ires.Metadata
					o["interpreter_account_meta"] = ires.AccountMetadata
				}
				if me != nil {
					o["machine_error"] = shortErr(me)
				}
				if ie != nil {
					o["interpreter_error"] = shortErr(ie)
				}
				return o
			}
			disagree := func(sig, what string) {
				disagreements.Add(1)
				disagreeKinds.Add(sig)
				c26Dump(sig, rep(nil))
				r.Violation(sig, what+" | program: "+text+fmt.Sprintf(" | vars %v balances %v", env.Vars, balString(env.Bal)), rep(nil))
			}
			if mpanic != nil || ipanic != nil {
				// a panic is C27's matter for the machine; for the comparison it counts as a failure of that side
				if mpanic != nil {
					me = fmt.Errorf("panic: %v", mpanic)
				}
				if ipanic != nil {
					ie = fmt.Errorf("panic: %v", ipanic)
				}
				r.Note(fmt.Sprintf("panic during C26 run (machine=%v interpreter=%v): %s", mpanic, ipanic, text))
			}
			switch {
			case me != nil && ie != nil:
				bothFail.Add(1)
				return
			case me != nil:
				disagree(c26Classify(feat, mres, ires, me, ie), fmt.Sprintf("machine fails (%s), interpreter succeeds with %v", shortErr(me), postingsText(ires.Postings)))
				return
			case ie != nil:
				disagree(c26Classify(feat, mres, ires, me, ie), fmt.Sprintf("interpreter fails (%s), machine succeeds with %v", shortErr(ie), postingsText(mres.Postings)))
				return
			}
			bothOK.Add(1)
			a, b := nonZero(mres.Postings), nonZero(ires.Postings)
			if len(a) != len(mres.Postings) || len(b) != len(ires.Postings) {
				zeroIgnored.Add(1)
			}
			ok := true
			if sig := c26Classify(feat, mres, ires, nil, nil); sig != "" {
				ok = false
				disagree(sig, fmt.Sprintf("machine %v (with its zero postings: %v), interpreter %v", postingsText(a), postingsText(mres.Postings), postingsText(b)))
			}
			metaCompared.Add(1)
			if !metaEqual(mres.Metadata, ires.Metadata) {
				ok = false
				disagree("C26:tx-metadata-differs", fmt.Sprintf("machine %v, interpreter %v", mres.Metadata, ires.Metadata))
			} else if len(mres.Metadata) > 0 {
				txMetaAgreeNonEmpty.Add(1)
			}
			accs := map[string]bool{}
			for k := range mres.AccountMetadata {
				accs[k] = true
			}
			for k := range ires.AccountMetadata {
				accs[k] = true
			}
			for k := range accs {
				accMetaCompared.Add(1)
				if !metaEqual(mres.AccountMetadata[k], ires.AccountMetadata[k]) {
					ok = false
					disagree("C26:account-metadata-differs", fmt.Sprintf("account %s: machine %v, interpreter %v", k, mres.AccountMetadata[k], ires.AccountMetadata[k]))
				} else if len(mres.AccountMetadata[k]) > 0 {
					accMetaAgreeNonEmpty.Add(1)
				}
			}
			if ok && len(a) > 0 {
				if feat.aliasedSourceTwoAssets {
					aliasedAgree.Add(1)
				}
				agreeWithPostings.Add(1)
				progNontrivial = true
				samples.Add(map[string]any{"program": text, "vars": env.Vars, "balances": balString(env.Bal), "postings_both": postingsText(a), "tx_meta": mres.Metadata, "account_meta": mres.AccountMetadata})
			}
		})
		if progNontrivial {
			nontrivial.Add(1)
		}
	})

	// Vacuity guards. They are evaluated whatever the number of recorded findings: a run
	// that only re-observes known findings must still have exercised the comparison.
	switch {
	case inSubset.Load() == 0:
		r.EngineError("vacuous: no program accepted by both parsers")
	case onlyInterp.Load()+onlyMachine.Load()+neither.Load() == 0:
		r.EngineError("vacuous: the restriction to the shared subset never excluded a program")
	case agreeWithPostings.Load() == 0:
		r.EngineError("vacuous: the runtimes never agreed on a non-empty posting list")
	case bothFail.Load() == 0:
		r.EngineError("vacuous: no input on which both runtimes fail")
	case zeroIgnored.Load() == 0:
		r.EngineError("vacuous: no input where a zero-amount posting had to be ignored")
	case txMetaAgreeNonEmpty.Load() == 0:
		r.EngineError("vacuous: transaction metadata was never compared on a non-empty value")
	case accMetaAgreeNonEmpty.Load() == 0:
		r.EngineError("vacuous: account metadata was never compared on a non-empty value")
	case aliasedAgree.Load() == 0:
		r.EngineError(fmt.Sprintf("vacuous: no input where two different source expressions denote the same account for two different assets and both runtimes succeed with postings (%d such inputs ran)", aliasedInputs.Load()))
	}
	cov := ev.Coverage{
		"evaluations":                       evals.Load(),
		"distinct_nontrivial":               nontrivial.Load(),
		"rule":                              sp.Rule + "; C26 keeps the programs accepted by BOTH DefaultNumscriptParser and InterpreterNumscriptParser(no flags): `fail` (absent from the interpreter grammar) and programs the machine compiler rejects statically are outside the shared subset, and so are inputs where an account VARIABLE used as a plain or bounded-overdraft source holds the value world (the machine declares them unsupported: `@world` can only be used as a variable in the experimental interpreter, or if it is never used as a source); distinct_nontrivial = distinct shared programs with at least one input where both runtimes succeed with identical non-empty non-zero postings and identical metadata",
		"samples":                           samples.List(),
		"exhaustive":                        all,
		"stages":                            stages,
		"bounds_fully_covered":              coveredStages(stages),
		"programs":                          programs.Load(),
		"programs_in_shared_subset":         inSubset.Load(),
		"programs_only_machine_accepts":     onlyMachine.Load(),
		"programs_only_interpreter_accepts": onlyInterp.Load(),
		"programs_neither_accepts":          neither.Load(),
		"subset_boundary_by_rejection":      boundary.Map(),
		"inputs_excluded_world_through_variable_as_bounded_source": excludedWorldVar.Load(),
		"inputs_both_fail":                    bothFail.Load(),
		"inputs_both_succeed":                 bothOK.Load(),
		"inputs_agreeing_with_postings":       agreeWithPostings.Load(),
		"inputs_where_zero_postings_ignored":  zeroIgnored.Load(),
		"tx_metadata_comparisons":             metaCompared.Load(),
		"tx_metadata_agreeing_non_empty":      txMetaAgreeNonEmpty.Load(),
		"account_metadata_comparisons":        accMetaCompared.Load(),
		"account_metadata_agreeing_non_empty": accMetaAgreeNonEmpty.Load(),
		"inputs_disagreeing":                  disagreements.Load(),
		"inputs_with_one_account_through_two_source_expressions_for_two_assets":          aliasedInputs.Load(),
		"inputs_with_one_account_through_two_source_expressions_for_two_assets_agreeing": aliasedAgree.Load(),
		"disagreements_by_signature":    disagreeKinds.Map(),
		"traces_validated_against_impl": evals.Load(),
	}
	return r.Finish(cov, []string{
		"both adapters are the real ones of numscript_runtime.go, built by the real parsers of numscript_parser.go, and read the same in-memory store (GetBalances answers every queried pair, Accounts().GetOne returns the account's metadata)",
		"interpreter = github.com/formancehq/numscript at the version pinned by /repo/go.mod, run without feature flags",
		"a disagreement is filed under a root-cause class only when the class's structural precondition on the (program, input) pair AND its observable shape both hold (see c26Classify); anything else gets a generic signature (outcome kind + coarse constructs of the program) and is a new violation",
	})
}
