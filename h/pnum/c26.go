package pnum

import (
	"context"
	"fmt"
	"math/big"
	"sort"
	"strings"
	"sync/atomic"
	"time"

	ledger "github.com/formancehq/ledger/internal"
	ledgercontroller "github.com/formancehq/ledger/internal/controller/ledger"
	"github.com/formancehq/ledger/verifh/ev"
	"github.com/formancehq/ledger/verifh/gen"
	"github.com/formancehq/ledger/verifh/reg"
)

// C26 — machine and interpreter runtimes agree on the shared language.
//
// Every program of numscriptSpace is handed to both parsers of
// numscript_parser.go (DefaultNumscriptParser -> MachineNumscriptRuntimeAdapter,
// InterpreterNumscriptParser with no feature flag -> DefaultInterpreterMachineAdapter).
// The "language subset both runtimes support" is taken literally: the programs
// BOTH parsers accept (this drops `fail`, which the interpreter grammar does not
// have, and everything the machine compiler rejects statically). Each accepted
// program runs on both adapters for every variable assignment and balance vector,
// against the same in-memory store.
//
// Oracle: both fail, or both succeed with the same non-zero postings in the same
// order, the same transaction metadata and the same account metadata.
func init() { reg.Register("C26", c26) }

type c26Feat struct {
	save, kept, multiSrc, sameAccountTwice, srcAllot, star, twoSends bool
	portionsOver100, keptBeforeMax, worldVarAsSource                 bool
}

func portionsExceedOne(por []string, env *gen.Env) bool {
	sum := new(big.Rat)
	for _, p := range por {
		r, rem, ok := env.Portion(p)
		if !ok || rem {
			continue
		}
		sum.Add(sum, r)
	}
	return sum.Cmp(big.NewRat(1, 1)) > 0
}

func (f *c26Feat) walkDst(d *gen.Dst, env *gen.Env) {
	if d == nil || d.K == gen.DAcc {
		return
	}
	kd := func(k gen.KD) {
		if !k.Kept {
			f.walkDst(k.D, env)
		}
	}
	switch d.K {
	case gen.DSeq:
		for i, k := range d.To {
			if k.Kept && i < len(d.To)-1 {
				f.keptBeforeMax = true
			}
			kd(k)
		}
		kd(d.Rem)
	case gen.DAllot:
		if portionsExceedOne(d.Por, env) {
			f.portionsOver100 = true
		}
		for _, k := range d.Items {
			kd(k)
		}
	}
}

func c26Features(p *gen.Program, env *gen.Env) c26Feat {
	var f c26Feat
	sends := 0
	for _, s := range p.Stmts {
		switch s.K {
		case gen.StSave:
			f.save = true
		case gen.StSend:
			sends++
			if s.All {
				f.star = true
			}
			if dstHasKept(s.Dst) {
				f.kept = true
			}
			f.walkDst(s.Dst, env)
			seen := map[string]int{}
			var walk func(x *gen.Src)
			walk = func(x *gen.Src) {
				if x.K == gen.SAllot {
					f.srcAllot = true
					if portionsExceedOne(x.Por, env) {
						f.portionsOver100 = true
					}
				}
				if strings.HasPrefix(x.Acc, "$") {
					if a, ok := env.Account(x.Acc); ok && a == "world" {
						f.worldVarAsSource = true
					}
				}
				if x.Acc != "" {
					if a, ok := env.Account(x.Acc); ok {
						seen[a]++
					}
				}
				for _, c := range x.Sub {
					walk(c)
				}
			}
			walk(s.Src)
			if len(seen) > 1 {
				f.multiSrc = true
			}
			for _, n := range seen {
				if n > 1 {
					f.sameAccountTwice = true
				}
			}
		}
	}
	f.twoSends = sends > 1
	return f
}

// construct names the language construct a disagreement is filed under
// (first match wins; the order goes from the most specific suspect).
func (f c26Feat) construct() string {
	switch {
	case f.portionsOver100:
		return "allotment-portions-sum-over-100pct"
	case f.save:
		return "save"
	case f.keptBeforeMax:
		return "kept-clause-before-another-max-clause"
	case f.kept && f.multiSrc:
		return "kept-with-several-source-accounts"
	case f.kept:
		return "kept"
	case f.sameAccountTwice:
		return "same-account-twice-in-source"
	case f.srcAllot:
		return "source-allotment"
	case f.twoSends:
		return "two-sends"
	case f.star:
		return "send-star"
	}
	return "other"
}

func nonZero(ps ledger.Postings) []ledger.Posting {
	var out []ledger.Posting
	for _, p := range ps {
		if p.Amount != nil && p.Amount.Sign() != 0 {
			out = append(out, p)
		}
	}
	return out
}

func samePostings(a, b []ledger.Posting) bool {
	if len(a) != len(b) {
		return false
	}
	for i := range a {
		if a[i].Source != b[i].Source || a[i].Destination != b[i].Destination || a[i].Asset != b[i].Asset || a[i].Amount.Cmp(b[i].Amount) != 0 {
			return false
		}
	}
	return true
}

// mergeAdjacent sums runs of consecutive postings with equal source, destination and asset.
func mergeAdjacent(ps []ledger.Posting) []ledger.Posting {
	var out []ledger.Posting
	for _, p := range ps {
		n := len(out)
		if n > 0 && out[n-1].Source == p.Source && out[n-1].Destination == p.Destination && out[n-1].Asset == p.Asset {
			out[n-1].Amount = new(big.Int).Add(out[n-1].Amount, p.Amount)
			continue
		}
		out = append(out, ledger.Posting{Source: p.Source, Destination: p.Destination, Asset: p.Asset, Amount: new(big.Int).Set(p.Amount)})
	}
	return out
}

func netEffect(ps []ledger.Posting) string {
	d := balState{}
	for _, p := range ps {
		s := d.get(p.Source, p.Asset)
		s.Sub(s, p.Amount)
		t := d.get(p.Destination, p.Asset)
		t.Add(t, p.Amount)
	}
	var keys []string
	for a, m := range d {
		for k, v := range m {
			if v.Sign() != 0 {
				keys = append(keys, a+"/"+k+"="+v.String())
			}
		}
	}
	sort.Strings(keys)
	return strings.Join(keys, " ")
}

func postingsText(ps []ledger.Posting) []string {
	out := make([]string, len(ps))
	for i, p := range ps {
		out[i] = fmt.Sprintf("%s->%s %s %s", p.Source, p.Destination, p.Amount, p.Asset)
	}
	return out
}

func metaEqual(a, b map[string]string) bool {
	if len(a) != len(b) {
		return false
	}
	for k, v := range a {
		if w, ok := b[k]; !ok || w != v {
			return false
		}
	}
	return true
}

func c26() int {
	tuneRuntime()
	r := ev.Start("C26", ev.LevelExploration, 100*time.Second, 15*time.Minute)
	sp := numscriptSpace(r.Thorough())
	if r.Thorough() {
		// two runtimes per input: the last (least novel) stage of the thorough space is left to C22/C23
		sp.Stages = sp.Stages[:len(sp.Stages)-1]
	}
	mp := ledgercontroller.NewDefaultNumscriptParser()
	ip := ledgercontroller.NewInterpreterNumscriptParser(nil)
	samples := ev.NewSamples(6)
	var programs, inSubset, onlyMachine, onlyInterp, neither, excludedWorldVar atomic.Int64
	var evals, bothFail, bothOK, agreeWithPostings, zeroIgnored, metaCompared, accMetaCompared, nontrivial, disagreements atomic.Int64
	var disagreeKinds counterSet

	stages, all := runStages(r, sp.Stages, func(p *gen.Program) {
		programs.Add(1)
		text := p.Text()
		mrt, merr := mp.Parse(text)
		irt, ierr := ip.Parse(text)
		switch {
		case merr != nil && ierr != nil:
			neither.Add(1)
			return
		case merr != nil:
			onlyInterp.Add(1)
			return
		case ierr != nil:
			onlyMachine.Add(1)
			return
		}
		inSubset.Add(1)
		progNontrivial := false
		forEachEnv(p, func(env *gen.Env) {
			feat := c26Features(p, env)
			if feat.worldVarAsSource {
				// the machine states it does not support this: "`@world` can only be used as a
				// variable in the experimental interpreter, or if it is never used as a source"
				excludedWorldVar.Add(1)
				return
			}
			evals.Add(1)
			var mres, ires *ledgercontroller.NumscriptExecutionResult
			var me, ie error
			var mpanic, ipanic any
			func() {
				defer func() { mpanic = recover() }()
				mres, me = mrt.Execute(context.Background(), newFakeStore(env), env.Vars)
			}()
			func() {
				defer func() { ipanic = recover() }()
				ires, ie = irt.Execute(context.Background(), newFakeStore(env), env.Vars)
			}()
			rep := func(extra map[string]any) map[string]any {
				o := replayObj(text, env, extra)
				if mres != nil {
					o["machine_postings"] = postingsText(mres.Postings)
					o["machine_tx_meta"] = mres.Metadata
					o["machine_account_meta"] = mres.AccountMetadata
				}
				if ires != nil {
					o["interpreter_postings"] = postingsText(ires.Postings)
					o["interpreter_tx_meta"] = ires.Metadata
					o["interpreter_account_meta"] = ires.AccountMetadata
				}
				if me != nil {
					o["machine_error"] = shortErr(me)
				}
				if ie != nil {
					o["interpreter_error"] = shortErr(ie)
				}
				return o
			}
			disagree := func(sig, what string) {
				disagreements.Add(1)
				disagreeKinds.Add(sig)
				r.Violation(sig, what+" | program: "+text+fmt.Sprintf(" | vars %v balances %v", env.Vars, balString(env.Bal)), rep(nil))
			}
			if mpanic != nil || ipanic != nil {
				// a panic is C27's matter for the machine; for the comparison it counts as a failure of that side
				if mpanic != nil {
					me = fmt.Errorf("panic: %v", mpanic)
				}
				if ipanic != nil {
					ie = fmt.Errorf("panic: %v", ipanic)
				}
				r.Note(fmt.Sprintf("panic during C26 run (machine=%v interpreter=%v): %s", mpanic, ipanic, text))
			}
			cons := feat.construct()
			switch {
			case me != nil && ie != nil:
				bothFail.Add(1)
				return
			case me != nil:
				disagree("C26:only-machine-fails:construct="+cons, fmt.Sprintf("machine fails (%s), interpreter succeeds with %v", shortErr(me), postingsText(ires.Postings)))
				return
			case ie != nil:
				disagree("C26:only-interpreter-fails:construct="+cons, fmt.Sprintf("interpreter fails (%s), machine succeeds with %v", shortErr(ie), postingsText(mres.Postings)))
				return
			}
			bothOK.Add(1)
			a, b := nonZero(mres.Postings), nonZero(ires.Postings)
			if len(a) != len(mres.Postings) || len(b) != len(ires.Postings) {
				zeroIgnored.Add(1)
			}
			ok := true
			if !samePostings(a, b) {
				ok = false
				kind := "net-effect-differs"
				if netEffect(a) == netEffect(b) {
					kind = "same-net-effect"
					if samePostings(mergeAdjacent(a), mergeAdjacent(b)) {
						kind = "split-of-adjacent-postings-only"
					}
				}
				disagree("C26:postings-differ:"+kind+":construct="+cons, fmt.Sprintf("machine %v, interpreter %v", postingsText(a), postingsText(b)))
			}
			metaCompared.Add(1)
			if !metaEqual(mres.Metadata, ires.Metadata) {
				ok = false
				disagree("C26:tx-metadata-differs", fmt.Sprintf("machine %v, interpreter %v", mres.Metadata, ires.Metadata))
			}
			accs := map[string]bool{}
			for k := range mres.AccountMetadata {
				accs[k] = true
			}
			for k := range ires.AccountMetadata {
				accs[k] = true
			}
			for k := range accs {
				accMetaCompared.Add(1)
				if !metaEqual(mres.AccountMetadata[k], ires.AccountMetadata[k]) {
					ok = false
					disagree("C26:account-metadata-differs", fmt.Sprintf("account %s: machine %v, interpreter %v", k, mres.AccountMetadata[k], ires.AccountMetadata[k]))
				}
			}
			if ok && len(a) > 0 {
				agreeWithPostings.Add(1)
				progNontrivial = true
				samples.Add(map[string]any{"program": text, "vars": env.Vars, "balances": balString(env.Bal), "postings_both": postingsText(a), "tx_meta": mres.Metadata, "account_meta": mres.AccountMetadata})
			}
		})
		if progNontrivial {
			nontrivial.Add(1)
		}
	})

	if r.ViolationCount() == 0 {
		switch {
		case inSubset.Load() == 0:
			r.EngineError("vacuous: no program accepted by both parsers")
		case agreeWithPostings.Load() == 0:
			r.EngineError("vacuous: the runtimes never agreed on a non-empty posting list")
		case bothFail.Load() == 0:
			r.EngineError("vacuous: no input on which both runtimes fail")
		}
	}
	cov := ev.Coverage{
		"evaluations":                       evals.Load(),
		"distinct_nontrivial":               nontrivial.Load(),
		"rule":                              sp.Rule + "; C26 keeps the programs accepted by BOTH DefaultNumscriptParser and InterpreterNumscriptParser(no flags): `fail` (absent from the interpreter grammar) and programs the machine compiler rejects statically are outside the shared subset, and so are inputs where an account VARIABLE used as a source holds the value world (the machine refuses them: `@world` can only be used as a variable in the experimental interpreter); distinct_nontrivial = distinct shared programs with at least one input where both runtimes succeed with identical non-empty non-zero postings and identical metadata",
		"samples":                           samples.List(),
		"exhaustive":                        all,
		"stages":                            stages,
		"bounds_fully_covered":              coveredStages(stages),
		"programs":                          programs.Load(),
		"programs_in_shared_subset":         inSubset.Load(),
		"programs_only_machine_accepts":     onlyMachine.Load(),
		"programs_only_interpreter_accepts": onlyInterp.Load(),
		"programs_neither_accepts":          neither.Load(),
		"inputs_excluded_world_through_variable_as_source": excludedWorldVar.Load(),
		"inputs_both_fail":                   bothFail.Load(),
		"inputs_both_succeed":                bothOK.Load(),
		"inputs_agreeing_with_postings":      agreeWithPostings.Load(),
		"inputs_where_zero_postings_ignored": zeroIgnored.Load(),
		"tx_metadata_comparisons":            metaCompared.Load(),
		"account_metadata_comparisons":       accMetaCompared.Load(),
		"inputs_disagreeing":                 disagreements.Load(),
		"disagreements_by_signature":         disagreeKinds.Map(),
		"traces_validated_against_impl":      evals.Load(),
	}
	return r.Finish(cov, []string{
		"both adapters are the real ones of numscript_runtime.go, built by the real parsers of numscript_parser.go, and read the same in-memory store (GetBalances answers every queried pair, Accounts().GetOne returns the account's metadata)",
		"interpreter = github.com/formancehq/numscript at the version pinned by /repo/go.mod, run without feature flags",
		"signatures name the first matching construct of the program (save, kept with several source accounts, kept, same account twice in a source, source allotment, two sends, send *), not the instance",
	})
}
