package pnum

import (
	"context"
	"errors"
	"fmt"
	"math/big"
	"runtime"
	"runtime/debug"
	"sort"
	"strings"
	"sync"
	"sync/atomic"

	"github.com/formancehq/go-libs/v5/pkg/storage/bun/paginate"
	"github.com/formancehq/go-libs/v5/pkg/types/metadata"

	ledger "github.com/formancehq/ledger/internal"
	ledgercontroller "github.com/formancehq/ledger/internal/controller/ledger"
	"github.com/formancehq/ledger/internal/machine"
	"github.com/formancehq/ledger/internal/machine/vm"
	"github.com/formancehq/ledger/internal/machine/vm/program"
	"github.com/formancehq/ledger/internal/storage/common"
	ledgerstore "github.com/formancehq/ledger/internal/storage/ledger"
	"github.com/formancehq/ledger/verifh/ev"
	"github.com/formancehq/ledger/verifh/gen"
)

// ---------------------------------------------------------------------------
// fakeStore: the in-memory store behind both the raw machine (vm.Store) and the
// two controller adapters (ledgercontroller.Store: only GetBalances and
// Accounts().GetOne are ever called by them).
// ---------------------------------------------------------------------------

var errAccountNotFound = errors.New("fake store: account not found")

type fakeStore struct {
	ledgercontroller.Store // nil: any other method would panic (and be reported)
	bal                    map[string]map[string]*big.Int
	meta                   map[string]map[string]string // existing accounts and their metadata
	allAccountsExist       bool
	balErr, accErr         error
	uniform                *big.Int        // when set, every queried pair has this balance
	dropBalances           bool            // misbehaving store: answers with an empty map
	queried                map[string]bool // "account\x00asset" pairs asked through GetBalances
}

func newFakeStore(env *gen.Env) *fakeStore {
	return &fakeStore{bal: env.Bal, meta: env.Meta, allAccountsExist: true}
}

func (s *fakeStore) GetBalances(_ context.Context, q ledgerstore.BalanceQuery) (ledger.Balances, error) {
	if s.balErr != nil {
		return nil, s.balErr
	}
	out := ledger.Balances{}
	if s.dropBalances {
		return out, nil
	}
	for acc, assets := range q {
		m := map[string]*big.Int{}
		for _, a := range assets {
			if s.queried == nil {
				s.queried = map[string]bool{}
			}
			s.queried[acc+"\x00"+a] = true
			v := new(big.Int)
			if s.uniform != nil {
				v.Set(s.uniform)
			} else if b, ok := s.bal[acc][a]; ok {
				v.Set(b)
			}
			m[a] = v
		}
		out[acc] = m
	}
	return out, nil
}

func (s *fakeStore) GetAccount(_ context.Context, address string) (*ledger.Account, error) {
	if s.accErr != nil {
		return nil, s.accErr
	}
	md, ok := s.meta[address]
	if !ok && !s.allAccountsExist {
		return nil, errAccountNotFound
	}
	out := metadata.Metadata{}
	for k, v := range md {
		out[k] = v
	}
	return &ledger.Account{Address: address, Metadata: out}, nil
}

type fakeAccounts struct{ s *fakeStore }

func (f fakeAccounts) GetOne(ctx context.Context, q common.ResourceQuery[any]) (*ledger.Account, error) {
	addr := ""
	if q.Builder != nil {
		_ = q.Builder.Walk(func(operator, key string, value *any) error {
			if key == "address" {
				if v, ok := (*value).(string); ok {
					addr = v
				}
			}
			return nil
		})
	}
	return f.s.GetAccount(ctx, addr)
}
func (f fakeAccounts) Count(context.Context, common.ResourceQuery[any]) (int, error) {
	return 0, errors.New("fake store: Count not supported")
}
func (f fakeAccounts) Paginate(context.Context, common.PaginatedQuery[any]) (*paginate.Cursor[ledger.Account], error) {
	return nil, errors.New("fake store: Paginate not supported")
}

func (s *fakeStore) Accounts() common.PaginatedResource[ledger.Account, any] {
	return fakeAccounts{s}
}

// vmStore adapts fakeStore to vm.Store exactly like the controller's
// vmStoreAdapter does (store.go: newVmStoreAdapter).
type vmStore struct{ *fakeStore }

func (v vmStore) GetBalances(ctx context.Context, q vm.BalanceQuery) (vm.Balances, error) {
	b, err := v.fakeStore.GetBalances(ctx, q)
	return vm.Balances(b), err
}

var _ vm.Store = vmStore{}
var _ ledgercontroller.Store = (*fakeStore)(nil)

// ---------------------------------------------------------------------------
// raw machine run: the exact sequence of MachineNumscriptRuntimeAdapter.Execute
// (numscript_runtime.go), but keeping the Machine so Balances can be observed.
// ---------------------------------------------------------------------------

type machineRun struct {
	Stage    string // "", or the stage that returned the error: vars|resources|balances|execute
	Err      error
	Panic    any
	PanicAt  string          // innermost ledger function on the panicking stack
	Queried  map[string]bool // balance pairs the machine fetched from the store (set by the explorer)
	Postings []vm.Posting
	Balances map[string]map[string]*big.Int
	TxMeta   map[string]string
	AccMeta  map[string]map[string]string
	// StackLeft: values a run that returned an error at stage execute left on the VM stack
	// (an error raised in the middle of a statement; a machine is single-use, so they die
	// with it unless somebody recycles machines)
	StackLeft int
	FailP     int // instruction pointer when the run returned its error at stage execute

	// package-level values this very run left damaged (set by globalGuard.run, which has
	// restored them since)
	GlobalsMutated []globalDamage
}

func silentPrinter(c chan machine.Value) {
	for range c {
	}
}

func runMachine(prog *program.Program, vars map[string]string, st vm.Store) (res machineRun) {
	defer func() {
		if p := recover(); p != nil {
			res.Panic = p
			res.PanicAt = panicSite(debug.Stack(), p)
			res.Stage = "panic:" + res.Stage
		}
	}()
	ctx := context.Background()
	m := vm.NewMachine(*prog)
	m.Printer = silentPrinter
	cp := make(map[string]string, len(vars))
	for k, v := range vars {
		cp[k] = v
	}
	res.Stage = "vars"
	if err := m.SetVarsFromJSON(cp); err != nil {
		res.Err = err
		return
	}
	res.Stage = "resources"
	if err := m.ResolveResources(ctx, st); err != nil {
		res.Err = err
		return
	}
	res.Stage = "balances"
	if err := m.ResolveBalances(ctx, st); err != nil {
		res.Err = err
		return
	}
	res.Stage = "execute"
	if err := m.Execute(); err != nil {
		res.Err = err
		res.StackLeft = len(m.Stack)
		res.FailP = int(m.P)
		return
	}
	res.Stage = "meta"
	res.Postings = m.Postings
	res.Balances = map[string]map[string]*big.Int{}
	for acc, as := range m.Balances {
		mm := map[string]*big.Int{}
		for a, v := range as {
			mm[string(a)] = new(big.Int).Set(v.ToBigInt())
		}
		res.Balances[string(acc)] = mm
	}
	res.TxMeta = map[string]string{}
	for k, v := range m.GetTxMetaJSON() {
		res.TxMeta[k] = v
	}
	res.AccMeta = map[string]map[string]string{}
	for a, md := range m.GetAccountsMetaJSON() {
		res.AccMeta[a] = map[string]string{}
		for k, v := range md {
			res.AccMeta[a][k] = v
		}
	}
	res.Stage = ""
	return
}

func errKind(err error) string {
	switch {
	case err == nil:
		return "ok"
	case machine.IsInsufficientFundError(err):
		return "insufficient-funds"
	case errors.Is(err, machine.ErrScriptFailed):
		return "script-failed"
	case errors.Is(err, &machine.ErrInvalidScript{}):
		return "invalid-script"
	case errors.Is(err, &machine.ErrNegativeAmount{}):
		return "negative-amount"
	case errors.Is(err, &machine.ErrInvalidVars{}):
		return "invalid-vars"
	case errors.Is(err, &machine.ErrMissingMetadata{}):
		return "missing-metadata"
	}
	return "other"
}

// ---------------------------------------------------------------------------
// inputs of one program: variable assignments x balance vectors
// ---------------------------------------------------------------------------

// -1 lies strictly inside the bounded overdraft of the source menu (up to [COIN 2]): an
// account already in its overdraft but not at its bound (seeded change C23: `max(0, balance) +
// overdraft` hands the used part out a second time only from such a balance).
var balanceMenu = []int64{-3, -1, 0, 1, 5, 100}

const (
	assetMain  = "COIN"
	assetOther = "USD/2"
)

// storeMeta is the fixed account metadata of the fake store.
func storeMeta() map[string]map[string]string {
	return map[string]map[string]string{
		"m": {"acc": "b", "por": "2/3", "mon": "COIN 2"},
	}
}

// collectAccountExprs walks a program and returns the account expressions in
// "balance-relevant" position: sources, save accounts, balance() origins.
func collectAccountExprs(p *gen.Program) []string {
	seen := map[string]bool{}
	var out []string
	add := func(a string) {
		if a != "" && !seen[a] {
			seen[a] = true
			out = append(out, a)
		}
	}
	var walk func(s *gen.Src)
	walk = func(s *gen.Src) {
		if s == nil {
			return
		}
		add(s.Acc)
		for _, c := range s.Sub {
			walk(c)
		}
	}
	for _, st := range p.Stmts {
		switch st.K {
		case gen.StSend:
			walk(st.Src)
		case gen.StSave:
			add(st.Acc)
		}
	}
	for _, v := range p.UsedVars() {
		if d := p.Cat[v]; d.Origin == "balance" {
			add(d.OAcc)
		}
	}
	return out
}

// varAssignments: the cartesian product of the value menus of the supplied
// variables the program uses (deterministic order).
func varAssignments(p *gen.Program) []map[string]string {
	var names []string
	for _, v := range p.UsedVars() {
		if d, ok := p.Cat[v]; ok && d.Origin == "" {
			names = append(names, v)
		}
	}
	out := []map[string]string{{}}
	for _, n := range names {
		var next []map[string]string
		for _, base := range out {
			for _, val := range p.Cat[n].Values {
				m := make(map[string]string, len(base)+1)
				for k, v := range base {
					m[k] = v
				}
				m[n] = val
				next = append(next, m)
			}
		}
		out = next
	}
	return out
}

// forEachEnv enumerates every (vars, balances) input of p: all variable
// assignments x all balance vectors over balanceMenu for the balance-relevant
// accounts (world excluded). The second asset's balance is the menu rotated by 2
// so the two assets never share a vector. A program with its own BalMenu uses that
// menu instead of balanceMenu.
func forEachEnv(p *gen.Program, f func(env *gen.Env)) {
	exprs := collectAccountExprs(p)
	meta := storeMeta()
	menu := p.BalMenu // a stage may bring its own balance menu (large-amount stage)
	if menu == nil {
		menu = make([]*big.Int, len(balanceMenu))
		for i, b := range balanceMenu {
			menu[i] = big.NewInt(b)
		}
	}
	for _, vars := range varAssignments(p) {
		env := &gen.Env{Cat: p.Cat, Vars: vars, Meta: meta}
		accSet := map[string]bool{}
		for _, e := range exprs {
			if a, ok := env.Account(e); ok && a != "world" {
				accSet[a] = true
			}
		}
		accs := make([]string, 0, len(accSet))
		for a := range accSet {
			accs = append(accs, a)
		}
		sort.Strings(accs)
		idx := make([]int, len(accs))
		for {
			bal := map[string]map[string]*big.Int{}
			for i, a := range accs {
				bal[a] = map[string]*big.Int{
					assetMain:  new(big.Int).Set(menu[idx[i]]),
					assetOther: new(big.Int).Set(menu[(idx[i]+2)%len(menu)]),
				}
			}
			e := *env
			e.Bal = bal
			f(&e)
			i := len(idx) - 1
			for i >= 0 {
				idx[i]++
				if idx[i] < len(menu) {
					break
				}
				idx[i] = 0
				i--
			}
			if i < 0 {
				break
			}
		}
	}
}

func balString(b map[string]map[string]*big.Int) map[string]map[string]string {
	out := map[string]map[string]string{}
	for a, m := range b {
		out[a] = map[string]string{}
		for k, v := range m {
			out[a][k] = v.String()
		}
	}
	return out
}

func postingsString(ps []vm.Posting) []string {
	out := make([]string, len(ps))
	for i, p := range ps {
		out[i] = fmt.Sprintf("%s->%s %s %s", p.Source, p.Destination, p.Amount.String(), p.Asset)
	}
	return out
}

func replayObj(text string, env *gen.Env, extra map[string]any) map[string]any {
	o := map[string]any{"program": text}
	if env != nil {
		o["vars"] = env.Vars
		o["balances"] = balString(env.Bal)
		o["metadata"] = env.Meta
	}
	for k, v := range extra {
		o[k] = v
	}
	return o
}

// ---------------------------------------------------------------------------
// staged parallel driver
// ---------------------------------------------------------------------------

type stage struct {
	Name  string
	Progs func(yield func(*gen.Program) bool)
}

// stagesFirst reorders a stage list: the stages whose name starts with one of the
// prefixes come first, in the order of the prefixes; the others follow in their own
// order. Nothing is added or dropped.
func stagesFirst(in []stage, prefixes ...string) []stage {
	var out []stage
	taken := make([]bool, len(in))
	for _, prefix := range prefixes {
		for i, st := range in {
			if !taken[i] && strings.HasPrefix(st.Name, prefix) {
				out = append(out, st)
				taken[i] = true
			}
		}
	}
	for i, st := range in {
		if !taken[i] {
			out = append(out, st)
		}
	}
	return out
}

type stageStat struct {
	Name      string `json:"stage"`
	Programs  int64  `json:"programs"`
	Completed bool   `json:"completed"`
}

// runStages feeds every program of every stage to handle on NumCPU workers.
// Stages run one after the other, so when the budget expires the evidence says
// which stages (bounds) were fully covered. Returns per-stage stats and whether
// everything was covered.
func runStages(r *ev.Run, stages []stage, handle func(p *gen.Program)) ([]stageStat, bool) {
	stats := make([]stageStat, len(stages))
	all := true
	for si, st := range stages {
		stats[si].Name = st.Name
		if r.Expired() {
			all = false
			continue
		}
		ch := make(chan []*gen.Program, 64)
		var wg sync.WaitGroup
		var done atomic.Int64
		var aborted atomic.Bool
		for w := 0; w < runtime.NumCPU(); w++ {
			wg.Add(1)
			go func() {
				defer wg.Done()
				for batch := range ch {
					for _, p := range batch {
						if r.Expired() {
							aborted.Store(true)
							break
						}
						handle(p)
						done.Add(1)
					}
				}
			}()
		}
		var batch []*gen.Program
		var produced int64
		st.Progs(func(p *gen.Program) bool {
			if aborted.Load() || r.Expired() {
				aborted.Store(true)
				return false
			}
			batch = append(batch, p)
			produced++
			if len(batch) == 32 {
				ch <- batch
				batch = nil
			}
			return true
		})
		if len(batch) > 0 {
			ch <- batch
		}
		close(ch)
		wg.Wait()
		stats[si].Programs = done.Load()
		stats[si].Completed = !aborted.Load() && done.Load() == produced
		if !stats[si].Completed {
			all = false
		}
	}
	return stats, all
}

// counterSet is a concurrency-safe string->count map for error kinds etc.
type counterSet struct {
	mu sync.Mutex
	m  map[string]int64
}

func (c *counterSet) Add(k string) {
	c.mu.Lock()
	if c.m == nil {
		c.m = map[string]int64{}
	}
	c.m[k]++
	c.mu.Unlock()
}
func (c *counterSet) AddN(k string, n int64) {
	c.mu.Lock()
	if c.m == nil {
		c.m = map[string]int64{}
	}
	c.m[k] += n
	c.mu.Unlock()
}
func (c *counterSet) Map() map[string]int64 {
	c.mu.Lock()
	defer c.mu.Unlock()
	out := map[string]int64{}
	for k, v := range c.m {
		out[k] = v
	}
	return out
}

func shortErr(err error) string {
	if err == nil {
		return ""
	}
	s := err.Error()
	if i := strings.IndexByte(s, '\n'); i >= 0 {
		s = s[:i]
	}
	if len(s) > 160 {
		s = s[:160]
	}
	return s
}

// tuneRuntime: the checks allocate many short-lived objects (parse trees, big
// ints); a lazier GC roughly halves the wall time. One check runs per process.
func tuneRuntime() { debug.SetGCPercent(800) }

// panicSite names a panic structurally: the innermost function of the ledger
// (or of a dependency, if none) that was running when it was raised, plus the
// kind of runtime error. The instance (values, addresses) is left out.
func panicSite(stack []byte, p any) string {
	kind := "explicit-panic"
	if e, ok := p.(runtime.Error); ok {
		msg := e.Error()
		switch {
		case strings.Contains(msg, "nil pointer") || strings.Contains(msg, "nil *"):
			kind = "nil-dereference"
		case strings.Contains(msg, "index out of range") || strings.Contains(msg, "slice bounds"):
			kind = "index-out-of-range"
		case strings.Contains(msg, "interface conversion"):
			kind = "type-assertion"
		case strings.Contains(msg, "stack overflow"):
			kind = "stack-overflow"
		default:
			kind = "runtime-error"
		}
	}
	lines := strings.Split(string(stack), "\n")
	after := false
	first := ""
	for _, l := range lines {
		if strings.HasPrefix(l, "panic(") {
			after = true
			continue
		}
		if !after || strings.HasPrefix(l, "\t") || l == "" {
			continue
		}
		fn := l
		if i := strings.LastIndexByte(fn, '('); i > 0 {
			fn = fn[:i]
		}
		if strings.HasPrefix(fn, "runtime.") || strings.Contains(fn, "verifh/") || strings.Contains(fn, "internal/machine.(*MonetaryInt)") {
			continue // value helpers: the caller is the interesting site
		}
		if first == "" {
			first = fn
		}
		if strings.Contains(fn, "github.com/formancehq/ledger/") {
			return kind + "@" + strings.TrimPrefix(fn, "github.com/formancehq/ledger/")
		}
	}
	if first == "" {
		first = "unknown"
	}
	return kind + "@" + first
}
