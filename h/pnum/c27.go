package pnum

import (
	"context"
	"encoding/json"
	"errors"
	"fmt"
	"io"
	"math/big"
	"os"
	"regexp"
	"runtime"
	"runtime/debug"
	"sort"
	"strings"
	"sync"
	"sync/atomic"
	"syscall"
	"time"

	logging "github.com/formancehq/go-libs/v5/pkg/observe/log"

	ledgercontroller "github.com/formancehq/ledger/internal/controller/ledger"
	"github.com/formancehq/ledger/internal/machine"
	"github.com/formancehq/ledger/internal/machine/script/compiler"
	"github.com/formancehq/ledger/internal/machine/vm"
	"github.com/formancehq/ledger/internal/machine/vm/program"
	"github.com/formancehq/ledger/verifh/ev"
	"github.com/formancehq/ledger/verifh/gen"
	"github.com/formancehq/ledger/verifh/reg"
)

// C27 — compiling and running any input never crashes.
//
// Inputs (all enumerated, nothing sampled):
//
//	G  every program of numscriptSpace (quick stages) x every forEachEnv input
//	M  every single-token mutation (delete, duplicate, replace by each token of
//	   c27TokenMenu) of every program of c27Seeds; compiled mutants run with
//	   default values for whatever variables they declare x uniform balances
//	B  every byte string of length <= 3 over c27Alphabet
//	V  every seed x every variable x every adversarial string value, each
//	   variable missing, one extraneous variable; and adversarial JSON values
//	   decoded through vm.ScriptV1 + ToCore (the API path for script vars)
//	S  every seed x adversarial stores: extreme uniform balances, failing
//	   GetBalances / GetAccount, unknown accounts, ill-typed metadata
//
//	H  HISTORIES: production does not build a runtime per execution. With the numscript
//	   cache on (NSCacheConfiguration.MaxCount != 0, the default) CachedParser hands the
//	   SAME NumscriptRuntime to every request carrying the same script text, so whatever an
//	   execution leaves behind in the runtime (a recycled machine, a memoised resource, ...)
//	   is an input of the next one. For every program of G, every compiled mutant of M, every
//	   compiled string of B and every seed (with its seed/V/S inputs) the inputs of the single-run space are run
//	   again as ONE ordered history on the runtime obtained the production way
//	   (NewCachedNumscriptParser(NewDefaultNumscriptParser()).Parse(text) before each
//	   execution: one miss, then hits):
//	     chain      every input once, in enumeration order (neighbouring ok/ok, fail/fail,
//	                ok/fail, fail/ok pairs);
//	     fail x ok  for every input a whose fresh run returns an error and every input b
//	                whose fresh run succeeds: a b a — i.e. EVERY ordered (failing,
//	                succeeding) and (succeeding, failing) pair of inputs runs back to back.
//	                G programs get it in two passes. First, with their single-run cases,
//	                the REDUCED product: the first failing input of every FAIL POINT (error
//	                stage:kind, instruction pointer and stack depth at the error: the VM
//	                has no jump, a failing run is a prefix of the one instruction walk) x
//	                every succeeding input, plus every failing input x the first
//	                succeeding input, both orders. Then, after all the other groups (a
//	                budget cut loses pairs, not groups), the rest of the FULL product for
//	                the programs with at most histCap inputs (quick 36, thorough 72); the
//	                programs with three accounts in balance-relevant position (up to 432
//	                inputs, 46 000 pairs each) keep the reduced product.
//	   A history runs sequentially in one goroutine; nothing pins it to a P (Go has no API
//	   for that), but a is re-executed before each of its b's, so every failing input is
//	   followed by a succeeding one as many times as there are succeeding inputs.
//
// Every input goes through compiler.Compile and, when it compiles, through
// (1) NewMachine / SetVarsFromJSON / ResolveResources / ResolveBalances / Execute
// / GetTxMetaJSON / GetAccountsMetaJSON directly and (2) the real
// MachineNumscriptRuntimeAdapter.Execute on a fresh adapter — programs with `print`
// included (stdout is pointed at /dev/null for the run) — once per LOGGER CONFIGURATION
// of the request context (c27LoggerContexts: no logger, and a logger at trace / debug /
// info / error level; G programs: all of them on the first input of a program, the bare
// context on its failing inputs), every execution in its own goroutine under a deadline
// (c27AnswerDeadline), and (3, H) the cached runtime after the executions that precede it
// in the history.
//
// Oracle: no panic (recovered, reported with the input); every adapter execution answers
// (a result or an error) before its deadline — an execution that does not is reported as
// `no answer` with its logger configuration, the run goes on, and the later executions of
// the same (print / no print, logger) class are skipped and counted; the adapter returns a
// nil result whenever it returns an error (and a result when it does not); no
// case runs longer than 60 s (watchdog over compile, the direct machine run and the histories); H: an execution on the cached runtime returns
// exactly what the same input returns on a fresh one, whatever ran before it (no panic,
// same postings and metadata, same error class) — "any program with any variables and
// balances either succeeds or returns an error" has no clause about earlier requests.
func init() { reg.Register("C27", c27) }

var c27Seeds = []string{
	"send [COIN 7] (\n source = @a\n destination = @b\n)\n",
	"send [COIN *] (\n source = @a\n destination = @b\n)\n",
	"send [USD/2 100] (\n source = @world\n destination = @a\n)\n",
	"send [COIN 7] (\n source = @a allowing overdraft up to [COIN 2]\n destination = @b\n)\n",
	"send [COIN 7] (\n source = @a allowing unbounded overdraft\n destination = @b\n)\n",
	"send [COIN 7] (\n source = max [COIN 5] from @a\n destination = @b\n)\n",
	"send [COIN 7] (\n source = {\n  @a\n  @b\n  @world\n }\n destination = @c\n)\n",
	"send [COIN 7] (\n source = {\n  max [COIN 1] from @a\n  {\n   @b\n   @world\n  }\n }\n destination = @c\n)\n",
	"send [COIN 7] (\n source = {\n  1/2 from @a\n  50% from @b\n }\n destination = @c\n)\n",
	"send [COIN 7] (\n source = {\n  1/3 from {\n   @a\n   @world\n  }\n  remaining from max [COIN 5] from @b allowing unbounded overdraft\n }\n destination = @c\n)\n",
	"send [COIN 100] (\n source = @world\n destination = {\n  max [COIN 5] to @a\n  max [COIN 1] kept\n  remaining to @b\n }\n)\n",
	"send [COIN 100] (\n source = @world\n destination = {\n  1/3 to @a\n  2/3 kept\n }\n)\n",
	"send [COIN 100] (\n source = @world\n destination = {\n  50% to {\n   max [COIN 8] to {\n    50% kept\n    25% to @x\n    25% kept\n   }\n   remaining to @y\n  }\n  20% to @z\n  5% kept\n  remaining to @w\n }\n)\n",
	"send [COIN 100] (\n source = @world\n destination = {\n  max [COIN 5] to @a\n  remaining kept\n }\n)\n",
	"vars {\n account $acc\n}\nsend [COIN 7] (\n source = $acc\n destination = @b\n)\n",
	"vars {\n monetary $mon\n}\nsend $mon (\n source = @a\n destination = @b\n)\n",
	"vars {\n account $acc\n monetary $mon\n portion $p\n}\nsend $mon (\n source = {\n  $p from $acc\n  remaining from @world\n }\n destination = {\n  $p to @b\n  remaining kept\n }\n)\n",
	"vars {\n asset $ast\n number $n\n string $s\n}\nsend [$ast 7] (\n source = @world\n destination = @b\n)\nset_tx_meta(\"n\", $n)\nset_tx_meta(\"s\", $s)\nset_tx_meta(\"a\", $ast)\n",
	"vars {\n account $macc = meta(@m, \"acc\")\n portion $mp = meta(@m, \"por\")\n monetary $mmon = meta(@m, \"mon\")\n}\nsend $mmon (\n source = @world\n destination = {\n  $mp to $macc\n  remaining to @b\n }\n)\n",
	"vars {\n monetary $bal = balance(@a, COIN)\n}\nsend $bal (\n source = @a\n destination = @b\n)\n",
	"vars {\n monetary $b1 = balance(@a, COIN)\n monetary $b2 = balance(@a, USD/2)\n}\nsend $b1 (\n source = @a\n destination = @b\n)\nsend $b2 (\n source = @a\n destination = @b\n)\n",
	"vars {\n account $acc\n monetary $bal = balance($acc, COIN)\n}\nsend [COIN *] (\n source = max $bal from @a\n destination = $acc\n)\n",
	"save [COIN 5] from @a\nsend [COIN 7] (\n source = @a\n destination = @b\n)\n",
	"save [COIN *] from @a\nsend [COIN *] (\n source = @a\n destination = @b\n)\n",
	"vars {\n monetary $mon\n account $acc\n}\nsave $mon from $acc\nsend [COIN *] (\n source = $acc allowing overdraft up to $mon\n destination = @b\n)\n",
	"set_tx_meta(\"k\", 42)\nset_tx_meta(\"k2\", [COIN 7])\nset_tx_meta(\"k3\", @a)\nset_tx_meta(\"k4\", 1/3)\nset_tx_meta(\"k5\", \"v\")\nset_tx_meta(\"k6\", COIN)\n",
	"set_account_meta(@a, \"k\", 42)\nset_account_meta(@a, \"k2\", [COIN 7])\nset_account_meta(@b, \"k\", \"v\")\n",
	"vars {\n number $n\n}\nset_tx_meta(\"k\", $n + 1 - 2)\nsend [COIN 1] + [COIN 2] (\n source = @world\n destination = @a\n)\n",
	"print 1 + 2\nprint [COIN 1] - [COIN 1]\nprint @a\n",
	"vars {\n monetary $mon\n}\nprint $mon\nsend $mon (\n source = @a\n destination = @b\n)\nprint @b\nset_tx_meta(\"k\", 1)\n",
	"send [COIN 1] (\n source = @a\n destination = @b\n)\nfail\n",
	"// comment\nsend [COIN 1] ( /* c */\n destination = @b\n source = @a\n)\n",
	"send [COIN 5] (\n source = @a\n destination = @a\n)\nsend [USD/2 5] (\n source = {\n  @a allowing overdraft up to [USD/2 1]\n  @b\n }\n destination = {\n  remaining to @world\n }\n)\n",
}

var c27TokenMenu = []string{
	"send", "save", "set_tx_meta", "set_account_meta", "fail", "print", "vars", "source", "destination",
	"from", "to", "max", "remaining", "kept", "allowing overdraft up to", "allowing unbounded overdraft",
	"meta", "balance", "account", "monetary", "number", "portion", "string", "asset",
	"(", ")", "{", "}", "[", "]", "=", ",", "*", "+", "-", "\n", "%",
	"@a", "@world", "$acc", "$mon", "$undeclared", "COIN", "USD/2", "0", "7", "99999999999999999999999999",
	"1/2", "150%", "0/0", "\"k\"", "[COIN 7]", "[COIN *]",
}

var c27Alphabet = []byte{'{', '}', '[', ']', '(', ')', '@', '$', '*', '/', '%', '"', '\n', ' ', 'a', 'A', '1', '=', 0xff, 0x00}

var c27AdvStrings = []string{
	"", " ", "null", "true", "{}", "[]", "0", "-1", "1e3", "1.5", "00", "+5",
	"99999999999999999999999999999999", "-99999999999999999999",
	"COIN", "COIN ", " 5", "COIN 5", "COIN -5", "COIN 5 5", "COIN  5", "coin 5", "COIN 1e3", "COIN 5.0", "COIN null",
	"COIN 99999999999999999999999999", "USD/2 5", "/ 5", "COIN/ 5", "A/B/C 5",
	"1/2", "1/0", "0/0", "0/1", "-1/2", "3/2", "50%", "150%", "-5%", "1 / 2", "1/ 2", "50.5%", ".5%", "1/2/3",
	"a", "@a", "a:b", "a::b", ":a", "world", "wor ld", "\x00", "\xff", "a\nb", strings.Repeat("a", 300),
	"{\"asset\":\"COIN\",\"amount\":5}", "\"quoted\"",
}

var c27AdvJSON = []string{
	`5`, `-5`, `1e30`, `1.5`, `true`, `null`, `"str"`, `""`,
	`{"asset":"COIN","amount":5}`, `{"asset":"COIN","amount":"5"}`, `{"asset":"COIN","amount":-5}`, `{"asset":"COIN","amount":1e30}`,
	`{"asset":"COIN","amount":1.5}`, `{"asset":5,"amount":5}`, `{"amount":5}`, `{"asset":"COIN"}`, `{"asset":null,"amount":null}`,
	`{}`, `[]`, `[1,2]`, `{"asset":{"x":1},"amount":{"y":2}}`, `{"asset":"COIN","amount":true}`, `[{"asset":"COIN","amount":5}]`,
}

func defaultVarValue(t machine.Type) string {
	switch t {
	case machine.TypeAccount:
		return "c"
	case machine.TypeAsset:
		return "COIN"
	case machine.TypeNumber:
		return "42"
	case machine.TypeString:
		return "hello"
	case machine.TypeMonetary:
		return "COIN 3"
	case machine.TypePortion:
		return "1/4"
	}
	return ""
}

func declaredVars(prog *program.Program) (names []string, vars map[string]string) {
	vars = map[string]string{}
	for _, res := range prog.Resources {
		if v, ok := res.(program.Variable); ok {
			names = append(names, v.Name)
			vars[v.Name] = defaultVarValue(v.Typ)
		}
	}
	return
}

// uniformStore answers every balance query with the same value and knows
// account @m's metadata (storeMeta) — or misbehaves when told to.
func newUniformStore(v *big.Int) *fakeStore {
	return &fakeStore{meta: storeMeta(), allAccountsExist: true, uniform: v}
}

// c27Tokenize splits a program into tokens (the unit of mutation). Multi-word
// overdraft clauses are single tokens, as in the lexer.
var reToken = regexp.MustCompile(`allowing overdraft up to|allowing unbounded overdraft|"[^"\n]*"|//[^\n]*|/\*.*?\*/|[0-9]+ ?/ ?[0-9]+|[0-9]+(\.[0-9]+)?%|[@$]?[A-Za-z0-9_:/\-]+|\n|[^\sA-Za-z0-9]`)

func c27Tokenize(s string) []string { return reToken.FindAllString(s, -1) }

func c27Join(toks []string) string {
	var b strings.Builder
	for i, t := range toks {
		if i > 0 && t != "\n" && toks[i-1] != "\n" {
			b.WriteByte(' ')
		}
		b.WriteString(t)
	}
	return b.String()
}

type c27Stats struct {
	cases, compiled, ranOK, ranErr, adapterChecks atomic.Int64
	// adapter executions: by logger configuration; of programs holding a `print`; not run
	// because an earlier execution of the same (logger, print / no print) class gave no answer
	adapterByLogger                                        counterSet
	adapterPrintRuns, adapterPrintOK, skippedAfterNoAnswer atomic.Int64
	histSkippedNoAnswer                                    atomic.Int64
	byGroup                                                counterSet
	compiledByGroup                                        counterSet
	errKinds                                               counterSet
	distinct                                               sync.Map
	distinctN                                              atomic.Int64

	// H: histories on the cached runtime
	histPrograms, histSteps, histCacheHits, histCacheMisses atomic.Int64
	histFailThenOK, histOKThenFail, histOKThenOK            atomic.Int64 // adjacent pairs, by the fresh outcome of their two inputs
	histFailThenFail, histSameInputTwice                    atomic.Int64
	histMidStmtFailThenOK                                   atomic.Int64 // first of the pair failed with values left on the VM stack
	histDiagnosed, histFull, histReduced, histAroundFirstOK atomic.Int64
	histByGroup                                             counterSet // steps
	histFirstClass                                          counterSet // fail x ok pairs by the error class of the failing input
}

// c27HistInput is one input of a program together with what a FRESH runtime answers on it
// (the direct machine run of the single-run space; the fresh adapter is asked again before
// any divergence is reported).
type c27HistInput struct {
	vars      map[string]string
	mk        func() *fakeStore
	desc      map[string]any
	class     string // "ok", or stage:kind of the returned error
	out       string // canonical postings and metadata ("" when it failed)
	stackLeft int    // values the failing fresh run left on the VM stack (error in the middle of a statement)
	failP     int    // instruction pointer at which the failing fresh run stopped (stage execute)
}

// failPoint: where and how a failing input dies. The VM has no jump: every run of a program
// walks the same instructions, a failing one stops at one of them.
func (in *c27HistInput) failPoint() string {
	return fmt.Sprintf("%s@%d/%d", in.class, in.failP, in.stackLeft)
}

type c27History struct {
	group, text string
	in          []c27HistInput
	// noAnswer: some adapter execution of this text gave no answer (reported); the text gets
	// no history, which would park the worker on the same execution
	noAnswer bool
}

// the parts of a history
const (
	c27HistChain   = 1 << iota // every input once, in enumeration order
	c27HistReduced             // {first failing input of every fail point} x {succeeding inputs}, {failing inputs} x {first succeeding input}
	c27HistFull                // {failing inputs} x {succeeding inputs}
)

func c27MetaString(tx map[string]string, acc map[string]map[string]string) string {
	var b strings.Builder
	keys := make([]string, 0, len(tx))
	for k := range tx {
		keys = append(keys, k)
	}
	sort.Strings(keys)
	b.WriteString("|tx:")
	for _, k := range keys {
		fmt.Fprintf(&b, "%q=%q,", k, tx[k])
	}
	accs := make([]string, 0, len(acc))
	for a := range acc {
		accs = append(accs, a)
	}
	sort.Strings(accs)
	b.WriteString("|acc:")
	for _, a := range accs {
		keys = keys[:0]
		for k := range acc[a] {
			keys = append(keys, k)
		}
		sort.Strings(keys)
		fmt.Fprintf(&b, "%q{", a)
		for _, k := range keys {
			fmt.Fprintf(&b, "%q=%q,", k, acc[a][k])
		}
		b.WriteString("}")
	}
	return b.String()
}

// c27MachineOutcome / c27AdapterOutcome render the two views of a run in the same form:
// class = "ok" | stage:kind, out = postings and metadata.
func c27MachineOutcome(res *machineRun) (class, out string) {
	if res.Err != nil {
		return res.Stage + ":" + errKind(res.Err), ""
	}
	return "ok", strings.Join(postingsString(res.Postings), ";") + c27MetaString(res.TxMeta, res.AccMeta)
}

func c27AdapterOutcome(res *ledgercontroller.NumscriptExecutionResult, err error) (class, out string) {
	if err != nil {
		stage := "execute"
		switch msg := err.Error(); {
		case strings.HasPrefix(msg, "failed to set vars from JSON"):
			stage = "vars"
		case strings.HasPrefix(msg, "failed to resolve resources"):
			stage = "resources"
		case strings.HasPrefix(msg, "failed to resolve balances"):
			stage = "balances"
		}
		return stage + ":" + errKind(err), ""
	}
	if res == nil {
		return "nil-result-without-error", ""
	}
	ps := make([]string, len(res.Postings))
	for i, p := range res.Postings {
		amt := "<nil>"
		if p.Amount != nil {
			amt = p.Amount.String()
		}
		ps[i] = fmt.Sprintf("%s->%s %s %s", p.Source, p.Destination, amt, p.Asset)
	}
	acc := map[string]map[string]string{}
	for a, md := range res.AccountMetadata {
		acc[a] = md
	}
	return "ok", strings.Join(ps, ";") + c27MetaString(res.Metadata, acc)
}

// c27StoreSpec: a store of groups S / seed as plain data (replayable).
type c27StoreSpec struct {
	Uniform      string                       `json:"uniform_balance,omitempty"`
	BalErr       bool                         `json:"get_balances_fails,omitempty"`
	AccErr       bool                         `json:"get_account_fails,omitempty"`
	NoAccounts   bool                         `json:"no_account_exists,omitempty"`
	DropBalances bool                         `json:"empty_balances_answer,omitempty"`
	Meta         map[string]map[string]string `json:"metadata,omitempty"` // nil: storeMeta()
}

func (sp c27StoreSpec) mk() *fakeStore {
	u, _ := new(big.Int).SetString(sp.Uniform, 10)
	s := newUniformStore(u)
	if sp.BalErr {
		s.balErr = errors.New("boom")
	}
	if sp.AccErr {
		s.accErr = errors.New("boom")
	}
	if sp.NoAccounts {
		s.allAccountsExist = false
	}
	if sp.Meta != nil {
		s.meta = sp.Meta
	}
	s.dropBalances = sp.DropBalances
	return s
}

// ---------------------------------------------------------------------------
// the adapter under every logger configuration, every execution with a deadline
// ---------------------------------------------------------------------------

// c27LoggerCtx is one configuration of the request context the adapter is executed with.
// In the server the context of a request always carries the process logger (level set by
// --debug / --log-level); library callers and tests pass a bare context.
type c27LoggerCtx struct {
	Name string
	Ctx  context.Context
}

// c27LoggerContexts: no logger at all, and a logger writing to io.Discard at each level of
// go-libs' logging package (trace, debug, info, error).
func c27LoggerContexts() []c27LoggerCtx {
	out := []c27LoggerCtx{{Name: "no-logger", Ctx: context.Background()}}
	for _, lvl := range []logging.Level{logging.TraceLevel, logging.DebugLevel, logging.InfoLevel, logging.ErrorLevel} {
		l := logging.NewDefaultLoggerWithLevel(io.Discard, lvl, false, false)
		out = append(out, c27LoggerCtx{Name: "logger-level=" + lvl.String(), Ctx: logging.ContextWithLogger(context.Background(), l)})
	}
	return out
}

// c27AnswerDeadline: how long an execution may take before it is reported as giving no
// answer. The VM has no loop and the stores are in memory: an execution takes microseconds,
// so on any machine, however loaded, a run that is still not back after this long is parked
// for good (the value is a bound for "never", not a performance expectation).
const c27AnswerDeadline = 30 * time.Second

type c27AdapterAnswer struct {
	Logger   string
	Answered bool // false: nothing came back within c27AnswerDeadline
	Res      *ledgercontroller.NumscriptExecutionResult
	Err      error
	Panic    any
	Site     string
}

// c27ExecAdapter runs MachineNumscriptRuntimeAdapter.Execute (a fresh adapter each time, as
// DefaultNumscriptParser.Parse builds one) once per context, each in its own goroutine, and
// waits for all of them under ONE deadline. An execution that never returns leaves its
// goroutine parked; the caller goes on.
func c27ExecAdapter(prog *program.Program, ctxs []c27LoggerCtx, mkStore func() *fakeStore, vars map[string]string) []c27AdapterAnswer {
	out := make([]c27AdapterAnswer, len(ctxs))
	chans := make([]chan c27AdapterAnswer, len(ctxs))
	for i, lc := range ctxs {
		out[i].Logger = lc.Name
		ch := make(chan c27AdapterAnswer, 1)
		chans[i] = ch
		go func(lc c27LoggerCtx) {
			a := c27AdapterAnswer{Logger: lc.Name, Answered: true}
			defer func() {
				if p := recover(); p != nil {
					a.Panic, a.Site = p, panicSite(debug.Stack(), p)
				}
				ch <- a
			}()
			a.Res, a.Err = ledgercontroller.NewMachineNumscriptRuntimeAdapter(*prog).Execute(lc.Ctx, mkStore(), vars)
		}(lc)
	}
	deadline := time.NewTimer(c27AnswerDeadline)
	defer deadline.Stop()
	expired := false
	for i := range chans {
		if expired {
			select {
			case a := <-chans[i]:
				out[i] = a
			default:
			}
			continue
		}
		select {
		case a := <-chans[i]:
			out[i] = a
		case <-deadline.C:
			expired = true
			select {
			case a := <-chans[i]:
				out[i] = a
			default:
			}
		}
	}
	return out
}

// programPrints: the compiled program has an OP_PRINT instruction.
func programPrints(prog *program.Program) bool {
	ins := prog.Instructions
	for i := 0; i < len(ins); i++ {
		switch ins[i] {
		case program.OP_APUSH:
			i += 2
		case program.OP_PRINT:
			return true
		}
	}
	return false
}

// muteStdout points file descriptor 1 at /dev/null until restore is called. The adapter
// builds its vm.Machine itself, so a `print` statement run through it writes "OUT: ..." lines
// with the machine's default printer (vm.StdOutPrinter, fmt.Println); the protocol lines of
// the check (VIOLATION / OK, written by Finish after restore) must stay alone on stdout. The
// swap is done on the descriptor, not on the os.Stdout variable, which printer goroutines
// read concurrently.
func muteStdout() (restore func()) {
	null, err := os.OpenFile(os.DevNull, os.O_WRONLY, 0)
	if err != nil {
		return func() {}
	}
	saved, err := syscall.Dup(1)
	if err != nil {
		null.Close()
		return func() {}
	}
	if err := syscall.Dup3(int(null.Fd()), 1, 0); err != nil {
		syscall.Close(saved)
		null.Close()
		return func() {}
	}
	return func() {
		_ = syscall.Dup3(saved, 1, 0)
		syscall.Close(saved)
		null.Close()
	}
}

type c27Slot struct {
	mu    sync.Mutex
	start time.Time
	what  string
	// single-entry compile cache, touched by the owning worker only
	cached    bool
	cacheText string
	cacheProg *program.Program
	cacheErr  error
	// H: the worker's numscript cache (production: one CachedParser per process, MaxCount
	// 1024 by default; one per worker here so that no other worker evicts the runtime in
	// the middle of a history) and the history being collected, if any
	parser *ledgercontroller.CachedParser
	hist   *c27History
}

func c27() int {
	tuneRuntime()
	r := ev.Start("C27", ev.LevelExploration, 100*time.Second, 15*time.Minute)
	st := &c27Stats{}
	samples := ev.NewSamples(8)
	nw := runtime.NumCPU()
	slots := make([]*c27Slot, nw)
	for i := range slots {
		slots[i] = &c27Slot{parser: ledgercontroller.NewCachedNumscriptParser(ledgercontroller.NewDefaultNumscriptParser(), ledgercontroller.CacheConfiguration{MaxCount: 1024})}
	}
	var exhaustive atomic.Bool
	exhaustive.Store(true)

	type task func(slot *c27Slot)
	tasks := make(chan task, 256)
	var wg, pending sync.WaitGroup // pending: tasks submitted and not finished yet
	for w := 0; w < nw; w++ {
		wg.Add(1)
		go func(slot *c27Slot) {
			defer wg.Done()
			for t := range tasks {
				if r.Expired() {
					exhaustive.Store(false)
				} else {
					t(slot)
				}
				pending.Done()
			}
		}(slots[w])
	}
	// watchdog: the only wall-clock oracle
	hang := make(chan string, 1)
	stopWatch := make(chan struct{})
	go func() {
		tk := time.NewTicker(time.Second)
		defer tk.Stop()
		for {
			select {
			case <-stopWatch:
				return
			case <-tk.C:
				for _, s := range slots {
					s.mu.Lock()
					if !s.start.IsZero() && time.Since(s.start) > 60*time.Second {
						w := s.what
						s.mu.Unlock()
						select {
						case hang <- w:
						default:
						}
						return
					}
					s.mu.Unlock()
				}
			}
		}
	}()

	// `print` statements run through the adapter write on the process's stdout
	restoreStdout := muteStdout()
	loggerCtxs := c27LoggerContexts()
	var noAnswerClasses sync.Map // "program-with(out)-print:<logger>" -> true once an execution gave no answer

	// one case = one (program text, vars, store) triple
	runCase := func(slot *c27Slot, group, text string, vars map[string]string, mkStore func() *fakeStore, desc map[string]any) {
		st.cases.Add(1)
		st.byGroup.Add(group)
		slot.mu.Lock()
		slot.start, slot.what = time.Now(), text
		slot.mu.Unlock()
		defer func() {
			slot.mu.Lock()
			slot.start = time.Time{}
			slot.mu.Unlock()
		}()
		rep := func() map[string]any {
			o := map[string]any{"group": group, "program": text, "program_bytes_hex": fmt.Sprintf("%x", text), "vars": vars}
			for k, v := range desc {
				o[k] = v
			}
			return o
		}
		var prog *program.Program
		var cerr error
		firstOfText := !slot.cached || slot.cacheText != text
		if firstOfText {
			// consecutive cases of a worker share their program text: compile it once
			func() {
				defer func() {
					if p := recover(); p != nil {
						r.Violation("C27:panic:compile:"+panicSite(debug.Stack(), p), fmt.Sprintf("compiler.Compile panicked: %v | input %q", p, text), rep())
						cerr = errors.New("panic")
					}
				}()
				prog, cerr = compiler.Compile(text)
			}()
			slot.cached, slot.cacheText, slot.cacheProg, slot.cacheErr = true, text, prog, cerr
		} else {
			prog, cerr = slot.cacheProg, slot.cacheErr
		}
		if cerr != nil || prog == nil {
			if cerr == nil {
				r.Violation("C27:compile-nil-nil", fmt.Sprintf("Compile returned neither program nor error | input %q", text), rep())
			}
			return
		}
		st.compiled.Add(1)
		st.compiledByGroup.Add(group)
		if vars == nil {
			_, vars = declaredVars(prog)
		}
		// (1) the machine, step by step
		res := runMachine(prog, vars, vmStore{mkStore()})
		if res.Panic != nil {
			r.Violation("C27:panic:"+strings.TrimPrefix(res.Stage, "panic:")+":"+res.PanicAt,
				fmt.Sprintf("machine panicked at stage %s in %s: %v | program %q vars %v", res.Stage, res.PanicAt, res.Panic, text, vars), rep())
			return // the adapter runs the same code
		}
		addHist := func() {
			if slot.hist != nil && slot.hist.text == text {
				class, out := c27MachineOutcome(&res)
				slot.hist.in = append(slot.hist.in, c27HistInput{vars: vars, mk: mkStore, desc: desc, class: class, out: out, stackLeft: res.StackLeft, failP: res.FailP})
			}
		}
		if res.Err != nil {
			st.ranErr.Add(1)
			st.errKinds.Add(res.Stage + ":" + errKind(res.Err))
		} else {
			st.ranOK.Add(1)
			if _, loaded := st.distinct.LoadOrStore(text, true); !loaded {
				st.distinctN.Add(1)
			}
			if len(res.Postings) > 0 && group != "G" {
				samples.Add(map[string]any{"group": group, "program": text, "vars": vars, "store": desc, "postings": postingsString(res.Postings)})
			}
		}
		// (2) the adapter, as createTransaction calls it, under every logger configuration of
		// the request context; each execution has a deadline
		if group == "G" && res.Err == nil && !firstOfText {
			// generated programs: the adapter is exercised on every failing input (the
			// nil-result oracle; bare context) and on the first input of each program (every
			// logger configuration)
			addHist()
			return
		}
		ctxs := loggerCtxs
		if group == "G" && !firstOfText {
			ctxs = loggerCtxs[:1]
		}
		prints := programPrints(prog)
		class := "program-without-print"
		if prints {
			class = "program-with-print"
		}
		var run []c27LoggerCtx
		for _, lc := range ctxs {
			if _, hung := noAnswerClasses.Load(class + ":" + lc.Name); hung {
				st.skippedAfterNoAnswer.Add(1)
				if slot.hist != nil && slot.hist.text == text {
					slot.hist.noAnswer = true
				}
				continue
			}
			run = append(run, lc)
		}
		for _, a := range c27ExecAdapter(prog, run, mkStore, vars) {
			st.adapterChecks.Add(1)
			st.adapterByLogger.Add(a.Logger)
			if prints {
				st.adapterPrintRuns.Add(1)
			}
			ares, aerr := a.Res, a.Err
			o := rep()
			o["logger"] = a.Logger
			switch {
			case !a.Answered:
				noAnswerClasses.Store(class+":"+a.Logger, true)
				if slot.hist != nil && slot.hist.text == text {
					slot.hist.noAnswer = true
				}
				r.Violation("C27:no-answer:adapter:"+class+":"+a.Logger,
					fmt.Sprintf("MachineNumscriptRuntimeAdapter.Execute gave no answer (neither a result nor an error) within %s, context with %s; the machine run step by step on the same input answers %s | program %q vars %v", c27AnswerDeadline, a.Logger, func() string { c, _ := c27MachineOutcome(&res); return c }(), text, vars), o)
				continue
			case a.Panic != nil:
				r.Violation("C27:panic:adapter:"+a.Site, fmt.Sprintf("MachineNumscriptRuntimeAdapter.Execute panicked (context with %s): %v | program %q vars %v", a.Logger, a.Panic, text, vars), o)
				continue
			}
			if prints && aerr == nil {
				st.adapterPrintOK.Add(1)
			}
			if aerr != nil && ares != nil {
				r.Violation("C27:result-returned-with-error", fmt.Sprintf("adapter returned error %q together with a result holding %d postings | program %q", shortErr(aerr), len(ares.Postings), text), o)
			}
			if aerr == nil && ares == nil {
				r.Violation("C27:nil-result-without-error", fmt.Sprintf("adapter returned neither result nor error | program %q", text), o)
			}
			if (aerr == nil) != (res.Err == nil && res.Panic == nil) {
				r.Violation("C27:adapter-and-machine-disagree", fmt.Sprintf("same input: direct machine err=%v, adapter (context with %s) err=%v | program %q", res.Err, a.Logger, aerr, text), o)
			}
		}
		addHist()
	}

	// ---- H: one history = the inputs of one program, in order, on ONE cached runtime ------
	type histOutcome struct {
		class, out string
		panic      any
		site       string
		both       bool // error AND result
		rt         ledgercontroller.NumscriptRuntime
		parseErr   error
	}
	// one request as createTransaction serves it: parser.Parse(text), then Execute
	histExec := func(parser ledgercontroller.NumscriptParser, text string, in *c27HistInput) (o histOutcome) {
		defer func() {
			if p := recover(); p != nil {
				o.panic, o.site = p, panicSite(debug.Stack(), p)
				o.class, o.out = "panic", ""
			}
		}()
		o.rt, o.parseErr = parser.Parse(text)
		if o.parseErr != nil {
			o.class = "parse-error"
			return
		}
		ares, aerr := o.rt.Execute(context.Background(), in.mk(), in.vars)
		o.both = ares != nil && aerr != nil
		o.class, o.out = c27AdapterOutcome(ares, aerr)
		return
	}
	inputObj := func(in *c27HistInput) map[string]any {
		o := map[string]any{"vars": in.vars, "fresh_runtime_answer": in.class}
		if in.out != "" {
			o["fresh_runtime_result"] = in.out
		}
		if in.stackLeft > 0 {
			o["values_left_on_vm_stack_by_the_fresh_failing_run"] = in.stackLeft
		}
		for k, v := range in.desc {
			o[k] = v
		}
		return o
	}
	runHistory := func(slot *c27Slot, h *c27History, parts int) {
		n := len(h.in)
		if n == 0 {
			return
		}
		slot.mu.Lock()
		slot.start, slot.what = time.Now(), h.text
		slot.mu.Unlock()
		defer func() {
			slot.mu.Lock()
			slot.start = time.Time{}
			slot.mu.Unlock()
		}()
		if parts&c27HistChain != 0 {
			st.histPrograms.Add(1)
		}
		var rt0 ledgercontroller.NumscriptRuntime
		var trail []int // the steps executed so far
		prev := -1
		var steps, hits, misses, failOK, okFail, okOK, failFail, same, midOK int64
		defer func() {
			st.histSteps.Add(steps)
			st.histCacheHits.Add(hits)
			st.histCacheMisses.Add(misses)
			st.histFailThenOK.Add(failOK)
			st.histOKThenFail.Add(okFail)
			st.histOKThenOK.Add(okOK)
			st.histFailThenFail.Add(failFail)
			st.histSameInputTwice.Add(same)
			st.histMidStmtFailThenOK.Add(midOK)
			st.histByGroup.AddN(h.group, steps)
		}()
		step := func(i int) bool {
			in := &h.in[i]
			o := histExec(slot.parser, h.text, in)
			steps++
			trail = append(trail, i)
			if o.rt != nil {
				switch {
				case rt0 == nil:
					rt0 = o.rt
				case o.rt == rt0:
					hits++
				default:
					misses++
				}
			}
			if prev >= 0 {
				pOK, cOK := h.in[prev].class == "ok", in.class == "ok"
				switch {
				case prev == i:
					same++
				case !pOK && cOK:
					failOK++
					if h.in[prev].stackLeft > 0 {
						midOK++
					}
				case pOK && !cOK:
					okFail++
				case pOK && cOK:
					okOK++
				default:
					failFail++
				}
			}
			defer func() { prev = i }()
			if o.panic == nil && o.parseErr == nil && !o.both && o.class == in.class && o.out == in.out {
				return true
			}
			// ---- divergence: what does a fresh runtime answer, right now, on this input? ----
			fresh := histExec(ledgercontroller.NewDefaultNumscriptParser(), h.text, in)
			rep := map[string]any{
				"group": "H/" + h.group, "program": h.text, "program_bytes_hex": fmt.Sprintf("%x", h.text),
				"step": len(trail) - 1, "input": inputObj(in),
				"cached_runtime_answer": o.class, "cached_runtime_result": o.out,
				"fresh_adapter_answer": fresh.class, "fresh_adapter_result": fresh.out,
			}
			if prev >= 0 {
				rep["previous_input"] = inputObj(&h.in[prev])
			}
			// replayable history: the pair alone when it reproduces on a new cache, else the
			// tail of what ran
			tail := trail
			if st.histDiagnosed.Add(1) <= 8 && prev >= 0 {
				reproduced := 0
				const tries = 5
				for t := 0; t < tries; t++ {
					np := ledgercontroller.NewCachedNumscriptParser(ledgercontroller.NewDefaultNumscriptParser(), ledgercontroller.CacheConfiguration{MaxCount: 1024})
					histExec(np, h.text, &h.in[prev])
					o2 := histExec(np, h.text, in)
					if o2.class == o.class && o2.out == o.out {
						reproduced++
					}
				}
				rep["pair_alone_on_a_new_cache_reproduces"] = fmt.Sprintf("%d/%d", reproduced, tries)
				if reproduced > 0 {
					tail = []int{prev, i}
				}
			}
			if len(tail) > 32 {
				rep["history_truncated_to_last"] = 32
				tail = tail[len(tail)-32:]
			}
			var hl []any
			for _, j := range tail {
				hl = append(hl, inputObj(&h.in[j]))
			}
			rep["history"] = hl
			before := "it is the first execution of the history"
			if prev >= 0 {
				before = fmt.Sprintf("the execution before it (vars %v, %v) answered %s on a fresh runtime", h.in[prev].vars, h.in[prev].desc, h.in[prev].class)
			}
			switch {
			case o.parseErr != nil:
				r.Violation("C27:history:cached-parser-rejects-compiled-program", fmt.Sprintf("CachedParser.Parse returned %q for a program compiler.Compile accepts | program %q", shortErr(o.parseErr), h.text), rep)
			case fresh.panic == nil && fresh.class == o.class && fresh.out == o.out && !o.both:
				// not an effect of the history: the adapter and the machine disagree on a fresh run
				r.Violation("C27:adapter-and-machine-disagree", fmt.Sprintf("same input: direct machine %s %s, fresh adapter %s %s | program %q vars %v", in.class, in.out, fresh.class, fresh.out, h.text, in.vars), rep)
			case o.panic != nil:
				r.Violation("C27:panic:history:"+o.site, fmt.Sprintf("execution %d of a history on the cached runtime (CachedParser.Parse + Execute) panicked in %s: %v; the same input on a fresh runtime answers %s %s; %s | program %q vars %v %v", len(trail)-1, o.site, o.panic, in.class, in.out, before, h.text, in.vars, in.desc), rep)
			case o.both:
				r.Violation("C27:history:result-returned-with-error", fmt.Sprintf("execution %d of a history on the cached runtime returned an error (%s) together with a result; %s | program %q vars %v", len(trail)-1, o.class, before, h.text, in.vars), rep)
			default:
				kind := "result"
				switch {
				case in.class == "ok" && o.class != "ok":
					kind = "ok-became-error"
				case in.class != "ok" && o.class == "ok":
					kind = "error-became-ok"
				case in.class != o.class:
					kind = "error-class"
				}
				r.Violation("C27:history:differs-from-fresh-runtime:"+kind, fmt.Sprintf("execution %d of a history on the cached runtime answered %s %s; the same input on a fresh runtime answers %s %s; %s | program %q vars %v %v", len(trail)-1, o.class, o.out, in.class, in.out, before, h.text, in.vars, in.desc), rep)
			}
			return false // the runtime is in an unknown state: the rest of this history proves nothing
		}
		var fails, oks []int
		for i := range h.in {
			if h.in[i].class == "ok" {
				oks = append(oks, i)
			} else {
				fails = append(fails, i)
			}
		}
		if parts&c27HistChain != 0 {
			// chain: every input once, in enumeration order
			for i := 0; i < n; i++ {
				if !step(i) {
					return
				}
			}
			if n == 1 {
				step(0)
				return
			}
		}
		if len(oks) == 0 || len(fails) == 0 {
			return
		}
		// the first failing input of every fail point, in enumeration order
		var reps, others []int
		seen := map[string]bool{}
		for _, a := range fails {
			if fp := h.in[a].failPoint(); !seen[fp] {
				seen[fp] = true
				reps = append(reps, a)
			} else {
				others = append(others, a)
			}
		}
		firsts, seconds := fails, oks
		switch {
		case parts&c27HistFull != 0 && parts&c27HistChain == 0:
			// second pass over a program whose first pass ran the reduced product: the pairs
			// left are {failing inputs that are not the first of their fail point} x
			// {succeeding inputs but the first}
			firsts, seconds = others, oks[1:]
			st.histFull.Add(1)
		case parts&c27HistFull != 0:
			// fail x ok: a b a for every failing a, every succeeding b
			st.histFull.Add(1)
		case parts&c27HistReduced != 0:
			// one failing input per fail point x every succeeding input ...
			firsts = reps
			st.histReduced.Add(1)
		default:
			return
		}
		for _, a := range firsts {
			st.histFirstClass.AddN(h.in[a].class, int64(len(seconds)))
			for _, b := range seconds {
				if !step(a) || !step(b) {
					return
				}
			}
			if len(seconds) > 0 && !step(a) {
				return
			}
		}
		if parts&c27HistFull == 0 {
			// ... and every failing input around the first succeeding one: b0 a1 b0 a2 b0 ...
			b0 := oks[0]
			st.histAroundFirstOK.Add(int64(len(fails)))
			for _, a := range fails {
				if !step(b0) || !step(a) {
					return
				}
			}
			step(b0)
		}
	}
	// withHistory collects the compiled inputs of text that f feeds to runCase, then runs
	// them as a history. A G program gets the chain and the reduced product at once; the full
	// product of those with at most histCap inputs is deferred to a second pass (gp != nil:
	// the programs are regenerated then), after every group of the single-run space, so that a
	// budget cut loses pairs of the product, not groups.
	histCap := ev.Pick(r, 36, 72)
	var deferredMu sync.Mutex
	var deferred []*gen.Program
	withHistory := func(slot *c27Slot, group, text string, gp *gen.Program, f func()) {
		slot.hist = &c27History{group: group, text: text}
		f()
		h := slot.hist
		slot.hist = nil
		if h.noAnswer {
			st.histSkippedNoAnswer.Add(1)
			return
		}
		if gp == nil {
			runHistory(slot, h, c27HistChain|c27HistFull)
			return
		}
		runHistory(slot, h, c27HistChain|c27HistReduced)
		if n := len(h.in); n > 1 && n <= histCap {
			nf := 0
			for i := range h.in {
				if h.in[i].class != "ok" {
					nf++
				}
			}
			if nf > 0 && nf < n {
				deferredMu.Lock()
				deferred = append(deferred, gp)
				deferredMu.Unlock()
			}
		}
	}

	submit := func(t task) bool {
		select {
		case w := <-hang:
			hang <- w
			return false
		default:
		}
		if r.Expired() {
			exhaustive.Store(false)
			return false
		}
		pending.Add(1)
		tasks <- t
		return true
	}
	envStore := func(env *gen.Env) func() *fakeStore { return func() *fakeStore { return newFakeStore(env) } }
	uniforms := []*big.Int{big.NewInt(-3), big.NewInt(0), big.NewInt(5), big.NewInt(100), new(big.Int).Lsh(big.NewInt(1), 64)}

	groupsDone := []string{}
	// ---- seed / V / S: the unmutated seeds, adversarial variables and stores on them; all
	// the inputs of a seed then form its history. FIRST: the group is small and holds the
	// statement kinds the generated space has not (print, fail, comments, expressions), so a
	// time cut never drops them -----------------------------------------------------------
	seedCases := func(slot *c27Slot, si int, seed string, prog *program.Program) {
		for _, u := range uniforms {
			sp := c27StoreSpec{Uniform: u.String()}
			runCase(slot, "seed", seed, nil, sp.mk, map[string]any{"seed": si, "uniform_balance": u.String()})
		}
		names, defaults := declaredVars(prog)
		cp := func() map[string]string {
			m := map[string]string{}
			for k, v := range defaults {
				m[k] = v
			}
			return m
		}
		goodSpec := c27StoreSpec{Uniform: "5"}
		good := goodSpec.mk
		for _, n := range names {
			for _, adv := range c27AdvStrings {
				m := cp()
				m[n] = adv
				runCase(slot, "V", seed, m, good, map[string]any{"seed": si, "var": n, "value": adv, "uniform_balance": "5"})
			}
			m := cp()
			delete(m, n)
			runCase(slot, "V", seed, m, good, map[string]any{"seed": si, "missing_var": n, "uniform_balance": "5"})
			for _, js := range c27AdvJSON {
				doc := map[string]json.RawMessage{}
				for k, v := range defaults {
					b, _ := json.Marshal(v)
					doc[k] = b
				}
				doc[n] = json.RawMessage(js)
				raw, _ := json.Marshal(map[string]any{"plain": seed, "vars": doc})
				var vars map[string]string
				func() {
					defer func() {
						if p := recover(); p != nil {
							r.Violation("C27:panic:vars-json:"+panicSite(debug.Stack(), p), fmt.Sprintf("decoding script vars panicked: %v | json %s", p, raw), map[string]any{"json": string(raw)})
						}
					}()
					var s1 vm.ScriptV1
					if err := json.Unmarshal(raw, &s1); err != nil {
						return
					}
					vars = s1.ToCore().Vars
				}()
				if vars != nil {
					runCase(slot, "V", seed, vars, good, map[string]any{"seed": si, "var": n, "json_value": js, "uniform_balance": "5"})
				}
			}
		}
		m := cp()
		m["extra"] = "x"
		runCase(slot, "V", seed, m, good, map[string]any{"seed": si, "extra_var": "extra", "uniform_balance": "5"})
		runCase(slot, "V", seed, map[string]string{}, good, map[string]any{"seed": si, "vars": "none", "uniform_balance": "5"})
		// stores
		two64 := new(big.Int).Lsh(big.NewInt(1), 64)
		ten30 := new(big.Int).Exp(big.NewInt(10), big.NewInt(30), nil)
		for _, u := range []*big.Int{new(big.Int).Neg(ten30), new(big.Int).Neg(two64), big.NewInt(-1), big.NewInt(1), two64, ten30} {
			sp := c27StoreSpec{Uniform: u.String()}
			runCase(slot, "S", seed, cp(), sp.mk, map[string]any{"seed": si, "uniform_balance": u.String()})
		}
		storeCase := func(what string, sp c27StoreSpec) {
			sp.Uniform = "5"
			runCase(slot, "S", seed, cp(), sp.mk, map[string]any{"seed": si, "store": what, "store_spec": sp})
		}
		storeCase("GetBalances fails", c27StoreSpec{BalErr: true})
		storeCase("GetAccount fails", c27StoreSpec{AccErr: true})
		storeCase("no account exists", c27StoreSpec{NoAccounts: true, Meta: map[string]map[string]string{}})
		storeCase("metadata keys missing", c27StoreSpec{Meta: map[string]map[string]string{"m": {}}})
		for _, bad := range []string{"", "x y", "-1", "COIN -1", "COIN", "3/2", "world", "\x00"} {
			storeCase("metadata values = "+fmt.Sprintf("%q", bad), c27StoreSpec{Meta: map[string]map[string]string{"m": {"acc": bad, "por": bad, "mon": bad}}})
		}
		storeCase("GetBalances returns an empty map", c27StoreSpec{DropBalances: true})
	}
	okV := true
	for si, seed := range c27Seeds {
		si, seed := si, seed
		if !submit(func(slot *c27Slot) {
			prog, err := compiler.Compile(seed)
			if err != nil {
				r.EngineError(fmt.Sprintf("seed %d does not compile: %v", si, err))
				return
			}
			withHistory(slot, "seed+V+S", seed, nil, func() { seedCases(slot, si, seed, prog) })
		}) {
			okV = false
		}
	}
	if okV {
		groupsDone = append(groupsDone, "seed", "V", "S")
	}

	// ---- G: generated programs ----------------------------------------------------
	sp := numscriptSpace(false)
	gStages := sp.Stages
	gDesc := "every program of the quick numscriptSpace (E1..E5)"
	if r.Thorough() {
		// quick E1 (all sources) + thorough E2..E5 (all destinations, variable amounts, statement pairs)
		gStages = append([]stage{sp.Stages[0]}, numscriptSpace(true).Stages[1:5]...)
		gDesc = "every program of quick stage E1 and thorough stages E2..E5 of numscriptSpace"
	}
	okG := true
	for _, stg := range gStages {
		stg.Progs(func(p *gen.Program) bool {
			return submit(func(slot *c27Slot) {
				text := p.Text()
				rejected := false
				withHistory(slot, "G", text, p, func() {
					forEachEnv(p, func(env *gen.Env) {
						if rejected {
							return
						}
						runCase(slot, "G", text, env.Vars, envStore(env), map[string]any{"balances": balString(env.Bal), "metadata": env.Meta})
						rejected = slot.cacheText == text && slot.cacheErr != nil // does not compile: one case
					})
				})
			})
		})
		if r.Expired() {
			okG = false
		}
	}
	if okG {
		groupsDone = append(groupsDone, "G")
	}

	// ---- M: single-token mutations of the seed corpus -------------------------------
	menu := c27TokenMenu
	okM := true
	for si, seed := range c27Seeds {
		toks := c27Tokenize(seed)
		for i := range toks {
			var mutants []string
			mutants = append(mutants, c27Join(append(append([]string{}, toks[:i]...), toks[i+1:]...)))                    // delete
			mutants = append(mutants, c27Join(append(append(append([]string{}, toks[:i+1]...), toks[i]), toks[i+1:]...))) // duplicate
			for _, m := range menu {
				if m == toks[i] {
					continue
				}
				mutants = append(mutants, c27Join(append(append(append([]string{}, toks[:i]...), m), toks[i+1:]...))) // replace
			}
			si, i := si, i
			if !submit(func(slot *c27Slot) {
				for mi, text := range mutants {
					withHistory(slot, "M", text, nil, func() {
						for _, u := range uniforms {
							u := u
							runCase(slot, "M", text, nil, func() *fakeStore { return newUniformStore(u) }, map[string]any{"seed": si, "token": i, "mutant": mi, "uniform_balance": u.String()})
						}
					})
				}
			}) {
				okM = false
			}
		}
	}
	if okM {
		groupsDone = append(groupsDone, "M")
	}

	// ---- B: all short byte strings ---------------------------------------------------
	okB := true
	for l := 0; l <= 3; l++ {
		idx := make([]int, l)
		var batch []string
		for {
			b := make([]byte, l)
			for i := range b {
				b[i] = c27Alphabet[idx[i]]
			}
			batch = append(batch, string(b))
			i := l - 1
			for i >= 0 {
				idx[i]++
				if idx[i] < len(c27Alphabet) {
					break
				}
				idx[i] = 0
				i--
			}
			if len(batch) == 200 || i < 0 {
				bb := batch
				batch = nil
				if !submit(func(slot *c27Slot) {
					for _, text := range bb {
						withHistory(slot, "B", text, nil, func() {
							runCase(slot, "B", text, nil, func() *fakeStore { return newUniformStore(big.NewInt(5)) }, map[string]any{"uniform_balance": "5"})
						})
					}
				}) {
					okB = false
				}
			}
			if i < 0 {
				break
			}
		}
	}
	if okB {
		groupsDone = append(groupsDone, "B")
	}

	// ---- H, second pass: the full fail x ok product of the G programs with <= histCap inputs ---
	// (every task that defers a program was submitted above; wait for them)
	firstPassDone := func() bool {
		ch := make(chan struct{})
		go func() { pending.Wait(); close(ch) }()
		select {
		case <-ch:
			return true
		case w := <-hang:
			hang <- w
			return false
		}
	}()
	okH := firstPassDone && len(groupsDone) == 6
	if okH {
		groupsDone = append(groupsDone, "H:chain+reduced-product")
	}
	deferredMu.Lock()
	second := deferred
	deferredMu.Unlock()
	for _, p := range second {
		p := p
		if !submit(func(slot *c27Slot) {
			text := p.Text()
			prog, err := compiler.Compile(text)
			if err != nil {
				return
			}
			h := &c27History{group: "G", text: text}
			forEachEnv(p, func(env *gen.Env) {
				mk := envStore(env)
				res := runMachine(prog, env.Vars, vmStore{mk()})
				if res.Panic != nil {
					return // reported by the first pass
				}
				class, out := c27MachineOutcome(&res)
				h.in = append(h.in, c27HistInput{vars: env.Vars, mk: mk, desc: map[string]any{"balances": balString(env.Bal), "metadata": env.Meta}, class: class, out: out, stackLeft: res.StackLeft, failP: res.FailP})
			})
			runHistory(slot, h, c27HistFull)
		}) {
			okH = false
		}
	}
	if okH && !r.Expired() {
		groupsDone = append(groupsDone, "H:full-product")
	}

	close(tasks)
	done := make(chan struct{})
	go func() { wg.Wait(); close(done) }()
	select {
	case <-done:
	case w := <-hang:
		r.Violation("C27:hang", fmt.Sprintf("a case did not return within 60 s | input %q", w), map[string]any{"program": w, "program_bytes_hex": fmt.Sprintf("%x", w)})
		exhaustive.Store(false)
	}
	close(stopWatch)
	// let the printer goroutines of the last executions write their lines before fd 1 is
	// handed back (they end when their machine's Execute returns; parked executions never print)
	for i, last := 0, -1; i < 50; i++ {
		n := runtime.NumGoroutine()
		if n == last {
			break
		}
		last = n
		time.Sleep(20 * time.Millisecond)
	}
	restoreStdout()

	if r.ViolationCount() == 0 {
		cg := st.compiledByGroup.Map()
		switch {
		case st.compiled.Load() == 0:
			r.EngineError("vacuous: nothing compiled")
		case cg["M"] == 0:
			r.EngineError("vacuous: no mutant compiled")
		case st.ranErr.Load() == 0:
			r.EngineError("vacuous: no runtime error was ever returned (the nil-result-on-error oracle never applied)")
		case st.ranOK.Load() == 0:
			r.EngineError("vacuous: no run succeeded")
		case st.adapterPrintOK.Load() == 0:
			r.EngineError("vacuous: no program with a `print` statement ran to completion through the adapter")
		case len(st.adapterByLogger.Map()) != len(loggerCtxs):
			r.EngineError(fmt.Sprintf("vacuous: the adapter did not run under every logger configuration: %v", st.adapterByLogger.Map()))
		case st.histPrograms.Load() == 0 || st.histSteps.Load() == 0:
			r.EngineError("vacuous: no history was run on a cached runtime")
		case st.histCacheHits.Load() == 0:
			r.EngineError("vacuous: CachedParser never handed the runtime of an earlier execution back (no execution ever ran on a runtime that had run before)")
		case st.histCacheMisses.Load() != 0:
			r.EngineError(fmt.Sprintf("vacuous: CachedParser handed a different runtime in the middle of a history %d times (the executions of a history must share one runtime)", st.histCacheMisses.Load()))
		case st.histFailThenOK.Load() == 0 || st.histOKThenFail.Load() == 0:
			r.EngineError(fmt.Sprintf("vacuous: histories never ran a failing input right before a succeeding one (%d) or a succeeding one right before a failing one (%d)", st.histFailThenOK.Load(), st.histOKThenFail.Load()))
		case st.histMidStmtFailThenOK.Load() == 0:
			r.EngineError("vacuous: no history ran a succeeding input right after an execution that failed in the middle of a statement (values left on the VM stack): the failing inputs all die on an empty stack")
		case len(st.histFirstClass.Map()) < 3:
			r.EngineError(fmt.Sprintf("vacuous: the failing inputs that precede a succeeding one have fewer than 3 error classes: %v", st.histFirstClass.Map()))
		}
	}
	cov := ev.Coverage{
		"evaluations":         st.cases.Load(),
		"distinct_nontrivial": st.distinctN.Load(),
		"rule": fmt.Sprintf("seed+V+S run first, then G, M, B. Every compiled case runs on the machine step by step AND through MachineNumscriptRuntimeAdapter.Execute — programs with `print` included — under each of %d logger configurations of the request context (%s; G programs: all of them on the first input of each program, the bare context on every failing input), each execution with a %s deadline (no answer = violation); G: %s x every input (one case for a program the compiler rejects); M: every single-token delete/duplicate/replace(by each of %d menu tokens) of %d seed programs, compiled mutants x %d uniform balances with default variable values; B: all %d-letter-alphabet byte strings of length 0..3; V: every seed x every declared variable x %d adversarial strings + %d adversarial JSON values (through vm.ScriptV1.ToCore), missing / extraneous / no variables; S: every seed x extreme balances (+-2^64, +-10^30, +-1), failing or empty store answers, missing and ill-typed metadata; H (histories): for every program of G, every compiled mutant of M, every compiled string of B and every seed (inputs of seed+V+S), all its inputs as ONE sequential history on the NumscriptRuntime that NewCachedNumscriptParser(NewDefaultNumscriptParser(), MaxCount 1024).Parse(text) returns (Parse before every execution: first a miss, then hits on the same runtime object) = every input once in enumeration order, then a b a for every ordered (input a failing on a fresh runtime, input b succeeding on a fresh runtime) pair, i.e. every (failing, succeeding) and (succeeding, failing) pair of inputs back to back — G programs in two passes: with the single-run cases of the program, the chain and the REDUCED product {first failing input of every fail point (error stage:kind, instruction pointer, stack depth at the error)} x {every succeeding input} and {every failing input} x {first succeeding input}, both orders; after all the other groups (groups_fully_covered: H:chain+reduced-product, then H:full-product), the remaining pairs of the FULL product for every G program with at most %d inputs (at most 2 balance-relevant accounts and one two-valued variable; a program with 3 such accounts has up to 432 inputs and 46 000 pairs and keeps the reduced product); each execution must answer what a fresh runtime answers (no panic, same postings and metadata, same error stage:kind); a history stops at its first divergence; distinct_nontrivial = distinct program texts that compiled AND ran to completion without error at least once",
			len(loggerCtxs), strings.Join(func() []string {
				var n []string
				for _, lc := range loggerCtxs {
					n = append(n, lc.Name)
				}
				return n
			}(), ", "), c27AnswerDeadline, gDesc, len(c27TokenMenu), len(c27Seeds), len(uniforms), len(c27Alphabet), len(c27AdvStrings), len(c27AdvJSON), histCap),
		"samples":                 samples.List(),
		"exhaustive":              exhaustive.Load(),
		"groups_fully_covered":    groupsDone,
		"cases_by_group":          st.byGroup.Map(),
		"compiled_cases_by_group": st.compiledByGroup.Map(),
		"cases_compiled":          st.compiled.Load(),
		"runs_ok":                 st.ranOK.Load(),
		"runs_returning_error":    st.ranErr.Load(),
		"run_error_kinds":         st.errKinds.Map(),
		"adapter_result_checks":   st.adapterChecks.Load(),
		"adapter_executions_by_logger_configuration":                      st.adapterByLogger.Map(),
		"adapter_executions_of_programs_with_print":                       st.adapterPrintRuns.Load(),
		"adapter_executions_of_programs_with_print_that_succeeded":        st.adapterPrintOK.Load(),
		"adapter_executions_skipped_after_a_no_answer_of_their_class":     st.skippedAfterNoAnswer.Load(),
		"histories_skipped_because_an_adapter_execution_of_the_text_hung": st.histSkippedNoAnswer.Load(),
		"traces_validated_against_impl":                                   st.cases.Load(),
		"histories": map[string]any{
			"programs_with_a_history":                                    st.histPrograms.Load(),
			"executions_on_a_cached_runtime":                             st.histSteps.Load(),
			"executions_by_group":                                        st.histByGroup.Map(),
			"cache_hits_same_runtime_object":                             st.histCacheHits.Load(),
			"cache_handed_another_runtime":                               st.histCacheMisses.Load(),
			"adjacent_pairs_fail_then_ok":                                st.histFailThenOK.Load(),
			"adjacent_pairs_ok_then_fail":                                st.histOKThenFail.Load(),
			"adjacent_pairs_ok_then_ok":                                  st.histOKThenOK.Load(),
			"adjacent_pairs_fail_then_fail":                              st.histFailThenFail.Load(),
			"adjacent_pairs_same_input_twice":                            st.histSameInputTwice.Load(),
			"fail_then_ok_where_the_failure_left_values_on_the_vm_stack": st.histMidStmtFailThenOK.Load(),
			"fail_x_ok_pairs_by_error_class_of_the_failing_input":        st.histFirstClass.Map(),
			"programs_with_the_full_fail_x_ok_product":                   st.histFull.Load(),
			"programs_with_the_reduced_product":                          st.histReduced.Load(),
			"full_product_for_G_programs_with_at_most_inputs":            histCap,
			"reduced_failing_inputs_run_around_the_first_succeeding_one": st.histAroundFirstOK.Load(),
		},
	}
	return r.Finish(cov, []string{
		"`arbitrary byte strings` is covered as all strings of length <= 3 over a 20-byte alphabet plus token-level mutants; longer random strings are not enumerated",
		"hang = a single case not returning within 60 s, observed by a watchdog over the workers' current case (the VM has no loops; this guards the ANTLR parser, the direct machine run and the histories); adapter executions of the single-run space have their own deadline of " + c27AnswerDeadline.String() + " each, in a goroutine of their own: `no answer` is reported per (program with / without print, logger configuration) class, the remaining executions of that class are skipped (counted) and the texts concerned get no history. Neither is a performance oracle: an execution is microseconds of in-memory work",
		"programs containing `print` run through the adapter like the others; the machine's default printer writes their values on stdout, so file descriptor 1 is pointed at /dev/null from the first case to the last (the direct machine run uses a discarding printer)",
		"logger configurations: context.Background() (logging.FromContext then builds a default info-level logger on stderr) and logging.NewDefaultLoggerWithLevel(io.Discard, level) for the four levels of go-libs/v5/pkg/observe/log",
		"H: the reference answer of an input is its direct machine run on a new vm.Machine (what a fresh adapter does); before a divergence is reported the input is run again on a fresh DefaultNumscriptParser runtime, and a divergence that the fresh adapter shares is reported as adapter-and-machine-disagree instead",
		"H: a history runs in one goroutine with one CachedParser per worker (production shares one per process; a shared one would let another worker's programs evict the runtime mid-history); goroutines are not pinned to a P, a runtime that recycles objects through a per-P sync.Pool may therefore miss now and then: every failing input is re-executed before each succeeding input, so each (failing, succeeding) pair is an independent occasion",
		"H: every compiled text with at least one input has a history (G, M, B, seeds); a program with a single input runs it twice",
		"variables reach the machine as map[string]string (SetVarsFromJSON); non-string JSON values are first converted by vm.ScriptV1.ToCore as on the API path",
	})
}
