package pnum

import (
	"context"
	"encoding/json"
	"errors"
	"fmt"
	"math/big"
	"regexp"
	"runtime"
	"runtime/debug"
	"strings"
	"sync"
	"sync/atomic"
	"time"

	ledgercontroller "github.com/formancehq/ledger/internal/controller/ledger"
	"github.com/formancehq/ledger/internal/machine"
	"github.com/formancehq/ledger/internal/machine/script/compiler"
	"github.com/formancehq/ledger/internal/machine/vm"
	"github.com/formancehq/ledger/internal/machine/vm/program"
	"github.com/formancehq/ledger/verifh/ev"
	"github.com/formancehq/ledger/verifh/gen"
	"github.com/formancehq/ledger/verifh/reg"
)

// C27 — compiling and running any input never crashes.
//
// Inputs (all enumerated, nothing sampled):
//
//	G  every program of numscriptSpace (quick stages) x every forEachEnv input
//	M  every single-token mutation (delete, duplicate, replace by each token of
//	   c27TokenMenu) of every program of c27Seeds; compiled mutants run with
//	   default values for whatever variables they declare x uniform balances
//	B  every byte string of length <= 3 over c27Alphabet
//	V  every seed x every variable x every adversarial string value, each
//	   variable missing, one extraneous variable; and adversarial JSON values
//	   decoded through vm.ScriptV1 + ToCore (the API path for script vars)
//	S  every seed x adversarial stores: extreme uniform balances, failing
//	   GetBalances / GetAccount, unknown accounts, ill-typed metadata
//
// Every input goes through compiler.Compile and, when it compiles, through
// (1) NewMachine / SetVarsFromJSON / ResolveResources / ResolveBalances / Execute
// / GetTxMetaJSON / GetAccountsMetaJSON directly and (2) the real
// MachineNumscriptRuntimeAdapter.Execute.
//
// Oracle: no panic (recovered, reported with the input); the adapter returns a
// nil result whenever it returns an error (and a result when it does not); no
// case runs longer than 60 s (watchdog).
func init() { reg.Register("C27", c27) }

var c27Seeds = []string{
	"send [COIN 7] (\n source = @a\n destination = @b\n)\n",
	"send [COIN *] (\n source = @a\n destination = @b\n)\n",
	"send [USD/2 100] (\n source = @world\n destination = @a\n)\n",
	"send [COIN 7] (\n source = @a allowing overdraft up to [COIN 2]\n destination = @b\n)\n",
	"send [COIN 7] (\n source = @a allowing unbounded overdraft\n destination = @b\n)\n",
	"send [COIN 7] (\n source = max [COIN 5] from @a\n destination = @b\n)\n",
	"send [COIN 7] (\n source = {\n  @a\n  @b\n  @world\n }\n destination = @c\n)\n",
	"send [COIN 7] (\n source = {\n  max [COIN 1] from @a\n  {\n   @b\n   @world\n  }\n }\n destination = @c\n)\n",
	"send [COIN 7] (\n source = {\n  1/2 from @a\n  50% from @b\n }\n destination = @c\n)\n",
	"send [COIN 7] (\n source = {\n  1/3 from {\n   @a\n   @world\n  }\n  remaining from max [COIN 5] from @b allowing unbounded overdraft\n }\n destination = @c\n)\n",
	"send [COIN 100] (\n source = @world\n destination = {\n  max [COIN 5] to @a\n  max [COIN 1] kept\n  remaining to @b\n }\n)\n",
	"send [COIN 100] (\n source = @world\n destination = {\n  1/3 to @a\n  2/3 kept\n }\n)\n",
	"send [COIN 100] (\n source = @world\n destination = {\n  50% to {\n   max [COIN 8] to {\n    50% kept\n    25% to @x\n    25% kept\n   }\n   remaining to @y\n  }\n  20% to @z\n  5% kept\n  remaining to @w\n }\n)\n",
	"send [COIN 100] (\n source = @world\n destination = {\n  max [COIN 5] to @a\n  remaining kept\n }\n)\n",
	"vars {\n account $acc\n}\nsend [COIN 7] (\n source = $acc\n destination = @b\n)\n",
	"vars {\n monetary $mon\n}\nsend $mon (\n source = @a\n destination = @b\n)\n",
	"vars {\n account $acc\n monetary $mon\n portion $p\n}\nsend $mon (\n source = {\n  $p from $acc\n  remaining from @world\n }\n destination = {\n  $p to @b\n  remaining kept\n }\n)\n",
	"vars {\n asset $ast\n number $n\n string $s\n}\nsend [$ast 7] (\n source = @world\n destination = @b\n)\nset_tx_meta(\"n\", $n)\nset_tx_meta(\"s\", $s)\nset_tx_meta(\"a\", $ast)\n",
	"vars {\n account $macc = meta(@m, \"acc\")\n portion $mp = meta(@m, \"por\")\n monetary $mmon = meta(@m, \"mon\")\n}\nsend $mmon (\n source = @world\n destination = {\n  $mp to $macc\n  remaining to @b\n }\n)\n",
	"vars {\n monetary $bal = balance(@a, COIN)\n}\nsend $bal (\n source = @a\n destination = @b\n)\n",
	"vars {\n monetary $b1 = balance(@a, COIN)\n monetary $b2 = balance(@a, USD/2)\n}\nsend $b1 (\n source = @a\n destination = @b\n)\nsend $b2 (\n source = @a\n destination = @b\n)\n",
	"vars {\n account $acc\n monetary $bal = balance($acc, COIN)\n}\nsend [COIN *] (\n source = max $bal from @a\n destination = $acc\n)\n",
	"save [COIN 5] from @a\nsend [COIN 7] (\n source = @a\n destination = @b\n)\n",
	"save [COIN *] from @a\nsend [COIN *] (\n source = @a\n destination = @b\n)\n",
	"vars {\n monetary $mon\n account $acc\n}\nsave $mon from $acc\nsend [COIN *] (\n source = $acc allowing overdraft up to $mon\n destination = @b\n)\n",
	"set_tx_meta(\"k\", 42)\nset_tx_meta(\"k2\", [COIN 7])\nset_tx_meta(\"k3\", @a)\nset_tx_meta(\"k4\", 1/3)\nset_tx_meta(\"k5\", \"v\")\nset_tx_meta(\"k6\", COIN)\n",
	"set_account_meta(@a, \"k\", 42)\nset_account_meta(@a, \"k2\", [COIN 7])\nset_account_meta(@b, \"k\", \"v\")\n",
	"vars {\n number $n\n}\nset_tx_meta(\"k\", $n + 1 - 2)\nsend [COIN 1] + [COIN 2] (\n source = @world\n destination = @a\n)\n",
	"print 1 + 2\nprint [COIN 1] - [COIN 1]\nprint @a\n",
	"send [COIN 1] (\n source = @a\n destination = @b\n)\nfail\n",
	"// comment\nsend [COIN 1] ( /* c */\n destination = @b\n source = @a\n)\n",
	"send [COIN 5] (\n source = @a\n destination = @a\n)\nsend [USD/2 5] (\n source = {\n  @a allowing overdraft up to [USD/2 1]\n  @b\n }\n destination = {\n  remaining to @world\n }\n)\n",
}

var c27TokenMenu = []string{
	"send", "save", "set_tx_meta", "set_account_meta", "fail", "print", "vars", "source", "destination",
	"from", "to", "max", "remaining", "kept", "allowing overdraft up to", "allowing unbounded overdraft",
	"meta", "balance", "account", "monetary", "number", "portion", "string", "asset",
	"(", ")", "{", "}", "[", "]", "=", ",", "*", "+", "-", "\n", "%",
	"@a", "@world", "$acc", "$mon", "$undeclared", "COIN", "USD/2", "0", "7", "99999999999999999999999999",
	"1/2", "150%", "0/0", "\"k\"", "[COIN 7]", "[COIN *]",
}

var c27Alphabet = []byte{'{', '}', '[', ']', '(', ')', '@', '$', '*', '/', '%', '"', '\n', ' ', 'a', 'A', '1', '=', 0xff, 0x00}

var c27AdvStrings = []string{
	"", " ", "null", "true", "{}", "[]", "0", "-1", "1e3", "1.5", "00", "+5",
	"99999999999999999999999999999999", "-99999999999999999999",
	"COIN", "COIN ", " 5", "COIN 5", "COIN -5", "COIN 5 5", "COIN  5", "coin 5", "COIN 1e3", "COIN 5.0", "COIN null",
	"COIN 99999999999999999999999999", "USD/2 5", "/ 5", "COIN/ 5", "A/B/C 5",
	"1/2", "1/0", "0/0", "0/1", "-1/2", "3/2", "50%", "150%", "-5%", "1 / 2", "1/ 2", "50.5%", ".5%", "1/2/3",
	"a", "@a", "a:b", "a::b", ":a", "world", "wor ld", "\x00", "\xff", "a\nb", strings.Repeat("a", 300),
	"{\"asset\":\"COIN\",\"amount\":5}", "\"quoted\"",
}

var c27AdvJSON = []string{
	`5`, `-5`, `1e30`, `1.5`, `true`, `null`, `"str"`, `""`,
	`{"asset":"COIN","amount":5}`, `{"asset":"COIN","amount":"5"}`, `{"asset":"COIN","amount":-5}`, `{"asset":"COIN","amount":1e30}`,
	`{"asset":"COIN","amount":1.5}`, `{"asset":5,"amount":5}`, `{"amount":5}`, `{"asset":"COIN"}`, `{"asset":null,"amount":null}`,
	`{}`, `[]`, `[1,2]`, `{"asset":{"x":1},"amount":{"y":2}}`, `{"asset":"COIN","amount":true}`, `[{"asset":"COIN","amount":5}]`,
}

func defaultVarValue(t machine.Type) string {
	switch t {
	case machine.TypeAccount:
		return "c"
	case machine.TypeAsset:
		return "COIN"
	case machine.TypeNumber:
		return "42"
	case machine.TypeString:
		return "hello"
	case machine.TypeMonetary:
		return "COIN 3"
	case machine.TypePortion:
		return "1/4"
	}
	return ""
}

func declaredVars(prog *program.Program) (names []string, vars map[string]string) {
	vars = map[string]string{}
	for _, res := range prog.Resources {
		if v, ok := res.(program.Variable); ok {
			names = append(names, v.Name)
			vars[v.Name] = defaultVarValue(v.Typ)
		}
	}
	return
}

// uniformStore answers every balance query with the same value and knows
// account @m's metadata (storeMeta) — or misbehaves when told to.
func newUniformStore(v *big.Int) *fakeStore {
	return &fakeStore{meta: storeMeta(), allAccountsExist: true, uniform: v}
}

// c27Tokenize splits a program into tokens (the unit of mutation). Multi-word
// overdraft clauses are single tokens, as in the lexer.
var reToken = regexp.MustCompile(`allowing overdraft up to|allowing unbounded overdraft|"[^"\n]*"|//[^\n]*|/\*.*?\*/|[0-9]+ ?/ ?[0-9]+|[0-9]+(\.[0-9]+)?%|[@$]?[A-Za-z0-9_:/\-]+|\n|[^\sA-Za-z0-9]`)

func c27Tokenize(s string) []string { return reToken.FindAllString(s, -1) }

func c27Join(toks []string) string {
	var b strings.Builder
	for i, t := range toks {
		if i > 0 && t != "\n" && toks[i-1] != "\n" {
			b.WriteByte(' ')
		}
		b.WriteString(t)
	}
	return b.String()
}

type c27Stats struct {
	cases, compiled, ranOK, ranErr, adapterChecks atomic.Int64
	byGroup                                       counterSet
	compiledByGroup                               counterSet
	errKinds                                      counterSet
	distinct                                      sync.Map
	distinctN                                     atomic.Int64
}

type c27Slot struct {
	mu    sync.Mutex
	start time.Time
	what  string
	// single-entry compile cache, touched by the owning worker only
	cached    bool
	cacheText string
	cacheProg *program.Program
	cacheErr  error
}

func c27() int {
	tuneRuntime()
	r := ev.Start("C27", ev.LevelExploration, 100*time.Second, 15*time.Minute)
	st := &c27Stats{}
	samples := ev.NewSamples(8)
	nw := runtime.NumCPU()
	slots := make([]*c27Slot, nw)
	for i := range slots {
		slots[i] = &c27Slot{}
	}
	var exhaustive atomic.Bool
	exhaustive.Store(true)

	type task func(slot *c27Slot)
	tasks := make(chan task, 256)
	var wg sync.WaitGroup
	for w := 0; w < nw; w++ {
		wg.Add(1)
		go func(slot *c27Slot) {
			defer wg.Done()
			for t := range tasks {
				if r.Expired() {
					exhaustive.Store(false)
					continue
				}
				t(slot)
			}
		}(slots[w])
	}
	// watchdog: the only wall-clock oracle
	hang := make(chan string, 1)
	stopWatch := make(chan struct{})
	go func() {
		tk := time.NewTicker(time.Second)
		defer tk.Stop()
		for {
			select {
			case <-stopWatch:
				return
			case <-tk.C:
				for _, s := range slots {
					s.mu.Lock()
					if !s.start.IsZero() && time.Since(s.start) > 60*time.Second {
						w := s.what
						s.mu.Unlock()
						select {
						case hang <- w:
						default:
						}
						return
					}
					s.mu.Unlock()
				}
			}
		}
	}()

	// one case = one (program text, vars, store) triple
	runCase := func(slot *c27Slot, group, text string, vars map[string]string, mkStore func() *fakeStore, desc map[string]any) {
		st.cases.Add(1)
		st.byGroup.Add(group)
		slot.mu.Lock()
		slot.start, slot.what = time.Now(), text
		slot.mu.Unlock()
		defer func() {
			slot.mu.Lock()
			slot.start = time.Time{}
			slot.mu.Unlock()
		}()
		rep := func() map[string]any {
			o := map[string]any{"group": group, "program": text, "program_bytes_hex": fmt.Sprintf("%x", text), "vars": vars}
			for k, v := range desc {
				o[k] = v
			}
			return o
		}
		var prog *program.Program
		var cerr error
		firstOfText := !slot.cached || slot.cacheText != text
		if firstOfText {
			// consecutive cases of a worker share their program text: compile it once
			func() {
				defer func() {
					if p := recover(); p != nil {
						r.Violation("C27:panic:compile:"+panicSite(debug.Stack(), p), fmt.Sprintf("compiler.Compile panicked: %v | input %q", p, text), rep())
						cerr = errors.New("panic")
					}
				}()
				prog, cerr = compiler.Compile(text)
			}()
			slot.cached, slot.cacheText, slot.cacheProg, slot.cacheErr = true, text, prog, cerr
		} else {
			prog, cerr = slot.cacheProg, slot.cacheErr
		}
		if cerr != nil || prog == nil {
			if cerr == nil {
				r.Violation("C27:compile-nil-nil", fmt.Sprintf("Compile returned neither program nor error | input %q", text), rep())
			}
			return
		}
		st.compiled.Add(1)
		st.compiledByGroup.Add(group)
		if vars == nil {
			_, vars = declaredVars(prog)
		}
		// (1) the machine, step by step
		res := runMachine(prog, vars, vmStore{mkStore()})
		if res.Panic != nil {
			r.Violation("C27:panic:"+strings.TrimPrefix(res.Stage, "panic:")+":"+res.PanicAt,
				fmt.Sprintf("machine panicked at stage %s in %s: %v | program %q vars %v", res.Stage, res.PanicAt, res.Panic, text, vars), rep())
			return // the adapter runs the same code
		} else if res.Err != nil {
			st.ranErr.Add(1)
			st.errKinds.Add(res.Stage + ":" + errKind(res.Err))
		} else {
			st.ranOK.Add(1)
			if _, loaded := st.distinct.LoadOrStore(text, true); !loaded {
				st.distinctN.Add(1)
			}
			if len(res.Postings) > 0 && group != "G" {
				samples.Add(map[string]any{"group": group, "program": text, "vars": vars, "store": desc, "postings": postingsString(res.Postings)})
			}
		}
		// (2) the adapter, as createTransaction calls it (skipped for programs that
		// print: the adapter would write "OUT: ..." lines on stdout)
		if strings.Contains(text, "print") {
			return
		}
		if group == "G" && res.Err == nil && !firstOfText {
			// generated programs: the adapter is exercised on every failing input (the
			// nil-result oracle) and on the first input of each program
			return
		}
		var ares *ledgercontroller.NumscriptExecutionResult
		var aerr error
		panicked := false
		func() {
			defer func() {
				if p := recover(); p != nil {
					panicked = true
					r.Violation("C27:panic:adapter:"+panicSite(debug.Stack(), p), fmt.Sprintf("MachineNumscriptRuntimeAdapter.Execute panicked: %v | program %q vars %v", p, text, vars), rep())
				}
			}()
			ares, aerr = ledgercontroller.NewMachineNumscriptRuntimeAdapter(*prog).Execute(context.Background(), mkStore(), vars)
		}()
		if panicked {
			return
		}
		st.adapterChecks.Add(1)
		if aerr != nil && ares != nil {
			r.Violation("C27:result-returned-with-error", fmt.Sprintf("adapter returned error %q together with a result holding %d postings | program %q", shortErr(aerr), len(ares.Postings), text), rep())
		}
		if aerr == nil && ares == nil {
			r.Violation("C27:nil-result-without-error", fmt.Sprintf("adapter returned neither result nor error | program %q", text), rep())
		}
		if (aerr == nil) != (res.Err == nil && res.Panic == nil) {
			r.Violation("C27:adapter-and-machine-disagree", fmt.Sprintf("same input: direct machine err=%v, adapter err=%v | program %q", res.Err, aerr, text), rep())
		}
	}

	submit := func(t task) bool {
		select {
		case w := <-hang:
			hang <- w
			return false
		default:
		}
		if r.Expired() {
			exhaustive.Store(false)
			return false
		}
		tasks <- t
		return true
	}
	envStore := func(env *gen.Env) func() *fakeStore { return func() *fakeStore { return newFakeStore(env) } }
	uniforms := []*big.Int{big.NewInt(-3), big.NewInt(0), big.NewInt(5), big.NewInt(100), new(big.Int).Lsh(big.NewInt(1), 64)}

	groupsDone := []string{}
	// ---- G: generated programs ----------------------------------------------------
	sp := numscriptSpace(false)
	gStages := sp.Stages
	gDesc := "every program of the quick numscriptSpace (E1..E5)"
	if r.Thorough() {
		// quick E1 (all sources) + thorough E2..E5 (all destinations, variable amounts, statement pairs)
		gStages = append([]stage{sp.Stages[0]}, numscriptSpace(true).Stages[1:5]...)
		gDesc = "every program of quick stage E1 and thorough stages E2..E5 of numscriptSpace"
	}
	okG := true
	for _, stg := range gStages {
		stg.Progs(func(p *gen.Program) bool {
			return submit(func(slot *c27Slot) {
				text := p.Text()
				rejected := false
				forEachEnv(p, func(env *gen.Env) {
					if rejected {
						return
					}
					runCase(slot, "G", text, env.Vars, envStore(env), map[string]any{"balances": balString(env.Bal), "metadata": env.Meta})
					rejected = slot.cacheText == text && slot.cacheErr != nil // does not compile: one case
				})
			})
		})
		if r.Expired() {
			okG = false
		}
	}
	if okG {
		groupsDone = append(groupsDone, "G")
	}

	// ---- M: single-token mutations of the seed corpus -------------------------------
	menu := c27TokenMenu
	okM := true
	for si, seed := range c27Seeds {
		toks := c27Tokenize(seed)
		for i := range toks {
			var mutants []string
			mutants = append(mutants, c27Join(append(append([]string{}, toks[:i]...), toks[i+1:]...)))                    // delete
			mutants = append(mutants, c27Join(append(append(append([]string{}, toks[:i+1]...), toks[i]), toks[i+1:]...))) // duplicate
			for _, m := range menu {
				if m == toks[i] {
					continue
				}
				mutants = append(mutants, c27Join(append(append(append([]string{}, toks[:i]...), m), toks[i+1:]...))) // replace
			}
			si, i := si, i
			if !submit(func(slot *c27Slot) {
				for mi, text := range mutants {
					for _, u := range uniforms {
						u := u
						runCase(slot, "M", text, nil, func() *fakeStore { return newUniformStore(u) }, map[string]any{"seed": si, "token": i, "mutant": mi, "uniform_balance": u.String()})
					}
				}
			}) {
				okM = false
			}
		}
	}
	// the unmutated seeds themselves
	for si, seed := range c27Seeds {
		si, seed := si, seed
		submit(func(slot *c27Slot) {
			for _, u := range uniforms {
				u := u
				runCase(slot, "seed", seed, nil, func() *fakeStore { return newUniformStore(u) }, map[string]any{"seed": si, "uniform_balance": u.String()})
			}
		})
	}
	if okM {
		groupsDone = append(groupsDone, "M")
	}

	// ---- B: all short byte strings ---------------------------------------------------
	okB := true
	for l := 0; l <= 3; l++ {
		idx := make([]int, l)
		var batch []string
		for {
			b := make([]byte, l)
			for i := range b {
				b[i] = c27Alphabet[idx[i]]
			}
			batch = append(batch, string(b))
			i := l - 1
			for i >= 0 {
				idx[i]++
				if idx[i] < len(c27Alphabet) {
					break
				}
				idx[i] = 0
				i--
			}
			if len(batch) == 200 || i < 0 {
				bb := batch
				batch = nil
				if !submit(func(slot *c27Slot) {
					for _, text := range bb {
						runCase(slot, "B", text, nil, func() *fakeStore { return newUniformStore(big.NewInt(5)) }, nil)
					}
				}) {
					okB = false
				}
			}
			if i < 0 {
				break
			}
		}
	}
	if okB {
		groupsDone = append(groupsDone, "B")
	}

	// ---- V / S: adversarial variables and stores on the seeds -------------------------
	okV := true
	for si, seed := range c27Seeds {
		si, seed := si, seed
		if !submit(func(slot *c27Slot) {
			prog, err := compiler.Compile(seed)
			if err != nil {
				r.EngineError(fmt.Sprintf("seed %d does not compile: %v", si, err))
				return
			}
			names, defaults := declaredVars(prog)
			cp := func() map[string]string {
				m := map[string]string{}
				for k, v := range defaults {
					m[k] = v
				}
				return m
			}
			good := func() *fakeStore { return newUniformStore(big.NewInt(5)) }
			for _, n := range names {
				for _, adv := range c27AdvStrings {
					m := cp()
					m[n] = adv
					runCase(slot, "V", seed, m, good, map[string]any{"seed": si, "var": n, "value": adv})
				}
				m := cp()
				delete(m, n)
				runCase(slot, "V", seed, m, good, map[string]any{"seed": si, "missing_var": n})
				for _, js := range c27AdvJSON {
					doc := map[string]json.RawMessage{}
					for k, v := range defaults {
						b, _ := json.Marshal(v)
						doc[k] = b
					}
					doc[n] = json.RawMessage(js)
					raw, _ := json.Marshal(map[string]any{"plain": seed, "vars": doc})
					var vars map[string]string
					func() {
						defer func() {
							if p := recover(); p != nil {
								r.Violation("C27:panic:vars-json:"+panicSite(debug.Stack(), p), fmt.Sprintf("decoding script vars panicked: %v | json %s", p, raw), map[string]any{"json": string(raw)})
							}
						}()
						var s1 vm.ScriptV1
						if err := json.Unmarshal(raw, &s1); err != nil {
							return
						}
						vars = s1.ToCore().Vars
					}()
					if vars != nil {
						runCase(slot, "V", seed, vars, good, map[string]any{"seed": si, "var": n, "json_value": js})
					}
				}
			}
			m := cp()
			m["extra"] = "x"
			runCase(slot, "V", seed, m, good, map[string]any{"seed": si, "extra_var": "extra"})
			runCase(slot, "V", seed, map[string]string{}, good, map[string]any{"seed": si, "vars": "none"})
			// stores
			two64 := new(big.Int).Lsh(big.NewInt(1), 64)
			ten30 := new(big.Int).Exp(big.NewInt(10), big.NewInt(30), nil)
			for _, u := range []*big.Int{new(big.Int).Neg(ten30), new(big.Int).Neg(two64), big.NewInt(-1), big.NewInt(1), two64, ten30} {
				u := u
				runCase(slot, "S", seed, cp(), func() *fakeStore { return newUniformStore(u) }, map[string]any{"seed": si, "uniform_balance": u.String()})
			}
			runCase(slot, "S", seed, cp(), func() *fakeStore { s := good(); s.balErr = errors.New("boom"); return s }, map[string]any{"seed": si, "store": "GetBalances fails"})
			runCase(slot, "S", seed, cp(), func() *fakeStore { s := good(); s.accErr = errors.New("boom"); return s }, map[string]any{"seed": si, "store": "GetAccount fails"})
			runCase(slot, "S", seed, cp(), func() *fakeStore {
				s := good()
				s.allAccountsExist = false
				s.meta = map[string]map[string]string{}
				return s
			}, map[string]any{"seed": si, "store": "no account exists"})
			runCase(slot, "S", seed, cp(), func() *fakeStore { s := good(); s.meta = map[string]map[string]string{"m": {}}; return s }, map[string]any{"seed": si, "store": "metadata keys missing"})
			for _, bad := range []string{"", "x y", "-1", "COIN -1", "COIN", "3/2", "world", "\x00"} {
				bad := bad
				runCase(slot, "S", seed, cp(), func() *fakeStore {
					s := good()
					s.meta = map[string]map[string]string{"m": {"acc": bad, "por": bad, "mon": bad}}
					return s
				}, map[string]any{"seed": si, "store": "metadata values = " + fmt.Sprintf("%q", bad)})
			}
			runCase(slot, "S", seed, cp(), func() *fakeStore { s := good(); s.dropBalances = true; return s }, map[string]any{"seed": si, "store": "GetBalances returns an empty map"})
		}) {
			okV = false
		}
	}
	if okV {
		groupsDone = append(groupsDone, "V", "S")
	}

	close(tasks)
	done := make(chan struct{})
	go func() { wg.Wait(); close(done) }()
	select {
	case <-done:
	case w := <-hang:
		r.Violation("C27:hang", fmt.Sprintf("a case did not return within 60 s | input %q", w), map[string]any{"program": w, "program_bytes_hex": fmt.Sprintf("%x", w)})
		exhaustive.Store(false)
	}
	close(stopWatch)

	if r.ViolationCount() == 0 {
		cg := st.compiledByGroup.Map()
		switch {
		case st.compiled.Load() == 0:
			r.EngineError("vacuous: nothing compiled")
		case cg["M"] == 0:
			r.EngineError("vacuous: no mutant compiled")
		case st.ranErr.Load() == 0:
			r.EngineError("vacuous: no runtime error was ever returned (the nil-result-on-error oracle never applied)")
		case st.ranOK.Load() == 0:
			r.EngineError("vacuous: no run succeeded")
		}
	}
	cov := ev.Coverage{
		"evaluations":         st.cases.Load(),
		"distinct_nontrivial": st.distinctN.Load(),
		"rule": fmt.Sprintf("G: %s x every input (one case for a program the compiler rejects); M: every single-token delete/duplicate/replace(by each of %d menu tokens) of %d seed programs, compiled mutants x %d uniform balances with default variable values; B: all %d-letter-alphabet byte strings of length 0..3; V: every seed x every declared variable x %d adversarial strings + %d adversarial JSON values (through vm.ScriptV1.ToCore), missing / extraneous / no variables; S: every seed x extreme balances (+-2^64, +-10^30, +-1), failing or empty store answers, missing and ill-typed metadata; distinct_nontrivial = distinct program texts that compiled AND ran to completion without error at least once",
			gDesc, len(c27TokenMenu), len(c27Seeds), len(uniforms), len(c27Alphabet), len(c27AdvStrings), len(c27AdvJSON)),
		"samples":                       samples.List(),
		"exhaustive":                    exhaustive.Load(),
		"groups_fully_covered":          groupsDone,
		"cases_by_group":                st.byGroup.Map(),
		"compiled_cases_by_group":       st.compiledByGroup.Map(),
		"cases_compiled":                st.compiled.Load(),
		"runs_ok":                       st.ranOK.Load(),
		"runs_returning_error":          st.ranErr.Load(),
		"run_error_kinds":               st.errKinds.Map(),
		"adapter_result_checks":         st.adapterChecks.Load(),
		"traces_validated_against_impl": st.cases.Load(),
	}
	return r.Finish(cov, []string{
		"`arbitrary byte strings` is covered as all strings of length <= 3 over a 20-byte alphabet plus token-level mutants; longer random strings are not enumerated",
		"hang = a single case not returning within 60 s, observed by a watchdog over the workers' current case (the VM has no loops; this guards the ANTLR parser)",
		"programs containing `print` skip the adapter path only (it would print on stdout); they still run on the machine directly",
		"variables reach the machine as map[string]string (SetVarsFromJSON); non-string JSON values are first converted by vm.ScriptV1.ToCore as on the API path",
	})
}
