package pnum

import (
	"fmt"
	"math/big"
	"sync/atomic"
	"time"

	"github.com/formancehq/ledger/verifh/ev"
	"github.com/formancehq/ledger/verifh/gen"
	"github.com/formancehq/ledger/verifh/reg"
)

// C23 — Numscript never overdraws a bounded source.
//
// Same program space and executions as C22. On each successful run, for every
// account that appears as a source of some send, is not world and is nowhere
// declared `allowing unbounded overdraft`:
//
//	initial + sum(postings)  >=  min(initial, -bound)      for every asset
//
// where bound is the LARGEST `allowing overdraft up to X` the account appears
// with anywhere in the script (0 if none), so the check never demands more than
// the property does when an account carries different clauses.
//
// On top of the shared space (space_ext.go): X1 = word-sized amounts and balances through
// allotments; X2a = sums / differences of monetaries as amount, `max`, overdraft bound (a
// bound that evaluates negative counts as 0); X2b = `save <sum / difference> from A`
// followed by a send drawing on A. A difference is the only way to hand the machine a
// NEGATIVE monetary; `save` is not in the property's formula, so whatever it is asked to
// save, A must still end >= min(initial, -bound) (signature suffix
// :after-save-of-negative-amount when an earlier save names the account with an amount < 0).
func init() { reg.Register("C23", c23) }

type c23Local struct {
	nontrivial bool
	// per variable assignment: did a run end with a bounded source exactly at its
	// floor after being debited, and did a sibling input fail for lack of funds?
	curVars            string
	atFloor, siblingKO bool
	binding            bool
}

func varsKey(m map[string]string) string { return fmt.Sprint(m) }

func c23() int {
	tuneRuntime()
	r := ev.Start("C23", ev.LevelExploration, 100*time.Second, 15*time.Minute)
	sp := numscriptSpace(r.Thorough())
	// X1 (word-sized amounts and balances through allotments), X2a (sums / differences of
	// monetaries as amount, `max`, overdraft bound) and X2b (`save <expr> from A` ; send): see
	// space_ext.go. They are small and run first.
	x1, x1Rule := largeAmountStage(r.Thorough())
	x2, x2Rule := exprStages(r.Thorough(), true)
	sp.Stages = append(append([]stage{x1}, x2...), sp.Stages...)
	sp.Rule += "; " + x1Rule + "; " + x2Rule
	samples := ev.NewSamples(6)
	var nontrivial, accountsChecked, pairsChecked, atFloorRuns, overdraftUsedRuns, bindingPrograms, unboundedSkipped atomic.Int64
	// successful runs where an earlier `save` of a NEGATIVE amount (a difference) names an account that a
	// later send debits as a bounded source; same for an overdraft bound that evaluates negative
	var negSaveThenDebit, exprSaveRuns, negBoundRuns, wordSizedChecked atomic.Int64
	two63 := new(big.Int).Lsh(big.NewInt(1), 63)

	flush := func(l *c23Local) {
		if l.atFloor && l.siblingKO {
			l.binding = true
		}
		l.atFloor, l.siblingKO = false, false
	}

	v := machineVisitor{
		Begin: func(pc *progCtx) { pc.Local = &c23Local{} },
		Each: func(pc *progCtx, env *gen.Env, res *machineRun) {
			l := pc.Local.(*c23Local)
			if k := varsKey(env.Vars); k != l.curVars {
				flush(l)
				l.curVars = k
			}
			if res.Panic != nil {
				return
			}
			if res.Err != nil {
				if errKind(res.Err) == "insufficient-funds" {
					l.siblingKO = true
				}
				return
			}
			bounds := map[string]*srcBound{}
			for _, s := range pc.P.Stmts {
				if s.K == gen.StSend {
					if !collectSrcBounds(s.Src, env, bounds) {
						r.EngineError("reference could not resolve the sources of a program that ran: " + pc.Text)
						return
					}
				}
			}
			// net effect of the postings per (account, asset)
			delta := balState{}
			debited := map[string]bool{}
			for _, p := range res.Postings {
				amt := p.Amount.ToBigInt()
				s := delta.get(p.Source, p.Asset)
				s.Sub(s, amt)
				d := delta.get(p.Destination, p.Asset)
				d.Add(d, amt)
				if amt.Sign() > 0 {
					debited[p.Source+"\x00"+p.Asset] = true
				}
			}
			if len(res.Postings) > 0 {
				l.nontrivial = true
			}
			// what the run exercised of the save / expression dimension
			negSaved := map[string]bool{} // accounts named by a `save` whose amount evaluates < 0
			exprSave := false
			for _, st := range pc.P.Stmts {
				if st.K == gen.StSave && !st.All && st.Amt.IsExpr() {
					exprSave = true
					if acc, ok := env.Account(st.Acc); ok {
						if _, v, ok := env.Monetary(st.Amt); ok && v.Sign() < 0 {
							negSaved[acc] = true
						}
					}
				}
			}
			if exprSave {
				exprSaveRuns.Add(1)
			}
			if srcHasNegativeBound(pc.P, env) {
				negBoundRuns.Add(1)
			}
			floorHit := false
			for acc, sb := range bounds {
				if acc == "world" || sb.unbounded {
					unboundedSkipped.Add(1)
					continue
				}
				accountsChecked.Add(1)
				for asset, d := range delta[acc] {
					pairsChecked.Add(1)
					initial := env.Balance(acc, asset)
					final := new(big.Int).Add(initial, d)
					floor := new(big.Int).Neg(sb.bound)
					if initial.Cmp(floor) < 0 {
						floor.Set(initial)
					}
					if negSaved[acc] && debited[acc+"\x00"+asset] {
						negSaveThenDebit.Add(1)
					}
					if initial.CmpAbs(two63) >= 0 || d.CmpAbs(two63) >= 0 {
						wordSizedChecked.Add(1)
					}
					if final.Cmp(floor) < 0 {
						clause := "none"
						if sb.bound.Sign() > 0 {
							clause = "bounded"
						}
						sig, note := "C23:bounded-source-overdrawn:clause="+clause, ""
						if negSaved[acc] {
							sig += ":after-save-of-negative-amount"
							note = " (an earlier `save` names this account with an amount that evaluates negative)"
						}
						r.Violation(sig,
							fmt.Sprintf("account %s asset %s: initial %s, final %s < min(initial, -%s) = %s%s | program: %s", acc, asset, initial, final, sb.bound, floor, note, pc.Text),
							replayObj(pc.Text, env, map[string]any{"postings": postingsString(res.Postings)}))
					}
					if final.Cmp(floor) == 0 && debited[acc+"\x00"+asset] {
						floorHit = true
						if final.Sign() < 0 && final.Cmp(initial) < 0 {
							overdraftUsedRuns.Add(1)
						}
					}
				}
			}
			if floorHit {
				atFloorRuns.Add(1)
				l.atFloor = true
				samples.Add(map[string]any{"program": pc.Text, "vars": env.Vars, "balances": balString(env.Bal), "postings": postingsString(res.Postings), "note": "a bounded source ends exactly at min(initial,-bound)"})
			}
		},
		End: func(pc *progCtx) {
			l := pc.Local.(*c23Local)
			flush(l)
			if l.nontrivial {
				nontrivial.Add(1)
			}
			if l.binding {
				bindingPrograms.Add(1)
			}
		},
	}
	st, stages, all := exploreMachineSpace(r, sp, v)

	if r.ViolationCount() == 0 {
		switch {
		case st.Compiled.Load() == 0:
			r.EngineError("vacuous: no generated program compiled")
		case st.Postings.Load() == 0:
			r.EngineError("vacuous: no posting was produced")
		case bindingPrograms.Load() == 0:
			r.EngineError("vacuous: the bound was never binding (no program with a run ending exactly at min(initial,-bound) and a sibling input failing with insufficient funds)")
		case overdraftUsedRuns.Load() == 0:
			r.EngineError("vacuous: no run used a bounded overdraft down to exactly -bound")
		case negSaveThenDebit.Load() == 0:
			r.EngineError("vacuous: no successful run debited a bounded source after a `save` of a negative amount on that account")
		case negBoundRuns.Load() == 0:
			r.EngineError("vacuous: no successful run had an overdraft bound that evaluates negative")
		case wordSizedChecked.Load() == 0:
			r.EngineError("vacuous: no bounded source with a balance or a movement of 2^63 or more was checked")
		}
	}
	cov := ev.Coverage{
		"distinct_nontrivial":                nontrivial.Load(),
		"rule":                               sp.Rule + "; distinct_nontrivial = distinct programs that compiled AND had at least one successful run producing >= 1 posting; binding program = same program and variables, one balance vector succeeds with a debited bounded source ending exactly at min(initial,-bound) and another balance vector fails with insufficient funds",
		"samples":                            samples.List(),
		"exhaustive":                         all,
		"stages":                             stages,
		"bounds_fully_covered":               coveredStages(stages),
		"bounded_source_accounts_checked":    accountsChecked.Load(),
		"account_asset_pairs_checked":        pairsChecked.Load(),
		"unbounded_or_world_sources_skipped": unboundedSkipped.Load(),
		"runs_ending_exactly_at_floor":       atFloorRuns.Load(),
		"runs_using_overdraft_down_to_bound": overdraftUsedRuns.Load(),
		"programs_where_bound_is_binding":    bindingPrograms.Load(),
		"runs_ok_with_save_of_an_expression": exprSaveRuns.Load(),
		"bounded_sources_debited_after_save_of_negative_amount": negSaveThenDebit.Load(),
		"runs_ok_with_negative_overdraft_bound":                 negBoundRuns.Load(),
		"pairs_checked_with_balance_or_movement_ge_2^63":        wordSizedChecked.Load(),
		"traces_validated_against_impl":                         st.Evals.Load(),
	}
	st.fill(cov)
	return r.Finish(cov, []string{
		"balance = initial balance of the case + all postings of the run (the machine's own Balances map is not consulted)",
		"an account with several overdraft clauses in one script is held to the most permissive one (unbounded anywhere => not checked); the bound is taken per account, across assets; a bound that evaluates negative (`allowing overdraft up to [COIN 1] - [COIN 5]`) counts as 0",
		"`save` is not part of the property's formula: whatever amount a `save` names (negative included), the account is held to min(initial, -bound)",
		"same execution path as C22 (call sequence of MachineNumscriptRuntimeAdapter.Execute on an in-memory store)",
	})
}

// srcHasNegativeBound: some `allowing overdraft up to X` of the program evaluates negative.
func srcHasNegativeBound(p *gen.Program, env *gen.Env) bool {
	var walk func(s *gen.Src) bool
	walk = func(s *gen.Src) bool {
		if s == nil {
			return false
		}
		if s.K == gen.SOver {
			if _, v, ok := env.Monetary(s.Bound); ok && v.Sign() < 0 {
				return true
			}
		}
		for _, c := range s.Sub {
			if walk(c) {
				return true
			}
		}
		return false
	}
	for _, st := range p.Stmts {
		if st.K == gen.StSend && walk(st.Src) {
			return true
		}
	}
	return false
}
