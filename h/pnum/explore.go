package pnum

import (
	"sync/atomic"

	"github.com/formancehq/ledger/internal/machine/script/compiler"
	"github.com/formancehq/ledger/internal/machine/vm/program"
	"github.com/formancehq/ledger/verifh/ev"
	"github.com/formancehq/ledger/verifh/gen"
)

// exploreMachineSpace compiles every program of the space with the real
// compiler and runs it on the real VM for every input of forEachEnv.

type progCtx struct {
	P     *gen.Program
	Text  string
	Prog  *program.Program
	Local any
}

type spaceStats struct {
	Programs, Compiled, CompileErrors     atomic.Int64
	Evals, RunsOK, RunsFailed, RunsPanick atomic.Int64
	Postings                              atomic.Int64
	ErrKinds                              counterSet
}

func (s *spaceStats) fill(cov ev.Coverage) {
	cov["programs"] = s.Programs.Load()
	cov["programs_compiled"] = s.Compiled.Load()
	cov["programs_rejected_by_compiler"] = s.CompileErrors.Load()
	cov["evaluations"] = s.Evals.Load()
	cov["runs_ok"] = s.RunsOK.Load()
	cov["runs_failed"] = s.RunsFailed.Load()
	cov["runs_panicked"] = s.RunsPanick.Load()
	cov["postings_produced"] = s.Postings.Load()
	cov["run_error_kinds"] = s.ErrKinds.Map()
}

type machineVisitor struct {
	Begin func(pc *progCtx)
	Each  func(pc *progCtx, env *gen.Env, res *machineRun)
	End   func(pc *progCtx)
}

func exploreMachineSpace(r *ev.Run, sp spaceDesc, v machineVisitor) (*spaceStats, []stageStat, bool) {
	st := &spaceStats{}
	stages, all := runStages(r, sp.Stages, func(p *gen.Program) {
		st.Programs.Add(1)
		text := p.Text()
		prog, err := compiler.Compile(text)
		if err != nil {
			st.CompileErrors.Add(1)
			return
		}
		st.Compiled.Add(1)
		pc := &progCtx{P: p, Text: text, Prog: prog}
		if v.Begin != nil {
			v.Begin(pc)
		}
		forEachEnv(p, func(env *gen.Env) {
			st.Evals.Add(1)
			fs := newFakeStore(env)
			res := runMachine(prog, env.Vars, vmStore{fs})
			res.Queried = fs.queried
			switch {
			case res.Panic != nil:
				st.RunsPanick.Add(1)
			case res.Err != nil:
				st.RunsFailed.Add(1)
				st.ErrKinds.Add(res.Stage + ":" + errKind(res.Err))
			default:
				st.RunsOK.Add(1)
				st.Postings.Add(int64(len(res.Postings)))
			}
			v.Each(pc, env, &res)
		})
		if v.End != nil {
			v.End(pc)
		}
	})
	return st, stages, all
}

func coveredStages(stages []stageStat) []string {
	var out []string
	for _, s := range stages {
		if s.Completed {
			out = append(out, s.Name)
		}
	}
	return out
}
