package pnum

import (
	"fmt"
	"math/big"
	"strings"
	"sync"
	"sync/atomic"

	ledger "github.com/formancehq/ledger/internal"
	"github.com/formancehq/ledger/internal/machine"
	"github.com/formancehq/ledger/internal/machine/script/compiler"
	"github.com/formancehq/ledger/internal/machine/vm"
	"github.com/formancehq/ledger/internal/machine/vm/program"
	"github.com/formancehq/ledger/verifh/ev"
	"github.com/formancehq/ledger/verifh/gen"
)

// exploreMachineSpace compiles every program of the space with the real
// compiler and runs it on the real VM for every input of forEachEnv.

type progCtx struct {
	P     *gen.Program
	Text  string
	Prog  *program.Program
	Local any
}

type spaceStats struct {
	Programs, Compiled, CompileErrors     atomic.Int64
	Evals, RunsOK, RunsFailed, RunsPanick atomic.Int64
	Postings                              atomic.Int64
	ErrKinds                              counterSet
}

func (s *spaceStats) fill(cov ev.Coverage) {
	cov["programs"] = s.Programs.Load()
	cov["programs_compiled"] = s.Compiled.Load()
	cov["programs_rejected_by_compiler"] = s.CompileErrors.Load()
	cov["evaluations"] = s.Evals.Load()
	cov["runs_ok"] = s.RunsOK.Load()
	cov["runs_failed"] = s.RunsFailed.Load()
	cov["runs_panicked"] = s.RunsPanick.Load()
	cov["postings_produced"] = s.Postings.Load()
	cov["run_error_kinds"] = s.ErrKinds.Map()
}

type machineVisitor struct {
	// Guard, when set, makes every run go through Guard.run: the process-global state the
	// machine shares between runs is checked after EVERY run, a run that saw it damaged is
	// redone alone from restored globals, and res.GlobalsMutated names what the run itself
	// damaged. Nil: plain runMachine, globals neither checked nor restored.
	Guard *globalGuard
	Begin func(pc *progCtx)
	Each  func(pc *progCtx, env *gen.Env, res *machineRun)
	End   func(pc *progCtx)
}

func exploreMachineSpace(r *ev.Run, sp spaceDesc, v machineVisitor) (*spaceStats, []stageStat, bool) {
	st := &spaceStats{}
	stages, all := runStages(r, sp.Stages, func(p *gen.Program) {
		st.Programs.Add(1)
		text := p.Text()
		prog, err := compiler.Compile(text)
		if err != nil {
			st.CompileErrors.Add(1)
			return
		}
		st.Compiled.Add(1)
		pc := &progCtx{P: p, Text: text, Prog: prog}
		if v.Begin != nil {
			v.Begin(pc)
		}
		forEachEnv(p, func(env *gen.Env) {
			st.Evals.Add(1)
			var fs *fakeStore
			var res machineRun
			if v.Guard != nil {
				res, fs = v.Guard.run(prog, env.Vars, func() *fakeStore { return newFakeStore(env) })
			} else {
				fs = newFakeStore(env)
				res = runMachine(prog, env.Vars, vmStore{fs})
			}
			res.Queried = fs.queried
			switch {
			case res.Panic != nil:
				st.RunsPanick.Add(1)
			case res.Err != nil:
				st.RunsFailed.Add(1)
				st.ErrKinds.Add(res.Stage + ":" + errKind(res.Err))
			default:
				st.RunsOK.Add(1)
				st.Postings.Add(int64(len(res.Postings)))
			}
			v.Each(pc, env, &res)
		})
		if v.End != nil {
			v.End(pc)
		}
	})
	return st, stages, all
}

func coveredStages(stages []stageStat) []string {
	var out []string
	for _, s := range stages {
		if s.Completed {
			out = append(out, s.Name)
		}
	}
	return out
}

// ---------------------------------------------------------------------------
// state that outlives a run
// ---------------------------------------------------------------------------
//
// A machine run is supposed to be a function of (program, vars, store). Two things
// outlive it inside the process and are shared with every later run, of any script,
// on any ledger:
//   - the package-level values the machine packages export and compute with:
//     machine.Zero (*MonetaryInt: the "0" of Funding.Take/TakeMax/Total, withdrawAll,
//     OP_TAKE_MAX, Allotment.Allocate; OP_SAVE installs it as a tracked balance) and
//     ledger.Zero (*big.Int: the sign test of ResolveBalances);
//   - the compiled program (the ledger keeps it in its parser cache): its constant
//     resources are handed to the machine by pointer.
// Both are pointers to mutable big integers, so an in-place operation on a value that
// aliases them changes the arithmetic of every later run. The invariant "still 0" /
// "still the compiled constants" costs two sign tests (one short string) per run.

// globalDamage names one package-level value that no longer has its initial value.
type globalDamage struct {
	Name string // "machine.Zero", "ledger.Zero"
	What string // its value now
}

// globalStateIntact is the per-run test. It only looks at sign words, so it is safe
// (no dereference of a half-written slice) even while a defective run on another
// worker is writing the value.
func globalStateIntact() bool {
	mz, lz := machine.Zero, ledger.Zero
	return mz != nil && lz != nil && mz.ToBigInt().Sign() == 0 && lz.Sign() == 0
}

// globalStateDamage describes the damage; only called when no run is in flight.
func globalStateDamage() []globalDamage {
	var out []globalDamage
	if mz := machine.Zero; mz == nil {
		out = append(out, globalDamage{"machine.Zero", "nil"})
	} else if mz.ToBigInt().Sign() != 0 {
		out = append(out, globalDamage{"machine.Zero", mz.String()})
	}
	if lz := ledger.Zero; lz == nil {
		out = append(out, globalDamage{"ledger.Zero", "nil"})
	} else if lz.Sign() != 0 {
		out = append(out, globalDamage{"ledger.Zero", lz.String()})
	}
	return out
}

func restoreGlobalState() {
	machine.Zero = machine.NewMonetaryInt(0)
	ledger.Zero = big.NewInt(0)
}

// globalGuard keeps the runs of the parallel workers independent of each other even
// when one of them damages the process-global state, and attributes the damage to
// the run that did it:
//   - every run holds the read lock; its postings are copied (a posting amount may BE
//     the global: a zero part taken from an empty source is machine.Zero itself) and
//     the invariant is tested before the lock is released;
//   - a run that finds the state damaged (by itself or by a run of another worker that
//     overlapped it) is discarded and redone under the write lock, i.e. alone, from
//     restored globals: if the state is damaged again, this very run did it
//     (GlobalsMutated), and the state is restored once more before anybody else runs.
//
// A restoration needs the write lock, so no run ever spans one: a run either ended
// before the damage (its copied result is clean) or sees it at its end. The damaging
// run itself always reaches its own test with the damage in place, so it is always
// found, whatever the interleaving.
type globalGuard struct {
	mu     sync.RWMutex
	Checks atomic.Int64 // invariant evaluations (one per run)
	Redone atomic.Int64 // runs redone alone because the state was found damaged
}

func detachPostings(res *machineRun) (ok bool) {
	defer func() {
		if recover() != nil { // a value being rewritten by another worker: state is damaged
			ok = false
		}
	}()
	if len(res.Postings) == 0 {
		return true
	}
	cp := make([]vm.Posting, len(res.Postings))
	for i, p := range res.Postings {
		cp[i] = p
		if p.Amount != nil {
			cp[i].Amount = machine.NewMonetaryIntFromBigInt(new(big.Int).Set(p.Amount.ToBigInt()))
		}
	}
	res.Postings = cp
	return true
}

func (g *globalGuard) run(prog *program.Program, vars map[string]string, mk func() *fakeStore) (machineRun, *fakeStore) {
	g.mu.RLock()
	fs := mk()
	res := runMachine(prog, vars, vmStore{fs})
	ok := detachPostings(&res)
	ok = globalStateIntact() && ok
	g.Checks.Add(1)
	g.mu.RUnlock()
	if ok {
		return res, fs
	}
	g.mu.Lock()
	defer g.mu.Unlock()
	g.Redone.Add(1)
	restoreGlobalState() // (another worker may have done it already: harmless)
	fs = mk()
	res = runMachine(prog, vars, vmStore{fs})
	detachPostings(&res)
	g.Checks.Add(1)
	if !globalStateIntact() {
		res.GlobalsMutated = globalStateDamage()
		restoreGlobalState()
	}
	return res, fs
}

// programFingerprint renders what a run may not change in the compiled program: the
// instructions and the resources (constants carry *MonetaryInt amounts).
func programFingerprint(p *program.Program) string {
	var b strings.Builder
	fmt.Fprintf(&b, "%x", p.Instructions)
	for _, r := range p.Resources {
		fmt.Fprintf(&b, "|%v", r)
	}
	return b.String()
}
