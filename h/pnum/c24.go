package pnum

import (
	"fmt"
	"math/big"
	"os"
	"runtime"
	"sort"
	"strconv"
	"strings"
	"sync"
	"sync/atomic"
	"time"

	"github.com/formancehq/ledger/internal/machine"
	"github.com/formancehq/ledger/internal/machine/script/compiler"
	"github.com/formancehq/ledger/internal/machine/vm/program"
	"github.com/formancehq/ledger/verifh/ev"
	"github.com/formancehq/ledger/verifh/reg"
)

// C24 — allotments split amounts exactly.
// Alphabet: portion vectors of length 1..L over all rationals n/d in [0,1] with d <= D
// (zero portions included), either summing to exactly 1 or < 1 with one `remaining`
// at every position; amounts 0..A and 2^64+k, 10^30+k, a band of machine-word
// boundary amounts (2^31, 2^32, 2^53, 2^62, 2^63 +-1) and real-world magnitudes
// (satoshi / wei scales), and, PER VECTOR, the amounts that make amount x numerator
// straddle each word boundary (floor(T/n), floor(T/n)+1 for T in 2^31, 2^32, 2^53,
// 2^63, 2^64 and every numerator n of the resolved vector). A second family of vectors
// is built from source-level percent literals ("12.345678%", parsed by
// ParsePortionSpecific) whose reduced numerators are large (up to ~2^27).
// Oracle: parts sum to amount; part_i = floor(amount*p_i) + [i < leftover].
//
// Spelling leg (c24spellLeg, c24spell.go, runs first): every TEXT of the PORTION token over a
// bounded digit-string grammar (percent I[.F]%, fraction N/D; leading zeros, trailing zeros,
// percents below 1%), read independently in base ten, against ParsePortionSpecific and,
// as allotment literal / `portion` variable / metadata portion, against the postings.
//
// VM-level leg (c24vmLeg, runs next): Allocate's result only reaches a user through the
// machine (OP_MAKE_ALLOTMENT, OP_ALLOC, then OP_TAKE/OP_SEND), so every vector of length
// <= 3 (4 in the thorough tier) over a smaller menu - zero portions at every position,
// `remaining` resolving to 0, portion variables bound to any value of the menu - is also
// written as a real Numscript destination allotment and source allotment, compiled by the
// real compiler and run by the real machine; the same oracle is applied to the POSTINGS
// (amount per destination account / per source account, total = amount sent).
func init() { reg.Register("C24", c24) }

func ratMenu(maxDen int64) []*big.Rat {
	seen := map[string]bool{}
	var out []*big.Rat
	for d := int64(1); d <= maxDen; d++ {
		for n := int64(0); n <= d; n++ {
			r := big.NewRat(n, d)
			if !seen[r.String()] {
				seen[r.String()] = true
				out = append(out, r)
			}
		}
	}
	return out
}

func c24() int {
	r := ev.Start("C24", ev.LevelExploration, 60*time.Second, 10*time.Minute)
	maxLen := ev.Pick(r, 4, 5)
	maxDen := ev.Pick(r, int64(7), int64(8))
	maxAmt := ev.Pick(r, 40, 64)
	menu := ratMenu(maxDen)
	one := big.NewRat(1, 1)

	var amounts []*big.Int
	for i := 0; i <= maxAmt; i++ {
		amounts = append(amounts, big.NewInt(int64(i)))
	}
	two64 := new(big.Int).Lsh(big.NewInt(1), 64)
	ten30 := new(big.Int).Exp(big.NewInt(10), big.NewInt(30), nil)
	for k := int64(-1); k <= 9; k++ {
		amounts = append(amounts, new(big.Int).Add(two64, big.NewInt(k)))
		amounts = append(amounts, new(big.Int).Add(ten30, big.NewInt(k)))
	}

	// machine-word boundary band: 2^e-1, 2^e, 2^e+1 (2^64 is covered above)
	bandExps := []uint{31, 32, 53, 62, 63}
	for _, e := range bandExps {
		base := new(big.Int).Lsh(big.NewInt(1), e)
		for k := int64(-1); k <= 1; k++ {
			amounts = append(amounts, new(big.Int).Add(base, big.NewInt(k)))
		}
	}
	// real-world magnitudes: 21M BTC in satoshi, 1 / 3.5 / 10 ETH in wei (10 ETH lies in [2^63, 2^64))
	realWorld := []string{"2100000000000000", "1000000000000000000", "3500000000000000000", "10000000000000000000"}
	for _, s := range realWorld {
		v, _ := new(big.Int).SetString(s, 10)
		amounts = append(amounts, v)
	}
	globalAmt := map[string]bool{}
	for _, a := range amounts {
		globalAmt[a.String()] = true
	}
	// word boundaries T that amount x numerator is made to straddle, per vector
	thresholdExps := []uint{31, 32, 53, 63, 64}
	var thresholds []*big.Int
	for _, e := range thresholdExps {
		thresholds = append(thresholds, new(big.Int).Lsh(big.NewInt(1), e))
	}
	// straddleAmounts: for every numerator n > 0 of the resolved vector and every T,
	// q = floor(T/n) and q+1, so that q*n <= T < (q+1)*n. Deterministic order, no
	// duplicates, nothing already in the global menu.
	straddleAmounts := func(a machine.Allotment) []*big.Int {
		var out []*big.Int
		seen := map[string]bool{}
		seenNum := map[string]bool{}
		for i := range a {
			n := a[i].Num()
			if n.Sign() <= 0 || seenNum[n.String()] {
				continue
			}
			seenNum[n.String()] = true
			for _, t := range thresholds {
				q := new(big.Int).Div(t, n)
				for k := int64(0); k <= 1; k++ {
					v := new(big.Int).Add(q, big.NewInt(k))
					key := v.String()
					if globalAmt[key] || seen[key] {
						continue
					}
					seen[key] = true
					out = append(out, v)
				}
			}
		}
		return out
	}
	// magnitude class of the largest amount x numerator product of one evaluation
	const (
		clsLt31 = iota
		cls31to32
		cls32to63
		cls63to64
		clsGe64
		nCls
	)
	clsName := [nCls]string{"prod-lt-2^31", "prod-2^31..2^32", "prod-2^32..2^63", "prod-2^63..2^64", "prod-ge-2^64"}
	clsOf := func(bits int) int {
		switch {
		case bits <= 31:
			return clsLt31
		case bits == 32:
			return cls31to32
		case bits <= 63:
			return cls32to63
		case bits == 64:
			return cls63to64
		}
		return clsGe64
	}

	var evals, vectors, leftoverCases atomic.Int64
	var clsCount [nCls]atomic.Int64
	// evaluations where the amount itself fits a signed word (< 2^63) but some
	// amount x numerator product lies in [2^63, 2^64) / is >= 2^64
	var mulCrosses63, mulCrosses64 atomic.Int64
	// same as mulCrosses63, the crossing numerator being >= 2^16 (percent literals)
	var bigNumCrosses63 atomic.Int64
	var straddleEvals, percentVectors, bigNumVectors atomic.Int64
	distinct := sync.Map{}
	var distinctN atomic.Int64
	samples := ev.NewSamples(5)
	exhaustive := atomic.Bool{}
	exhaustive.Store(true)

	// The VM-level leg runs first: it is the smaller space, and a budget cut on a
	// loaded machine must shorten the direct leg's depth, not drop a whole dimension.
	// The spelling leg (c24spell.go) is smaller still and goes before it.
	spCov, spSamples := c24spellLeg(r, &exhaustive)
	vmCov, vmSamples := c24vmLeg(r, &exhaustive)

	checkVector := func(portions []machine.Portion, desc string) {
		a, err := machine.NewAllotment(portions)
		if err != nil {
			r.Violation("C24:newallotment-rejects-valid", fmt.Sprintf("NewAllotment rejected %s: %v", desc, err), map[string]any{"portions": desc})
			return
		}
		vectors.Add(1)
		// the resolved vector must sum to 1
		sum := new(big.Rat)
		for i := range *a {
			sum.Add(sum, &(*a)[i])
		}
		if sum.Cmp(one) != 0 {
			r.Violation("C24:resolved-sum", fmt.Sprintf("allotment %s resolves to %s (sum %s)", desc, a.String(), sum), map[string]any{"portions": desc})
			return
		}
		vecAmounts := append(append([]*big.Int{}, amounts...), straddleAmounts(*a)...)
		straddleEvals.Add(int64(len(vecAmounts) - len(amounts)))
		bigNum := false
		for i := range *a {
			if (*a)[i].Num().BitLen() > 16 {
				bigNum = true
			}
		}
		if bigNum {
			bigNumVectors.Add(1)
		}
		var lCls [nCls]int64
		var lCross63, lCross64, lBigCross63, lLeft int64
		defer func() {
			evals.Add(int64(len(vecAmounts)))
			for c := range lCls {
				clsCount[c].Add(lCls[c])
			}
			mulCrosses63.Add(lCross63)
			mulCrosses64.Add(lCross64)
			bigNumCrosses63.Add(lBigCross63)
			leftoverCases.Add(lLeft)
		}()
		for _, amt := range vecAmounts {
			mi := machine.MonetaryInt(*new(big.Int).Set(amt))
			parts := a.Allocate(&mi)
			if len(parts) != len(*a) {
				r.Violation("C24:len", fmt.Sprintf("%s amount %s: %d parts", desc, amt, len(parts)), map[string]any{"portions": desc, "amount": amt.String()})
				continue
			}
			floors := make([]*big.Int, len(parts))
			total := new(big.Int)
			maxBits, bigBits := 0, 0
			prodBits := make([]int, len(parts))
			for i := range *a {
				f := new(big.Int).Mul(amt, (*a)[i].Num())
				prodBits[i] = f.BitLen()
				if b := f.BitLen(); b > maxBits {
					maxBits = b
				}
				if b := f.BitLen(); (*a)[i].Num().BitLen() > 16 && b > bigBits {
					bigBits = b
				}
				f.Div(f, (*a)[i].Denom())
				floors[i] = f
				total.Add(total, f)
			}
			cls := clsOf(maxBits)
			lCls[cls]++
			if amt.BitLen() <= 63 {
				if cls == cls63to64 {
					lCross63++
				}
				if cls == clsGe64 {
					lCross64++
				}
				if clsOf(bigBits) == cls63to64 {
					lBigCross63++
				}
			}
			left := new(big.Int).Sub(amt, total)
			if left.Sign() > 0 {
				lLeft++
			}
			// One violation per failing evaluation, labelled by its most specific symptom:
			// a part outside [floor, floor+1] (class = that part's own amount x numerator
			// product) > a part in range but not floor + [i < leftover] > wrong sum. The
			// other symptoms of the same evaluation are consequences (a part that is too
			// small makes the round-robin hand a spurious unit to every other part).
			got := new(big.Int)
			outIdx, valIdx := -1, -1
			wants := make([]*big.Int, len(parts))
			for i, p := range parts {
				pi := (*big.Int)(p)
				got.Add(got, pi)
				want := new(big.Int).Set(floors[i])
				if big.NewInt(int64(i)).Cmp(left) < 0 {
					want.Add(want, big.NewInt(1))
				}
				wants[i] = want
				if pi.Cmp(want) != 0 {
					if pi.Cmp(floors[i]) < 0 || pi.Cmp(new(big.Int).Add(floors[i], big.NewInt(1))) > 0 {
						if outIdx < 0 {
							outIdx = i
						}
					} else if valIdx < 0 {
						valIdx = i
					}
				}
			}
			replay := map[string]any{"portions": desc, "resolved": a.String(), "amount": amt.String(), "parts": fmt.Sprint(parts)}
			switch {
			case outIdx >= 0:
				i := outIdx
				r.Violation("C24:part-out-of-floor-range:"+clsName[clsOf(prodBits[i])],
					fmt.Sprintf("%s amount %s: part %d = %s, want %s (floor %s, leftover %s, amount x numerator has %d bits); parts %v sum to %s", desc, amt, i, (*big.Int)(parts[i]), wants[i], floors[i], left, prodBits[i], parts, got), replay)
			case valIdx >= 0:
				i := valIdx
				r.Violation("C24:part-value:"+clsName[cls],
					fmt.Sprintf("%s amount %s: part %d = %s, want %s (floor %s, leftover %s); parts %v sum to %s", desc, amt, i, (*big.Int)(parts[i]), wants[i], floors[i], left, parts, got), replay)
			case got.Cmp(amt) != 0:
				r.Violation("C24:sum:"+clsName[cls], fmt.Sprintf("%s amount %s: parts sum to %s", desc, amt, got), replay)
			}
			if amt.Sign() > 0 {
				key := a.String()
				if _, loaded := distinct.LoadOrStore(key, true); !loaded {
					distinctN.Add(1)
				}
			}
		}
		samples.Add(map[string]any{"portions": desc, "resolved": a.String(), "amounts": len(vecAmounts)})
	}

	// enumerate prefixes in parallel on the first element
	type job struct{ first int }
	jobs := make(chan job)
	var wg sync.WaitGroup
	for w := 0; w < runtime.NumCPU(); w++ {
		wg.Add(1)
		go func() {
			defer wg.Done()
			for j := range jobs {
				var rec func(vec []*big.Rat, sum *big.Rat)
				rec = func(vec []*big.Rat, sum *big.Rat) {
					if r.Expired() {
						exhaustive.Store(false)
						return
					}
					if len(vec) > 0 {
						// explicit: must sum to one
						if sum.Cmp(one) == 0 {
							ps := make([]machine.Portion, len(vec))
							d := ""
							for i, v := range vec {
								p, err := machine.NewPortionSpecific(*new(big.Rat).Set(v))
								if err != nil {
									r.Violation("C24:portion-rejected", fmt.Sprintf("NewPortionSpecific(%s): %v", v, err), nil)
									return
								}
								ps[i] = *p
								d += v.String() + " "
							}
							checkVector(ps, d)
						}
						// with remaining at each position (sum <= 1), vector length+1 <= maxLen
						if len(vec)+1 <= maxLen {
							for pos := 0; pos <= len(vec); pos++ {
								ps := make([]machine.Portion, 0, len(vec)+1)
								d := ""
								for i := 0; i <= len(vec); i++ {
									if i == pos {
										ps = append(ps, machine.NewPortionRemaining())
										d += "remaining "
									}
									if i < len(vec) {
										p, _ := machine.NewPortionSpecific(*new(big.Rat).Set(vec[i]))
										ps = append(ps, *p)
										d += vec[i].String() + " "
									}
								}
								checkVector(ps, d)
							}
						}
					}
					if len(vec) == maxLen {
						return
					}
					for i, m := range menu {
						if len(vec) == 0 && i != j.first {
							continue
						}
						ns := new(big.Rat).Add(sum, m)
						if ns.Cmp(one) > 0 {
							continue
						}
						rec(append(append([]*big.Rat{}, vec...), m), ns)
					}
				}
				rec(nil, new(big.Rat))
			}
		}()
	}
	for i := range menu {
		jobs <- job{i}
	}
	close(jobs)
	wg.Wait()
	// `remaining` alone
	checkVector([]machine.Portion{machine.NewPortionRemaining()}, "remaining ")

	// Second family: source-level percent literals (what a Numscript author writes),
	// parsed by the real ParsePortionSpecific; their reduced numerators are large
	// (12.345678% = 6172839/50000000), so amount x numerator reaches the word
	// boundaries for everyday amounts. Vectors: [p remaining], [remaining p],
	// [p (1-p)], and for every ordered pair p+q<=1: [p q remaining] with `remaining`
	// at every position (plus [p q] when p+q = 1).
	literals := []string{"50%", "75%", "2.5%", "33.33%", "12.345678%", "66.666667%", "99.999999%", "0.000001%"}
	if r.Thorough() {
		literals = append(literals, "0%", "100%", "0.1%", "99.9%", "1.2345678901%", "87.654322%")
	}
	type pvec struct {
		ps   []machine.Portion
		desc string
	}
	var pvecs []pvec
	parsed := make([]*big.Rat, len(literals))
	for i, l := range literals {
		p, err := machine.ParsePortionSpecific(l)
		if err != nil {
			r.Violation("C24:portion-rejected", fmt.Sprintf("ParsePortionSpecific(%q): %v", l, err), map[string]any{"literal": l})
			continue
		}
		parsed[i] = new(big.Rat).Set(p.Specific)
	}
	spec := func(v *big.Rat) machine.Portion {
		p, err := machine.NewPortionSpecific(*new(big.Rat).Set(v))
		if err != nil {
			r.Violation("C24:portion-rejected", fmt.Sprintf("NewPortionSpecific(%s): %v", v, err), nil)
			return machine.NewPortionRemaining()
		}
		return *p
	}
	withRemaining := func(vals []*big.Rat, names []string) {
		for pos := 0; pos <= len(vals); pos++ {
			var ps []machine.Portion
			d := ""
			for i := 0; i <= len(vals); i++ {
				if i == pos {
					ps = append(ps, machine.NewPortionRemaining())
					d += "remaining "
				}
				if i < len(vals) {
					ps = append(ps, spec(vals[i]))
					d += names[i] + " "
				}
			}
			pvecs = append(pvecs, pvec{ps, d})
		}
	}
	for i, p := range parsed {
		if p == nil {
			continue
		}
		withRemaining([]*big.Rat{p}, []string{literals[i]})
		rest := new(big.Rat).Sub(one, p)
		pvecs = append(pvecs, pvec{[]machine.Portion{spec(p), spec(rest)}, literals[i] + " " + rest.String() + " "})
		for j, q := range parsed {
			if q == nil {
				continue
			}
			sum := new(big.Rat).Add(p, q)
			if sum.Cmp(one) > 0 {
				continue
			}
			withRemaining([]*big.Rat{p, q}, []string{literals[i], literals[j]})
			if sum.Cmp(one) == 0 && i != j {
				pvecs = append(pvecs, pvec{[]machine.Portion{spec(p), spec(q)}, literals[i] + " " + literals[j] + " "})
			}
		}
	}
	{
		pjobs := make(chan pvec)
		var pwg sync.WaitGroup
		for w := 0; w < runtime.NumCPU(); w++ {
			pwg.Add(1)
			go func() {
				defer pwg.Done()
				for v := range pjobs {
					if r.Expired() {
						exhaustive.Store(false)
						continue
					}
					checkVector(v.ps, v.desc)
					percentVectors.Add(1)
				}
			}()
		}
		for _, v := range pvecs {
			pjobs <- v
		}
		close(pjobs)
		pwg.Wait()
	}

	if r.ViolationCount() == 0 {
		if leftoverCases.Load() == 0 {
			r.EngineError("vacuous: no case with a leftover unit")
		}
		for c := 0; c < nCls; c++ {
			if clsCount[c].Load() == 0 {
				r.EngineError("vacuous: no evaluation whose largest amount x numerator product is in class " + clsName[c])
			}
		}
		if mulCrosses63.Load() == 0 || mulCrosses64.Load() == 0 {
			r.EngineError(fmt.Sprintf("vacuous: no amount < 2^63 whose product with a numerator crosses a word boundary (into [2^63,2^64): %d, >= 2^64: %d)", mulCrosses63.Load(), mulCrosses64.Load()))
		}
		if percentVectors.Load() == 0 || bigNumVectors.Load() == 0 || bigNumCrosses63.Load() == 0 {
			r.EngineError(fmt.Sprintf("vacuous: percent-literal family not exercised (vectors %d, vectors with a numerator >= 2^16: %d, evaluations where amount < 2^63 x such a numerator lies in [2^63,2^64): %d)", percentVectors.Load(), bigNumVectors.Load(), bigNumCrosses63.Load()))
		}
		if straddleEvals.Load() == 0 {
			r.EngineError("vacuous: no per-vector straddling amount was evaluated")
		}
	}
	byClass := map[string]int64{}
	for c := 0; c < nCls; c++ {
		byClass[clsName[c]] = clsCount[c].Load()
	}
	cov := ev.Coverage{
		"evaluations":          evals.Load() + vmCov["runs"].(int64) + spCov["runs"].(int64) + spCov["texts_parsed"].(int64),
		"allocate_evaluations": evals.Load(),
		"vm_leg":               vmCov,
		"spelling_leg":         spCov,
		"distinct_nontrivial":  distinctN.Load(),
		"rule": spCov["rule"].(string) + "; " + vmCov["rule"].(string) + "; on Allotment.Allocate directly: " + fmt.Sprintf("(A) all portion vectors of length<=%d over rationals n/d, d<=%d (%d values, zero included), summing to 1 or <1 with `remaining` at every position; (B) %d vectors over the percent literals %v parsed by ParsePortionSpecific: [p remaining], [remaining p], [p 1-p], [p q remaining] with `remaining` at every position for every ordered pair p+q<=1, [p q] when p+q=1; every vector x %d fixed amounts (0..%d; 2^e-1..2^e+1 for e in %v; 2^64-1..2^64+9; 10^30-1..10^30+9; real-world %v) + its own straddling amounts floor(T/n), floor(T/n)+1 for every numerator n of the resolved vector and T = 2^e, e in %v (those not already in the fixed menu); distinct_nontrivial = distinct resolved vectors allocated with a positive amount",
			maxLen, maxDen, len(menu), len(pvecs), literals, len(amounts), maxAmt, bandExps, realWorld, thresholdExps),
		"samples":                                   append(append(samples.List(), vmSamples...), spSamples...),
		"vectors":                                   vectors.Load(),
		"cases_with_leftover":                       leftoverCases.Load(),
		"percent_literal_vectors":                   percentVectors.Load(),
		"vectors_with_numerator_ge_2^16":            bigNumVectors.Load(),
		"straddling_amount_evaluations":             straddleEvals.Load(),
		"evaluations_by_largest_product_class":      byClass,
		"amount_lt_2^63_product_in_2^63..2^64":      mulCrosses63.Load(),
		"amount_lt_2^63_product_ge_2^64":            mulCrosses64.Load(),
		"same_with_numerator_ge_2^16_in_2^63..2^64": bigNumCrosses63.Load(),
		"exhaustive":                                exhaustive.Load(),
	}
	_ = os.Stdout
	return r.Finish(cov, []string{
		"leg (S) reads a portion text in base ten (the language has no other base: NUMBER tokens and monetary amounts are decimal); the value leg (B) uses for a percent literal is still the parser's own, (S-parse) is what compares the parser with the text",
		"legs (A) and (B) call Allocate directly on machine.Allotment built by NewAllotment; compiler-level rejection of non-100% allotments is exercised by C22's program space",
		"leg (VM) drives the machine runtime only (internal/machine: compiler.Compile + vm.Machine with the call sequence of MachineNumscriptRuntimeAdapter.Execute) on an in-memory store where every account holds 10^40 of every asset; a part is what the postings move to the portion's own destination account / take from its own source account (a zero-amount posting and no posting are the same part: 0)",
		"the interpreter runtime (github.com/formancehq/numscript, experimental feature) does not use internal/machine's Allotment/OP_ALLOC: it is outside C24's anchors; its agreement with the machine on the shared language is C26's matter",
		"a script of the (VM) space that does not compile, fails or panics is an engine error (the space is built from what VisitAllotment accepts, with enough funds), never a C24 violation",
	})
}

// ---------------------------------------------------------------------------
// VM-level leg: the same portion vectors, written as real Numscript allotments,
// compiled by the real compiler and executed by the real machine (OP_MAKE_ALLOTMENT,
// OP_ALLOC, OP_TAKE / OP_SEND). Allocate's result is not what a user observes: the
// parts travel through the VM before they become postings, so the rule is checked
// again on the POSTINGS (amount per destination account / per source account).
// ---------------------------------------------------------------------------

// c24vmShape is one portion vector as written in a script: specific values in
// order, `remaining` at remPos (-1: none, the specifics sum to exactly 1).
type c24vmShape struct {
	vals   []*big.Rat // one entry per portion; nil at remPos
	remPos int
}

func (s c24vmShape) resolved() []*big.Rat {
	out := make([]*big.Rat, len(s.vals))
	sum := new(big.Rat)
	for i, v := range s.vals {
		if i != s.remPos {
			out[i] = v
			sum.Add(sum, v)
		}
	}
	if s.remPos >= 0 {
		out[s.remPos] = new(big.Rat).Sub(big.NewRat(1, 1), sum)
	}
	return out
}

// c24vmShapes: every vector of exactly n portions over the menu, either n specifics
// summing to 1, or n-1 specifics summing to <= 1 with `remaining` at every position
// (so `remaining` resolves to 0 whenever the specifics already reach 1). Menu order.
func c24vmShapes(menu []*big.Rat, n int) []c24vmShape {
	one := big.NewRat(1, 1)
	var out []c24vmShape
	var rec func(vec []*big.Rat, sum *big.Rat, k int, f func([]*big.Rat, *big.Rat))
	rec = func(vec []*big.Rat, sum *big.Rat, k int, f func([]*big.Rat, *big.Rat)) {
		if len(vec) == k {
			f(vec, sum)
			return
		}
		for _, m := range menu {
			ns := new(big.Rat).Add(sum, m)
			if ns.Cmp(one) > 0 {
				continue
			}
			rec(append(append([]*big.Rat{}, vec...), m), ns, k, f)
		}
	}
	rec(nil, new(big.Rat), n, func(vec []*big.Rat, sum *big.Rat) {
		if sum.Cmp(one) == 0 {
			out = append(out, c24vmShape{vals: vec, remPos: -1})
		}
	})
	rec(nil, new(big.Rat), n-1, func(vec []*big.Rat, _ *big.Rat) {
		for pos := 0; pos < n; pos++ {
			vals := make([]*big.Rat, 0, n)
			vals = append(vals, vec[:pos]...)
			vals = append(vals, nil)
			vals = append(vals, vec[pos:]...)
			out = append(out, c24vmShape{vals: vals, remPos: pos})
		}
	})
	return out
}

// c24vmPercent spells v as a percent literal when it has a finite decimal
// expansion (1/8 = "12.5%"), "" otherwise.
func c24vmPercent(v *big.Rat) string {
	x := new(big.Rat).Mul(v, big.NewRat(100, 1))
	for k := 0; k <= 8; k++ {
		s := x.FloatString(k)
		if back, ok := new(big.Rat).SetString(s); ok && back.Cmp(x) == 0 {
			return s + "%"
		}
	}
	return ""
}

func c24vmSpell(v *big.Rat, percent bool) string {
	if percent {
		if s := c24vmPercent(v); s != "" {
			return s
		}
	}
	return v.Num().String() + "/" + v.Denom().String()
}

// c24vmProgram is one script of the VM leg. Portions whose bit is set in varMask are
// `portion` variables (bound through SetVarsFromJSON), the others literals. The
// compiler accepts exactly: no `remaining` and no variable and literals = 100%, or a
// `remaining` and literals < 100% (allotment.go: VisitAllotment).
type c24vmProgram struct {
	shape   c24vmShape
	varMask uint
	percent bool // percent spelling of the values that have one (literals and variable values)
	source  bool // source allotment (`p from @s_i`), else destination allotment (`p to @d_i`)
	seq     int  // rank in the enumeration
}

func (p c24vmProgram) form() string {
	if p.source {
		return "source"
	}
	return "destination"
}

// text renders the script. amount == nil: the amount is the variable $amt.
func (p c24vmProgram) text(amount *big.Int) (string, map[string]string) {
	vars := map[string]string{}
	var decl, body strings.Builder
	for i, v := range p.shape.vals {
		var por string
		switch {
		case i == p.shape.remPos:
			por = "remaining"
		case p.varMask&(1<<uint(i)) != 0:
			name := fmt.Sprintf("p%d", i)
			decl.WriteString("\tportion $" + name + "\n")
			vars[name] = c24vmSpell(v, p.percent)
			por = "$" + name
		default:
			por = c24vmSpell(v, p.percent)
		}
		if p.source {
			fmt.Fprintf(&body, "\t\t%s from @s%d\n", por, i)
		} else {
			fmt.Fprintf(&body, "\t\t%s to @d%d\n", por, i)
		}
	}
	amt := "$amt"
	if amount == nil {
		decl.WriteString("\tmonetary $amt\n")
	} else {
		amt = "[" + assetMain + " " + amount.String() + "]"
	}
	var sb strings.Builder
	if decl.Len() > 0 {
		sb.WriteString("vars {\n" + decl.String() + "}\n")
	}
	sb.WriteString("send " + amt + " (\n")
	if p.source {
		sb.WriteString("\tsource = {\n" + body.String() + "\t}\n\tdestination = @d\n")
	} else {
		sb.WriteString("\tsource = @world\n\tdestination = {\n" + body.String() + "\t}\n")
	}
	sb.WriteString(")\n")
	return sb.String(), vars
}

// c24vmPrograms: every accepted way of writing the shape: each specific portion a
// literal or a variable, fraction or percent spelling, destination or source allotment.
func c24vmPrograms(s c24vmShape) []c24vmProgram {
	one := big.NewRat(1, 1)
	var specIdx []int
	hasPercent := false
	for i, v := range s.vals {
		if i != s.remPos {
			specIdx = append(specIdx, i)
			if c24vmPercent(v) != "" {
				hasPercent = true
			}
		}
	}
	var out []c24vmProgram
	for sub := uint(0); sub < 1<<uint(len(specIdx)); sub++ {
		var mask uint
		lit := new(big.Rat)
		for b, i := range specIdx {
			if sub&(1<<uint(b)) != 0 {
				mask |= 1 << uint(i)
			} else {
				lit.Add(lit, s.vals[i])
			}
		}
		if s.remPos < 0 && mask != 0 {
			continue // "the sum of portions might be less/greater than 100%"
		}
		if s.remPos >= 0 && lit.Cmp(one) >= 0 {
			continue // "known portions are already equal to 100%"
		}
		for _, percent := range []bool{false, true} {
			if percent && !hasPercent {
				continue
			}
			for _, source := range []bool{false, true} {
				out = append(out, c24vmProgram{shape: s, varMask: mask, percent: percent, source: source})
			}
		}
	}
	return out
}

// kinds of zero-ratio portions (the portions whose floor is 0 whatever the amount: the
// only thing they can ever carry is a leftover unit)
const (
	c24zLiteral = iota
	c24zVariable
	c24zRemaining
	c24zKinds
)

var c24zName = [c24zKinds]string{"literal-zero", "variable-bound-to-zero", "remaining-resolving-to-zero"}

type c24vmStats struct {
	shapes, programs, compiled, literalAmountPrograms atomic.Int64
	runs, leftoverRuns, postings, zeroPostings        atomic.Int64
	byForm                                            [2]atomic.Int64
	withVariable, withPercent                         atomic.Int64
	// runs where a zero-ratio portion sits among the first `leftover` parts, i.e. is
	// owed a rounding unit: [form][kind]
	zeroOwedUnit [2][c24zKinds]atomic.Int64
	distinct     sync.Map
	distinctN    atomic.Int64
	failures     atomic.Int64
}

func c24vmLeg(r *ev.Run, exhaustive *atomic.Bool) (ev.Coverage, []any) {
	// denominator bound per vector length (index = length); simplest first
	denByLen := ev.Pick(r, []int64{0, 6, 6, 6}, []int64{0, 8, 8, 8, 4})
	maxLen := len(denByLen) - 1
	maxAmt := ev.Pick(r, 24, 48)
	litSmall := ev.Pick(r, []int64{0, 1, 7, 10}, []int64{0, 1, 2, 3, 7, 10, 100})
	// The leg may use at most half of the run's budget: on an overloaded machine the
	// cut falls on its last (longest) vectors and the direct legs still get their share.
	legStart := r.Elapsed()
	expired := func() bool { return r.Expired() || r.Elapsed()-legStart > r.Budget()/2 }

	var amounts []*big.Int
	for i := 0; i <= maxAmt; i++ {
		amounts = append(amounts, big.NewInt(int64(i)))
	}
	for _, e := range []uint{63, 64} {
		base := new(big.Int).Lsh(big.NewInt(1), e)
		for k := int64(-1); k <= 1; k++ {
			amounts = append(amounts, new(big.Int).Add(base, big.NewInt(k)))
		}
	}
	ten30 := new(big.Int).Exp(big.NewInt(10), big.NewInt(30), nil)
	for _, k := range []int64{0, 1, 7} {
		amounts = append(amounts, new(big.Int).Add(ten30, big.NewInt(k)))
	}
	var litAmounts []*big.Int
	for _, i := range litSmall {
		litAmounts = append(litAmounts, big.NewInt(i))
	}
	litAmounts = append(litAmounts, new(big.Int).Add(new(big.Int).Lsh(big.NewInt(1), 64), big.NewInt(1)))
	// every source account holds this much of every asset: "enough funds"
	funds := new(big.Int).Exp(big.NewInt(10), big.NewInt(40), nil)

	st := &c24vmStats{}
	samples := ev.NewSamples(6)

	fail := func(msg string) {
		if st.failures.Add(1) <= 5 {
			r.EngineError(msg)
		}
	}
	// Workers race; what is reported for a signature is its FIRST failing run in
	// enumeration order (script rank, then amount rank), whatever the interleaving.
	type finding struct {
		rank   [2]int
		what   string
		replay map[string]any
	}
	var fmu sync.Mutex
	findings := map[string]*finding{}
	report := func(sig string, rank [2]int, what func() string, replay func() map[string]any) {
		fmu.Lock()
		defer fmu.Unlock()
		if f, ok := findings[sig]; ok && (f.rank[0] < rank[0] || (f.rank[0] == rank[0] && f.rank[1] <= rank[1])) {
			return
		}
		findings[sig] = &finding{rank, what(), replay()}
	}

	// evaluate one run of prog (amount given by vars or baked into the text)
	evalRun := func(p c24vmProgram, text string, prog *program.Program, vars map[string]string, resolved []*big.Rat, amt *big.Int, amtRank int) {
		res := runMachine(prog, vars, vmStore{&fakeStore{allAccountsExist: true, uniform: funds}})
		st.runs.Add(1)
		fi := 0
		if p.source {
			fi = 1
		}
		st.byForm[fi].Add(1)
		if res.Panic != nil {
			fail(fmt.Sprintf("vm leg: panic %v at %s (amount %s) | %s", res.Panic, res.PanicAt, amt, text))
			return
		}
		if res.Err != nil {
			fail(fmt.Sprintf("vm leg: a script of the space (valid 100%% allotment, enough funds) fails at stage %s: %s (amount %s) | %s", res.Stage, shortErr(res.Err), amt, text))
			return
		}
		n := len(resolved)
		floors := make([]*big.Int, n)
		total := new(big.Int)
		for i, q := range resolved {
			f := new(big.Int).Mul(amt, q.Num())
			f.Div(f, q.Denom())
			floors[i] = f
			total.Add(total, f)
		}
		left := new(big.Int).Sub(amt, total)
		if left.Sign() > 0 {
			st.leftoverRuns.Add(1)
		}
		// the part of portion i = what the postings move to @d<i> / from @s<i>
		got := make([]*big.Int, n)
		for i := range got {
			got[i] = new(big.Int)
		}
		sum := new(big.Int)
		for _, po := range res.Postings {
			a := po.Amount.ToBigInt()
			sum.Add(sum, a)
			if a.Sign() == 0 {
				st.zeroPostings.Add(1)
			}
			acc := po.Destination
			pfx := "d"
			if p.source {
				acc, pfx = po.Source, "s"
			}
			if idx, err := strconv.Atoi(strings.TrimPrefix(acc, pfx)); err == nil && strings.HasPrefix(acc, pfx) && idx >= 0 && idx < n {
				got[idx].Add(got[idx], a)
			}
		}
		st.postings.Add(int64(len(res.Postings)))
		outIdx, valIdx := -1, -1
		wants := make([]*big.Int, n)
		for i := range got {
			want := new(big.Int).Set(floors[i])
			owed := big.NewInt(int64(i)).Cmp(left) < 0
			if owed {
				want.Add(want, big.NewInt(1))
			}
			wants[i] = want
			if resolved[i].Sign() == 0 && owed {
				k := c24zLiteral
				switch {
				case i == p.shape.remPos:
					k = c24zRemaining
				case p.varMask&(1<<uint(i)) != 0:
					k = c24zVariable
				}
				st.zeroOwedUnit[fi][k].Add(1)
			}
			if got[i].Cmp(want) != 0 {
				if got[i].Cmp(floors[i]) < 0 || got[i].Cmp(new(big.Int).Add(floors[i], big.NewInt(1))) > 0 {
					if outIdx < 0 {
						outIdx = i
					}
				} else if valIdx < 0 {
					valIdx = i
				}
			}
		}
		partClass := func(i int) string {
			if resolved[i].Sign() == 0 {
				return "zero-portion"
			}
			return "positive-portion"
		}
		describe := func(i int) string {
			return fmt.Sprintf("send [%s %s] through a %s allotment resolving to %v: portion %d (%s) carries %s on the postings, want %s (floor %s, %s leftover unit(s) to the earliest parts); parts on the postings %v sum to %s",
				assetMain, amt, p.form(), resolved, i, resolved[i], got[i], wants[i], floors[i], left, got, sum)
		}
		replay := func() map[string]any {
			return map[string]any{"program": text, "vars": vars, "uniform_balance": funds.String(), "amount": amt.String(),
				"resolved": fmt.Sprint(resolved), "postings": postingsString(res.Postings), "want_parts": fmt.Sprint(wants)}
		}
		rank := [2]int{p.seq, amtRank}
		switch {
		case outIdx >= 0:
			report("C24:vm:"+p.form()+"-allotment:part-out-of-floor-range:"+partClass(outIdx), rank, func() string { return describe(outIdx) + " | " + text }, replay)
		case valIdx >= 0:
			report("C24:vm:"+p.form()+"-allotment:part-value:"+partClass(valIdx), rank, func() string { return describe(valIdx) + " | " + text }, replay)
		case sum.Cmp(amt) != 0:
			report("C24:vm:"+p.form()+"-allotment:sum", rank, func() string {
				return fmt.Sprintf("send [%s %s] through a %s allotment resolving to %v: postings sum to %s | %s", assetMain, amt, p.form(), resolved, sum, text)
			}, replay)
		}
	}

	handle := func(p c24vmProgram) {
		st.programs.Add(1)
		if p.varMask != 0 {
			st.withVariable.Add(1)
		}
		if p.percent {
			st.withPercent.Add(1)
		}
		resolved := p.shape.resolved()
		// (1) amount as the variable $amt: one compilation, every amount
		text, vars := p.text(nil)
		prog, err := compiler.Compile(text)
		if err != nil {
			fail("vm leg: the compiler rejects a 100% allotment of the space: " + shortErr(err) + " | " + text)
			return
		}
		st.compiled.Add(1)
		for ai, amt := range amounts {
			v := make(map[string]string, len(vars)+1)
			for k, x := range vars {
				v[k] = x
			}
			v["amt"] = assetMain + " " + amt.String()
			evalRun(p, text, prog, v, resolved, amt, ai)
		}
		samples.Add(map[string]any{"program": text, "vars": vars, "resolved": fmt.Sprint(resolved), "amounts": len(amounts)})
		// distinct (form, resolved vector) run with positive amounts
		if _, loaded := st.distinct.LoadOrStore(p.form()+" "+fmt.Sprint(resolved), true); !loaded {
			st.distinctN.Add(1)
		}
		// (2) amount as a literal `[COIN n]`: one compilation per amount (reduced menu,
		// fraction spelling only: the spelling of a portion cannot meet the amount's)
		if p.percent {
			return
		}
		for ai, amt := range litAmounts {
			if expired() {
				exhaustive.Store(false)
				return
			}
			ltext, lvars := p.text(amt)
			lprog, err := compiler.Compile(ltext)
			if err != nil {
				fail("vm leg: the compiler rejects a 100% allotment of the space: " + shortErr(err) + " | " + ltext)
				return
			}
			st.literalAmountPrograms.Add(1)
			evalRun(p, ltext, lprog, lvars, resolved, amt, len(amounts)+ai)
		}
	}

	stagesDone := []string{}
	legCut := false
	seq := 0
	var spaceDesc []string
	for n := 1; n <= maxLen; n++ {
		menu := ratMenu(denByLen[n])
		spaceDesc = append(spaceDesc, fmt.Sprintf("length %d: d<=%d (%d values)", n, denByLen[n], len(menu)))
		shapes := c24vmShapes(menu, n)
		var progs []c24vmProgram
		for _, s := range shapes {
			for _, p := range c24vmPrograms(s) {
				p.seq = seq
				seq++
				progs = append(progs, p)
			}
		}
		st.shapes.Add(int64(len(shapes)))
		ch := make(chan c24vmProgram, 64)
		var wg sync.WaitGroup
		var cut atomic.Bool
		for w := 0; w < runtime.NumCPU(); w++ {
			wg.Add(1)
			go func() {
				defer wg.Done()
				for p := range ch {
					if expired() {
						cut.Store(true)
						continue
					}
					handle(p)
				}
			}()
		}
		for _, p := range progs {
			ch <- p
		}
		close(ch)
		wg.Wait()
		if cut.Load() || expired() {
			exhaustive.Store(false)
			legCut = true
			break
		}
		stagesDone = append(stagesDone, fmt.Sprintf("length-%d", n))
	}
	{
		sigs := make([]string, 0, len(findings))
		for sig := range findings {
			sigs = append(sigs, sig)
		}
		sort.Strings(sigs)
		for _, sig := range sigs {
			r.Violation(sig, findings[sig].what, findings[sig].replay)
		}
	}

	if legCut {
		// same reading as ev's capped runs: a guard means something only when the space was walked to its end
		r.Note(fmt.Sprintf("vm leg cut by the time budget after %v (lengths fully covered: %v): its vacuity guards are not evaluated", r.Elapsed()-legStart, stagesDone))
	}
	if r.ViolationCount() == 0 && !legCut {
		switch {
		case st.compiled.Load() == 0 || st.literalAmountPrograms.Load() == 0:
			r.EngineError("vacuous: vm leg compiled no script")
		case st.byForm[0].Load() == 0 || st.byForm[1].Load() == 0:
			r.EngineError(fmt.Sprintf("vacuous: vm leg ran %d destination-allotment and %d source-allotment scripts", st.byForm[0].Load(), st.byForm[1].Load()))
		case st.leftoverRuns.Load() == 0:
			r.EngineError("vacuous: vm leg had no run with a leftover unit")
		case st.withVariable.Load() == 0 || st.withPercent.Load() == 0:
			r.EngineError("vacuous: vm leg had no script with a portion variable / a percent literal")
		}
		for f, fname := range []string{"destination", "source"} {
			for k := 0; k < c24zKinds; k++ {
				if st.zeroOwedUnit[f][k].Load() == 0 {
					r.EngineError(fmt.Sprintf("vacuous: vm leg had no %s-allotment run where a zero portion (%s) sits among the first `leftover` parts (is owed a rounding unit)", fname, c24zName[k]))
				}
			}
		}
	}
	zero := map[string]int64{}
	for f, fname := range []string{"destination", "source"} {
		for k := 0; k < c24zKinds; k++ {
			zero[fname+":"+c24zName[k]] = st.zeroOwedUnit[f][k].Load()
		}
	}
	cov := ev.Coverage{
		"rule": fmt.Sprintf("(VM) every portion vector of length<=%d over rationals n/d in [0,1] (%s; zero included at every position), n specifics summing to 1 or n-1 specifics summing to <=1 with `remaining` at every position (so `remaining` also resolves to 0), written as a Numscript allotment in every way the compiler accepts: each specific portion a literal or a `portion` variable bound through the script variables, fraction spelling and percent spelling (where the value has a finite one), as a destination allotment (`send A (source = @world destination = { p_i to @d_i })`) and as a source allotment (`source = { p_i from @s_i } destination = @d`, every source holding 10^40); compiled by compiler.Compile and run by the machine runtime (NewMachine, SetVarsFromJSON, ResolveResources, ResolveBalances, Execute); amount = variable $amt over %d amounts (0..%d, 2^63-1..2^63+1, 2^64-1..2^64+1, 10^30+{0,1,7}) and literal `[COIN n]` over %d amounts (%v, 2^64+1; fraction spelling, one compilation per amount); oracle on the POSTINGS: amount moved to @d_i / taken from @s_i = floor(amount*p_i) + [i < leftover], all postings sum to the amount",
			maxLen, strings.Join(spaceDesc, ", "), len(amounts), maxAmt, len(litAmounts), litSmall),
		"wall_s":                                   r.Elapsed().Seconds() - legStart.Seconds(),
		"lengths_fully_covered":                    stagesDone,
		"shapes":                                   st.shapes.Load(),
		"scripts":                                  st.programs.Load(),
		"scripts_compiled":                         st.compiled.Load(),
		"literal_amount_scripts_compiled":          st.literalAmountPrograms.Load(),
		"scripts_with_portion_variable":            st.withVariable.Load(),
		"scripts_with_percent_spelling":            st.withPercent.Load(),
		"runs":                                     st.runs.Load(),
		"runs_destination_allotment":               st.byForm[0].Load(),
		"runs_source_allotment":                    st.byForm[1].Load(),
		"runs_with_leftover":                       st.leftoverRuns.Load(),
		"runs_where_a_zero_portion_is_owed_a_unit": zero,
		"postings":                                 st.postings.Load(),
		"zero_amount_postings":                     st.zeroPostings.Load(),
		"distinct_nontrivial":                      st.distinctN.Load(),
		"unexpected_failures":                      st.failures.Load(),
	}
	return cov, samples.List()
}
