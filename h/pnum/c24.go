package pnum

import (
	"fmt"
	"math/big"
	"os"
	"runtime"
	"sync"
	"sync/atomic"
	"time"

	"github.com/formancehq/ledger/internal/machine"
	"github.com/formancehq/ledger/verifh/ev"
	"github.com/formancehq/ledger/verifh/reg"
)

// C24 — allotments split amounts exactly.
// Alphabet: portion vectors of length 1..L over all rationals n/d in [0,1] with d <= D
// (zero portions included), either summing to exactly 1 or < 1 with one `remaining`
// at every position; amounts 0..A and 2^64+k, 10^30+k, a band of machine-word
// boundary amounts (2^31, 2^32, 2^53, 2^62, 2^63 +-1) and real-world magnitudes
// (satoshi / wei scales), and, PER VECTOR, the amounts that make amount x numerator
// straddle each word boundary (floor(T/n), floor(T/n)+1 for T in 2^31, 2^32, 2^53,
// 2^63, 2^64 and every numerator n of the resolved vector). A second family of vectors
// is built from source-level percent literals ("12.345678%", parsed by
// ParsePortionSpecific) whose reduced numerators are large (up to ~2^27).
// Oracle: parts sum to amount; part_i = floor(amount*p_i) + [i < leftover].
func init() { reg.Register("C24", c24) }

func ratMenu(maxDen int64) []*big.Rat {
	seen := map[string]bool{}
	var out []*big.Rat
	for d := int64(1); d <= maxDen; d++ {
		for n := int64(0); n <= d; n++ {
			r := big.NewRat(n, d)
			if !seen[r.String()] {
				seen[r.String()] = true
				out = append(out, r)
			}
		}
	}
	return out
}

func c24() int {
	r := ev.Start("C24", ev.LevelExploration, 60*time.Second, 10*time.Minute)
	maxLen := ev.Pick(r, 4, 5)
	maxDen := ev.Pick(r, int64(7), int64(8))
	maxAmt := ev.Pick(r, 40, 64)
	menu := ratMenu(maxDen)
	one := big.NewRat(1, 1)

	var amounts []*big.Int
	for i := 0; i <= maxAmt; i++ {
		amounts = append(amounts, big.NewInt(int64(i)))
	}
	two64 := new(big.Int).Lsh(big.NewInt(1), 64)
	ten30 := new(big.Int).Exp(big.NewInt(10), big.NewInt(30), nil)
	for k := int64(-1); k <= 9; k++ {
		amounts = append(amounts, new(big.Int).Add(two64, big.NewInt(k)))
		amounts = append(amounts, new(big.Int).Add(ten30, big.NewInt(k)))
	}

	// machine-word boundary band: 2^e-1, 2^e, 2^e+1 (2^64 is covered above)
	bandExps := []uint{31, 32, 53, 62, 63}
	for _, e := range bandExps {
		base := new(big.Int).Lsh(big.NewInt(1), e)
		for k := int64(-1); k <= 1; k++ {
			amounts = append(amounts, new(big.Int).Add(base, big.NewInt(k)))
		}
	}
	// real-world magnitudes: 21M BTC in satoshi, 1 / 3.5 / 10 ETH in wei (10 ETH lies in [2^63, 2^64))
	realWorld := []string{"2100000000000000", "1000000000000000000", "3500000000000000000", "10000000000000000000"}
	for _, s := range realWorld {
		v, _ := new(big.Int).SetString(s, 10)
		amounts = append(amounts, v)
	}
	globalAmt := map[string]bool{}
	for _, a := range amounts {
		globalAmt[a.String()] = true
	}
	// word boundaries T that amount x numerator is made to straddle, per vector
	thresholdExps := []uint{31, 32, 53, 63, 64}
	var thresholds []*big.Int
	for _, e := range thresholdExps {
		thresholds = append(thresholds, new(big.Int).Lsh(big.NewInt(1), e))
	}
	// straddleAmounts: for every numerator n > 0 of the resolved vector and every T,
	// q = floor(T/n) and q+1, so that q*n <= T < (q+1)*n. Deterministic order, no
	// duplicates, nothing already in the global menu.
	straddleAmounts := func(a machine.Allotment) []*big.Int {
		var out []*big.Int
		seen := map[string]bool{}
		seenNum := map[string]bool{}
		for i := range a {
			n := a[i].Num()
			if n.Sign() <= 0 || seenNum[n.String()] {
				continue
			}
			seenNum[n.String()] = true
			for _, t := range thresholds {
				q := new(big.Int).Div(t, n)
				for k := int64(0); k <= 1; k++ {
					v := new(big.Int).Add(q, big.NewInt(k))
					key := v.String()
					if globalAmt[key] || seen[key] {
						continue
					}
					seen[key] = true
					out = append(out, v)
				}
			}
		}
		return out
	}
	// magnitude class of the largest amount x numerator product of one evaluation
	const (
		clsLt31 = iota
		cls31to32
		cls32to63
		cls63to64
		clsGe64
		nCls
	)
	clsName := [nCls]string{"prod-lt-2^31", "prod-2^31..2^32", "prod-2^32..2^63", "prod-2^63..2^64", "prod-ge-2^64"}
	clsOf := func(bits int) int {
		switch {
		case bits <= 31:
			return clsLt31
		case bits == 32:
			return cls31to32
		case bits <= 63:
			return cls32to63
		case bits == 64:
			return cls63to64
		}
		return clsGe64
	}

	var evals, vectors, leftoverCases atomic.Int64
	var clsCount [nCls]atomic.Int64
	// evaluations where the amount itself fits a signed word (< 2^63) but some
	// amount x numerator product lies in [2^63, 2^64) / is >= 2^64
	var mulCrosses63, mulCrosses64 atomic.Int64
	// same as mulCrosses63, the crossing numerator being >= 2^16 (percent literals)
	var bigNumCrosses63 atomic.Int64
	var straddleEvals, percentVectors, bigNumVectors atomic.Int64
	distinct := sync.Map{}
	var distinctN atomic.Int64
	samples := ev.NewSamples(5)
	exhaustive := atomic.Bool{}
	exhaustive.Store(true)

	checkVector := func(portions []machine.Portion, desc string) {
		a, err := machine.NewAllotment(portions)
		if err != nil {
			r.Violation("C24:newallotment-rejects-valid", fmt.Sprintf("NewAllotment rejected %s: %v", desc, err), map[string]any{"portions": desc})
			return
		}
		vectors.Add(1)
		// the resolved vector must sum to 1
		sum := new(big.Rat)
		for i := range *a {
			sum.Add(sum, &(*a)[i])
		}
		if sum.Cmp(one) != 0 {
			r.Violation("C24:resolved-sum", fmt.Sprintf("allotment %s resolves to %s (sum %s)", desc, a.String(), sum), map[string]any{"portions": desc})
			return
		}
		vecAmounts := append(append([]*big.Int{}, amounts...), straddleAmounts(*a)...)
		straddleEvals.Add(int64(len(vecAmounts) - len(amounts)))
		bigNum := false
		for i := range *a {
			if (*a)[i].Num().BitLen() > 16 {
				bigNum = true
			}
		}
		if bigNum {
			bigNumVectors.Add(1)
		}
		var lCls [nCls]int64
		var lCross63, lCross64, lBigCross63, lLeft int64
		defer func() {
			evals.Add(int64(len(vecAmounts)))
			for c := range lCls {
				clsCount[c].Add(lCls[c])
			}
			mulCrosses63.Add(lCross63)
			mulCrosses64.Add(lCross64)
			bigNumCrosses63.Add(lBigCross63)
			leftoverCases.Add(lLeft)
		}()
		for _, amt := range vecAmounts {
			mi := machine.MonetaryInt(*new(big.Int).Set(amt))
			parts := a.Allocate(&mi)
			if len(parts) != len(*a) {
				r.Violation("C24:len", fmt.Sprintf("%s amount %s: %d parts", desc, amt, len(parts)), map[string]any{"portions": desc, "amount": amt.String()})
				continue
			}
			floors := make([]*big.Int, len(parts))
			total := new(big.Int)
			maxBits, bigBits := 0, 0
			prodBits := make([]int, len(parts))
			for i := range *a {
				f := new(big.Int).Mul(amt, (*a)[i].Num())
				prodBits[i] = f.BitLen()
				if b := f.BitLen(); b > maxBits {
					maxBits = b
				}
				if b := f.BitLen(); (*a)[i].Num().BitLen() > 16 && b > bigBits {
					bigBits = b
				}
				f.Div(f, (*a)[i].Denom())
				floors[i] = f
				total.Add(total, f)
			}
			cls := clsOf(maxBits)
			lCls[cls]++
			if amt.BitLen() <= 63 {
				if cls == cls63to64 {
					lCross63++
				}
				if cls == clsGe64 {
					lCross64++
				}
				if clsOf(bigBits) == cls63to64 {
					lBigCross63++
				}
			}
			left := new(big.Int).Sub(amt, total)
			if left.Sign() > 0 {
				lLeft++
			}
			// One violation per failing evaluation, labelled by its most specific symptom:
			// a part outside [floor, floor+1] (class = that part's own amount x numerator
			// product) > a part in range but not floor + [i < leftover] > wrong sum. The
			// other symptoms of the same evaluation are consequences (a part that is too
			// small makes the round-robin hand a spurious unit to every other part).
			got := new(big.Int)
			outIdx, valIdx := -1, -1
			wants := make([]*big.Int, len(parts))
			for i, p := range parts {
				pi := (*big.Int)(p)
				got.Add(got, pi)
				want := new(big.Int).Set(floors[i])
				if big.NewInt(int64(i)).Cmp(left) < 0 {
					want.Add(want, big.NewInt(1))
				}
				wants[i] = want
				if pi.Cmp(want) != 0 {
					if pi.Cmp(floors[i]) < 0 || pi.Cmp(new(big.Int).Add(floors[i], big.NewInt(1))) > 0 {
						if outIdx < 0 {
							outIdx = i
						}
					} else if valIdx < 0 {
						valIdx = i
					}
				}
			}
			replay := map[string]any{"portions": desc, "resolved": a.String(), "amount": amt.String(), "parts": fmt.Sprint(parts)}
			switch {
			case outIdx >= 0:
				i := outIdx
				r.Violation("C24:part-out-of-floor-range:"+clsName[clsOf(prodBits[i])],
					fmt.Sprintf("%s amount %s: part %d = %s, want %s (floor %s, leftover %s, amount x numerator has %d bits); parts %v sum to %s", desc, amt, i, (*big.Int)(parts[i]), wants[i], floors[i], left, prodBits[i], parts, got), replay)
			case valIdx >= 0:
				i := valIdx
				r.Violation("C24:part-value:"+clsName[cls],
					fmt.Sprintf("%s amount %s: part %d = %s, want %s (floor %s, leftover %s); parts %v sum to %s", desc, amt, i, (*big.Int)(parts[i]), wants[i], floors[i], left, parts, got), replay)
			case got.Cmp(amt) != 0:
				r.Violation("C24:sum:"+clsName[cls], fmt.Sprintf("%s amount %s: parts sum to %s", desc, amt, got), replay)
			}
			if amt.Sign() > 0 {
				key := a.String()
				if _, loaded := distinct.LoadOrStore(key, true); !loaded {
					distinctN.Add(1)
				}
			}
		}
		samples.Add(map[string]any{"portions": desc, "resolved": a.String(), "amounts": len(vecAmounts)})
	}

	// enumerate prefixes in parallel on the first element
	type job struct{ first int }
	jobs := make(chan job)
	var wg sync.WaitGroup
	for w := 0; w < runtime.NumCPU(); w++ {
		wg.Add(1)
		go func() {
			defer wg.Done()
			for j := range jobs {
				var rec func(vec []*big.Rat, sum *big.Rat)
				rec = func(vec []*big.Rat, sum *big.Rat) {
					if r.Expired() {
						exhaustive.Store(false)
						return
					}
					if len(vec) > 0 {
						// explicit: must sum to one
						if sum.Cmp(one) == 0 {
							ps := make([]machine.Portion, len(vec))
							d := ""
							for i, v := range vec {
								p, err := machine.NewPortionSpecific(*new(big.Rat).Set(v))
								if err != nil {
									r.Violation("C24:portion-rejected", fmt.Sprintf("NewPortionSpecific(%s): %v", v, err), nil)
									return
								}
								ps[i] = *p
								d += v.String() + " "
							}
							checkVector(ps, d)
						}
						// with remaining at each position (sum <= 1), vector length+1 <= maxLen
						if len(vec)+1 <= maxLen {
							for pos := 0; pos <= len(vec); pos++ {
								ps := make([]machine.Portion, 0, len(vec)+1)
								d := ""
								for i := 0; i <= len(vec); i++ {
									if i == pos {
										ps = append(ps, machine.NewPortionRemaining())
										d += "remaining "
									}
									if i < len(vec) {
										p, _ := machine.NewPortionSpecific(*new(big.Rat).Set(vec[i]))
										ps = append(ps, *p)
										d += vec[i].String() + " "
									}
								}
								checkVector(ps, d)
							}
						}
					}
					if len(vec) == maxLen {
						return
					}
					for i, m := range menu {
						if len(vec) == 0 && i != j.first {
							continue
						}
						ns := new(big.Rat).Add(sum, m)
						if ns.Cmp(one) > 0 {
							continue
						}
						rec(append(append([]*big.Rat{}, vec...), m), ns)
					}
				}
				rec(nil, new(big.Rat))
			}
		}()
	}
	for i := range menu {
		jobs <- job{i}
	}
	close(jobs)
	wg.Wait()
	// `remaining` alone
	checkVector([]machine.Portion{machine.NewPortionRemaining()}, "remaining ")

	// Second family: source-level percent literals (what a Numscript author writes),
	// parsed by the real ParsePortionSpecific; their reduced numerators are large
	// (12.345678% = 6172839/50000000), so amount x numerator reaches the word
	// boundaries for everyday amounts. Vectors: [p remaining], [remaining p],
	// [p (1-p)], and for every ordered pair p+q<=1: [p q remaining] with `remaining`
	// at every position (plus [p q] when p+q = 1).
	literals := []string{"50%", "75%", "2.5%", "33.33%", "12.345678%", "66.666667%", "99.999999%", "0.000001%"}
	if r.Thorough() {
		literals = append(literals, "0%", "100%", "0.1%", "99.9%", "1.2345678901%", "87.654322%")
	}
	type pvec struct {
		ps   []machine.Portion
		desc string
	}
	var pvecs []pvec
	parsed := make([]*big.Rat, len(literals))
	for i, l := range literals {
		p, err := machine.ParsePortionSpecific(l)
		if err != nil {
			r.Violation("C24:portion-rejected", fmt.Sprintf("ParsePortionSpecific(%q): %v", l, err), map[string]any{"literal": l})
			continue
		}
		parsed[i] = new(big.Rat).Set(p.Specific)
	}
	spec := func(v *big.Rat) machine.Portion {
		p, err := machine.NewPortionSpecific(*new(big.Rat).Set(v))
		if err != nil {
			r.Violation("C24:portion-rejected", fmt.Sprintf("NewPortionSpecific(%s): %v", v, err), nil)
			return machine.NewPortionRemaining()
		}
		return *p
	}
	withRemaining := func(vals []*big.Rat, names []string) {
		for pos := 0; pos <= len(vals); pos++ {
			var ps []machine.Portion
			d := ""
			for i := 0; i <= len(vals); i++ {
				if i == pos {
					ps = append(ps, machine.NewPortionRemaining())
					d += "remaining "
				}
				if i < len(vals) {
					ps = append(ps, spec(vals[i]))
					d += names[i] + " "
				}
			}
			pvecs = append(pvecs, pvec{ps, d})
		}
	}
	for i, p := range parsed {
		if p == nil {
			continue
		}
		withRemaining([]*big.Rat{p}, []string{literals[i]})
		rest := new(big.Rat).Sub(one, p)
		pvecs = append(pvecs, pvec{[]machine.Portion{spec(p), spec(rest)}, literals[i] + " " + rest.String() + " "})
		for j, q := range parsed {
			if q == nil {
				continue
			}
			sum := new(big.Rat).Add(p, q)
			if sum.Cmp(one) > 0 {
				continue
			}
			withRemaining([]*big.Rat{p, q}, []string{literals[i], literals[j]})
			if sum.Cmp(one) == 0 && i != j {
				pvecs = append(pvecs, pvec{[]machine.Portion{spec(p), spec(q)}, literals[i] + " " + literals[j] + " "})
			}
		}
	}
	{
		pjobs := make(chan pvec)
		var pwg sync.WaitGroup
		for w := 0; w < runtime.NumCPU(); w++ {
			pwg.Add(1)
			go func() {
				defer pwg.Done()
				for v := range pjobs {
					if r.Expired() {
						exhaustive.Store(false)
						continue
					}
					checkVector(v.ps, v.desc)
					percentVectors.Add(1)
				}
			}()
		}
		for _, v := range pvecs {
			pjobs <- v
		}
		close(pjobs)
		pwg.Wait()
	}

	if r.ViolationCount() == 0 {
		if leftoverCases.Load() == 0 {
			r.EngineError("vacuous: no case with a leftover unit")
		}
		for c := 0; c < nCls; c++ {
			if clsCount[c].Load() == 0 {
				r.EngineError("vacuous: no evaluation whose largest amount x numerator product is in class " + clsName[c])
			}
		}
		if mulCrosses63.Load() == 0 || mulCrosses64.Load() == 0 {
			r.EngineError(fmt.Sprintf("vacuous: no amount < 2^63 whose product with a numerator crosses a word boundary (into [2^63,2^64): %d, >= 2^64: %d)", mulCrosses63.Load(), mulCrosses64.Load()))
		}
		if percentVectors.Load() == 0 || bigNumVectors.Load() == 0 || bigNumCrosses63.Load() == 0 {
			r.EngineError(fmt.Sprintf("vacuous: percent-literal family not exercised (vectors %d, vectors with a numerator >= 2^16: %d, evaluations where amount < 2^63 x such a numerator lies in [2^63,2^64): %d)", percentVectors.Load(), bigNumVectors.Load(), bigNumCrosses63.Load()))
		}
		if straddleEvals.Load() == 0 {
			r.EngineError("vacuous: no per-vector straddling amount was evaluated")
		}
	}
	byClass := map[string]int64{}
	for c := 0; c < nCls; c++ {
		byClass[clsName[c]] = clsCount[c].Load()
	}
	cov := ev.Coverage{
		"evaluations":         evals.Load(),
		"distinct_nontrivial": distinctN.Load(),
		"rule": fmt.Sprintf("(A) all portion vectors of length<=%d over rationals n/d, d<=%d (%d values, zero included), summing to 1 or <1 with `remaining` at every position; (B) %d vectors over the percent literals %v parsed by ParsePortionSpecific: [p remaining], [remaining p], [p 1-p], [p q remaining] with `remaining` at every position for every ordered pair p+q<=1, [p q] when p+q=1; every vector x %d fixed amounts (0..%d; 2^e-1..2^e+1 for e in %v; 2^64-1..2^64+9; 10^30-1..10^30+9; real-world %v) + its own straddling amounts floor(T/n), floor(T/n)+1 for every numerator n of the resolved vector and T = 2^e, e in %v (those not already in the fixed menu); distinct_nontrivial = distinct resolved vectors allocated with a positive amount",
			maxLen, maxDen, len(menu), len(pvecs), literals, len(amounts), maxAmt, bandExps, realWorld, thresholdExps),
		"samples":                                   samples.List(),
		"vectors":                                   vectors.Load(),
		"cases_with_leftover":                       leftoverCases.Load(),
		"percent_literal_vectors":                   percentVectors.Load(),
		"vectors_with_numerator_ge_2^16":            bigNumVectors.Load(),
		"straddling_amount_evaluations":             straddleEvals.Load(),
		"evaluations_by_largest_product_class":      byClass,
		"amount_lt_2^63_product_in_2^63..2^64":      mulCrosses63.Load(),
		"amount_lt_2^63_product_ge_2^64":            mulCrosses64.Load(),
		"same_with_numerator_ge_2^16_in_2^63..2^64": bigNumCrosses63.Load(),
		"exhaustive":                                exhaustive.Load(),
	}
	_ = os.Stdout
	return r.Finish(cov, []string{"Allocate is called directly on machine.Allotment built by NewAllotment; compiler-level rejection of non-100% allotments is exercised by C22's program space"})
}
