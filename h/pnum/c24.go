package pnum

import (
	"fmt"
	"math/big"
	"os"
	"runtime"
	"sync"
	"sync/atomic"
	"time"

	"github.com/formancehq/ledger/internal/machine"
	"github.com/formancehq/ledger/verifh/ev"
	"github.com/formancehq/ledger/verifh/reg"
)

// C24 — allotments split amounts exactly.
// Alphabet: portion vectors of length 1..L over all rationals n/d in [0,1] with d <= D
// (zero portions included), either summing to exactly 1 or < 1 with one `remaining`
// at every position; amounts 0..A and 2^64+k, 10^30+k.
// Oracle: parts sum to amount; part_i = floor(amount*p_i) + [i < leftover].
func init() { reg.Register("C24", c24) }

func ratMenu(maxDen int64) []*big.Rat {
	seen := map[string]bool{}
	var out []*big.Rat
	for d := int64(1); d <= maxDen; d++ {
		for n := int64(0); n <= d; n++ {
			r := big.NewRat(n, d)
			if !seen[r.String()] {
				seen[r.String()] = true
				out = append(out, r)
			}
		}
	}
	return out
}

func c24() int {
	r := ev.Start("C24", ev.LevelExploration, 60*time.Second, 10*time.Minute)
	maxLen := ev.Pick(r, 4, 5)
	maxDen := ev.Pick(r, int64(7), int64(8))
	maxAmt := ev.Pick(r, 40, 64)
	menu := ratMenu(maxDen)
	one := big.NewRat(1, 1)

	var amounts []*big.Int
	for i := 0; i <= maxAmt; i++ {
		amounts = append(amounts, big.NewInt(int64(i)))
	}
	two64 := new(big.Int).Lsh(big.NewInt(1), 64)
	ten30 := new(big.Int).Exp(big.NewInt(10), big.NewInt(30), nil)
	for k := int64(-1); k <= 9; k++ {
		amounts = append(amounts, new(big.Int).Add(two64, big.NewInt(k)))
		amounts = append(amounts, new(big.Int).Add(ten30, big.NewInt(k)))
	}

	var evals, vectors, leftoverCases atomic.Int64
	distinct := sync.Map{}
	var distinctN atomic.Int64
	samples := ev.NewSamples(5)
	exhaustive := atomic.Bool{}
	exhaustive.Store(true)

	checkVector := func(portions []machine.Portion, desc string) {
		a, err := machine.NewAllotment(portions)
		if err != nil {
			r.Violation("C24:newallotment-rejects-valid", fmt.Sprintf("NewAllotment rejected %s: %v", desc, err), map[string]any{"portions": desc})
			return
		}
		vectors.Add(1)
		// the resolved vector must sum to 1
		sum := new(big.Rat)
		for i := range *a {
			sum.Add(sum, &(*a)[i])
		}
		if sum.Cmp(one) != 0 {
			r.Violation("C24:resolved-sum", fmt.Sprintf("allotment %s resolves to %s (sum %s)", desc, a.String(), sum), map[string]any{"portions": desc})
			return
		}
		for _, amt := range amounts {
			evals.Add(1)
			mi := machine.MonetaryInt(*new(big.Int).Set(amt))
			parts := a.Allocate(&mi)
			if len(parts) != len(*a) {
				r.Violation("C24:len", fmt.Sprintf("%s amount %s: %d parts", desc, amt, len(parts)), map[string]any{"portions": desc, "amount": amt.String()})
				continue
			}
			floors := make([]*big.Int, len(parts))
			total := new(big.Int)
			for i := range *a {
				f := new(big.Int).Mul(amt, (*a)[i].Num())
				f.Div(f, (*a)[i].Denom())
				floors[i] = f
				total.Add(total, f)
			}
			left := new(big.Int).Sub(amt, total)
			if left.Sign() > 0 {
				leftoverCases.Add(1)
			}
			got := new(big.Int)
			for i, p := range parts {
				pi := (*big.Int)(p)
				got.Add(got, pi)
				want := new(big.Int).Set(floors[i])
				if big.NewInt(int64(i)).Cmp(left) < 0 {
					want.Add(want, big.NewInt(1))
				}
				if pi.Cmp(want) != 0 {
					sig := "C24:part-value"
					if pi.Cmp(floors[i]) < 0 || pi.Cmp(new(big.Int).Add(floors[i], big.NewInt(1))) > 0 {
						sig = "C24:part-out-of-floor-range"
					}
					r.Violation(sig, fmt.Sprintf("%s amount %s: part %d = %s, want %s (floor %s, leftover %s)", desc, amt, i, pi, want, floors[i], left),
						map[string]any{"portions": desc, "amount": amt.String()})
				}
			}
			if got.Cmp(amt) != 0 {
				r.Violation("C24:sum", fmt.Sprintf("%s amount %s: parts sum to %s", desc, amt, got), map[string]any{"portions": desc, "amount": amt.String()})
			}
			if amt.Sign() > 0 {
				key := a.String()
				if _, loaded := distinct.LoadOrStore(key, true); !loaded {
					distinctN.Add(1)
				}
			}
		}
		samples.Add(map[string]any{"portions": desc, "resolved": a.String(), "amounts": len(amounts)})
	}

	// enumerate prefixes in parallel on the first element
	type job struct{ first int }
	jobs := make(chan job)
	var wg sync.WaitGroup
	for w := 0; w < runtime.NumCPU(); w++ {
		wg.Add(1)
		go func() {
			defer wg.Done()
			for j := range jobs {
				var rec func(vec []*big.Rat, sum *big.Rat)
				rec = func(vec []*big.Rat, sum *big.Rat) {
					if r.Expired() {
						exhaustive.Store(false)
						return
					}
					if len(vec) > 0 {
						// explicit: must sum to one
						if sum.Cmp(one) == 0 {
							ps := make([]machine.Portion, len(vec))
							d := ""
							for i, v := range vec {
								p, err := machine.NewPortionSpecific(*new(big.Rat).Set(v))
								if err != nil {
									r.Violation("C24:portion-rejected", fmt.Sprintf("NewPortionSpecific(%s): %v", v, err), nil)
									return
								}
								ps[i] = *p
								d += v.String() + " "
							}
							checkVector(ps, d)
						}
						// with remaining at each position (sum <= 1), vector length+1 <= maxLen
						if len(vec)+1 <= maxLen {
							for pos := 0; pos <= len(vec); pos++ {
								ps := make([]machine.Portion, 0, len(vec)+1)
								d := ""
								for i := 0; i <= len(vec); i++ {
									if i == pos {
										ps = append(ps, machine.NewPortionRemaining())
										d += "remaining "
									}
									if i < len(vec) {
										p, _ := machine.NewPortionSpecific(*new(big.Rat).Set(vec[i]))
										ps = append(ps, *p)
										d += vec[i].String() + " "
									}
								}
								checkVector(ps, d)
							}
						}
					}
					if len(vec) == maxLen {
						return
					}
					for i, m := range menu {
						if len(vec) == 0 && i != j.first {
							continue
						}
						ns := new(big.Rat).Add(sum, m)
						if ns.Cmp(one) > 0 {
							continue
						}
						rec(append(append([]*big.Rat{}, vec...), m), ns)
					}
				}
				rec(nil, new(big.Rat))
			}
		}()
	}
	for i := range menu {
		jobs <- job{i}
	}
	close(jobs)
	wg.Wait()
	// `remaining` alone
	checkVector([]machine.Portion{machine.NewPortionRemaining()}, "remaining ")

	if leftoverCases.Load() == 0 && r.ViolationCount() == 0 {
		r.EngineError("vacuous: no case with a leftover unit")
	}
	cov := ev.Coverage{
		"evaluations":         evals.Load(),
		"distinct_nontrivial": distinctN.Load(),
		"rule": fmt.Sprintf("all portion vectors of length<=%d over rationals n/d, d<=%d (%d values, zero included), summing to 1 or <1 with `remaining` at every position, x %d amounts (0..%d, 2^64-1..2^64+9, 10^30-1..10^30+9); distinct_nontrivial = distinct resolved vectors allocated with a positive amount",
			maxLen, maxDen, len(menu), len(amounts), maxAmt),
		"samples":             samples.List(),
		"vectors":             vectors.Load(),
		"cases_with_leftover": leftoverCases.Load(),
		"exhaustive":          exhaustive.Load(),
	}
	_ = os.Stdout
	return r.Finish(cov, []string{"Allocate is called directly on machine.Allotment built by NewAllotment; compiler-level rejection of non-100% allotments is exercised by C22's program space"})
}
