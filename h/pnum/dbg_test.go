package pnum

import (
	"fmt"
	"regexp"
	"sort"
	"testing"

	"github.com/formancehq/ledger/internal/machine/script/compiler"
	"github.com/formancehq/ledger/verifh/gen"
)

func TestDbgCompileErrors(t *testing.T) {
	sp := numscriptSpace(false)
	re := regexp.MustCompile(`\x1b\[[0-9;]*m`)
	for _, st := range sp.Stages[:2] {
		hist := map[string]int{}
		ex := map[string]string{}
		n := 0
		st.Progs(func(p *gen.Program) bool {
			n++
			if n%7 != 0 {
				return true
			}
			_, err := compiler.Compile(p.Text())
			k := "ok"
			if err != nil {
				arts := compiler.CompileFull(p.Text())
				k = re.ReplaceAllString(arts.Errors[0].Msg, "")
			}
			hist[k]++
			if _, ok := ex[k]; !ok {
				ex[k] = p.Text()
			}
			return true
		})
		var ks []string
		for k := range hist {
			ks = append(ks, k)
		}
		sort.Strings(ks)
		for _, k := range ks {
			fmt.Printf("%6d %s\n", hist[k], k)
		}
		for _, k := range ks {
			fmt.Printf("--- %s\n%s\n", k, ex[k])
		}
	}
}
