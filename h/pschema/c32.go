package pschema

import (
	"bufio"
	"context"
	"encoding/json"
	"fmt"
	"net/http"
	"net/http/httptest"
	"os"
	"sort"
	"strings"
	"sync/atomic"
	"time"

	ledger "github.com/formancehq/ledger/internal"
	"github.com/formancehq/ledger/internal/api/bulking"
	ledgercontroller "github.com/formancehq/ledger/internal/controller/ledger"
	"github.com/formancehq/ledger/internal/storage/common"
	"github.com/formancehq/ledger/verifh/ev"
	"github.com/formancehq/ledger/verifh/lx"
	"github.com/formancehq/ledger/verifh/pgsim"
	"github.com/formancehq/ledger/verifh/reg"
	"github.com/formancehq/ledger/verifh/world"
)

// ---------------------------------------------------------------------------------
// C32 — Bulk requests respect atomic, ordered and continue-on-failure semantics.
// ---------------------------------------------------------------------------------

// bulkElem is one element of the menu: the JSON a client posts and, independently,
// the plain controller call "the same request on its own" is (Solo.Kind "invalid":
// the payload is invalid; on its own the request is rejected and has no effect).
type bulkElem struct {
	Name string `json:"name"`
	JSON string `json:"json"`
	Solo lx.Op  `json:"-"`
	Act  string `json:"-"`
}

func ctElem(name, data string, solo lx.Op) bulkElem {
	return bulkElem{Name: name, Act: bulking.ActionCreateTransaction, JSON: `{"action":"CREATE_TRANSACTION","data":` + data + `}`, Solo: solo}
}

func usd(src, dst, amt string) lx.P { return lx.P{Src: src, Dst: dst, Ast: "USD", Amt: amt} }

const bulkScript = "send [USD 3] (\n source = @world\n destination = @b\n)\nset_account_meta(@b, \"tag\", \"s\")"

func c32Menu() []bulkElem {
	return []bulkElem{
		ctElem("ct-fund-a", `{"postings":[{"source":"world","destination":"a","amount":10,"asset":"USD"}],"metadata":{"m":"x"}}`,
			lx.Op{Kind: "post", Postings: []lx.P{usd("world", "a", "10")}, Meta: map[string]string{"m": "x"}}),
		ctElem("ct-overdraw", `{"postings":[{"source":"c","destination":"a","amount":1000,"asset":"USD"}]}`,
			lx.Op{Kind: "post", Postings: []lx.P{usd("c", "a", "1000")}}),
		{Name: "accmeta-a", Act: bulking.ActionAddMetadata, JSON: `{"action":"ADD_METADATA","data":{"targetType":"ACCOUNT","targetId":"a","metadata":{"k":"v2"}}}`,
			Solo: lx.Op{Kind: "accmeta", Address: "a", Meta: map[string]string{"k": "v2"}}},
		{Name: "txmeta-1", Act: bulking.ActionAddMetadata, JSON: `{"action":"ADD_METADATA","data":{"targetType":"TRANSACTION","targetId":1,"metadata":{"m":"y"}}}`,
			Solo: lx.Op{Kind: "txmeta", TxID: 1, Meta: map[string]string{"m": "y"}}},
		{Name: "revert-1", Act: bulking.ActionRevertTransaction, JSON: `{"action":"REVERT_TRANSACTION","data":{"id":1}}`,
			Solo: lx.Op{Kind: "revert", TxID: 1}},
		{Name: "revert-2", Act: bulking.ActionRevertTransaction, JSON: `{"action":"REVERT_TRANSACTION","data":{"id":2,"metadata":{"why":"r"}}}`,
			Solo: lx.Op{Kind: "revert", TxID: 2, Meta: map[string]string{"why": "r"}}},
		// ---- the six above are the core menu (length-3 bulks in the quick tier) ----
		ctElem("ct-a-to-b-105", `{"postings":[{"source":"a","destination":"b","amount":105,"asset":"USD"}]}`,
			lx.Op{Kind: "post", Postings: []lx.P{usd("a", "b", "105")}}),
		ctElem("ct-reference", `{"postings":[{"source":"world","destination":"a","amount":1,"asset":"USD"}],"reference":"ref1"}`,
			lx.Op{Kind: "post", Postings: []lx.P{usd("world", "a", "1")}, Ref: "ref1"}),
		ctElem("ct-script", `{"script":{"plain":`+jstr(bulkScript)+`,"vars":{}},"accountMetadata":{"c":{"seen":"1"}}}`,
			lx.Op{Kind: "script", Script: bulkScript, AccMeta: map[string]map[string]string{"c": {"seen": "1"}}}),
		{Name: "ct-ik", Act: bulking.ActionCreateTransaction, JSON: `{"action":"CREATE_TRANSACTION","ik":"ik1","data":{"postings":[{"source":"world","destination":"b","amount":2,"asset":"USD"}]}}`,
			Solo: lx.Op{Kind: "post", IK: "ik1", Postings: []lx.P{usd("world", "b", "2")}}},
		{Name: "txmeta-99", Act: bulking.ActionAddMetadata, JSON: `{"action":"ADD_METADATA","data":{"targetType":"TRANSACTION","targetId":99,"metadata":{"m":"y"}}}`,
			Solo: lx.Op{Kind: "txmeta", TxID: 99, Meta: map[string]string{"m": "y"}}},
		{Name: "revert-99", Act: bulking.ActionRevertTransaction, JSON: `{"action":"REVERT_TRANSACTION","data":{"id":99}}`,
			Solo: lx.Op{Kind: "revert", TxID: 99}},
		{Name: "delmeta-acc-a-k", Act: bulking.ActionDeleteMetadata, JSON: `{"action":"DELETE_METADATA","data":{"targetType":"ACCOUNT","targetId":"a","key":"k"}}`,
			Solo: lx.Op{Kind: "delaccmeta", Address: "a", Key: "k"}},
		{Name: "delmeta-tx-1-m", Act: bulking.ActionDeleteMetadata, JSON: `{"action":"DELETE_METADATA","data":{"targetType":"TRANSACTION","targetId":1,"key":"m"}}`,
			Solo: lx.Op{Kind: "deltxmeta", TxID: 1, Key: "m"}},
		ctElem("invalid-negative-amount", `{"postings":[{"source":"world","destination":"a","amount":-5,"asset":"USD"}]}`, lx.Op{Kind: "invalid"}),
		{Name: "invalid-target-type", Act: bulking.ActionAddMetadata, JSON: `{"action":"ADD_METADATA","data":{"targetType":"FOO","targetId":"a","metadata":{"k":"v"}}}`,
			Solo: lx.Op{Kind: "invalid"}},
	}
}

const c32CoreMenu = 6

type bulkOpts struct {
	Atomic   bool `json:"atomic"`
	Continue bool `json:"continueOnFailure"`
	Parallel bool `json:"parallel"`
}

func (o bulkOpts) mode() string {
	switch {
	case o.Atomic && o.Parallel:
		return "atomic+parallel"
	case o.Atomic:
		return "atomic"
	case o.Parallel:
		return "parallel"
	}
	return "sequential"
}

func (o bulkOpts) String() string {
	s := o.mode()
	if o.Continue {
		s += "+continueOnFailure"
	}
	return s
}

type apiResult struct {
	ErrorCode        string          `json:"errorCode"`
	ErrorDescription string          `json:"errorDescription"`
	Data             json.RawMessage `json:"data"`
	ResponseType     string          `json:"responseType"`
	LogID            uint64          `json:"logID"`
}

// runBulk posts the bulk exactly like internal/api/v2/controllers_bulk.go does: JSON
// bulk handler -> Bulker.Run over the ledger controller -> Terminate.
func runBulk(ctx context.Context, ctrl ledgercontroller.Controller, body string, o bulkOpts) (status int, results []apiResult, raw string, runErr error) {
	req := httptest.NewRequest(http.MethodPost, "/v2/l1/_bulk", strings.NewReader(body)).WithContext(ctx)
	rec := httptest.NewRecorder()
	h := bulking.NewJSONBulkHandler(0)
	send, receive, ok := h.GetChannels(rec, req)
	if !ok {
		return rec.Code, nil, rec.Body.String(), fmt.Errorf("request rejected by the bulk handler")
	}
	err := bulking.NewBulker(ctrl, bulking.WithParallelism(10)).Run(ctx, send, receive, bulking.BulkingOptions{
		ContinueOnFailure: o.Continue, Atomic: o.Atomic, Parallel: o.Parallel,
	})
	if err != nil {
		return 0, nil, "", err
	}
	h.Terminate(rec, req)
	var resp struct {
		Data []apiResult `json:"data"`
	}
	if err := json.Unmarshal(rec.Body.Bytes(), &resp); err != nil {
		return rec.Code, nil, rec.Body.String(), fmt.Errorf("unreadable bulk response: %w", err)
	}
	return rec.Code, resp.Data, rec.Body.String(), nil
}

var timeKeys = map[string]bool{"timestamp": true, "insertedAt": true, "updatedAt": true, "revertedAt": true, "date": true,
	"firstUsage": true, "insertionDate": true, "hash": true}

// stripTimes removes everything that depends on the (logical) clock: the property
// does not speak about timestamps and the number of SQL statements differs between a
// bulk and separate requests.
func stripTimes(v any) any {
	switch x := v.(type) {
	case map[string]any:
		out := map[string]any{}
		for k, e := range x {
			if timeKeys[k] {
				continue
			}
			out[k] = stripTimes(e)
		}
		return out
	case []any:
		out := make([]any, len(x))
		for i, e := range x {
			out[i] = stripTimes(e)
		}
		return out
	}
	return v
}

func normJSON(b []byte) string {
	if len(b) == 0 {
		return "null"
	}
	v, err := canon(b)
	if err != nil {
		return "unparseable:" + string(b)
	}
	out, _ := json.Marshal(stripTimes(v))
	return string(out)
}

func normOf(v any) string {
	b, err := json.Marshal(v)
	if err != nil {
		return "unmarshalable:" + err.Error()
	}
	return normJSON(b)
}

// observe reads the ledger back through the public read API (transactions, accounts
// with volumes, logs), clock-dependent fields removed.
func observe(ctx context.Context, ctrl ledgercontroller.Controller) (string, error) {
	txs, err := lx.ListTxs(ctx, ctrl, common.ResourceQuery[any]{})
	if err != nil {
		return "", fmt.Errorf("ListTransactions: %w", err)
	}
	accs, err := lx.ListAccs(ctx, ctrl, common.ResourceQuery[any]{Expand: []string{"volumes"}})
	if err != nil {
		return "", fmt.Errorf("ListAccounts: %w", err)
	}
	logs, err := lx.ListLogs(ctx, ctrl)
	if err != nil {
		return "", fmt.Errorf("ListLogs: %w", err)
	}
	return "txs=" + normOf(txs) + "\naccounts=" + normOf(accs) + "\nlogs=" + normOf(logs), nil
}

func observeState(ctx context.Context, pg *pgsim.DB) (string, error) {
	w := world.Attach(pg.Clone())
	defer w.Close()
	ctrl, err := w.Sys.GetLedgerController(ctx, "l1")
	if err != nil {
		return "", err
	}
	return observe(ctx, ctrl)
}

type soloStep struct {
	OK    bool
	Class string
	Data  string // normalised JSON of the returned transaction ("null" for metadata operations)
	LogID uint64
	After string // observation after this step
}

// soloRun applies the elements one by one as separate plain requests on a clone.
func soloRun(ctx context.Context, start *pgsim.DB, elems []bulkElem) ([]soloStep, error) {
	pg := start.Clone()
	w := world.Attach(pg)
	defer w.Close()
	ctrl, err := w.Sys.GetLedgerController(ctx, "l1")
	if err != nil {
		return nil, err
	}
	var steps []soloStep
	for _, e := range elems {
		var st soloStep
		if e.Solo.Kind == "invalid" {
			st = soloStep{Class: "invalid"}
		} else {
			out := safeApply(ctx, ctrl, e.Solo)
			if out.Class == "ENGINE" {
				return nil, fmt.Errorf("solo %s: %v", e.Name, out.Err)
			}
			st = soloStep{OK: out.Err == nil, Class: out.Class, Data: "null"}
			if out.Err == nil {
				if out.Log != nil && out.Log.ID != nil {
					st.LogID = *out.Log.ID
				}
				if out.Tx != nil {
					st.Data = normOf(*out.Tx)
				}
			}
		}
		st.After, err = observe(ctx, ctrl)
		if err != nil {
			return nil, err
		}
		steps = append(steps, st)
	}
	return steps, nil
}

// soloRunInTx is the reference for ATOMIC bulks: the same requests issued one at a time,
// through the plain controller API, by a caller that holds one transaction opened with
// Controller.BeginTX ("the same request on its own, at the same position" for an element
// of an atomic bulk is the request executed inside that transaction after the same
// prefix). Nothing is committed. Standalone requests are not an exact reference there:
// each standalone write on a still-initializing (e.g. just imported) ledger re-runs the
// state tracker's sequence resynchronisation, so ids burnt by a failed element are
// handed out again, which cannot happen inside one transaction.
func soloRunInTx(ctx context.Context, start *pgsim.DB, elems []bulkElem) ([]soloStep, error) {
	pg := start.Clone()
	w := world.Attach(pg)
	defer w.Close()
	ctrl, err := w.Sys.GetLedgerController(ctx, "l1")
	if err != nil {
		return nil, err
	}
	txCtrl, _, err := ctrl.BeginTX(ctx, nil)
	if err != nil {
		return nil, fmt.Errorf("BeginTX: %w", err)
	}
	defer func() { _ = txCtrl.Rollback(ctx) }()
	var steps []soloStep
	for _, e := range elems {
		if e.Solo.Kind == "invalid" {
			steps = append(steps, soloStep{Class: "invalid"})
			continue
		}
		out := safeApply(ctx, txCtrl, e.Solo)
		if out.Class == "ENGINE" {
			return nil, fmt.Errorf("solo-in-tx %s: %v", e.Name, out.Err)
		}
		st := soloStep{OK: out.Err == nil, Class: out.Class, Data: "null"}
		if out.Err == nil {
			if out.Log != nil && out.Log.ID != nil {
				st.LogID = *out.Log.ID
			}
			if out.Tx != nil {
				st.Data = normOf(*out.Tx)
			}
		}
		steps = append(steps, st)
	}
	return steps, nil
}

type c32 struct {
	r        *ev.Run
	outcomes *counter
	notes    *counter
	samples  *ev.Samples
	bulks    atomic.Int64
	nontriv  atomic.Int64
}

type bulkCase struct {
	State string     `json:"startState"`
	Elems []bulkElem `json:"elements"`
	Opts  bulkOpts   `json:"options"`
}

func (b bulkCase) body() string {
	parts := make([]string, len(b.Elems))
	for i, e := range b.Elems {
		parts[i] = e.JSON
	}
	return "[" + strings.Join(parts, ",") + "]"
}

func (b bulkCase) names() []string {
	out := make([]string, len(b.Elems))
	for i, e := range b.Elems {
		out[i] = e.Name
	}
	return out
}

func (b bulkCase) replay() map[string]any {
	rep := map[string]any{"startState": b.State, "bulk": json.RawMessage(b.body()), "elements": b.names(), "options": b.Opts}
	switch b.State {
	case "in-use":
		rep["startStateHistory"] = c32InUseOps
	case "imported":
		rep["startStateHistory"] = c32InUseOps
		rep["startStateNote"] = "history written on ledger `src`, exported with Controller.Export and imported into the fresh ledger `l1` with Controller.Import; the bulk is the first write after the import"
	}
	return rep
}

func (c *c32) viol(bc bulkCase, kind, format string, a ...any) {
	c.r.Violation("C32:"+bc.Opts.mode()+":"+kind+":start="+bc.State,
		fmt.Sprintf("start=%s bulk=%v options=%s: ", bc.State, bc.names(), bc.Opts)+fmt.Sprintf(format, a...), bc.replay())
}

// check runs one bulk with one option set on a clone and evaluates the oracle against
// the solo run of the same elements.
func (c *c32) check(ctx context.Context, start *pgsim.DB, startObs string, bc bulkCase, solo, soloTx []soloStep) {
	pg := start.Clone()
	if bc.Opts.Parallel {
		pg.Mode = pgsim.ModeFree // real goroutines: lock waits park instead of being reported as self-deadlocks
	}
	w := world.Attach(pg)
	defer w.Close()
	ctrl, err := w.Sys.GetLedgerController(ctx, "l1")
	if err != nil {
		c.r.EngineError("GetLedgerController: " + err.Error())
		return
	}
	before := dump(pg)
	type ret struct {
		status  int
		results []apiResult
		raw     string
		err     error
	}
	done := make(chan ret, 1)
	go func() {
		s, res, raw, err := runBulk(ctx, ctrl, bc.body(), bc.Opts)
		done <- ret{s, res, raw, err}
	}()
	var out ret
	select {
	case out = <-done:
	case <-time.After(120 * time.Second):
		c.r.EngineError(fmt.Sprintf("bulk %v %s did not return within 120s (pgsim/harness hang)", bc.names(), bc.Opts))
		return
	}
	c.bulks.Add(1)
	n := len(bc.Elems)
	mode := bc.Opts.mode()

	if mode == "atomic+parallel" {
		// invalid option combination: the request is refused as a whole; it must not have any effect
		if out.err == nil {
			c.viol(bc, "options-accepted", "atomic and parallel are mutually exclusive but the bulk ran (%d results)", len(out.results))
		}
		if after := dump(pg); after != before {
			c.viol(bc, "refused-with-effect", "the bulk was refused (%v) but the database changed", out.err)
		}
		c.outcomes.add("atomic+parallel:refused", 1)
		return
	}
	if out.err != nil {
		if strings.Contains(out.err.Error(), "pgsim:") {
			c.r.EngineError(fmt.Sprintf("bulk %v %s: %v", bc.names(), bc.Opts, out.err))
			return
		}
		c.viol(bc, "no-results", "the bulk returned no per-element results: %v (%s)", out.err, out.raw)
		return
	}
	for _, res := range out.results {
		if strings.Contains(res.ErrorDescription, "pgsim:") {
			c.r.EngineError(fmt.Sprintf("bulk %v %s: %s", bc.names(), bc.Opts, res.ErrorDescription))
			return
		}
	}
	// exactly one result per element
	if len(out.results) != n {
		c.viol(bc, "result-count", "%d results for %d elements: %s", len(out.results), n, out.raw)
		return
	}
	anyErr := false
	for _, res := range out.results {
		if res.ResponseType == "ERROR" {
			anyErr = true
		}
	}
	if (out.status == http.StatusBadRequest) != anyErr {
		c.notes.add(fmt.Sprintf("http status %d with anyError=%v", out.status, anyErr), 1)
	}
	if mode == "parallel" {
		// free-running worker pool: only the structural claim is checked
		c.outcomes.add("parallel:one-result-per-element", 1)
		return
	}

	// sequential and atomic: results are in element order
	firstFail := -1
	for i, res := range out.results {
		failed := res.ResponseType == "ERROR"
		if failed && firstFail < 0 {
			firstFail = i
		}
		executed := bc.Opts.Continue || firstFail < 0 || i <= firstFail
		if !executed {
			if !failed {
				c.viol(bc, "applied-after-failure", "element %d (%s) reports success although element %d failed and continueOnFailure is off", i, bc.Elems[i].Name, firstFail)
				return
			}
			continue
		}
		s := solo[i]
		if mode == "atomic" {
			s = soloTx[i]
		}
		switch {
		case !failed && res.ResponseType != bc.Elems[i].Act:
			c.viol(bc, "result-order", "result %d has responseType %s, element %d is %s", i, res.ResponseType, i, bc.Elems[i].Act)
			return
		case failed && s.OK:
			if mode == "atomic" {
				// all-or-none is still respected; reported, not judged
				c.notes.add(fmt.Sprintf("atomic bulk on %s ledger: element %s fails in the bulk (%s) but succeeds as a separate request", bc.State, bc.Elems[i].Name, res.ErrorCode), 1)
			} else {
				c.viol(bc, "element-fails-in-bulk-succeeds-alone", "element %d (%s) failed in the bulk (%s: %s) but the same request alone, after the same prefix, succeeds", i, bc.Elems[i].Name, res.ErrorCode, res.ErrorDescription)
				return
			}
		case !failed && !s.OK:
			c.viol(bc, "result-differs-from-solo", "element %d (%s) succeeded in the bulk but the same request alone, after the same prefix, fails (%s)", i, bc.Elems[i].Name, s.Class)
			return
		case !failed:
			got := normJSON(res.Data)
			if got != s.Data || res.LogID != s.LogID {
				c.viol(bc, "result-differs-from-solo", "element %d (%s): bulk result logID=%d data=%s; the same request alone returns logID=%d data=%s", i, bc.Elems[i].Name, res.LogID, got, s.LogID, s.Data)
				return
			}
		}
	}

	// effects
	after := dump(pg)
	obs, err := observe(ctx, ctrl)
	if err != nil {
		c.r.EngineError(fmt.Sprintf("bulk %v %s: %v", bc.names(), bc.Opts, err))
		return
	}
	soloAfter := func(i int) string {
		if i < 0 {
			return startObs
		}
		return solo[i].After
	}
	switch {
	case mode == "atomic" && anyErr:
		if after != before {
			c.viol(bc, "partial-apply", "an element failed but the database changed (atomic bulks apply all elements or none)")
			return
		}
		if obs != startObs {
			c.viol(bc, "partial-apply", "an element failed but the ledger reads differently afterwards")
			return
		}
		c.outcomes.add("atomic:rolled-back", 1)
	case mode == "atomic":
		if obs != soloAfter(n-1) {
			c.viol(bc, "not-all-applied", "no element failed but the ledger differs from applying every element in order:\n bulk: %s\n solo: %s", obs, soloAfter(n-1))
			return
		}
		c.outcomes.add("atomic:all-applied", 1)
		if bc.State == "pristine" {
			if l, err := w.Sys.GetLedger(ctx, "l1"); err == nil && l.State == ledger.StateInitializing {
				c.notes.add("atomic bulk committed on a pristine ledger leaves _system.ledgers.state = initializing", 1)
			}
		}
	default: // sequential
		last := n - 1
		if firstFail >= 0 && !bc.Opts.Continue {
			last = firstFail
		}
		if obs != soloAfter(last) {
			kind := "effects-differ-from-in-order-application"
			if firstFail >= 0 && !bc.Opts.Continue && last+1 < n && obs == soloAfter(n-1) {
				kind = "applied-after-failure"
			}
			c.viol(bc, kind, "the ledger differs from applying elements 0..%d in order as separate requests:\n bulk: %s\n solo: %s", last, obs, soloAfter(last))
			return
		}
		switch {
		case firstFail < 0:
			c.outcomes.add("sequential:all-applied", 1)
		case bc.Opts.Continue:
			c.outcomes.add("sequential:continued-after-failure", 1)
		case firstFail == n-1:
			c.outcomes.add("sequential:failed-at-last", 1)
		default:
			c.outcomes.add("sequential:stopped-after-failure", 1)
		}
	}
	if firstFail >= 0 && firstFail < n-1 {
		c.nontriv.Add(1)
	}
}

// start states ------------------------------------------------------------------------

var c32InUseOps = []lx.Op{
	{Kind: "post", Postings: []lx.P{usd("world", "a", "100")}, Meta: map[string]string{"m": "x"}, Ref: "ref1"},
	{Kind: "post", Postings: []lx.P{usd("world", "b", "10")}},
	{Kind: "revert", TxID: 2},
	{Kind: "accmeta", Address: "a", Meta: map[string]string{"k": "v"}},
}

func c32States(ctx context.Context) (map[string]*pgsim.DB, []string, error) {
	states := map[string]*pgsim.DB{}
	pristine, err := lx.Boot(ctx, []lx.LedgerSpec{{Name: "l1"}})
	if err != nil {
		return nil, nil, err
	}
	states["pristine"] = pristine
	apply := func(pg *pgsim.DB, name string) error {
		w := world.Attach(pg)
		defer w.Close()
		ctrl, err := w.Sys.GetLedgerController(ctx, name)
		if err != nil {
			return err
		}
		for _, op := range c32InUseOps {
			if out := lx.Apply(ctx, ctrl, op); out.Err != nil {
				return fmt.Errorf("start state op %s: %w", op, out.Err)
			}
		}
		return nil
	}
	inUse := pristine.Clone()
	if err := apply(inUse, "l1"); err != nil {
		return nil, nil, err
	}
	states["in-use"] = inUse
	order := []string{"pristine", "in-use"}

	// just imported: the same history written on ledger `src`, exported with the real
	// Export and imported into the still-initializing `l1` with the real Import
	imp, err := lx.Boot(ctx, []lx.LedgerSpec{{Name: "src"}, {Name: "l1"}})
	if err == nil {
		err = apply(imp, "src")
	}
	if err == nil {
		err = func() error {
			w := world.Attach(imp)
			defer w.Close()
			src, err := w.Sys.GetLedgerController(ctx, "src")
			if err != nil {
				return err
			}
			var logs []ledger.Log
			if err := src.Export(ctx, ledgercontroller.ExportWriterFn(func(_ context.Context, l ledger.Log) error {
				logs = append(logs, l)
				return nil
			})); err != nil {
				return fmt.Errorf("export: %w", err)
			}
			dst, err := w.Sys.GetLedgerController(ctx, "l1")
			if err != nil {
				return err
			}
			ch := make(chan ledger.Log, len(logs))
			for _, l := range logs {
				ch <- l
			}
			close(ch)
			if err := dst.Import(ctx, ch); err != nil {
				return fmt.Errorf("import: %w", err)
			}
			return nil
		}()
	}
	if err != nil {
		return states, order, fmt.Errorf("imported start state not available: %w", err)
	}
	states["imported"] = imp
	return states, append(order, "imported"), nil
}

// stdoutTap diverts os.Stdout while bulks run: the bulker's pond worker pool prints
// "Worker exits from a panic" plus a stack trace to stdout whenever an element panics,
// which would drown the protocol lines. The tap counts those panics and keeps the first
// ledger frame of each distinct panic site (reported as observations).
type stdoutTap struct {
	orig  *os.File
	w     *os.File
	done  chan struct{}
	count int64
	sites map[string]int64
}

func tapStdout() *stdoutTap {
	pr, pw, err := os.Pipe()
	if err != nil {
		return nil
	}
	t := &stdoutTap{orig: os.Stdout, w: pw, done: make(chan struct{}), sites: map[string]int64{}}
	os.Stdout = pw
	go func() {
		defer close(t.done)
		rd := bufio.NewReaderSize(pr, 1<<16)
		inPanic, afterPanicFrame := false, false
		for {
			line, err := rd.ReadString('\n')
			if strings.HasPrefix(line, "Worker exits from a panic") {
				t.count++
				inPanic, afterPanicFrame = true, false
			} else if inPanic {
				switch {
				case strings.HasPrefix(line, "panic("):
					afterPanicFrame = true
				case afterPanicFrame && strings.HasPrefix(line, "\t/repo/"):
					site := strings.TrimSpace(line)
					if k := strings.Index(site, " "); k > 0 {
						site = site[:k]
					}
					t.sites[site]++
					inPanic = false
				}
			}
			if err != nil {
				return
			}
		}
	}()
	return t
}

func (t *stdoutTap) close() {
	if t == nil {
		return
	}
	os.Stdout = t.orig
	_ = t.w.Close()
	<-t.done
}

func runC32() int {
	r := ev.Start("C32", ev.LevelExploration, 150*time.Second, 20*time.Minute)
	ctx := context.Background()
	c := &c32{r: r, outcomes: newCounter(), notes: newCounter(), samples: ev.NewSamples(8)}

	states, order, stErr := c32States(ctx)
	if states == nil {
		r.EngineError("start states: " + stErr.Error())
		return r.Finish(nil, []string{pgsimAssumption})
	}
	if stErr != nil {
		r.Note(stErr.Error())
	}
	startObs := map[string]string{}
	for _, name := range order {
		var err error
		startObs[name], err = observeState(ctx, states[name])
		if err != nil {
			r.EngineError("observe start state " + name + ": " + err.Error())
			return r.Finish(nil, []string{pgsimAssumption})
		}
	}

	menu := c32Menu()
	// all bulks of length<=maxLenFull over the full menu, plus length 3 over the core
	// menu (quick) / the full menu (thorough)
	var bulks [][]bulkElem
	for _, e := range menu {
		bulks = append(bulks, []bulkElem{e})
	}
	for _, a := range menu {
		for _, b := range menu {
			bulks = append(bulks, []bulkElem{a, b})
		}
	}
	m3 := menu[:c32CoreMenu]
	if r.Thorough() {
		m3 = menu
	}
	for _, a := range m3 {
		for _, b := range m3 {
			for _, d := range m3 {
				bulks = append(bulks, []bulkElem{a, b, d})
			}
		}
	}
	optsList := []bulkOpts{
		{}, {Continue: true},
		{Atomic: true}, {Atomic: true, Continue: true},
		{Parallel: true}, {Parallel: true, Continue: true},
		{Atomic: true, Parallel: true},
	}
	type job struct {
		state string
		elems []bulkElem
	}
	var jobs []job
	for _, b := range bulks {
		for _, s := range order {
			jobs = append(jobs, job{s, b})
		}
	}
	tap := tapStdout()
	complete := phasedFor(r, len(jobs), func(i int) int { return len(jobs[i].elems) }, func(i int) {
		j := jobs[i]
		solo, err := soloRun(ctx, states[j.state], j.elems)
		if err != nil {
			r.EngineError(fmt.Sprintf("solo run %s: %v", j.state, err))
			return
		}
		soloTx, err := soloRunInTx(ctx, states[j.state], j.elems)
		if err != nil {
			r.EngineError(fmt.Sprintf("solo run in one transaction %s: %v", j.state, err))
			return
		}
		for _, o := range optsList {
			bc := bulkCase{State: j.state, Elems: j.elems, Opts: o}
			c.check(ctx, states[j.state], startObs[j.state], bc, solo, soloTx)
		}
		if i%211 == 0 {
			var cls []string
			for _, s := range solo {
				if s.OK {
					cls = append(cls, "ok")
				} else {
					cls = append(cls, s.Class)
				}
			}
			c.samples.Add(map[string]any{"startState": j.state, "elements": bulkCase{Elems: j.elems}.names(), "alone": cls})
		}
	})

	// a bulk the JSON handler cannot decode is refused as a whole, without effect
	{
		pg := states["in-use"].Clone()
		w := world.Attach(pg)
		ctrl, err := w.Sys.GetLedgerController(ctx, "l1")
		if err == nil {
			before := dump(pg)
			body := "[" + menu[0].JSON + `,{"action":"CREATE_TRANSACTION","data":"not-an-object"}]`
			status, res, _, rerr := runBulk(ctx, ctrl, body, bulkOpts{})
			if rerr == nil || len(res) != 0 || status != http.StatusBadRequest {
				c.notes.add(fmt.Sprintf("undecodable element: status=%d results=%d err=%v", status, len(res), rerr), 1)
			}
			if dump(pg) != before {
				r.Violation("C32:sequential:undecodable-bulk-has-effect", "a bulk with an undecodable element was refused but changed the database", map[string]any{"startState": "in-use", "bulk": body})
			}
		}
		w.Close()
	}

	tap.close()
	if tap != nil && tap.count > 0 {
		for site, n := range tap.sites {
			r.Note(fmt.Sprintf("a bulk element panicked inside the bulker's worker pool (recovered and printed by pond, the element then has no result): first ledger frame %s (x%d)", site, n))
		}
	}
	oc := c.outcomes.snapshot()
	if r.ViolationCount() == 0 && !r.HasEngineError() && complete {
		for _, need := range []string{"atomic:rolled-back", "atomic:all-applied", "sequential:all-applied", "sequential:stopped-after-failure", "sequential:continued-after-failure", "parallel:one-result-per-element"} {
			if oc[need] == 0 {
				r.EngineError("vacuous: outcome " + need + " never occurred")
			}
		}
	}
	for k, v := range c.notes.snapshot() {
		r.Note(fmt.Sprintf("%s (x%d)", k, v))
	}
	var ocKeys []string
	for k := range oc {
		ocKeys = append(ocKeys, k)
	}
	sort.Strings(ocKeys)
	cov := ev.Coverage{
		"evaluations":         c.bulks.Load(),
		"distinct_nontrivial": c.nontriv.Load(),
		"bulks_in_space":      len(bulks),
		"start_states":        order,
		"option_sets":         len(optsList),
		"element_menu":        bulkCase{Elems: menu}.names(),
		"outcomes":            oc,
		"samples":             c.samples.List(),
		"exhaustive":          complete,
		"rule": "evaluation = one bulk posted through the real JSON bulk handler and Bulker over the real ledger controller stack on a clone of a pgsim start state; space = every bulk of length<=2 over the 16-element menu (create transaction by postings/script/with reference/with idempotency key, add and delete metadata on account and transaction, revert; failing elements: insufficient funds, unknown transaction, already reverted, reference conflict, invalid postings, invalid target type) plus every bulk of length 3 over the " +
			"6-element core menu (quick) / the full menu (thorough), x start state {pristine (initializing), in-use, just imported} x {sequential, sequential+continueOnFailure, atomic, atomic+continueOnFailure, parallel, parallel+continueOnFailure, atomic+parallel}; " +
			"oracle: one result per element; sequential and atomic: result i belongs to element i and equals (data and log id, clock fields removed) what the same request returns when the elements are applied one by one through the plain controller on a clone (differential: as separate requests for sequential bulks, as separate calls inside one Controller.BeginTX transaction for atomic bulks); atomic: any failure => database dump unchanged, no failure => ledger reads as after applying all; sequential: ledger reads as after applying elements up to the first failure (all, with continueOnFailure), later elements report errors; " +
			"parallel: ONLY 'exactly one result per element' is checked (elements run on a free-running worker pool, their interleaving is not explored here); atomic+parallel must be refused without effect. distinct_nontrivial = sequential/atomic bulks with a failing element followed by at least one more element",
	}
	return r.Finish(cov, []string{pgsimAssumption,
		"clock-dependent fields (timestamp, insertedAt, updatedAt, revertedAt, log date and hash) are not compared: a bulk and separate requests execute different numbers of SQL statements",
		"parallel bulks: only the structural claim is checked",
		"an element that fails inside an atomic bulk although it would succeed alone does not contradict all-or-none; it is reported under observations"})
}

func init() { reg.Register("C32", runC32) }
