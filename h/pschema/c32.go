package pschema

import (
	"bufio"
	"context"
	"encoding/json"
	"fmt"
	"net/http"
	"net/http/httptest"
	"os"
	"sort"
	"strings"
	"sync/atomic"
	"time"

	ledger "github.com/formancehq/ledger/internal"
	"github.com/formancehq/ledger/internal/api/bulking"
	ledgercontroller "github.com/formancehq/ledger/internal/controller/ledger"
	"github.com/formancehq/ledger/internal/storage/common"
	"github.com/formancehq/ledger/verifh/ev"
	"github.com/formancehq/ledger/verifh/lx"
	"github.com/formancehq/ledger/verifh/pgsim"
	"github.com/formancehq/ledger/verifh/reg"
	"github.com/formancehq/ledger/verifh/world"
)

// ---------------------------------------------------------------------------------
// C32 — Bulk requests respect atomic, ordered and continue-on-failure semantics.
// ---------------------------------------------------------------------------------

// bulkElem is one element of the menu: the JSON a client posts and, independently,
// the plain controller call "the same request on its own" is (Solo.Kind "invalid":
// the payload is invalid; on its own the request is rejected and has no effect).
type bulkElem struct {
	Name string `json:"name"`
	JSON string `json:"json"`
	Solo lx.Op  `json:"-"`
	Act  string `json:"-"`
}

func ctElem(name, data string, solo lx.Op) bulkElem {
	return bulkElem{Name: name, Act: bulking.ActionCreateTransaction, JSON: `{"action":"CREATE_TRANSACTION","data":` + data + `}`, Solo: solo}
}

func usd(src, dst, amt string) lx.P { return lx.P{Src: src, Dst: dst, Ast: "USD", Amt: amt} }

const bulkScript = "send [USD 3] (\n source = @world\n destination = @b\n)\nset_account_meta(@b, \"tag\", \"s\")"

func c32Menu() []bulkElem {
	return []bulkElem{
		ctElem("ct-fund-a", `{"postings":[{"source":"world","destination":"a","amount":10,"asset":"USD"}],"metadata":{"m":"x"}}`,
			lx.Op{Kind: "post", Postings: []lx.P{usd("world", "a", "10")}, Meta: map[string]string{"m": "x"}}),
		ctElem("ct-overdraw", `{"postings":[{"source":"c","destination":"a","amount":1000,"asset":"USD"}]}`,
			lx.Op{Kind: "post", Postings: []lx.P{usd("c", "a", "1000")}}),
		{Name: "accmeta-a", Act: bulking.ActionAddMetadata, JSON: `{"action":"ADD_METADATA","data":{"targetType":"ACCOUNT","targetId":"a","metadata":{"k":"v2"}}}`,
			Solo: lx.Op{Kind: "accmeta", Address: "a", Meta: map[string]string{"k": "v2"}}},
		{Name: "txmeta-1", Act: bulking.ActionAddMetadata, JSON: `{"action":"ADD_METADATA","data":{"targetType":"TRANSACTION","targetId":1,"metadata":{"m":"y"}}}`,
			Solo: lx.Op{Kind: "txmeta", TxID: 1, Meta: map[string]string{"m": "y"}}},
		{Name: "revert-1", Act: bulking.ActionRevertTransaction, JSON: `{"action":"REVERT_TRANSACTION","data":{"id":1}}`,
			Solo: lx.Op{Kind: "revert", TxID: 1}},
		{Name: "revert-2", Act: bulking.ActionRevertTransaction, JSON: `{"action":"REVERT_TRANSACTION","data":{"id":2,"metadata":{"why":"r"}}}`,
			Solo: lx.Op{Kind: "revert", TxID: 2, Meta: map[string]string{"why": "r"}}},
		// ---- the six above are the core menu (length-3 bulks in the quick tier) ----
		ctElem("ct-a-to-b-105", `{"postings":[{"source":"a","destination":"b","amount":105,"asset":"USD"}]}`,
			lx.Op{Kind: "post", Postings: []lx.P{usd("a", "b", "105")}}),
		ctElem("ct-reference", `{"postings":[{"source":"world","destination":"a","amount":1,"asset":"USD"}],"reference":"ref1"}`,
			lx.Op{Kind: "post", Postings: []lx.P{usd("world", "a", "1")}, Ref: "ref1"}),
		ctElem("ct-script", `{"script":{"plain":`+jstr(bulkScript)+`,"vars":{}},"accountMetadata":{"c":{"seen":"1"}}}`,
			lx.Op{Kind: "script", Script: bulkScript, AccMeta: map[string]map[string]string{"c": {"seen": "1"}}}),
		{Name: "ct-ik", Act: bulking.ActionCreateTransaction, JSON: `{"action":"CREATE_TRANSACTION","ik":"ik1","data":{"postings":[{"source":"world","destination":"b","amount":2,"asset":"USD"}]}}`,
			Solo: lx.Op{Kind: "post", IK: "ik1", Postings: []lx.P{usd("world", "b", "2")}}},
		{Name: "txmeta-99", Act: bulking.ActionAddMetadata, JSON: `{"action":"ADD_METADATA","data":{"targetType":"TRANSACTION","targetId":99,"metadata":{"m":"y"}}}`,
			Solo: lx.Op{Kind: "txmeta", TxID: 99, Meta: map[string]string{"m": "y"}}},
		{Name: "revert-99", Act: bulking.ActionRevertTransaction, JSON: `{"action":"REVERT_TRANSACTION","data":{"id":99}}`,
			Solo: lx.Op{Kind: "revert", TxID: 99}},
		{Name: "delmeta-acc-a-k", Act: bulking.ActionDeleteMetadata, JSON: `{"action":"DELETE_METADATA","data":{"targetType":"ACCOUNT","targetId":"a","key":"k"}}`,
			Solo: lx.Op{Kind: "delaccmeta", Address: "a", Key: "k"}},
		{Name: "delmeta-tx-1-m", Act: bulking.ActionDeleteMetadata, JSON: `{"action":"DELETE_METADATA","data":{"targetType":"TRANSACTION","targetId":1,"key":"m"}}`,
			Solo: lx.Op{Kind: "deltxmeta", TxID: 1, Key: "m"}},
		ctElem("invalid-negative-amount", `{"postings":[{"source":"world","destination":"a","amount":-5,"asset":"USD"}]}`, lx.Op{Kind: "invalid"}),
		{Name: "invalid-target-type", Act: bulking.ActionAddMetadata, JSON: `{"action":"ADD_METADATA","data":{"targetType":"FOO","targetId":"a","metadata":{"k":"v"}}}`,
			Solo: lx.Op{Kind: "invalid"}},
	}
}

const c32CoreMenu = 6

// length-3 bulks repeated with a deadlock victim in the thorough tier: over the core menu
// plus a transfer from a bounded source (balance read FOR UPDATE), a referenced and a
// scripted transaction
const c32FaultMenu3Thorough = 9

// c32FaultOpts: the option sets whose bulks are repeated with a deadlock victim. Elements of
// parallel bulks run on a free-running pool (no "first attempt of element i" to point at).
func c32FaultOpts(r *ev.Run, o bulkOpts) bool {
	if o.Parallel {
		return false
	}
	return !o.Continue || r.Thorough()
}

type bulkOpts struct {
	Atomic   bool `json:"atomic"`
	Continue bool `json:"continueOnFailure"`
	Parallel bool `json:"parallel"`
}

func (o bulkOpts) mode() string {
	switch {
	case o.Atomic && o.Parallel:
		return "atomic+parallel"
	case o.Atomic:
		return "atomic"
	case o.Parallel:
		return "parallel"
	}
	return "sequential"
}

func (o bulkOpts) String() string {
	s := o.mode()
	if o.Continue {
		s += "+continueOnFailure"
	}
	return s
}

type apiResult struct {
	ErrorCode        string          `json:"errorCode"`
	ErrorDescription string          `json:"errorDescription"`
	Data             json.RawMessage `json:"data"`
	ResponseType     string          `json:"responseType"`
	LogID            uint64          `json:"logID"`
}

// runBulk posts the bulk exactly like internal/api/v2/controllers_bulk.go does: JSON
// bulk handler -> Bulker.Run over the ledger controller -> Terminate.
func runBulk(ctx context.Context, ctrl ledgercontroller.Controller, body string, o bulkOpts) (status int, results []apiResult, raw string, runErr error) {
	req := httptest.NewRequest(http.MethodPost, "/v2/l1/_bulk", strings.NewReader(body)).WithContext(ctx)
	rec := httptest.NewRecorder()
	h := bulking.NewJSONBulkHandler(0)
	send, receive, ok := h.GetChannels(rec, req)
	if !ok {
		return rec.Code, nil, rec.Body.String(), fmt.Errorf("request rejected by the bulk handler")
	}
	err := bulking.NewBulker(ctrl, bulking.WithParallelism(10)).Run(ctx, send, receive, bulking.BulkingOptions{
		ContinueOnFailure: o.Continue, Atomic: o.Atomic, Parallel: o.Parallel,
	})
	if err != nil {
		return 0, nil, "", err
	}
	h.Terminate(rec, req)
	var resp struct {
		Data []apiResult `json:"data"`
	}
	if err := json.Unmarshal(rec.Body.Bytes(), &resp); err != nil {
		return rec.Code, nil, rec.Body.String(), fmt.Errorf("unreadable bulk response: %w", err)
	}
	return rec.Code, resp.Data, rec.Body.String(), nil
}

var timeKeys = map[string]bool{"timestamp": true, "insertedAt": true, "updatedAt": true, "revertedAt": true, "date": true,
	"firstUsage": true, "insertionDate": true, "hash": true}

// stripTimes removes everything that depends on the (logical) clock: the property
// does not speak about timestamps and the number of SQL statements differs between a
// bulk and separate requests.
func stripTimes(v any) any {
	switch x := v.(type) {
	case map[string]any:
		out := map[string]any{}
		for k, e := range x {
			if timeKeys[k] {
				continue
			}
			out[k] = stripTimes(e)
		}
		return out
	case []any:
		out := make([]any, len(x))
		for i, e := range x {
			out[i] = stripTimes(e)
		}
		return out
	}
	return v
}

func normJSON(b []byte) string {
	if len(b) == 0 {
		return "null"
	}
	v, err := canon(b)
	if err != nil {
		return "unparseable:" + string(b)
	}
	out, _ := json.Marshal(stripTimes(v))
	return string(out)
}

func normOf(v any) string {
	b, err := json.Marshal(v)
	if err != nil {
		return "unmarshalable:" + err.Error()
	}
	return normJSON(b)
}

// observe reads the ledger back through the public read API (transactions, accounts
// with volumes, logs), clock-dependent fields removed.
func observe(ctx context.Context, ctrl ledgercontroller.Controller) (string, error) {
	txs, err := lx.ListTxs(ctx, ctrl, common.ResourceQuery[any]{})
	if err != nil {
		return "", fmt.Errorf("ListTransactions: %w", err)
	}
	accs, err := lx.ListAccs(ctx, ctrl, common.ResourceQuery[any]{Expand: []string{"volumes"}})
	if err != nil {
		return "", fmt.Errorf("ListAccounts: %w", err)
	}
	logs, err := lx.ListLogs(ctx, ctrl)
	if err != nil {
		return "", fmt.Errorf("ListLogs: %w", err)
	}
	return "txs=" + normOf(txs) + "\naccounts=" + normOf(accs) + "\nlogs=" + normOf(logs), nil
}

func observeState(ctx context.Context, pg *pgsim.DB) (string, error) {
	w := world.Attach(pg.Clone())
	defer w.Close()
	ctrl, err := w.Sys.GetLedgerController(ctx, "l1")
	if err != nil {
		return "", err
	}
	return observe(ctx, ctrl)
}

type soloStep struct {
	OK    bool
	Class string
	Data  string // normalised JSON of the returned transaction ("null" for metadata operations)
	LogID uint64
	After string // observation after this step
}

// soloRun applies the elements one by one as separate plain requests on a clone. burn
// (fault references only): sequence values drawn, by an unrelated session, just before
// one of the requests (see burnSpec).
func soloRun(ctx context.Context, start *pgsim.DB, elems []bulkElem, burn *burnSpec) ([]soloStep, error) {
	pg := start.Clone()
	w := world.Attach(pg)
	defer w.Close()
	ctrl, err := w.Sys.GetLedgerController(ctx, "l1")
	if err != nil {
		return nil, err
	}
	var steps []soloStep
	for i, e := range elems {
		if err := burn.apply(ctx, w, i); err != nil {
			return nil, err
		}
		var st soloStep
		if e.Solo.Kind == "invalid" {
			st = soloStep{Class: "invalid"}
		} else {
			out := safeApply(ctx, ctrl, e.Solo)
			if out.Class == "ENGINE" {
				return nil, fmt.Errorf("solo %s: %v", e.Name, out.Err)
			}
			st = soloStep{OK: out.Err == nil, Class: out.Class, Data: "null"}
			if out.Err == nil {
				if out.Log != nil && out.Log.ID != nil {
					st.LogID = *out.Log.ID
				}
				if out.Tx != nil {
					st.Data = normOf(*out.Tx)
				}
			}
		}
		st.After, err = observe(ctx, ctrl)
		if err != nil {
			return nil, err
		}
		steps = append(steps, st)
	}
	return steps, nil
}

// soloRunInTx is the reference for ATOMIC bulks: the same requests issued one at a time,
// through the plain controller API, by a caller that holds one transaction opened with
// Controller.BeginTX ("the same request on its own, at the same position" for an element
// of an atomic bulk is the request executed inside that transaction after the same
// prefix). Nothing is committed. Standalone requests are not an exact reference there:
// each standalone write on a still-initializing (e.g. just imported) ledger re-runs the
// state tracker's sequence resynchronisation, so ids burnt by a failed element are
// handed out again, which cannot happen inside one transaction.
//
// With commit set, the caller commits its transaction when every request succeeded; the
// second result is then the observation of the ledger afterwards ("" otherwise).
func soloRunInTx(ctx context.Context, start *pgsim.DB, elems []bulkElem, burn *burnSpec, commit bool) ([]soloStep, string, error) {
	pg := start.Clone()
	w := world.Attach(pg)
	defer w.Close()
	ctrl, err := w.Sys.GetLedgerController(ctx, "l1")
	if err != nil {
		return nil, "", err
	}
	txCtrl, _, err := ctrl.BeginTX(ctx, nil)
	if err != nil {
		return nil, "", fmt.Errorf("BeginTX: %w", err)
	}
	done := false
	defer func() {
		if !done {
			_ = txCtrl.Rollback(ctx)
		}
	}()
	allOK := true
	var steps []soloStep
	for i, e := range elems {
		if err := burn.apply(ctx, w, i); err != nil {
			return nil, "", err
		}
		if e.Solo.Kind == "invalid" {
			allOK = false
			steps = append(steps, soloStep{Class: "invalid"})
			continue
		}
		out := safeApply(ctx, txCtrl, e.Solo)
		if out.Class == "ENGINE" {
			return nil, "", fmt.Errorf("solo-in-tx %s: %v", e.Name, out.Err)
		}
		st := soloStep{OK: out.Err == nil, Class: out.Class, Data: "null"}
		if out.Err == nil {
			if out.Log != nil && out.Log.ID != nil {
				st.LogID = *out.Log.ID
			}
			if out.Tx != nil {
				st.Data = normOf(*out.Tx)
			}
		} else {
			allOK = false
		}
		steps = append(steps, st)
	}
	final := ""
	if commit && allOK {
		done = true
		if err := txCtrl.Commit(ctx); err != nil {
			return nil, "", fmt.Errorf("solo-in-tx: commit: %w", err)
		}
		if final, err = observe(ctx, ctrl); err != nil {
			return nil, "", err
		}
	}
	return steps, final, nil
}

type c32 struct {
	r        *ev.Run
	outcomes *counter
	notes    *counter
	samples  *ev.Samples
	bulks    atomic.Int64
	nontriv  atomic.Int64
	// fault dimension (one element is a deadlock victim)
	faultRuns      atomic.Int64
	faultPositions atomic.Int64
	faultStmts     *counter
}

type bulkCase struct {
	State string     `json:"startState"`
	Elems []bulkElem `json:"elements"`
	Opts  bulkOpts   `json:"options"`
	Fault *faultSpec `json:"deadlock,omitempty"` // one element is a deadlock victim (c32_fault.go)
}

func (b bulkCase) body() string {
	parts := make([]string, len(b.Elems))
	for i, e := range b.Elems {
		parts[i] = e.JSON
	}
	return "[" + strings.Join(parts, ",") + "]"
}

func (b bulkCase) names() []string {
	out := make([]string, len(b.Elems))
	for i, e := range b.Elems {
		out[i] = e.Name
	}
	return out
}

func (b bulkCase) replay() map[string]any {
	rep := map[string]any{"startState": b.State, "bulk": json.RawMessage(b.body()), "elements": b.names(), "options": b.Opts}
	switch b.State {
	case "in-use":
		rep["startStateHistory"] = c32InUseOps
	case "imported":
		rep["startStateHistory"] = c32InUseOps
		rep["startStateNote"] = "history written on ledger `src`, exported with Controller.Export and imported into the fresh ledger `l1` with Controller.Import; the bulk is the first write after the import"
	}
	if b.Fault != nil {
		rep["deadlock"] = b.Fault
		rep["deadlockNote"] = "while the controller serves element `element`, its `driverCall`-th exec/query driver call (savepoint control statements not counted) is refused, once, with SQLSTATE 40P01 (deadlock detected)"
	}
	return rep
}

func (c *c32) viol(bc bulkCase, kind, format string, a ...any) {
	mode, where := bc.Opts.mode(), ""
	if f := bc.Fault; f != nil {
		mode += "+deadlock"
		where = fmt.Sprintf(" deadlock(40P01) at statement %d of element %d [%s]", f.At, f.Elem, stmtKind(f.SQL))
	}
	c.r.Violation("C32:"+mode+":"+kind+":start="+bc.State,
		fmt.Sprintf("start=%s bulk=%v options=%s%s: ", bc.State, bc.names(), bc.Opts, where)+fmt.Sprintf(format, a...), bc.replay())
}

// c32Ref is what a bulk is judged against: "the same requests on their own".
type c32Ref struct {
	startObs string
	solo     []soloStep // as separate requests (sequential bulks); After = the ledger after request i
	soloTx   []soloStep // as separate calls inside one Controller.BeginTX transaction (atomic bulks)
	// fault runs ---------------------------------------------------------------------
	allApplied    string                 // atomic: the ledger after the caller of soloTx committed ("" = solo[n-1].After)
	exact         bool                   // the reference accounts for the ids the deadlock victim's first attempt drew
	seqsMustMatch map[pgsim.SeqKey]int64 // non-nil: exact only if the run leaves the sequences there
}

// bulkOut is what a checked bulk left behind (nil when it could not be judged further).
type bulkOut struct {
	perCall []int                  // exec/query driver calls per controller write call
	seqs    map[pgsim.SeqKey]int64 // sequences after the bulk
}

// check runs one bulk with one option set on a clone and evaluates the oracle against
// the solo runs of the same elements. refFor is asked for the reference once the bulk has
// run (a fault run only knows then which ids the victim's first attempt drew).
func (c *c32) check(ctx context.Context, start *pgsim.DB, bc bulkCase, refFor func(drawn map[pgsim.SeqKey]int64) (*c32Ref, error)) *bulkOut {
	pg := start.Clone()
	if bc.Opts.Parallel {
		pg.Mode = pgsim.ModeFree // real goroutines: lock waits park instead of being reported as self-deadlocks
	}
	w := world.Attach(pg)
	defer w.Close()
	ctrl, err := w.Sys.GetLedgerController(ctx, "l1")
	if err != nil {
		c.r.EngineError("GetLedgerController: " + err.Error())
		return nil
	}
	n := len(bc.Elems)
	mode := bc.Opts.mode()
	f := bc.Fault
	var trk *elemTracker
	if mode == "atomic" || mode == "sequential" {
		// elements run one at a time: driver calls can be attributed to elements
		trk = newElemTracker(pg)
		if f != nil {
			if f.Elem < 0 || f.Elem >= n || bc.Elems[f.Elem].Solo.Kind == "invalid" || f.At < 1 {
				c.r.EngineError(fmt.Sprintf("bulk %v: no such fault position %+v", bc.names(), *f))
				return nil
			}
			trk.fCall, trk.fAt = callOfElem(bc.Elems, f.Elem), f.At
		}
		w.Hook = trk.hook
		ctrl = &trackedCtrl{Controller: ctrl, t: trk}
	} else if f != nil {
		c.r.EngineError("fault runs exist for sequential and atomic bulks only")
		return nil
	}
	before := dump(pg)
	type ret struct {
		status  int
		results []apiResult
		raw     string
		err     error
	}
	done := make(chan ret, 1)
	go func() {
		s, res, raw, err := runBulk(ctx, ctrl, bc.body(), bc.Opts)
		done <- ret{s, res, raw, err}
	}()
	var out ret
	select {
	case out = <-done:
	case <-time.After(120 * time.Second):
		c.r.EngineError(fmt.Sprintf("bulk %v %s did not return within 120s (pgsim/harness hang)", bc.names(), bc.Opts))
		return nil
	}
	w.Hook = nil
	bo := &bulkOut{seqs: pg.SeqPositions()}
	var drawn map[pgsim.SeqKey]int64
	if trk != nil {
		trk.mu.Lock()
		bo.perCall = append([]int(nil), trk.perCall...)
		concurrent, fired := trk.concurrent, trk.fired
		if fired {
			drawn = seqDelta(trk.entrySeq, trk.faultSeq)
			fc := *f
			fc.SQL = trk.firedSQL
			bc.Fault, f = &fc, &fc
		}
		trk.mu.Unlock()
		if concurrent {
			c.r.EngineError(fmt.Sprintf("bulk %v %s: two elements were processed at the same time", bc.names(), bc.Opts))
			return nil
		}
		if f != nil && !fired {
			c.r.EngineError(fmt.Sprintf("bulk %v %s: driver call %d of element %d was never issued (the undisturbed run issued it: nondeterministic statement stream)", bc.names(), bc.Opts, f.At, f.Elem))
			return nil
		}
	}
	if f != nil {
		c.faultRuns.Add(1)
	} else {
		c.bulks.Add(1)
	}
	// outcome names of fault runs are kept apart from those of undisturbed bulks
	count := func(name string) {
		if f != nil {
			name = "deadlock:" + name
		}
		c.outcomes.add(name, 1)
	}

	if mode == "atomic+parallel" {
		// invalid option combination: the request is refused as a whole; it must not have any effect
		if out.err == nil {
			c.viol(bc, "options-accepted", "atomic and parallel are mutually exclusive but the bulk ran (%d results)", len(out.results))
		}
		if after := dump(pg); after != before {
			c.viol(bc, "refused-with-effect", "the bulk was refused (%v) but the database changed", out.err)
		}
		c.outcomes.add("atomic+parallel:refused", 1)
		return nil
	}
	if out.err != nil {
		if strings.Contains(out.err.Error(), "pgsim:") {
			c.r.EngineError(fmt.Sprintf("bulk %v %s: %v", bc.names(), bc.Opts, out.err))
			return nil
		}
		c.viol(bc, "no-results", "the bulk returned no per-element results: %v (%s)", out.err, out.raw)
		return nil
	}
	for i, res := range out.results {
		if strings.Contains(res.ErrorDescription, "pgsim:") {
			if f != nil && pg.OpenTransactions() > 0 && strings.Contains(res.ErrorDescription, "would block") {
				// not a defect of the machinery: the bulk itself left a transaction open
				// (nothing else runs on this database) and element i waits for its locks;
				// on a server that wait never ends and the bulk returns nothing
				c.viol(bc, "element-blocked-by-transaction-left-open", "element %d (%s) waits for a lock held by a transaction that an earlier element of the same bulk left open after its deadlock retry (%d transaction(s) still open when the bulk returned): %s", i, bc.Elems[min(i, n-1)].Name, pg.OpenTransactions(), res.ErrorDescription)
				return nil
			}
			if f == nil && strings.Contains(res.ErrorDescription, "would block") && strings.Contains(res.ErrorDescription, "self-deadlock") {
				// no fault, one request on this database: the only possible holder of the lock
				// element i waits for is the request itself (the open transaction of an atomic
				// bulk, while the element runs on another session). On a server that wait never
				// ends: the bulk returns no result at all
				c.viol(bc, "bulk-blocks-itself", "element %d (%s) ran on another database session than the bulk's transaction and waits for a lock that transaction holds (%d transaction(s) open): on a server the request never returns: %s", i, bc.Elems[min(i, n-1)].Name, pg.OpenTransactions(), res.ErrorDescription)
				return nil
			}
			c.r.EngineError(fmt.Sprintf("bulk %v %s: %s", bc.names(), bc.Opts, res.ErrorDescription))
			return nil
		}
	}
	// exactly one result per element
	if len(out.results) != n {
		c.viol(bc, "result-count", "%d results for %d elements: %s", len(out.results), n, out.raw)
		return nil
	}
	anyErr := false
	for _, res := range out.results {
		if res.ResponseType == "ERROR" {
			anyErr = true
		}
	}
	if f == nil && (out.status == http.StatusBadRequest) != anyErr {
		c.notes.add(fmt.Sprintf("http status %d with anyError=%v", out.status, anyErr), 1)
	}
	if mode == "parallel" {
		// free-running worker pool: only the structural claim is checked
		c.outcomes.add("parallel:one-result-per-element", 1)
		return bo
	}

	ref, err := refFor(drawn)
	if err != nil {
		c.r.EngineError(fmt.Sprintf("bulk %v %s: reference: %v", bc.names(), bc.Opts, err))
		return nil
	}
	solo, soloTx, startObs := ref.solo, ref.soloTx, ref.startObs
	// fault runs: victim = index of the element that met the deadlock; exact = the reference
	// holds for the victim's ids and for everything after it
	victim, exact := -1, true
	if f != nil {
		victim, exact = f.Elem, ref.exact
		if ref.seqsMustMatch != nil {
			exact = len(seqDelta(ref.seqsMustMatch, bo.seqs)) == 0
		}
	}
	// surfaced: the deadlock was not absorbed, the victim reports an error although the same
	// request alone succeeds. That is what any request does when the database refuses a
	// statement; the bulk must then treat it as a failed element.
	surfaced := false

	// sequential and atomic: results are in element order
	firstFail := -1
	for i, res := range out.results {
		failed := res.ResponseType == "ERROR"
		if failed && firstFail < 0 {
			firstFail = i
		}
		executed := bc.Opts.Continue || firstFail < 0 || i <= firstFail
		if !executed {
			if !failed {
				c.viol(bc, "applied-after-failure", "element %d (%s) reports success although element %d failed and continueOnFailure is off", i, bc.Elems[i].Name, firstFail)
				return nil
			}
			continue
		}
		s := solo[i]
		if mode == "atomic" {
			s = soloTx[i]
		}
		if !failed && res.ResponseType != bc.Elems[i].Act {
			c.viol(bc, "result-order", "result %d has responseType %s, element %d is %s", i, res.ResponseType, i, bc.Elems[i].Act)
			return nil
		}
		if i == victim && failed && s.OK {
			surfaced = true
			continue
		}
		if victim >= 0 && i > victim && (surfaced || !exact) {
			continue // what follows a victim that failed, or whose lost ids the reference does not have: structural claims only
		}
		cmpData := !(i == victim && !exact)
		switch {
		case failed && s.OK:
			if mode == "atomic" {
				// all-or-none is still respected; reported, not judged
				c.notes.add(fmt.Sprintf("atomic bulk on %s ledger: element %s fails in the bulk (%s) but succeeds as a separate request", bc.State, bc.Elems[i].Name, res.ErrorCode), 1)
			} else {
				c.viol(bc, "element-fails-in-bulk-succeeds-alone", "element %d (%s) failed in the bulk (%s: %s) but the same request alone, after the same prefix, succeeds", i, bc.Elems[i].Name, res.ErrorCode, res.ErrorDescription)
				return nil
			}
		case !failed && !s.OK:
			c.viol(bc, "result-differs-from-solo", "element %d (%s) succeeded in the bulk but the same request alone, after the same prefix, fails (%s)", i, bc.Elems[i].Name, s.Class)
			return nil
		case !failed && cmpData:
			got := normJSON(res.Data)
			if got != s.Data || res.LogID != s.LogID {
				c.viol(bc, "result-differs-from-solo", "element %d (%s): bulk result logID=%d data=%s; the same request alone returns logID=%d data=%s", i, bc.Elems[i].Name, res.LogID, got, s.LogID, s.Data)
				return nil
			}
		}
	}
	if f != nil {
		kind := "absorbed"
		switch {
		case surfaced:
			kind = "surfaced"
		case out.results[victim].ResponseType == "ERROR":
			kind = "victim-fails-alone-too"
		case !anyErr && victim < n-1:
			c.outcomes.add("deadlock:"+mode+":absorbed-then-later-elements-applied", 1)
		}
		c.outcomes.add("deadlock:"+mode+":"+kind, 1)
		c.faultStmts.add(mode+": "+stmtKind(f.SQL)+": "+kind, 1)
		if !exact {
			c.outcomes.add("deadlock:"+mode+":structural-only-from-victim-on", 1)
		}
	}

	// effects
	after := dump(pg)
	obs, err := observe(ctx, ctrl)
	if err != nil {
		c.r.EngineError(fmt.Sprintf("bulk %v %s: %v", bc.names(), bc.Opts, err))
		return nil
	}
	soloAfter := func(i int) string {
		if i < 0 {
			return startObs
		}
		return solo[i].After
	}
	switch {
	case mode == "atomic" && anyErr:
		if after != before {
			c.viol(bc, "partial-apply", "an element failed but the database changed (atomic bulks apply all elements or none)")
			return nil
		}
		if obs != startObs {
			c.viol(bc, "partial-apply", "an element failed but the ledger reads differently afterwards")
			return nil
		}
		count("atomic:rolled-back")
	case mode == "atomic":
		want := soloAfter(n - 1)
		if ref.allApplied != "" {
			want = ref.allApplied
		}
		if exact && obs != want {
			c.viol(bc, "not-all-applied", "no element failed but the ledger differs from applying every element in order:\n bulk: %s\n solo: %s", obs, want)
			return nil
		}
		count("atomic:all-applied")
		if bc.State == "pristine" && f == nil {
			if l, err := w.Sys.GetLedger(ctx, "l1"); err == nil && l.State == ledger.StateInitializing {
				c.notes.add("atomic bulk committed on a pristine ledger leaves _system.ledgers.state = initializing", 1)
			}
		}
	default: // sequential
		last := n - 1
		if firstFail >= 0 && !bc.Opts.Continue {
			last = firstFail
		}
		judged := true
		switch {
		case surfaced && bc.Opts.Continue:
			judged = false // later elements ran without the victim's effects: no reference
		case surfaced:
			last = victim - 1 // the victim is the first failure; it failed, so the ledger is as before it
		case !exact:
			judged = false
		}
		if judged && obs != soloAfter(last) {
			kind := "effects-differ-from-in-order-application"
			if surfaced {
				res := out.results[victim]
				c.viol(bc, "failed-element-has-effects", "element %d (%s) met the deadlock and reports an error (%s: %s), so the ledger must read as before that element (the %d element(s) before it applied in order as separate requests):\n bulk: %s\n solo: %s", victim, bc.Elems[victim].Name, res.ErrorCode, res.ErrorDescription, victim, obs, soloAfter(last))
				return nil
			} else if firstFail >= 0 && !bc.Opts.Continue && last+1 < n && obs == soloAfter(n-1) {
				kind = "applied-after-failure"
			}
			c.viol(bc, kind, "the ledger differs from applying elements 0..%d in order as separate requests:\n bulk: %s\n solo: %s", last, obs, soloAfter(last))
			return nil
		}
		switch {
		case firstFail < 0:
			count("sequential:all-applied")
		case bc.Opts.Continue:
			count("sequential:continued-after-failure")
		case firstFail == n-1:
			count("sequential:failed-at-last")
		default:
			count("sequential:stopped-after-failure")
		}
	}
	if f == nil && firstFail >= 0 && firstFail < n-1 {
		c.nontriv.Add(1)
	}
	return bo
}

// faults repeats one sequential / atomic bulk with one deadlock (SQLSTATE 40P01) injected at
// every driver call of every element of the undisturbed run und.
func (c *c32) faults(ctx context.Context, start *pgsim.DB, bc bulkCase, fr *faultRefs, und *bulkOut) {
	mode := bc.Opts.mode()
	for call, calls := range und.perCall {
		e := elemOfCall(bc.Elems, call)
		if e < 0 {
			c.r.EngineError(fmt.Sprintf("bulk %v %s: %d controller write calls for %d valid elements", bc.names(), bc.Opts, len(und.perCall), callOfElem(bc.Elems, len(bc.Elems))))
			return
		}
		for at := 1; at <= calls; at++ {
			if c.r.Expired() || c.r.HasEngineError() {
				return
			}
			fbc := bc
			fbc.Fault = &faultSpec{Elem: e, At: at}
			c.check(ctx, start, fbc, func(drawn map[pgsim.SeqKey]int64) (*c32Ref, error) { return fr.get(mode, e, drawn) })
			c.faultPositions.Add(1)
		}
	}
}

// start states ------------------------------------------------------------------------

var c32InUseOps = []lx.Op{
	{Kind: "post", Postings: []lx.P{usd("world", "a", "100")}, Meta: map[string]string{"m": "x"}, Ref: "ref1"},
	{Kind: "post", Postings: []lx.P{usd("world", "b", "10")}},
	{Kind: "revert", TxID: 2},
	{Kind: "accmeta", Address: "a", Meta: map[string]string{"k": "v"}},
}

func c32States(ctx context.Context) (map[string]*pgsim.DB, []string, error) {
	states := map[string]*pgsim.DB{}
	pristine, err := lx.Boot(ctx, []lx.LedgerSpec{{Name: "l1"}})
	if err != nil {
		return nil, nil, err
	}
	states["pristine"] = pristine
	apply := func(pg *pgsim.DB, name string) error {
		w := world.Attach(pg)
		defer w.Close()
		ctrl, err := w.Sys.GetLedgerController(ctx, name)
		if err != nil {
			return err
		}
		for _, op := range c32InUseOps {
			if out := lx.Apply(ctx, ctrl, op); out.Err != nil {
				return fmt.Errorf("start state op %s: %w", op, out.Err)
			}
		}
		return nil
	}
	inUse := pristine.Clone()
	if err := apply(inUse, "l1"); err != nil {
		return nil, nil, err
	}
	states["in-use"] = inUse
	order := []string{"pristine", "in-use"}

	// just imported: the same history written on ledger `src`, exported with the real
	// Export and imported into the still-initializing `l1` with the real Import
	imp, err := lx.Boot(ctx, []lx.LedgerSpec{{Name: "src"}, {Name: "l1"}})
	if err == nil {
		err = apply(imp, "src")
	}
	if err == nil {
		err = func() error {
			w := world.Attach(imp)
			defer w.Close()
			src, err := w.Sys.GetLedgerController(ctx, "src")
			if err != nil {
				return err
			}
			var logs []ledger.Log
			if err := src.Export(ctx, ledgercontroller.ExportWriterFn(func(_ context.Context, l ledger.Log) error {
				logs = append(logs, l)
				return nil
			})); err != nil {
				return fmt.Errorf("export: %w", err)
			}
			dst, err := w.Sys.GetLedgerController(ctx, "l1")
			if err != nil {
				return err
			}
			ch := make(chan ledger.Log, len(logs))
			for _, l := range logs {
				ch <- l
			}
			close(ch)
			if err := dst.Import(ctx, ch); err != nil {
				return fmt.Errorf("import: %w", err)
			}
			return nil
		}()
	}
	if err != nil {
		return states, order, fmt.Errorf("imported start state not available: %w", err)
	}
	states["imported"] = imp
	return states, append(order, "imported"), nil
}

// stdoutTap diverts os.Stdout while bulks run: the bulker's pond worker pool prints
// "Worker exits from a panic" plus a stack trace to stdout whenever an element panics,
// which would drown the protocol lines. The tap counts those panics and keeps the first
// ledger frame of each distinct panic site (reported as observations).
type stdoutTap struct {
	orig  *os.File
	w     *os.File
	done  chan struct{}
	count int64
	sites map[string]int64
}

func tapStdout() *stdoutTap {
	pr, pw, err := os.Pipe()
	if err != nil {
		return nil
	}
	t := &stdoutTap{orig: os.Stdout, w: pw, done: make(chan struct{}), sites: map[string]int64{}}
	os.Stdout = pw
	go func() {
		defer close(t.done)
		rd := bufio.NewReaderSize(pr, 1<<16)
		inPanic, afterPanicFrame := false, false
		for {
			line, err := rd.ReadString('\n')
			if strings.HasPrefix(line, "Worker exits from a panic") {
				t.count++
				inPanic, afterPanicFrame = true, false
			} else if inPanic {
				switch {
				case strings.HasPrefix(line, "panic("):
					afterPanicFrame = true
				case afterPanicFrame && strings.HasPrefix(line, "\t/repo/"):
					site := strings.TrimSpace(line)
					if k := strings.Index(site, " "); k > 0 {
						site = site[:k]
					}
					t.sites[site]++
					inPanic = false
				}
			}
			if err != nil {
				return
			}
		}
	}()
	return t
}

func (t *stdoutTap) close() {
	if t == nil {
		return
	}
	os.Stdout = t.orig
	_ = t.w.Close()
	<-t.done
}

func runC32() int {
	r := ev.Start("C32", ev.LevelExploration, 150*time.Second, 20*time.Minute)
	ctx := context.Background()
	c := &c32{r: r, outcomes: newCounter(), notes: newCounter(), faultStmts: newCounter(), samples: ev.NewSamples(8)}

	states, order, stErr := c32States(ctx)
	if states == nil {
		r.EngineError("start states: " + stErr.Error())
		return r.Finish(nil, []string{pgsimAssumption})
	}
	if stErr != nil {
		r.Note(stErr.Error())
	}
	startObs := map[string]string{}
	for _, name := range order {
		var err error
		startObs[name], err = observeState(ctx, states[name])
		if err != nil {
			r.EngineError("observe start state " + name + ": " + err.Error())
			return r.Finish(nil, []string{pgsimAssumption})
		}
	}

	menu := c32Menu()
	// all bulks of length<=maxLenFull over the full menu, plus length 3 over the core
	// menu (quick) / the full menu (thorough)
	var bulks [][]bulkElem
	for _, e := range menu {
		bulks = append(bulks, []bulkElem{e})
	}
	for _, a := range menu {
		for _, b := range menu {
			bulks = append(bulks, []bulkElem{a, b})
		}
	}
	m3 := menu[:c32CoreMenu]
	if r.Thorough() {
		m3 = menu
	}
	for _, a := range m3 {
		for _, b := range m3 {
			for _, d := range m3 {
				bulks = append(bulks, []bulkElem{a, b, d})
			}
		}
	}
	optsList := []bulkOpts{
		{}, {Continue: true},
		{Atomic: true}, {Atomic: true, Continue: true},
		{Parallel: true}, {Parallel: true, Continue: true},
		{Atomic: true, Parallel: true},
	}
	type job struct {
		state  string
		elems  []bulkElem
		faults bool // repeated with a deadlock victim
	}
	// fault dimension: every bulk of length <= 2, and the bulks of length 3 over the first
	// c32FaultMenu3 elements of the menu
	faultMenu3 := map[string]bool{}
	for _, e := range menu[:ev.Pick(r, c32CoreMenu, c32FaultMenu3Thorough)] {
		faultMenu3[e.Name] = true
	}
	var jobs []job
	faultBulks := 0
	for _, b := range bulks {
		withFaults := true
		if len(b) > 2 {
			for _, e := range b {
				withFaults = withFaults && faultMenu3[e.Name]
			}
		}
		if withFaults {
			faultBulks++
		}
		for _, s := range order {
			jobs = append(jobs, job{s, b, withFaults})
		}
	}
	tap := tapStdout()
	// the json-stream carrier of the same Bulker (c32_stream.go): a small family, run first so
	// that a time cut never drops it
	streamCases, streamUndecodable, streamComplete := c.streamed(ctx, states["in-use"], "in-use", "json-stream")
	textCases, textUndecodable, textComplete := c.streamed(ctx, states["in-use"], "in-use", "script-stream")
	streamComplete = streamComplete && textComplete
	complete := phasedFor(r, len(jobs), func(i int) int { return len(jobs[i].elems) }, func(i int) {
		j := jobs[i]
		solo, err := soloRun(ctx, states[j.state], j.elems, nil)
		if err != nil {
			r.EngineError(fmt.Sprintf("solo run %s: %v", j.state, err))
			return
		}
		soloTx, _, err := soloRunInTx(ctx, states[j.state], j.elems, nil, false)
		if err != nil {
			r.EngineError(fmt.Sprintf("solo run in one transaction %s: %v", j.state, err))
			return
		}
		base := &c32Ref{startObs: startObs[j.state], solo: solo, soloTx: soloTx, exact: true}
		baseRef := func(map[pgsim.SeqKey]int64) (*c32Ref, error) { return base, nil }
		unds := make([]*bulkOut, len(optsList))
		for k, o := range optsList {
			unds[k] = c.check(ctx, states[j.state], bulkCase{State: j.state, Elems: j.elems, Opts: o}, baseRef)
		}
		// fault dimension: the same bulk with one element a deadlock victim, at every driver
		// call of every element (after all undisturbed variants of this bulk)
		for k, o := range optsList {
			if !j.faults || unds[k] == nil || !c32FaultOpts(r, o) {
				continue
			}
			fr := &faultRefs{ctx: ctx, start: states[j.state], elems: j.elems, state: j.state, startObs: startObs[j.state],
				solo: solo, soloTx: soloTx, undSeqs: unds[k].seqs, cache: map[string]*c32Ref{}}
			c.faults(ctx, states[j.state], bulkCase{State: j.state, Elems: j.elems, Opts: o}, fr, unds[k])
		}
		if i%211 == 0 {
			var cls []string
			for _, s := range solo {
				if s.OK {
					cls = append(cls, "ok")
				} else {
					cls = append(cls, s.Class)
				}
			}
			c.samples.Add(map[string]any{"startState": j.state, "elements": bulkCase{Elems: j.elems}.names(), "alone": cls})
		}
	})

	// a bulk the JSON handler cannot decode is refused as a whole, without effect
	{
		pg := states["in-use"].Clone()
		w := world.Attach(pg)
		ctrl, err := w.Sys.GetLedgerController(ctx, "l1")
		if err == nil {
			before := dump(pg)
			body := "[" + menu[0].JSON + `,{"action":"CREATE_TRANSACTION","data":"not-an-object"}]`
			status, res, _, rerr := runBulk(ctx, ctrl, body, bulkOpts{})
			if rerr == nil || len(res) != 0 || status != http.StatusBadRequest {
				c.notes.add(fmt.Sprintf("undecodable element: status=%d results=%d err=%v", status, len(res), rerr), 1)
			}
			if dump(pg) != before {
				r.Violation("C32:sequential:undecodable-bulk-has-effect", "a bulk with an undecodable element was refused but changed the database", map[string]any{"startState": "in-use", "bulk": body})
			}
		}
		w.Close()
	}

	complete = complete && streamComplete
	tap.close()
	if tap != nil && tap.count > 0 {
		for site, n := range tap.sites {
			r.Note(fmt.Sprintf("a bulk element panicked inside the bulker's worker pool (recovered and printed by pond, the element then has no result): first ledger frame %s (x%d)", site, n))
		}
	}
	oc := c.outcomes.snapshot()
	if r.ViolationCount() == 0 && !r.HasEngineError() && complete {
		for _, need := range []string{"atomic:rolled-back", "atomic:all-applied", "sequential:all-applied", "sequential:stopped-after-failure", "sequential:continued-after-failure", "parallel:one-result-per-element"} {
			if oc[need] == 0 {
				r.EngineError("vacuous: outcome " + need + " never occurred")
			}
		}
		// the fault dimension must have been exercised: deadlock victims that the ledger retried
		// in the middle of a bulk (followed by further elements), victims whose error reached
		// the client, rolled back and committed atomic bulks with a victim
		for _, need := range []string{"deadlock:atomic:absorbed", "deadlock:atomic:absorbed-then-later-elements-applied", "deadlock:atomic:surfaced",
			"deadlock:atomic:rolled-back", "deadlock:atomic:all-applied",
			"deadlock:sequential:absorbed", "deadlock:sequential:absorbed-then-later-elements-applied", "deadlock:sequential:all-applied"} {
			if oc[need] == 0 {
				r.EngineError("vacuous: fault dimension: outcome " + need + " never occurred")
			}
		}
		if c.faultRuns.Load() == 0 || c.faultRuns.Load() != c.faultPositions.Load() {
			r.EngineError(fmt.Sprintf("vacuous: fault dimension: %d fault positions enumerated, %d fault runs judged", c.faultPositions.Load(), c.faultRuns.Load()))
		}
	}
	for k, v := range c.notes.snapshot() {
		r.Note(fmt.Sprintf("%s (x%d)", k, v))
	}
	var ocKeys []string
	for k := range oc {
		ocKeys = append(ocKeys, k)
	}
	sort.Strings(ocKeys)
	cov := ev.Coverage{
		"evaluations":         c.bulks.Load(),
		"distinct_nontrivial": c.nontriv.Load(),
		"bulks_in_space":      len(bulks),
		"bulks_with_faults":   faultBulks,
		"start_states":        order,
		"option_sets":         len(optsList),
		"element_menu":        bulkCase{Elems: menu}.names(),
		"outcomes":            oc,
		"fault_runs":          c.faultRuns.Load(),
		"fault_statements":    c.faultStmts.snapshot(),
		"samples":             c.samples.List(),
		"exhaustive":          complete,
		"script_stream_carrier": map[string]any{"bulks_compared_with_json_carrier": textCases, "streams_with_an_undecodable_document": textUndecodable,
			"rule": "the same two oracles through the real TEXT stream handler (…bulk+script-stream), which only carries scripted transactions: every bulk of length<=2 over 4 scripts (funding, insufficient funds, script with account metadata, spending) x {atomic, sequential} compared with the same scripts sent as a JSON array; then with an element whose header cannot be read (`//script ik=a,ik=b`) inserted at every position"},
		"json_stream_carrier": map[string]any{"bulks_compared_with_json_carrier": streamCases, "streams_with_an_undecodable_document": streamUndecodable,
			"rule": "every bulk of length<=2 over the 6-element core menu x {atomic, sequential} on the in-use start state, sent through the real JSON STREAM handler (…bulk+json-stream) and the same Bulker: results and ledger equal those of the same bulk sent as a JSON array; then the same bulks with a document that cannot be decoded as an element (CREATE_TRANSACTION with a timestamp that is not a date) inserted at every position: atomic => database unchanged, sequential => the ledger is that of the elements before it"},
		"rule": "evaluation = one bulk posted through the real JSON bulk handler and Bulker over the real ledger controller stack on a clone of a pgsim start state; space = every bulk of length<=2 over the 16-element menu (create transaction by postings/script/with reference/with idempotency key, add and delete metadata on account and transaction, revert; failing elements: insufficient funds, unknown transaction, already reverted, reference conflict, invalid postings, invalid target type) plus every bulk of length 3 over the " +
			"6-element core menu (quick) / the full menu (thorough), x start state {pristine (initializing), in-use, just imported} x {sequential, sequential+continueOnFailure, atomic, atomic+continueOnFailure, parallel, parallel+continueOnFailure, atomic+parallel}; " +
			"oracle: one result per element; sequential and atomic: result i belongs to element i and equals (data and log id, clock fields removed) what the same request returns when the elements are applied one by one through the plain controller on a clone (differential: as separate requests for sequential bulks, as separate calls inside one Controller.BeginTX transaction for atomic bulks); atomic: any failure => database dump unchanged, no failure => ledger reads as after applying all; sequential: ledger reads as after applying elements up to the first failure (all, with continueOnFailure), later elements report errors; " +
			"parallel: ONLY 'exactly one result per element' is checked (elements run on a free-running worker pool, their interleaving is not explored here); atomic+parallel must be refused without effect. distinct_nontrivial = sequential/atomic bulks with a failing element followed by at least one more element. " +
			"FAULT DIMENSION (fault_runs, outcomes deadlock:*, fault_statements = mode: refused statement: what became of the victim): every sequential and atomic bulk of length<=2 of the space and every one of length 3 over the first 6 (quick) / 9 (thorough) elements of the menu (bulks_with_faults; quick: without continueOnFailure; thorough: with and without) is repeated once per statement (exec/query driver call; SAVEPOINT / RELEASE / ROLLBACK TO excepted: they never wait for a lock, so they are never deadlock victims) that the controller issues while it serves an element of the undisturbed bulk, that statement being refused once with SQLSTATE 40P01 (the element is a deadlock victim on its first attempt; the ledger retries such a request); same oracle, the reference being the same requests on their own with the sequence values the victim's first attempt had drawn (measured at the driver boundary) drawn by an unrelated session just before the victim's request: a victim the ledger retried must leave the bulk exactly as undisturbed (results, log ids, ledger), a victim whose error reaches the client is a failed element (atomic: nothing applied; sequential: the ledger as before it, no later element unless continueOnFailure); sequential bulks on a still initializing ledger (sequence resynchronisation per request): the elements from the victim on are compared exactly only when the bulk leaves the sequences where the undisturbed bulk leaves them, else structurally",
	}
	return r.Finish(cov, []string{pgsimAssumption,
		"clock-dependent fields (timestamp, insertedAt, updatedAt, revertedAt, log date and hash) are not compared: a bulk and separate requests execute different numbers of SQL statements",
		"parallel bulks: only the structural claim is checked",
		"an element that fails inside an atomic bulk although it would succeed alone does not contradict all-or-none; it is reported under observations",
		"fault dimension: a deadlock is modelled as SQLSTATE 40P01 on one statement of one element's first attempt with the transaction aborted (no second session is involved, so no lock is actually contended); an element whose deadlock error reaches the client is treated as a failed element, the property does not promise a retry"})
}

func init() { reg.Register("C32", runC32) }
