package pschema

import (
	"context"
	"encoding/json"
	"fmt"
	"os"
	"regexp"
	"strings"
	"time"

	"github.com/formancehq/ledger/verifh/ev"
	"github.com/formancehq/ledger/verifh/lx"
	"github.com/formancehq/ledger/verifh/pgsim"
)

// parseChart reads a chart JSON document back into the harness's specification (the
// inverse of Chart.JSON), so that a replay file is self-contained.
func parseChart(src string) (Chart, error) {
	var root map[string]json.RawMessage
	if err := json.Unmarshal([]byte(src), &root); err != nil {
		return nil, err
	}
	out := Chart{}
	for k, v := range root {
		n, pat, err := parseNode(v)
		if err != nil {
			return nil, err
		}
		if pat != nil || strings.HasPrefix(k, "$") || strings.HasPrefix(k, ".") {
			return nil, fmt.Errorf("invalid root key %q", k)
		}
		out[k] = n
	}
	return out, nil
}

func patFor(re string) *Pat {
	for _, p := range []*Pat{Pat3Digits, PatPrefixX, PatHas7, PatEscaped} {
		if p.Re == re {
			return p
		}
	}
	rx := regexp.MustCompile(re)
	return &Pat{Re: re, Match: rx.MatchString}
}

func parseNode(raw json.RawMessage) (*Node, *Pat, error) {
	var m map[string]json.RawMessage
	if err := json.Unmarshal(raw, &m); err != nil {
		return nil, nil, err
	}
	n := &Node{}
	var pat *Pat
	for k, v := range m {
		switch {
		case k == ".pattern":
			var s string
			if err := json.Unmarshal(v, &s); err != nil {
				return nil, nil, err
			}
			pat = patFor(s)
		case k == ".self":
			n.Self = true
		case k == ".metadata":
			var md map[string]struct {
				Default *string `json:"default"`
			}
			if err := json.Unmarshal(v, &md); err != nil {
				return nil, nil, err
			}
			n.HasMeta, n.Meta = true, map[string]*string{}
			for mk, mv := range md {
				n.Meta[mk] = mv.Default
			}
		case strings.HasPrefix(k, "."):
			// unknown property: ignored by the ledger too
		case strings.HasPrefix(k, "$"):
			c, p, err := parseNode(v)
			if err != nil {
				return nil, nil, err
			}
			n.VarLabel, n.VarPat, n.Var = k[1:], p, c
		default:
			c, _, err := parseNode(v)
			if err != nil {
				return nil, nil, err
			}
			if n.Fixed == nil {
				n.Fixed = map[string]*Node{}
			}
			n.Fixed[k] = c
		}
	}
	return n, pat, nil
}

type replayFile struct {
	Property  string          `json:"property"`
	Signature string          `json:"signature"`
	Replay    json.RawMessage `json:"replay"`
}

// Replay re-executes a replay file written by one of the pschema checks, without the
// explorer, and returns the exit code of the verdict (evidence goes to VERIF_ROOT).
func Replay(path string) (int, error) {
	b, err := os.ReadFile(path)
	if err != nil {
		return 2, err
	}
	var rf replayFile
	if err := json.Unmarshal(b, &rf); err != nil {
		return 2, err
	}
	ctx := context.Background()
	switch rf.Property {
	case "C29":
		var rp struct {
			Group, Mode string
			Schemas     []struct {
				Version string
				Data    struct {
					Chart        json.RawMessage
					Transactions map[string]json.RawMessage
				}
			}
			Seed, Ops []lx.Op
			Carrier   string
		}
		if err := json.Unmarshal(rf.Replay, &rp); err != nil {
			return 2, err
		}
		var schemas []schemaSpec
		for _, s := range rp.Schemas {
			ch, err := parseChart(string(s.Data.Chart))
			if err != nil {
				return 2, err
			}
			schemas = append(schemas, schemaSpec{Version: s.Version, Chart: ch, Templates: len(s.Data.Transactions) > 0})
		}
		r := ev.Start("C29", ev.LevelExploration, time.Minute, time.Minute)
		c := &c29{r: r, outcomes: newCounter(), samples: ev.NewSamples(1)}
		base, err := lx.Boot(ctx, []lx.LedgerSpec{{Name: "l1"}})
		if err != nil {
			return 2, err
		}
		start, err := bootWith(ctx, base, schemas, rp.Seed)
		if err != nil {
			return 2, err
		}
		c.run(ctx, start, func() *refState {
			ref := newRefState(schemas)
			for _, op := range rp.Seed {
				ref.commit(op)
			}
			return ref
		}, c29Case{Group: rp.Group, Mode: rp.Mode, Schemas: schemas, Seed: rp.Seed, Ops: rp.Ops, Carrier: rp.Carrier})
		return r.Finish(ev.Coverage{"evaluations": 1, "distinct_nontrivial": 1, "rule": "replay of " + path, "samples": []any{}, "exhaustive": false, "outcomes": c.outcomes.snapshot()}, nil), nil
	case "C30":
		var rp struct {
			Chart      json.RawMessage
			SchemaData *struct {
				Transactions json.RawMessage
				Queries      json.RawMessage
			}
			Shared *struct {
				InsertsFirst string
				Ledgers      []struct {
					Name       string
					GoForm     bool
					SchemaData struct {
						Chart        json.RawMessage
						Transactions json.RawMessage
						Queries      json.RawMessage
					}
				}
			}
		}
		if err := json.Unmarshal(rf.Replay, &rp); err != nil {
			return 2, err
		}
		ch, err := parseChart(string(rp.Chart))
		if err != nil {
			return 2, err
		}
		r := ev.Start("C30", ev.LevelExploration, time.Minute, time.Minute)
		c := &c30{r: r, st: &c30Stats{structOnlyDiffs: newCounter(), stages: newCounter()}, samples: ev.NewSamples(1), shared: newSharedStats()}
		if rp.Shared != nil {
			// shared-bucket scenario: two ledgers of one bucket, one version label
			if len(rp.Shared.Ledgers) != 2 || rp.Shared.Ledgers[0].Name != sharedLedgers[0] || rp.Shared.Ledgers[1].Name != sharedLedgers[1] {
				return 2, fmt.Errorf("replay: a shared-bucket scenario names ledgers %v in this order", sharedLedgers)
			}
			addrs := Addresses([]string{"bank", "users", "007", "x7", "12", `"<&>"`, "a7b", ""}, 4)
			var ss [2]*sharedSchema
			for i, l := range rp.Shared.Ledgers {
				lch, err := parseChart(string(l.SchemaData.Chart))
				if err != nil {
					return 2, err
				}
				if ss[i] = c.prepareShared(lch, string(l.SchemaData.Transactions), string(l.SchemaData.Queries), l.GoForm, addrs); ss[i] == nil {
					return 2, fmt.Errorf("replay: schema of %s is not valid", l.Name)
				}
			}
			first := 0
			if rp.Shared.InsertsFirst == sharedLedgers[1] {
				first = 1
			}
			boot2, err := lx.Boot(ctx, []lx.LedgerSpec{{Name: sharedLedgers[0]}, {Name: sharedLedgers[1]}})
			if err != nil {
				return 2, err
			}
			c.sharedScenario(ctx, boot2, ss, first, addrs)
			return r.Finish(ev.Coverage{"evaluations": c.st.evals.Load(), "distinct_nontrivial": 1, "rule": "replay of " + path, "samples": []any{}, "exhaustive": false,
				"reads_by_path": c.shared.reads.snapshot()}, nil), nil
		}
		boot, err := lx.Boot(ctx, []lx.LedgerSpec{{Name: "l1"}})
		if err != nil {
			return 2, err
		}
		it := dbItem{ch: ch, addrs: Addresses([]string{"bank", "users", "007", "x7", "12", `"<&>"`, "a7b", ""}, 4)}
		if rp.SchemaData != nil {
			it.tx, it.q = string(rp.SchemaData.Transactions), string(rp.SchemaData.Queries)
		}
		for _, goForm := range []bool{false, true} {
			it.goForm = goForm
			c.dbBatch(ctx, boot, []dbItem{it})
		}
		return r.Finish(ev.Coverage{"evaluations": c.st.evals.Load(), "distinct_nontrivial": 1, "rule": "replay of " + path, "samples": []any{}, "exhaustive": false}, nil), nil
	case "C32":
		var rp struct {
			StartState string
			Elements   []string
			Options    bulkOpts
			Deadlock   *faultSpec
		}
		if err := json.Unmarshal(rf.Replay, &rp); err != nil {
			return 2, err
		}
		byName := map[string]bulkElem{}
		for _, e := range c32Menu() {
			byName[e.Name] = e
		}
		var elems []bulkElem
		for _, n := range rp.Elements {
			e, ok := byName[n]
			if !ok {
				return 2, fmt.Errorf("unknown element %q", n)
			}
			elems = append(elems, e)
		}
		r := ev.Start("C32", ev.LevelExploration, 2*time.Minute, 2*time.Minute)
		c := &c32{r: r, outcomes: newCounter(), notes: newCounter(), faultStmts: newCounter(), samples: ev.NewSamples(1)}
		states, _, stErr := c32States(ctx)
		st, ok := states[rp.StartState]
		if !ok {
			return 2, fmt.Errorf("start state %q not available: %v", rp.StartState, stErr)
		}
		startObs, err := observeState(ctx, st)
		if err != nil {
			return 2, err
		}
		solo, err := soloRun(ctx, st, elems, nil)
		if err != nil {
			return 2, err
		}
		soloTx, _, err := soloRunInTx(ctx, st, elems, nil, false)
		if err != nil {
			return 2, err
		}
		bc := bulkCase{State: rp.StartState, Elems: elems, Opts: rp.Options}
		base := &c32Ref{startObs: startObs, solo: solo, soloTx: soloTx, exact: true}
		und := c.check(ctx, st, bc, func(map[pgsim.SeqKey]int64) (*c32Ref, error) { return base, nil })
		if rp.Deadlock != nil && und != nil {
			// the recorded fault run: the same bulk with one element a deadlock victim
			fr := &faultRefs{ctx: ctx, start: st, elems: elems, state: rp.StartState, startObs: startObs,
				solo: solo, soloTx: soloTx, undSeqs: und.seqs, cache: map[string]*c32Ref{}}
			bc.Fault = &faultSpec{Elem: rp.Deadlock.Elem, At: rp.Deadlock.At}
			e, mode := bc.Fault.Elem, bc.Opts.mode()
			c.check(ctx, st, bc, func(drawn map[pgsim.SeqKey]int64) (*c32Ref, error) { return fr.get(mode, e, drawn) })
		}
		for k, v := range c.notes.snapshot() {
			r.Note(fmt.Sprintf("%s (x%d)", k, v))
		}
		return r.Finish(ev.Coverage{"evaluations": 1, "distinct_nontrivial": 1, "rule": "replay of " + path, "samples": []any{}, "exhaustive": false, "outcomes": c.outcomes.snapshot()}, nil), nil
	}
	return 2, fmt.Errorf("replay: property %q is not a pschema check", rf.Property)
}
