// vcheckp: development driver for the pschema checks only (the shared driver is cmd/vcheck).
package main

import (
	"fmt"
	"os"

	"github.com/formancehq/ledger/verifh/pschema"
	"github.com/formancehq/ledger/verifh/reg"
)

func main() {
	if len(os.Args) == 3 && os.Args[1] == "replay" {
		code, err := pschema.Replay(os.Args[2])
		if err != nil {
			fmt.Println("ENGINE-ERROR replay:", err)
		}
		os.Exit(code)
	}
	if len(os.Args) < 3 || os.Args[1] != "run" {
		fmt.Println("usage: vcheckp run <ID> | replay <file>")
		os.Exit(2)
	}
	c, ok := reg.Lookup(os.Args[2])
	if !ok {
		fmt.Printf("ENGINE-ERROR property=%s not registered\n", os.Args[2])
		os.Exit(2)
	}
	os.Exit(c())
}
