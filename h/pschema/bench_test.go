package pschema

import (
	"testing"
	"time"

	"github.com/formancehq/ledger/verifh/ev"
)

func BenchmarkPure(b *testing.B) {
	b.Setenv("VERIF_ROOT", b.TempDir())
	f := spineFamily("spine-h2", []MetaOpt{MetaNone, MetaDefault}, 2, 1<<30, 4, 0)
	r := ev.Start("C30", ev.LevelExploration, time.Hour, time.Hour)
	c := &c30{r: r, st: &c30Stats{structOnlyDiffs: newCounter(), stages: newCounter()}, samples: ev.NewSamples(1)}
	b.ResetTimer()
	for i := 0; i < b.N; i++ {
		c.pure(f.At((i*7919)%f.Count), f.Addrs)
	}
}
