package pschema

import (
	"context"
	"database/sql"
	"fmt"
	"sort"
	"strings"
	"sync"

	"github.com/uptrace/bun"

	ledger "github.com/formancehq/ledger/internal"
	ledgercontroller "github.com/formancehq/ledger/internal/controller/ledger"
	"github.com/formancehq/ledger/verifh/pgsim"
	"github.com/formancehq/ledger/verifh/world"
)

// ---------------------------------------------------------------------------------
// C32, fault dimension: one element of the bulk is a deadlock victim.
//
// A request that loses a Postgres deadlock (SQLSTATE 40P01) is retried by the ledger
// (logProcessor.forgeLog -> forgeLogRetry). Inside a bulk the retry runs in the middle of
// the bulk's own transaction handling (the atomic bulk's sql transaction, the savepoint of
// the element), which is exactly where "all or none" and "in order" can break. The fault
// runs repeat a bulk with ONE statement of ONE element's first attempt refused with
// 40P01, at every driver-call position, and judge the outcome with the same oracle as
// the undisturbed bulk.
// ---------------------------------------------------------------------------------

// faultSpec: the At-th statement (exec/query driver call other than savepoint control;
// 1-based) issued while the controller serves element Elem fails, once, with SQLSTATE 40P01.
type faultSpec struct {
	Elem int    `json:"element"`
	At   int    `json:"driverCall"`
	SQL  string `json:"statement,omitempty"` // the refused statement (filled in by the run)
}

// burnSpec: sequence values drawn by an unrelated session just before request Before.
// Sequences are not transactional: the ids the victim's first attempt drew before it was
// refused are lost, exactly as if somebody else had drawn them. "The same request on its
// own" for the elements of a disturbed bulk is therefore the request issued after those
// values are gone.
type burnSpec struct {
	Before int
	D      map[pgsim.SeqKey]int64
}

func (b *burnSpec) apply(ctx context.Context, w *world.World, i int) error {
	if b == nil || b.Before != i {
		return nil
	}
	for _, k := range sortedSeqKeys(b.D) {
		for n := int64(0); n < b.D[k]; n++ {
			if _, err := w.SQL.ExecContext(ctx, fmt.Sprintf(`select nextval('"%s"."%s"')`, k.Schema, k.Name)); err != nil {
				return fmt.Errorf("burn %s.%s: %w", k.Schema, k.Name, err)
			}
		}
	}
	return nil
}

func sortedSeqKeys(m map[pgsim.SeqKey]int64) []pgsim.SeqKey {
	keys := make([]pgsim.SeqKey, 0, len(m))
	for k := range m {
		keys = append(keys, k)
	}
	sort.Slice(keys, func(i, j int) bool {
		if keys[i].Schema != keys[j].Schema {
			return keys[i].Schema < keys[j].Schema
		}
		return keys[i].Name < keys[j].Name
	})
	return keys
}

// seqDelta = b - a, zero entries dropped.
func seqDelta(a, b map[pgsim.SeqKey]int64) map[pgsim.SeqKey]int64 {
	out := map[pgsim.SeqKey]int64{}
	for k, v := range b {
		if d := v - a[k]; d != 0 {
			out[k] = d
		}
	}
	return out
}

func seqDeltaString(d map[pgsim.SeqKey]int64) string {
	var parts []string
	for _, k := range sortedSeqKeys(d) {
		parts = append(parts, fmt.Sprintf("%s.%s%+d", k.Schema, k.Name, d[k]))
	}
	return strings.Join(parts, ",")
}

// elemTracker attributes driver calls to the element the bulker is processing (it sits
// between the Bulker and the controller and at the driver boundary) and injects the fault.
type elemTracker struct {
	mu         sync.Mutex
	pg         *pgsim.DB
	cur        int   // index of the controller write call in progress, -1 between elements
	perCall    []int // statements (exec/query driver calls, savepoint control excluded) issued during each controller write call
	concurrent bool  // two element calls overlapped (never in a sequential / atomic bulk)

	fCall, fAt int // refuse the fAt-th driver call of write call fCall (fAt == 0: no fault)
	fired      bool
	firedSQL   string
	entrySeq   map[pgsim.SeqKey]int64 // sequences when the faulted element's call began
	faultSeq   map[pgsim.SeqKey]int64 // sequences when the statement was refused
}

func newElemTracker(pg *pgsim.DB) *elemTracker { return &elemTracker{pg: pg, cur: -1} }

func (t *elemTracker) enter() func() {
	t.mu.Lock()
	if t.cur >= 0 {
		t.concurrent = true
	}
	t.cur = len(t.perCall)
	t.perCall = append(t.perCall, 0)
	if t.fAt > 0 && t.cur == t.fCall {
		t.entrySeq = t.pg.SeqPositions()
	}
	t.mu.Unlock()
	return func() {
		t.mu.Lock()
		t.cur = -1
		t.mu.Unlock()
	}
}

func (t *elemTracker) hook(_ context.Context, _ *pgsim.Session, op, q string) error {
	if op != "exec" && op != "query" {
		return nil
	}
	t.mu.Lock()
	defer t.mu.Unlock()
	if t.cur < 0 || savepointControl(q) {
		return nil
	}
	t.perCall[t.cur]++
	if t.fAt > 0 && !t.fired && t.cur == t.fCall && t.perCall[t.cur] == t.fAt {
		t.fired, t.firedSQL = true, q
		t.faultSeq = t.pg.SeqPositions()
		return &pgsim.StmtFault{Code: "40P01", Msg: "deadlock detected"}
	}
	return nil
}

// savepointControl: SAVEPOINT, RELEASE SAVEPOINT and ROLLBACK TO SAVEPOINT never wait for a
// lock, so the server can never choose them as a deadlock victim (a deadlock is detected on a
// statement that is waiting); they are not fault positions. (BEGIN, COMMIT and ROLLBACK
// are separate driver operations, not exec/query calls.)
func savepointControl(q string) bool {
	f := strings.Fields(strings.ToUpper(q))
	if len(f) == 0 {
		return false
	}
	switch f[0] {
	case "SAVEPOINT", "RELEASE":
		return true
	case "ROLLBACK":
		return len(f) > 1 && f[1] == "TO"
	}
	return false
}

// trackedCtrl is a transparent controller: it only tells the tracker when the bulker
// enters and leaves a write.
type trackedCtrl struct {
	ledgercontroller.Controller
	t *elemTracker
}

func (c *trackedCtrl) BeginTX(ctx context.Context, o *sql.TxOptions) (ledgercontroller.Controller, *bun.Tx, error) {
	in, tx, err := c.Controller.BeginTX(ctx, o)
	if err != nil {
		return nil, nil, err
	}
	return &trackedCtrl{Controller: in, t: c.t}, tx, nil
}

func (c *trackedCtrl) CreateTransaction(ctx context.Context, p ledgercontroller.Parameters[ledgercontroller.CreateTransaction]) (*ledger.Log, *ledger.CreatedTransaction, bool, error) {
	defer c.t.enter()()
	return c.Controller.CreateTransaction(ctx, p)
}

func (c *trackedCtrl) RevertTransaction(ctx context.Context, p ledgercontroller.Parameters[ledgercontroller.RevertTransaction]) (*ledger.Log, *ledger.RevertedTransaction, bool, error) {
	defer c.t.enter()()
	return c.Controller.RevertTransaction(ctx, p)
}

func (c *trackedCtrl) SaveTransactionMetadata(ctx context.Context, p ledgercontroller.Parameters[ledgercontroller.SaveTransactionMetadata]) (*ledger.Log, bool, error) {
	defer c.t.enter()()
	return c.Controller.SaveTransactionMetadata(ctx, p)
}

func (c *trackedCtrl) SaveAccountMetadata(ctx context.Context, p ledgercontroller.Parameters[ledgercontroller.SaveAccountMetadata]) (*ledger.Log, bool, error) {
	defer c.t.enter()()
	return c.Controller.SaveAccountMetadata(ctx, p)
}

func (c *trackedCtrl) DeleteTransactionMetadata(ctx context.Context, p ledgercontroller.Parameters[ledgercontroller.DeleteTransactionMetadata]) (*ledger.Log, bool, error) {
	defer c.t.enter()()
	return c.Controller.DeleteTransactionMetadata(ctx, p)
}

func (c *trackedCtrl) DeleteAccountMetadata(ctx context.Context, p ledgercontroller.Parameters[ledgercontroller.DeleteAccountMetadata]) (*ledger.Log, bool, error) {
	defer c.t.enter()()
	return c.Controller.DeleteAccountMetadata(ctx, p)
}

// Elements whose payload is invalid never reach the controller: the j-th controller write
// call of a sequential / atomic bulk serves the j-th valid element.
func callOfElem(elems []bulkElem, e int) int {
	n := 0
	for i := 0; i < e; i++ {
		if elems[i].Solo.Kind != "invalid" {
			n++
		}
	}
	return n
}

func elemOfCall(elems []bulkElem, call int) int {
	n := 0
	for i, e := range elems {
		if e.Solo.Kind == "invalid" {
			continue
		}
		if n == call {
			return i
		}
		n++
	}
	return -1
}

// stmtKind is the leading keyword(s) of a statement (evidence: what the fault hit).
func stmtKind(q string) string {
	f := strings.Fields(strings.ToUpper(q))
	switch {
	case len(f) == 0:
		return "?"
	case f[0] == "INSERT" && len(f) > 2:
		return "INSERT " + relName(f[2])
	case f[0] == "UPDATE" && len(f) > 1:
		return "UPDATE " + relName(f[1])
	}
	return f[0]
}

func relName(s string) string {
	s = strings.Trim(s, `"`)
	if i := strings.LastIndex(s, "."); i >= 0 {
		s = s[i+1:]
	}
	return strings.ToLower(strings.Trim(s, `"(`))
}

// refFor builds the reference ("the same requests on their own") of one fault run once the
// run has told which ids the victim's first attempt drew (d, measured at the driver
// boundary, not inferred from the implementation).
//
//   - atomic bulks: the same calls inside one Controller.BeginTX transaction, the lost ids
//     drawn by an unrelated session just before the victim's request; exact at every
//     position.
//   - sequential bulks on an in-use ledger: the same, as separate requests.
//   - sequential bulks on an initializing ledger (pristine, just imported): every request
//     re-runs the state tracker's sequence resynchronisation until one succeeds, so ids
//     lost before a request are handed out again while ids lost inside it are not; the
//     undisturbed reference is exact only when the disturbed bulk ends with the sequences
//     where the undisturbed bulk leaves them (ref.seqsMustMatch); otherwise the elements
//     from the victim on are judged structurally only.
type faultRefs struct {
	ctx      context.Context
	start    *pgsim.DB
	elems    []bulkElem
	state    string
	startObs string
	solo     []soloStep
	soloTx   []soloStep
	undSeqs  map[pgsim.SeqKey]int64
	cache    map[string]*c32Ref
}

func (fr *faultRefs) get(mode string, e int, d map[pgsim.SeqKey]int64) (*c32Ref, error) {
	base := &c32Ref{startObs: fr.startObs, solo: fr.solo, soloTx: fr.soloTx, exact: true}
	if mode == "sequential" && fr.state != "in-use" {
		r := *base
		r.seqsMustMatch = fr.undSeqs
		return &r, nil
	}
	if len(d) == 0 {
		return base, nil
	}
	for _, v := range d {
		if v < 0 {
			// a sequence moved backwards during the element (setval): nothing an unrelated
			// session could reproduce; judge structurally
			r := *base
			r.exact = false
			return &r, nil
		}
	}
	key := fmt.Sprintf("%s|%d|%s", mode, e, seqDeltaString(d))
	if r, ok := fr.cache[key]; ok {
		return r, nil
	}
	burn := &burnSpec{Before: e, D: d}
	r := *base
	var err error
	if mode == "atomic" {
		r.soloTx, r.allApplied, err = soloRunInTx(fr.ctx, fr.start, fr.elems, burn, true)
	} else {
		r.solo, err = soloRun(fr.ctx, fr.start, fr.elems, burn)
	}
	if err != nil {
		return nil, err
	}
	fr.cache[key] = &r
	return &r, nil
}
