package pschema

import (
	"context"
	"encoding/json"
	"fmt"
	"runtime/debug"
	"sort"
	"strings"
	"sync"
	"sync/atomic"
	"time"

	ledger "github.com/formancehq/ledger/internal"
	ledgercontroller "github.com/formancehq/ledger/internal/controller/ledger"
	"github.com/formancehq/ledger/internal/storage/common"
	"github.com/formancehq/ledger/verifh/ev"
	"github.com/formancehq/ledger/verifh/lx"
	"github.com/formancehq/ledger/verifh/pgsim"
	"github.com/formancehq/ledger/verifh/reg"
)

// ---------------------------------------------------------------------------------
// C30 — Schemas round-trip without changing meaning.
// ---------------------------------------------------------------------------------

// structural difference between two implementation charts (labels and nil-vs-empty
// metadata maps are not differences of meaning). "" = same.
func segDiff(a, b ledger.ChartSegment) string {
	switch {
	case a.Account != nil && b.Account == nil:
		return "account-lost"
	case a.Account == nil && b.Account != nil:
		return "account-gained"
	}
	if a.Account != nil {
		for k, av := range a.Account.Metadata {
			bv, ok := b.Account.Metadata[k]
			switch {
			case !ok:
				return "metadata-lost"
			case (av.Default == nil) != (bv.Default == nil):
				if av.Default != nil {
					return "metadata-default-lost"
				}
				return "metadata-default-gained"
			case av.Default != nil && *av.Default != *bv.Default:
				return "metadata-default-changed"
			}
		}
		for k := range b.Account.Metadata {
			if _, ok := a.Account.Metadata[k]; !ok {
				return "metadata-gained"
			}
		}
	}
	for k, as := range a.FixedSegments {
		bs, ok := b.FixedSegments[k]
		if !ok {
			return "fixed-segment-lost"
		}
		if d := segDiff(as, bs); d != "" {
			return d
		}
	}
	for k := range b.FixedSegments {
		if _, ok := a.FixedSegments[k]; !ok {
			return "fixed-segment-gained"
		}
	}
	switch {
	case a.VariableSegment != nil && b.VariableSegment == nil:
		return "variable-segment-lost"
	case a.VariableSegment == nil && b.VariableSegment != nil:
		return "variable-segment-gained"
	case a.VariableSegment != nil:
		ap, bp := a.VariableSegment.Pattern, b.VariableSegment.Pattern
		switch {
		case ap != nil && bp == nil:
			return "pattern-lost"
		case ap == nil && bp != nil:
			return "pattern-gained"
		case ap != nil && *ap != *bp:
			return "pattern-changed"
		}
		return segDiff(a.VariableSegment.ChartSegment, b.VariableSegment.ChartSegment)
	}
	return ""
}

func chartDiff(a, b ledger.ChartOfAccounts) string {
	return segDiff(ledger.ChartSegment{FixedSegments: a}, ledger.ChartSegment{FixedSegments: b})
}

func classDiff(orig, got Class) string {
	switch {
	case orig.Accepted && !got.Accepted:
		return "accepted-became-rejected"
	case !orig.Accepted && got.Accepted:
		return "rejected-became-accepted"
	case !orig.Equal(got):
		return "default-metadata-changed"
	}
	return ""
}

// schema-level menus -----------------------------------------------------------------

const tplPay = "vars {\n account $dst\n}\nsend [USD/2 10] (\n source = @world\n destination = $dst\n)"

var txTemplateMenu = []string{
	"", // key absent
	`{}`,
	`{"PAY":{"description":"pay","script":` + jstr(tplPay) + `}}`,
	`{"PAY":{"description":"pay \"quoted\" <&> é ","script":` + jstr(tplPay) + `,"runtime":"machine"},` +
		`"fee-2":{"description":"","script":` + jstr("send [EUR 1] (\n source = @world\n destination = @bank\n)\nset_tx_meta(\"kind\", \"fee\")") + `,"runtime":"experimental-interpreter"}}`,
}

var queryTemplateMenu = []string{
	"",
	`{}`,
	`{"BY_BANK":{"resource":"accounts","body":{"$match":{"address":"bank:"}}}}`,
	`{"BY_BANK":{"description":"accounts of a bank","resource":"accounts","vars":{"id":"string","min":{"type":"int","default":9007199254740993}},"body":{"$and":[{"$match":{"address":"bank:${id}"}},{"$gte":{"balance[USD/2]":"${min}"}}]}},` +
		`"VOLS":{"resource":"volumes","params":{"pageSize":42,"groupBy":2}},` +
		`"TXS":{"description":"é<>","resource":"transactions","params":{"pageSize":5,"sort":"id:desc","expand":["volumes"]},"body":{"$match":{"metadata[k]":"v"}}}}`,
}

func jstr(s string) string {
	var sb strings.Builder
	jsonString(&sb, s)
	return sb.String()
}

func schemaDataJSON(chart, tx, q string) string {
	s := `{"chart":` + chart
	if tx != "" {
		s += `,"transactions":` + tx
	}
	if q != "" {
		s += `,"queries":` + q
	}
	return s + "}"
}

// families ---------------------------------------------------------------------------

type chartFamily struct {
	Name  string
	Desc  string
	Count int
	At    func(i int) Chart
	Addrs []string
	// DB: 0 = pure Go only; 1 = also through InsertSchema with the richest templates;
	// 2 = also through InsertSchema with every (transactions, queries) menu pair
	DB int
}

var tokens4 = []string{"bank", "users", "007", "x7"}

var varsIDMenu = []VarOpt{{Label: "id"}, {Label: "id", Pat: Pat3Digits}}

// spineAddresses: every address of < maxLen segments over the 4 tokens, and every address
// of exactly maxLen segments whose first segment is `bank` (the spine's root).
func spineAddresses(maxLen int) []string {
	var out []string
	for _, a := range Addresses(tokens4, maxLen) {
		if strings.Count(a, ":") < maxLen-1 || strings.HasPrefix(a, "bank:") {
			out = append(out, a)
		}
	}
	return out
}

// spine: root {bank: any node of height<=h (size<=maxSize), users?: leaf}, inner fixed key "users"
func spineFamily(name string, metas []MetaOpt, height, maxSize, addrLen int, db int) chartFamily {
	m := Menu{Fixed: []string{"users"}, Vars: varsIDMenu, Metas: metas}
	nodes := m.Nodes(height, maxSize)
	leaves := m.Nodes(0, 1)
	k := 1 + len(leaves)
	return chartFamily{
		Name:  name,
		Desc:  fmt.Sprintf("root {bank: every segment tree of height<=%d and <=%d segments over fixed child `users`, variable child `$id` without/with pattern %s, account via leaf or .self, %d .metadata choices; optional second root `users` leaf (%d choices)}", height, maxSize, Pat3Digits.Re, len(metas), len(leaves)),
		Count: len(nodes) * k,
		At: func(i int) Chart {
			c := Chart{"bank": nodes[i/k]}
			if j := i % k; j > 0 {
				c["users"] = leaves[j-1]
			}
			return c
		},
		Addrs: spineAddresses(addrLen),
		DB:    db,
	}
}

// wide: root keys bank, users each absent or any node of height<=1 over fixed children bank, users
func wideFamily(name string, metas []MetaOpt, db int) chartFamily {
	m := Menu{Fixed: []string{"bank", "users"}, Vars: varsIDMenu, Metas: metas}
	nodes := m.Nodes(1, 1<<30)
	k := 1 + len(nodes)
	return chartFamily{
		Name:  name,
		Desc:  fmt.Sprintf("root keys `bank`, `users` each absent or every segment tree of height<=1 over fixed children `bank`, `users`, variable child `$id` without/with pattern, leaf/.self accounts, %d .metadata choices", len(metas)),
		Count: k*k - 1,
		At: func(i int) Chart {
			i++ // skip the empty chart
			c := Chart{}
			if a := i / k; a > 0 {
				c["bank"] = nodes[a-1]
			}
			if b := i % k; b > 0 {
				c["users"] = nodes[b-1]
			}
			return c
		},
		Addrs: Addresses(tokens4, 4),
		DB:    db,
	}
}

func singleRootFamily(name string, metas []MetaOpt, db int) chartFamily {
	m := Menu{Fixed: []string{"bank", "users"}, Vars: varsIDMenu, Metas: metas}
	nodes := m.Nodes(1, 1<<30)
	return chartFamily{
		Name:  name,
		Desc:  fmt.Sprintf("root {bank: every segment tree of height<=1 over fixed children `bank`, `users`, variable `$id` without/with pattern, %d .metadata choices}", len(metas)),
		Count: len(nodes),
		At:    func(i int) Chart { return Chart{"bank": nodes[i]} },
		Addrs: Addresses(tokens4, 4),
		DB:    db,
	}
}

// hand-written charts with features the enumerated menus leave out (escaping, several
// patterns, unanchored patterns, labels, fixed key that also matches the sibling pattern,
// depth 4, unusual metadata keys and values).
func specialFamily() chartFamily {
	leaf := func(mo MetaOpt) *Node { return &Node{HasMeta: mo.Has, Meta: mo.Meta} }
	uni := MetaOpt{Has: true, Meta: map[string]*string{"cl\u00e9 \u00e9": sp("v \"q\" \\ <&> \u2028 \u00e9"), "a.b": sp(""), ".self": sp("x"), "nodef": nil}}
	charts := []Chart{
		{"bank": {VarLabel: "id", VarPat: PatEscaped, Var: leaf(MetaDefault)}},
		{"bank": {VarLabel: "id", VarPat: PatHas7, Var: leaf(MetaNone)}},
		{"bank": {VarLabel: "id", VarPat: PatPrefixX, Var: leaf(uni)}},
		{"bank": {VarLabel: "bank_ID-1", VarPat: Pat3Digits, Var: leaf(MetaTwo), Fixed: map[string]*Node{"007": leaf(MetaDefault)}}},
		{"bank": {VarLabel: "id", VarPat: Pat3Digits, Var: leaf(MetaTwo), Fixed: map[string]*Node{"007": {Fixed: map[string]*Node{"x7": leaf(MetaNone)}}}}},
		{"bank": {Self: true, HasMeta: true, Meta: MetaEmpty.Meta, VarLabel: "a", Var: &Node{VarLabel: "b", VarPat: Pat3Digits, Var: &Node{Self: true, VarLabel: "c", VarPat: PatPrefixX, Var: leaf(MetaDefault)}}}},
		{"bank": {Fixed: map[string]*Node{"users": {Fixed: map[string]*Node{"bank": {Fixed: map[string]*Node{"users": leaf(uni)}, Self: true}}}}}, "users": leaf(MetaEmpty), "x7": leaf(MetaNoDef)},
		{"bank": {VarLabel: "id", Var: &Node{VarLabel: "id", Var: &Node{VarLabel: "id", Var: leaf(MetaDefault)}}}},
		{"007": leaf(MetaDefault), "bank": {Self: true, Fixed: map[string]*Node{"x7": leaf(MetaNone)}, VarLabel: "v", VarPat: PatHas7, Var: &Node{Fixed: map[string]*Node{"users": leaf(MetaTwo)}}}},
		{"bank": leaf(MetaNone), "users": {VarLabel: "id", VarPat: PatEscaped, Var: &Node{Self: true, HasMeta: true, Meta: uni.Meta, Fixed: map[string]*Node{"bank": leaf(MetaNone)}}}},
	}
	toks := []string{"bank", "users", "007", "x7", "12", `"<&>"`, "a7b", ""}
	return chartFamily{
		Name:  "special",
		Desc:  "hand-written charts: patterns needing JSON/HTML escaping, start-anchored and unanchored patterns, fixed sibling that also matches the variable pattern, labels with _ and -, depth 4, metadata keys/values with quotes, backslash, <&>, U+2028, dots, empty value, empty .metadata",
		Count: len(charts),
		At:    func(i int) Chart { return charts[i] },
		Addrs: Addresses(toks, 4),
		DB:    2,
	}
}

// run ---------------------------------------------------------------------------------

type c30Stats struct {
	evals, charts, dbSchemas              atomic.Int64
	accepted, rejected, withDefaults      atomic.Int64
	nontrivial, existentialDiffers        atomic.Int64
	patternCharts, selfCharts, metaCharts atomic.Int64
	structOnlyDiffs                       *counter
	stages                                *counter
}

type c30 struct {
	r       *ev.Run
	st      *c30Stats
	samples *ev.Samples
	seen    sync.Map // chart JSON -> struct{}: coverage counters count DISTINCT charts
	shared  *sharedStats
}

func (c *c30) violation(stage, kind string, ch Chart, extra map[string]any, format string, a ...any) {
	rep := map[string]any{"stage": stage, "chart": json.RawMessage(ch.JSON())}
	for k, v := range extra {
		rep[k] = v
	}
	c.r.Violation("C30:"+stage+":"+kind, fmt.Sprintf(format, a...), rep)
}

// compareChart compares the classification of every address by `got` with `want`
// (the classification by the original chart). Returns the number of evaluations.
func (c *c30) compareChart(stage string, ch Chart, orig *ledger.ChartOfAccounts, want []Class, got *ledger.ChartOfAccounts, addrs []string, extra map[string]any) {
	sd := chartDiff(*orig, *got)
	bad := false
	for i, a := range addrs {
		g := ImplClass(got, a)
		if d := classDiff(want[i], g); d != "" {
			kind := sd
			if kind == "" {
				kind = d
			}
			if !bad {
				e := map[string]any{"address": a, "before": want[i].String(), "after": g.String()}
				for k, v := range extra {
					e[k] = v
				}
				c.violation(stage, kind, ch, e, "chart %s: address %q was %s before and is %s after %s (%s)", ch.JSON(), a, want[i], g, stage, d)
			}
			bad = true
		}
	}
	c.st.evals.Add(int64(len(addrs)))
	c.st.stages.add(stage, int64(len(addrs)))
	if !bad && sd != "" {
		c.st.structOnlyDiffs.add(stage+":"+sd, 1)
	}
}

// pure-Go part for one chart. Returns the implementation's parse of the JSON form and
// the original classification, or nil when the chart could not be evaluated.
func (c *c30) pure(ch Chart, addrs []string) (*ledger.ChartOfAccounts, []Class) {
	st := c.st
	j0 := ch.JSON()
	var A ledger.ChartOfAccounts
	if err := json.Unmarshal([]byte(j0), &A); err != nil {
		c.r.EngineError(fmt.Sprintf("generator produced a chart the ledger rejects: %s: %v", j0, err))
		return nil, nil
	}
	G := ch.Go()

	// reference vs implementation, on the JSON form and on the Go form
	want := make([]Class, len(addrs))
	wantG := make([]Class, len(addrs))
	nAcc, nDef := 0, 0
	nExist := int64(0)
	for i, a := range addrs {
		ref := ch.Classify(a)
		ca := ImplClass(&A, a)
		want[i] = ca
		if d := classDiff(ref, ca); d != "" {
			c.violation("reference-json-form", refKind(ref, ca), ch, map[string]any{"address": a, "reference": ref.String(), "implementation": ca.String()},
				"chart %s: reference matcher says %q is %s, FindAccountSchema (chart read from JSON) says %s", j0, a, ref, ca)
		}
		cg := ImplClass(&G, a)
		wantG[i] = cg
		if d := classDiff(ref, cg); d != "" {
			c.violation("reference-go-form", refKind(ref, cg), ch, map[string]any{"address": a, "reference": ref.String(), "implementation": cg.String()},
				"chart %s: reference matcher says %q is %s, FindAccountSchema (chart built in Go) says %s", j0, a, ref, cg)
		}
		if ref.Accepted {
			nAcc++
			if len(ref.Defaults) > 0 {
				nDef++
			}
		}
		if ref.Accepted != ch.AcceptsExistential(a) {
			nExist++
		}
	}
	st.evals.Add(int64(2 * len(addrs)))
	st.stages.add("reference", int64(2*len(addrs)))
	if _, dup := c.seen.LoadOrStore(j0, struct{}{}); !dup {
		st.charts.Add(1)
		st.accepted.Add(int64(nAcc))
		st.rejected.Add(int64(len(addrs) - nAcc))
		st.withDefaults.Add(int64(nDef))
		if nAcc > 0 && nAcc < len(addrs) {
			st.nontrivial.Add(1)
		}
		if strings.Contains(j0, `".pattern"`) {
			st.patternCharts.Add(1)
		}
		if strings.Contains(j0, `".self"`) {
			st.selfCharts.Add(1)
		}
		if strings.Contains(j0, `"default"`) {
			st.metaCharts.Add(1)
		}
	} else {
		nExist = 0
	}
	st.existentialDiffers.Add(nExist)

	// JSON marshal -> unmarshal -> marshal
	for _, form := range []struct {
		stage string
		c     *ledger.ChartOfAccounts
		want  []Class
	}{{"roundtrip-json", &A, want}, {"roundtrip-json-goform", &G, wantG}} {
		w := form.want
		j1, err := json.Marshal(form.c)
		if err != nil {
			c.violation(form.stage, "marshal-failed", ch, nil, "chart %s: MarshalJSON failed: %v", j0, err)
			continue
		}
		var C ledger.ChartOfAccounts
		if err := json.Unmarshal(j1, &C); err != nil {
			c.violation(form.stage, "reread-failed", ch, map[string]any{"marshalled": string(j1)}, "chart %s marshals to %s which UnmarshalJSON rejects: %v", j0, j1, err)
			continue
		}
		j2, err := json.Marshal(&C)
		if err != nil || string(j1) != string(j2) {
			c.violation(form.stage, "unstable", ch, map[string]any{"first": string(j1), "second": string(j2)}, "chart %s: marshal->unmarshal->marshal is not stable: %s then %s (%v)", j0, j1, j2, err)
		}
		c.compareChart(form.stage, ch, form.c, w, &C, addrs, map[string]any{"marshalled": string(j1)})
	}
	return &A, want
}

func refKind(ref, impl Class) string {
	switch {
	case ref.Accepted && !impl.Accepted:
		return "reference-accepts-impl-rejects"
	case !ref.Accepted && impl.Accepted:
		return "reference-rejects-impl-accepts"
	}
	return "default-metadata-differs"
}

// schemaData-level JSON round trip (chart + templates + query templates).
func (c *c30) pureSchemaData(ch Chart, tx, q string, addrs []string, A *ledger.ChartOfAccounts, want []Class) *ledger.SchemaData {
	src := schemaDataJSON(ch.JSON(), tx, q)
	var sd ledger.SchemaData
	if err := json.Unmarshal([]byte(src), &sd); err != nil {
		c.r.EngineError(fmt.Sprintf("schema data the ledger rejects: %s: %v", src, err))
		return nil
	}
	if _, err := ledger.NewSchema("v", sd); err != nil {
		c.r.EngineError(fmt.Sprintf("schema data NewSchema rejects: %s: %v", src, err))
		return nil
	}
	j1, err := json.Marshal(sd)
	if err != nil {
		c.violation("roundtrip-schemadata", "marshal-failed", ch, map[string]any{"schemaData": json.RawMessage(src)}, "schema data %s: marshal failed: %v", src, err)
		return &sd
	}
	var sd2 ledger.SchemaData
	if err := json.Unmarshal(j1, &sd2); err != nil {
		c.violation("roundtrip-schemadata", "reread-failed", ch, map[string]any{"schemaData": json.RawMessage(src), "marshalled": string(j1)}, "schema data %s marshals to %s which is rejected: %v", src, j1, err)
		return &sd
	}
	c.compareSchemaData("roundtrip-schemadata", ch, src, &sd, A, want, &sd2, addrs)
	return &sd
}

func (c *c30) compareSchemaData(stage string, ch Chart, src string, orig *ledger.SchemaData, A *ledger.ChartOfAccounts, want []Class, got *ledger.SchemaData, addrs []string) {
	extra := map[string]any{"schemaData": json.RawMessage(src)}
	if got.Chart == nil {
		c.violation(stage, "chart-lost", ch, extra, "schema %s: chart is nil after %s", src, stage)
	} else {
		c.compareChart(stage, ch, A, want, &got.Chart, addrs, extra)
	}
	if ok, a, b := sameJSON(orig.Transactions, got.Transactions); !ok {
		c.violation(stage, "transaction-templates-changed", ch, extra, "schema %s: transaction templates before %s, after %s: %s", src, a, stage, b)
	}
	if ok, a, b := sameJSON(orig.Queries, got.Queries); !ok {
		c.violation(stage, "query-templates-changed", ch, extra, "schema %s: query templates before %s, after %s: %s", src, a, stage, b)
	}
	c.st.evals.Add(2)
}

type dbItem struct {
	ch     Chart
	tx, q  string
	goForm bool
	addrs  []string
}

// dbBatch inserts every item as its own schema version through the real controller on
// a clone of the booted database, reads each back with GetSchema, then re-reads
// everything (GetSchema, ListSchemas, the INSERTED_SCHEMA logs) from a freshly attached
// world.
func (c *c30) dbBatch(ctx context.Context, boot *pgsim.DB, items []dbItem) {
	pg := boot.Clone()
	w := attachMode(pg, ledgercontroller.SchemaEnforcementAudit)
	defer w.Close()
	ctrl, err := w.Sys.GetLedgerController(ctx, "l1")
	if err != nil {
		c.r.EngineError("GetLedgerController: " + err.Error())
		return
	}
	type prepared struct {
		it   dbItem
		src  string
		sd   *ledger.SchemaData
		A    *ledger.ChartOfAccounts
		want []Class
		ver  string
	}
	var ps []prepared
	for i, it := range items {
		A, want := c.pure(it.ch, it.addrs)
		if A == nil {
			return
		}
		sd := c.pureSchemaData(it.ch, it.tx, it.q, it.addrs, A, want)
		if sd == nil {
			return
		}
		p := prepared{it: it, src: schemaDataJSON(it.ch.JSON(), it.tx, it.q), sd: sd, A: A, want: want, ver: fmt.Sprintf("v%03d", i)}
		in := *sd
		if it.goForm {
			in.Chart = it.ch.Go()
		}
		_, _, _, err := ctrl.InsertSchema(ctx, ledgercontroller.Parameters[ledgercontroller.InsertSchema]{
			Input: ledgercontroller.InsertSchema{Version: p.ver, Data: in},
		})
		if err != nil {
			if lx.Classify(err) == "ENGINE" {
				c.r.EngineError(fmt.Sprintf("InsertSchema %s: %v", p.src, err))
			} else {
				c.violation("insert", "valid-schema-rejected", it.ch, map[string]any{"schemaData": json.RawMessage(p.src)}, "InsertSchema rejected %s: %v", p.src, err)
			}
			return
		}
		got, err := ctrl.GetSchema(ctx, p.ver)
		if err != nil {
			if lx.Classify(err) == "ENGINE" {
				c.r.EngineError(fmt.Sprintf("GetSchema %s: %v", p.src, err))
				return
			}
			c.violation("roundtrip-db-get", "read-failed", it.ch, map[string]any{"schemaData": json.RawMessage(p.src)}, "GetSchema after InsertSchema of %s: %v", p.src, err)
			continue
		}
		c.compareSchemaData("roundtrip-db-get", it.ch, p.src, sd, A, want, &got.SchemaData, it.addrs)
		c.st.dbSchemas.Add(1)
		ps = append(ps, p)
	}
	// fresh process
	w2 := attachMode(pg, ledgercontroller.SchemaEnforcementAudit)
	defer w2.Close()
	ctrl2, err := w2.Sys.GetLedgerController(ctx, "l1")
	if err != nil {
		c.r.EngineError("GetLedgerController (restart): " + err.Error())
		return
	}
	listed, err := allPages(ctx, common.PaginatedQuery[any](common.InitialPaginatedQuery[any]{PageSize: 15}), ctrl2.ListSchemas)
	if err != nil {
		c.r.EngineError("ListSchemas: " + err.Error())
		return
	}
	byVer := map[string]*ledger.Schema{}
	for i := range listed {
		byVer[listed[i].Version] = &listed[i]
	}
	logs, err := lx.ListLogs(ctx, ctrl2)
	if err != nil {
		c.r.EngineError("ListLogs: " + err.Error())
		return
	}
	logByVer := map[string]*ledger.Schema{}
	for _, l := range logs {
		if is, ok := l.Data.(ledger.InsertedSchema); ok {
			s := is.Schema
			logByVer[s.Version] = &s
		}
	}
	for _, p := range ps {
		got, err := ctrl2.GetSchema(ctx, p.ver)
		if err != nil {
			c.violation("roundtrip-db-restart-get", "read-failed", p.it.ch, map[string]any{"schemaData": json.RawMessage(p.src)}, "GetSchema from a fresh process for %s: %v", p.src, err)
		} else {
			c.compareSchemaData("roundtrip-db-restart-get", p.it.ch, p.src, p.sd, p.A, p.want, &got.SchemaData, p.it.addrs)
		}
		if s := byVer[p.ver]; s == nil {
			c.violation("roundtrip-db-list", "missing", p.it.ch, map[string]any{"schemaData": json.RawMessage(p.src)}, "ListSchemas does not return inserted version %s (%d of %d listed)", p.ver, len(listed), len(ps))
		} else {
			c.compareSchemaData("roundtrip-db-list", p.it.ch, p.src, p.sd, p.A, p.want, &s.SchemaData, p.it.addrs)
		}
		if s := logByVer[p.ver]; s == nil {
			c.violation("roundtrip-db-log", "missing", p.it.ch, map[string]any{"schemaData": json.RawMessage(p.src)}, "no INSERTED_SCHEMA log carries version %s", p.ver)
		} else {
			c.compareSchemaData("roundtrip-db-log", p.it.ch, p.src, p.sd, p.A, p.want, &s.SchemaData, p.it.addrs)
		}
	}
}

func runC30() int {
	r := ev.Start("C30", ev.LevelExploration, 150*time.Second, 30*time.Minute)
	defer debug.SetGCPercent(debug.SetGCPercent(400)) // allocation-heavy (the implementation allocates an error per rejected address)
	ctx := context.Background()
	c := &c30{r: r, st: &c30Stats{structOnlyDiffs: newCounter(), stages: newCounter()}, samples: ev.NewSamples(6), shared: newSharedStats()}

	m2 := []MetaOpt{MetaNone, MetaDefault}
	m3 := []MetaOpt{MetaNone, MetaDefault, MetaNoDef}
	var fams []chartFamily
	fams = append(fams, specialFamily())
	if r.Thorough() {
		fams = append(fams,
			singleRootFamily("single-root-h1", m3, 2),
			wideFamily("wide-h1", m2, 1),
			spineFamily("spine-h2", m3, 2, 1<<30, 4, 0),
			spineFamily("spine-h3-size6", m2, 3, 6, 4, 0),
		)
	} else {
		fams = append(fams,
			singleRootFamily("single-root-h1", m2, 2),
			wideFamily("wide-h1", m2, 0),
			spineFamily("spine-h2", m2, 2, 1<<30, 4, 0),
			spineFamily("spine-h3-size5", m2, 3, 5, 4, 0),
		)
	}

	boot, err := lx.Boot(ctx, []lx.LedgerSpec{{Name: "l1"}})
	if err != nil {
		r.EngineError("boot: " + err.Error())
		return r.Finish(nil, []string{pgsimAssumption})
	}

	// two ledgers of one bucket (the default one) for the shared-bucket leg
	boot2, err := lx.Boot(ctx, []lx.LedgerSpec{{Name: sharedLedgers[0]}, {Name: sharedLedgers[1]}})
	if err != nil {
		r.EngineError("boot (two ledgers, one bucket): " + err.Error())
		return r.Finish(nil, []string{pgsimAssumption})
	}
	// (transactions, queries) menu pairs of the shared-bucket schema menu: none, richest;
	// thorough adds the two mixed pairs
	sharedPairs := [][2]int{{0, 0}, {3, 3}}
	if r.Thorough() {
		sharedPairs = append(sharedPairs, [2]int{2, 1}, [2]int{1, 2})
	}
	var sharedCov map[string]any

	exhaustive := true
	var famCov []map[string]any
	for fi, f := range fams {
		f := f
		if fi == 1 {
			// after the single-ledger leg of the special family, before the larger families:
			// the same charts, two ledgers sharing a bucket and a version label
			sf := fams[0]
			t0 := time.Now()
			menu := c.sharedMenu(sf, sharedPairs)
			cases := sharedCases(len(menu), r.Thorough())
			var doneS atomic.Int64
			complete := menu != nil && parallelFor(r, len(cases), func(i int) {
				cs := cases[i]
				c.sharedScenario(ctx, boot2, [2]*sharedSchema{menu[cs.a], menu[cs.b]}, cs.first, sf.Addrs)
				doneS.Add(1)
				if i%97 == 0 {
					c.samples.Add(map[string]any{"family": "shared-bucket", "version": sharedVersion, "insertsFirst": sharedLedgers[cs.first],
						sharedLedgers[0]: json.RawMessage(menu[cs.a].src), sharedLedgers[1]: json.RawMessage(menu[cs.b].src)})
				}
			})
			if !complete {
				exhaustive = false
			}
			sh := c.shared
			sharedCov = map[string]any{
				"space": fmt.Sprintf("ledgers %s and %s in the same bucket; schema menu = every chart of family `%s` x %d (transactions, queries) template menu pairs = %d schemas; "+
					"every %s pair of different menu entries (%s inserts the first, %s the second) under the same version label %q x both insertion orders",
					sharedLedgers[0], sharedLedgers[1], sf.Name, len(sharedPairs), len(menu), ev.Pick(r, "unordered", "ordered"), sharedLedgers[0], sharedLedgers[1], sharedVersion),
				"schemas_in_menu": len(menu), "scenarios_in_space": len(cases), "scenarios_done": doneS.Load(), "complete": complete,
				"scenarios_checked_to_the_end":       sh.scenarios.Load(),
				"scenarios_with_schemas_that_differ": sh.distinctPairs.Load(),
				"inserted_first":                     map[string]int64{sharedLedgers[0]: sh.firstL1.Load(), sharedLedgers[1]: sh.firstL2.Load()},
				"reads_by_path":                      sh.reads.snapshot(),
				"strict_writes":                      map[string]int64{"accepted": sh.writesAccepted.Load(), "rejected": sh.writesRejected.Load(), "on_an_address_the_two_schemas_disagree_on": sh.writesWitness.Load(), "accepted_creating_an_account_with_default_metadata": sh.writesWithDefaults.Load()},
				"addresses_per_chart":                len(sf.Addrs), "wall_s": time.Since(t0).Seconds(),
			}
			if !complete {
				break
			}
		}
		t0 := time.Now()
		done := int64(0)
		var doneA atomic.Int64
		complete := true
		if f.DB == 0 {
			complete = parallelFor(r, f.Count, func(i int) {
				ch := f.At(i)
				if A, _ := c.pure(ch, f.Addrs); A != nil {
					doneA.Add(1)
					if i%997 == 0 {
						c.samples.Add(map[string]any{"family": f.Name, "chart": json.RawMessage(ch.JSON())})
					}
				}
			})
		} else {
			// build the item list: (chart × menu pairs), in batches of 40 schemas per cloned database
			var items []dbItem
			for i := 0; i < f.Count; i++ {
				ch := f.At(i)
				if f.DB == 2 {
					for ti, tx := range txTemplateMenu {
						for qi, q := range queryTemplateMenu {
							items = append(items, dbItem{ch: ch, tx: tx, q: q, goForm: (ti+qi)%2 == 1, addrs: f.Addrs})
						}
					}
				} else {
					items = append(items, dbItem{ch: ch, tx: txTemplateMenu[len(txTemplateMenu)-1], q: queryTemplateMenu[len(queryTemplateMenu)-1], goForm: i%2 == 1, addrs: f.Addrs})
				}
			}
			const batch = 40
			nb := (len(items) + batch - 1) / batch
			complete = parallelFor(r, nb, func(b int) {
				lo, hi := b*batch, (b+1)*batch
				if hi > len(items) {
					hi = len(items)
				}
				c.dbBatch(ctx, boot, items[lo:hi])
				doneA.Add(int64(hi - lo))
				if b%50 == 0 {
					c.samples.Add(map[string]any{"family": f.Name, "schemaData": json.RawMessage(schemaDataJSON(items[lo].ch.JSON(), items[lo].tx, items[lo].q))})
				}
			})
		}
		done = doneA.Load()
		if !complete {
			exhaustive = false
		}
		famCov = append(famCov, map[string]any{"family": f.Name, "space": f.Desc, "charts_in_space": f.Count, "cases_done": done, "complete": complete,
			"addresses_per_chart": len(f.Addrs), "through_database": f.DB > 0, "wall_s": time.Since(t0).Seconds()})
		if !complete {
			break
		}
	}

	st := c.st
	if r.ViolationCount() == 0 && !r.HasEngineError() {
		switch {
		case st.accepted.Load() == 0 || st.rejected.Load() == 0:
			r.EngineError("vacuous: the address menu was never both accepted and rejected")
		case st.withDefaults.Load() == 0:
			r.EngineError("vacuous: no accepted address carried default metadata")
		case st.patternCharts.Load() == 0 || st.selfCharts.Load() == 0:
			r.EngineError("vacuous: no chart with a pattern / .self was enumerated")
		case st.dbSchemas.Load() == 0:
			r.EngineError("vacuous: no schema went through InsertSchema/GetSchema")
		case c.shared.distinctPairs.Load() == 0 || c.shared.firstL1.Load() == 0 || c.shared.firstL2.Load() == 0:
			r.EngineError("vacuous: no two ledgers of one bucket held different schemas under the same version label in both insertion orders")
		case c.shared.reads.get("shared-bucket-db-get") == 0 || c.shared.reads.get("shared-bucket-db-restart-get") == 0 ||
			c.shared.reads.get("shared-bucket-db-list") == 0 || c.shared.reads.get("shared-bucket-db-log") == 0:
			r.EngineError("vacuous: a read path of the shared-bucket leg was never exercised")
		case c.shared.writesAccepted.Load() == 0 || c.shared.writesRejected.Load() == 0 || c.shared.writesWitness.Load() == 0 || c.shared.writesWithDefaults.Load() == 0:
			r.EngineError("vacuous: the strict-mode writes of the shared-bucket leg were never both accepted and rejected, never on an address the two schemas disagree on, or never created an account with default metadata")
		}
	}
	stageNames := st.stages.snapshot()
	var stages []string
	for k := range stageNames {
		stages = append(stages, k)
	}
	sort.Strings(stages)
	cov := ev.Coverage{
		"evaluations":                  st.evals.Load(),
		"distinct_nontrivial":          st.nontrivial.Load(),
		"distinct_charts_evaluated":    st.charts.Load(),
		"schemas_through_database":     st.dbSchemas.Load(),
		"address_classifications":      map[string]int64{"accepted": st.accepted.Load(), "rejected": st.rejected.Load(), "accepted_with_default_metadata": st.withDefaults.Load()},
		"charts_with_pattern":          st.patternCharts.Load(),
		"charts_with_self":             st.selfCharts.Load(),
		"charts_with_default_metadata": st.metaCharts.Load(),
		"evaluations_by_stage":         stageNames,
		"families":                     famCov,
		"shared_bucket":                sharedCov,
		"samples":                      c.samples.List(),
		"exhaustive":                   exhaustive,
		"structural_differences_without_change_of_meaning": st.structOnlyDiffs.snapshot(),
		"fixed_precedence_differs_from_existential_match":  st.existentialDiffers.Load(),
		"rule": "every chart of each family (complete enumeration of the stated menu and bounds) is written as JSON by the harness and built as Go structs; " +
			"evaluation = one (chart, address, stage) comparison of FindAccountSchema (accepted/rejected + default metadata) over every address of <=4 segments over the token alphabet {bank, users, 007, x7} (spine families: every address of <=3 segments plus every 4-segment address under `bank`; special family: 8 tokens incl. the empty segment); " +
			"stages: reference matcher vs implementation (JSON form and Go form); JSON marshal->unmarshal->marshal (stable bytes, same classification) of both forms; SchemaData marshal/unmarshal with transaction and query templates; " +
			"InsertSchema through the real controller on pgsim then GetSchema (same process), GetSchema + ListSchemas + INSERTED_SCHEMA log payload from a freshly attached stack; templates and query templates compared as JSON documents. " +
			"shared-bucket leg (stages shared-bucket-*): two ledgers of the SAME bucket insert two different schemas under the SAME version label, every pair of the stated schema menu (quick: unordered pairs, thorough: ordered pairs) x both insertion orders; " +
			"each ledger must read back the schema IT inserted through GetSchema (same process), GetSchema + every ListSchemas entry of that version + every INSERTED_SCHEMA log of that version (fresh stack), compared over the whole address menu and both template maps; " +
			"and through the write path: in strict mode, a forced posting from an address to itself naming the version, on the first valid account address of each class {own accepts/other rejects, own rejects/other accepts, both accept with different defaults, both accept alike, both reject}, " +
			"must be accepted iff the ledger's own schema has no templates and its chart accepts the address, and the created account must carry exactly the own chart's default metadata; a mismatch that coincides with the other ledger's schema is signed other-ledgers-schema. " +
			"distinct_nontrivial = DISTINCT charts (by JSON text, across families) that accept at least one and reject at least one address of their menu",
	}
	return r.Finish(cov, []string{pgsimAssumption,
		"reference matcher semantics: a fixed child takes precedence over the variable sibling and there is no backtracking (deterministic walk, as chart_test.go and the ErrInvalidAccount texts describe); how often this differs from 'some path exists' is reported, not judged",
		"patterns are Go regular expressions applied with search semantics (anchors are the chart author's business); the reference uses hand-written predicates for the menu's patterns"})
}

func init() { reg.Register("C30", runC30) }
