package pschema

import (
	"encoding/json"
	"os"
	"testing"

	ledger "github.com/formancehq/ledger/internal"
)

func TestEnumeratorCounts(t *testing.T) {
	m2 := []MetaOpt{MetaNone, MetaDefault}
	m := Menu{Fixed: []string{"users"}, Vars: varsIDMenu, Metas: m2}
	// closed forms: N(0)=2, N(1)=((1+2)(1+2*2)-1)*3+2=44, N(2)=((1+44)(1+2*44)-1)*3+2=12014
	for d, want := range []int{2, 44, 12014} {
		if got := len(m.Nodes(d, 1<<30)); got != want {
			t.Fatalf("Nodes(%d)=%d want %d", d, got, want)
		}
	}
	for _, s := range []int{3, 4, 5, 6} {
		t.Logf("height<=3 size<=%d: %d nodes", s, len(m.Nodes(3, s)))
	}
	seen := map[string]bool{}
	for _, n := range m.Nodes(2, 1<<30) {
		j := Chart{"bank": n}.JSON()
		if seen[j] {
			t.Fatalf("duplicate chart %s", j)
		}
		seen[j] = true
		if n.Size() > 7 {
			t.Fatalf("size")
		}
	}
	for _, n := range m.Nodes(3, 5) {
		if n.Size() > 5 {
			t.Fatalf("size bound violated: %d", n.Size())
		}
	}
}

func TestReferenceOnDocumentedChart(t *testing.T) {
	// the chart of internal/chart_test.go testChart(), and the verdicts that test documents
	src := `{"world":{},"bank":{".self":{},".metadata":{"root_bank_account":{}},"$bankID":{".pattern":"^[0-9]{3}$",".metadata":{"bank_subaccount":{"default":"test"}}}},
	"users":{"$userID":{".pattern":"^[0-9]{3}$","main":{".metadata":{}}}},"shops":{"$shopID":{".metadata":{"shop_account":{"default":"foo"}}}}}`
	ch := Chart{
		"world": {},
		"bank":  {Self: true, HasMeta: true, Meta: map[string]*string{"root_bank_account": nil}, VarLabel: "bankID", VarPat: Pat3Digits, Var: &Node{HasMeta: true, Meta: map[string]*string{"bank_subaccount": sp("test")}}},
		"users": {VarLabel: "userID", VarPat: Pat3Digits, Var: &Node{Fixed: map[string]*Node{"main": {HasMeta: true, Meta: map[string]*string{}}}}},
		"shops": {VarLabel: "shopID", Var: &Node{HasMeta: true, Meta: map[string]*string{"shop_account": sp("foo")}}},
	}
	var impl ledger.ChartOfAccounts
	if err := json.Unmarshal([]byte(src), &impl); err != nil {
		t.Fatal(err)
	}
	var viaHarness ledger.ChartOfAccounts
	if err := json.Unmarshal([]byte(ch.JSON()), &viaHarness); err != nil {
		t.Fatal(err)
	}
	for addr, want := range map[string]string{
		"world": "accepted{}", "bank": "accepted{}", "bank:012": "accepted{bank_subaccount=test}",
		"users:001:main": "accepted{}", "shops:whatever_should-WORK0123": "accepted{shop_account=foo}",
		"bonk:012": "rejected", "bank:invalid": "rejected", "users:001:nope": "rejected", "users:001": "rejected", "users": "rejected",
	} {
		if got := ch.Classify(addr).String(); got != want {
			t.Errorf("reference %s: %s want %s", addr, got, want)
		}
		if got := ImplClass(&impl, addr).String(); got != want {
			t.Errorf("impl %s: %s want %s", addr, got, want)
		}
		if got := ImplClass(&viaHarness, addr).String(); got != want {
			t.Errorf("impl(harness json) %s: %s want %s", addr, got, want)
		}
	}
}

func TestParseChartInvertsJSON(t *testing.T) {
	f := specialFamily()
	for i := 0; i < f.Count; i++ {
		ch := f.At(i)
		back, err := parseChart(ch.JSON())
		if err != nil {
			t.Fatal(err)
		}
		if back.JSON() != ch.JSON() {
			t.Fatalf("parseChart(%s) = %s", ch.JSON(), back.JSON())
		}
		for _, a := range f.Addrs {
			if !ch.Classify(a).Equal(back.Classify(a)) {
				t.Fatalf("%s: %s classified differently after parse", ch.JSON(), a)
			}
		}
	}
}

// PSCHEMA_REPLAY=/verif/replays/C29-….json go test ./pschema -run TestReplay -v
func TestReplay(t *testing.T) {
	path := os.Getenv("PSCHEMA_REPLAY")
	if path == "" {
		t.Skip("PSCHEMA_REPLAY not set")
	}
	if os.Getenv("VERIF_ROOT") == "" {
		t.Setenv("VERIF_ROOT", t.TempDir())
	}
	code, err := Replay(path)
	if err != nil {
		t.Fatal(err)
	}
	t.Logf("verdict exit code %d (0 ok, 1 violation, 2 engine error)", code)
	if code != 0 {
		t.Fail()
	}
}
