// Package pschema holds the checks of the schema / chart-of-accounts / bulk group:
// C29 (schema enforcement and chart semantics), C30 (schemas round-trip without
// changing meaning) and C32 (bulk semantics).
package pschema

import (
	"sort"
	"strconv"
	"strings"

	ledger "github.com/formancehq/ledger/internal"
)

// ---------------------------------------------------------------------------------
// Chart specification (the harness's own representation, independent of chart.go).
// ---------------------------------------------------------------------------------

// Pat is a segment pattern: the regular expression handed to the ledger and a
// hand-written predicate with the same meaning (so that the reference matcher does
// not depend on the regexp library the implementation uses).
type Pat struct {
	Re    string
	Match func(string) bool
}

func isDigits(s string) bool {
	if s == "" {
		return false
	}
	for _, c := range s {
		if c < '0' || c > '9' {
			return false
		}
	}
	return true
}

var (
	// exactly three decimal digits (anchored)
	Pat3Digits = &Pat{Re: `^[0-9]{3}$`, Match: func(s string) bool { return len(s) == 3 && isDigits(s) }}
	// starts with "x" (anchored at the start only)
	PatPrefixX = &Pat{Re: `^x`, Match: func(s string) bool { return strings.HasPrefix(s, "x") }}
	// contains a "7" anywhere (unanchored: Go regexp.Match semantics = search)
	PatHas7 = &Pat{Re: `7`, Match: func(s string) bool { return strings.Contains(s, "7") }}
	// needs JSON escaping on the way in and HTML escaping by encoding/json on the way out
	PatEscaped = &Pat{Re: `^(\d+|"<&>")$`, Match: func(s string) bool { return isDigits(s) || s == `"<&>"` }}
)

// Node is one segment of a chart. A node is an account when it is a leaf or carries
// an explicit `.self`. Only accounts may carry `.metadata` (chart.go rule).
type Node struct {
	Fixed    map[string]*Node
	VarLabel string // label of the variable child (without the leading `$`), "" = none
	VarPat   *Pat
	Var      *Node
	Self     bool               // explicit `.self: {}`
	HasMeta  bool               // `.metadata` key present (possibly `{}`)
	Meta     map[string]*string // key -> default value (nil pointer: declared without default)
}

func (n *Node) Leaf() bool      { return len(n.Fixed) == 0 && n.Var == nil }
func (n *Node) IsAccount() bool { return n.Leaf() || n.Self }

// Size is the number of segments of the subtree rooted at n.
func (n *Node) Size() int {
	s := 1
	for _, c := range n.Fixed {
		s += c.Size()
	}
	if n.Var != nil {
		s += n.Var.Size()
	}
	return s
}

// Chart is the root: fixed segments only (chart.go: the root cannot have a variable
// segment, cannot be an account, and root segments cannot carry a pattern).
type Chart map[string]*Node

func sortedNodeKeys(m map[string]*Node) []string {
	ks := make([]string, 0, len(m))
	for k := range m {
		ks = append(ks, k)
	}
	sort.Strings(ks)
	return ks
}

// jsonString writes a JSON string literal with the minimal escaping of RFC 8259
// (deliberately not encoding/json, which additionally escapes <, > and &).
func jsonString(sb *strings.Builder, s string) {
	sb.WriteByte('"')
	for _, r := range s {
		switch {
		case r == '"':
			sb.WriteString(`\"`)
		case r == '\\':
			sb.WriteString(`\\`)
		case r == '\n':
			sb.WriteString(`\n`)
		case r == '\t':
			sb.WriteString(`\t`)
		case r < 0x20:
			sb.WriteString(`\u00`)
			sb.WriteString(strconv.FormatInt(int64(r)>>4, 16))
			sb.WriteString(strconv.FormatInt(int64(r)&15, 16))
		default:
			sb.WriteRune(r)
		}
	}
	sb.WriteByte('"')
}

func (n *Node) writeJSON(sb *strings.Builder, pat *Pat) {
	sb.WriteByte('{')
	first := true
	sep := func() {
		if !first {
			sb.WriteByte(',')
		}
		first = false
	}
	// properties first, then sub-segments (any order is legal JSON; the ledger must not care)
	if pat != nil {
		sep()
		sb.WriteString(`".pattern":`)
		jsonString(sb, pat.Re)
	}
	if n.Self {
		sep()
		sb.WriteString(`".self":{}`)
	}
	if n.HasMeta {
		sep()
		sb.WriteString(`".metadata":{`)
		ks := make([]string, 0, len(n.Meta))
		for k := range n.Meta {
			ks = append(ks, k)
		}
		sort.Strings(ks)
		for i, k := range ks {
			if i > 0 {
				sb.WriteByte(',')
			}
			jsonString(sb, k)
			sb.WriteByte(':')
			if d := n.Meta[k]; d != nil {
				sb.WriteString(`{"default":`)
				jsonString(sb, *d)
				sb.WriteByte('}')
			} else {
				sb.WriteString(`{}`)
			}
		}
		sb.WriteByte('}')
	}
	for _, k := range sortedNodeKeys(n.Fixed) {
		sep()
		jsonString(sb, k)
		sb.WriteByte(':')
		n.Fixed[k].writeJSON(sb, nil)
	}
	if n.Var != nil {
		sep()
		jsonString(sb, "$"+n.VarLabel)
		sb.WriteByte(':')
		n.Var.writeJSON(sb, n.VarPat)
	}
	sb.WriteByte('}')
}

// JSON is the JSON form of the chart as a client would post it.
func (c Chart) JSON() string {
	var sb strings.Builder
	sb.WriteByte('{')
	for i, k := range sortedNodeKeys(c) {
		if i > 0 {
			sb.WriteByte(',')
		}
		jsonString(&sb, k)
		sb.WriteByte(':')
		c[k].writeJSON(&sb, nil)
	}
	sb.WriteByte('}')
	return sb.String()
}

func (n *Node) goSegment() ledger.ChartSegment {
	var seg ledger.ChartSegment
	if len(n.Fixed) > 0 {
		seg.FixedSegments = map[string]ledger.ChartSegment{}
		for k, c := range n.Fixed {
			seg.FixedSegments[k] = c.goSegment()
		}
	}
	if n.Var != nil {
		v := &ledger.ChartVariableSegment{ChartSegment: n.Var.goSegment(), Label: n.VarLabel}
		if n.VarPat != nil {
			re := n.VarPat.Re
			v.Pattern = &re
		}
		seg.VariableSegment = v
	}
	if n.IsAccount() {
		acc := &ledger.ChartAccount{}
		if n.HasMeta {
			acc.Metadata = map[string]ledger.ChartAccountMetadata{}
			for k, d := range n.Meta {
				var m ledger.ChartAccountMetadata
				if d != nil {
					v := *d
					m.Default = &v
				}
				acc.Metadata[k] = m
			}
		}
		seg.Account = acc
	}
	return seg
}

// Go is the Go form of the chart (what a Go caller of the ledger package builds).
func (c Chart) Go() ledger.ChartOfAccounts {
	out := ledger.ChartOfAccounts{}
	for k, n := range c {
		out[k] = n.goSegment()
	}
	return out
}

// ---------------------------------------------------------------------------------
// Reference matcher (DESIGN §4 ref.Chart): direct recursion over the specification.
//
// An address s1:…:sn is accepted iff, walking from the root, every segment selects a
// child and the node selected by sn is an account. At a node, segment s selects the
// fixed child named s when there is one; otherwise the variable child when there is
// one and (it has no pattern or its pattern matches s). A fixed child takes
// precedence over the variable child (chart_test.go "invalid non-root non-variable
// segment" and the error texts of internal/errors.go describe a deterministic walk;
// there is no backtracking). The default metadata of an accepted address is the set
// of `.metadata` entries of the selected node that carry a `default`.
// ---------------------------------------------------------------------------------

type Class struct {
	Accepted bool
	Defaults map[string]string
}

func (c Class) String() string {
	if !c.Accepted {
		return "rejected"
	}
	ks := make([]string, 0, len(c.Defaults))
	for k := range c.Defaults {
		ks = append(ks, k)
	}
	sort.Strings(ks)
	var sb strings.Builder
	sb.WriteString("accepted{")
	for i, k := range ks {
		if i > 0 {
			sb.WriteByte(',')
		}
		sb.WriteString(k + "=" + c.Defaults[k])
	}
	sb.WriteString("}")
	return sb.String()
}

func (c Class) Equal(o Class) bool {
	if c.Accepted != o.Accepted {
		return false
	}
	if len(c.Defaults) != len(o.Defaults) {
		return false
	}
	for k, v := range c.Defaults {
		if w, ok := o.Defaults[k]; !ok || w != v {
			return false
		}
	}
	return true
}

func accountClass(n *Node) Class {
	if !n.IsAccount() {
		return Class{}
	}
	var d map[string]string
	for k, v := range n.Meta {
		if v != nil {
			if d == nil {
				d = map[string]string{}
			}
			d[k] = *v
		}
	}
	return Class{Accepted: true, Defaults: d}
}

func refWalk(fixed map[string]*Node, vpat *Pat, v *Node, segs []string) Class {
	var next *Node
	if f, ok := fixed[segs[0]]; ok {
		next = f
	} else if v != nil && (vpat == nil || vpat.Match(segs[0])) {
		next = v
	}
	if next == nil {
		return Class{}
	}
	if len(segs) == 1 {
		return accountClass(next)
	}
	return refWalk(next.Fixed, next.VarPat, next.Var, segs[1:])
}

// Classify is the reference classification of an address.
func (c Chart) Classify(addr string) Class {
	return refWalk(map[string]*Node(c), nil, nil, strings.Split(addr, ":"))
}

// existential variant (a path exists, fixed or variable at every step): used only to
// count how often the deterministic walk differs from it (observation, not an oracle).
func refExists(fixed map[string]*Node, vpat *Pat, v *Node, segs []string) bool {
	try := func(n *Node) bool {
		if len(segs) == 1 {
			return n.IsAccount()
		}
		return refExists(n.Fixed, n.VarPat, n.Var, segs[1:])
	}
	if f, ok := fixed[segs[0]]; ok && try(f) {
		return true
	}
	if v != nil && (vpat == nil || vpat.Match(segs[0])) && try(v) {
		return true
	}
	return false
}

func (c Chart) AcceptsExistential(addr string) bool {
	return refExists(map[string]*Node(c), nil, nil, strings.Split(addr, ":"))
}

// ImplClass classifies an address with the implementation's FindAccountSchema.
func ImplClass(c *ledger.ChartOfAccounts, addr string) Class {
	acc, err := c.FindAccountSchema(addr)
	if err != nil || acc == nil {
		return Class{}
	}
	var d map[string]string
	if len(acc.Metadata) > 0 {
		d = acc.DefaultMetadata()
	}
	return Class{Accepted: true, Defaults: d}
}

// ---------------------------------------------------------------------------------
// Bounded-exhaustive enumeration.
// ---------------------------------------------------------------------------------

// MetaOpt is one `.metadata` choice of an account node.
type MetaOpt struct {
	Has  bool
	Meta map[string]*string
}

func sp(s string) *string { return &s }

var (
	MetaNone    = MetaOpt{}
	MetaDefault = MetaOpt{Has: true, Meta: map[string]*string{"k": sp("d")}}
	MetaNoDef   = MetaOpt{Has: true, Meta: map[string]*string{"k": nil}}
	MetaEmpty   = MetaOpt{Has: true, Meta: map[string]*string{}}
	MetaTwo     = MetaOpt{Has: true, Meta: map[string]*string{"k": sp("d2"), "n": nil, "z": sp("")}}
)

// VarOpt is one choice of variable child key.
type VarOpt struct {
	Label string
	Pat   *Pat
}

// Menu is what one level of a chart may be built from.
type Menu struct {
	Fixed []string  // names of the fixed children a node may have (each present or not)
	Vars  []VarOpt  // variable child choices (at most one per node; absent is always a choice)
	Metas []MetaOpt // `.metadata` choices of an account node
}

// Nodes enumerates every node of height <= depth (depth 0 = leaf only) with at most
// maxSize segments, over the menu. The enumeration is complete for these bounds.
func (m Menu) Nodes(depth, maxSize int) []*Node {
	type key struct{ d, s int }
	memo := map[key][]*Node{}
	var gen func(d, s int) []*Node
	maxPossible := make([]int, depth+1)
	for d := 0; d <= depth; d++ {
		maxPossible[d] = 1
		if d > 0 {
			nv := 0
			if len(m.Vars) > 0 {
				nv = 1
			}
			maxPossible[d] = 1 + (len(m.Fixed)+nv)*maxPossible[d-1]
		}
	}
	gen = func(d, s int) []*Node {
		if s < 1 {
			return nil
		}
		if s > maxPossible[d] {
			s = maxPossible[d] // larger budgets add nothing: share the memo entry
		}
		if r, ok := memo[key{d, s}]; ok {
			return r
		}
		var out []*Node
		// leaves
		for _, mo := range m.Metas {
			out = append(out, &Node{HasMeta: mo.Has, Meta: mo.Meta})
		}
		if d > 0 && s > 1 {
			// children configurations: each fixed key absent or one sub-node, then the variable child
			type cfg struct {
				fixed map[string]*Node
				size  int
			}
			cfgs := []cfg{{fixed: map[string]*Node{}, size: 0}}
			for _, fk := range m.Fixed {
				var next []cfg
				for _, c := range cfgs {
					next = append(next, c) // absent
					for _, sub := range gen(d-1, s-1-c.size) {
						nf := make(map[string]*Node, len(c.fixed)+1)
						for k, v := range c.fixed {
							nf[k] = v
						}
						nf[fk] = sub
						next = append(next, cfg{fixed: nf, size: c.size + sub.Size()})
					}
				}
				cfgs = next
			}
			for _, c := range cfgs {
				type vch struct {
					opt *VarOpt
					sub *Node
				}
				vchoices := []vch{{}}
				for i := range m.Vars {
					for _, sub := range gen(d-1, s-1-c.size) {
						vchoices = append(vchoices, vch{opt: &m.Vars[i], sub: sub})
					}
				}
				for _, vc := range vchoices {
					if len(c.fixed) == 0 && vc.sub == nil {
						continue // that is the leaf
					}
					base := Node{Fixed: c.fixed}
					if vc.sub != nil {
						base.VarLabel, base.VarPat, base.Var = vc.opt.Label, vc.opt.Pat, vc.sub
					}
					// not an account
					n0 := base
					out = append(out, &n0)
					// account through .self, with each metadata choice
					for _, mo := range m.Metas {
						n1 := base
						n1.Self, n1.HasMeta, n1.Meta = true, mo.Has, mo.Meta
						out = append(out, &n1)
					}
				}
			}
		}
		memo[key{d, s}] = out
		return out
	}
	return gen(depth, maxSize)
}

// Addresses enumerates every address of 1..maxLen segments over the token alphabet.
func Addresses(tokens []string, maxLen int) []string {
	var out []string
	var rec func(prefix []string)
	rec = func(prefix []string) {
		if len(prefix) > 0 {
			out = append(out, strings.Join(prefix, ":"))
		}
		if len(prefix) == maxLen {
			return
		}
		for _, t := range tokens {
			next := append(append([]string(nil), prefix...), t)
			rec(next)
		}
	}
	rec(nil)
	return out
}
