package pschema

import (
	"context"
	"encoding/json"
	"fmt"
	"sync/atomic"

	ledger "github.com/formancehq/ledger/internal"
	ledgercontroller "github.com/formancehq/ledger/internal/controller/ledger"
	"github.com/formancehq/ledger/internal/storage/common"
	"github.com/formancehq/ledger/pkg/accounts"
	"github.com/formancehq/ledger/verifh/lx"
	"github.com/formancehq/ledger/verifh/pgsim"
)

// ---------------------------------------------------------------------------------
// C30, shared-bucket leg.
//
// The `schemas` table belongs to a BUCKET and is keyed by (ledger, version): several
// ledgers of one bucket may hold different schemas under the same version label. The
// single-ledger leg (dbBatch) cannot tell whether a read is keyed by the ledger. Here two
// ledgers l1, l2 of the same bucket insert two DIFFERENT schemas under the SAME version
// label, in both insertion orders (which row comes first in the table is decided by the
// insertion order), and each ledger reads its schema back through every path of the
// single-ledger leg (GetSchema in the inserting process, GetSchema / ListSchemas / the
// INSERTED_SCHEMA log from a freshly attached stack) and through the write path: in strict
// mode a write naming the version is validated against the schema the ledger loads, and the
// accounts it creates get that schema's default metadata.
// ---------------------------------------------------------------------------------

const sharedVersion = "v1"

var sharedLedgers = [2]string{"l1", "l2"}

// sharedSchema is one entry of the schema menu of the shared-bucket leg, with the
// implementation's own reading of the document the harness wrote (the "before").
type sharedSchema struct {
	ch     Chart
	tx, q  string
	goForm bool
	src    string
	sd     *ledger.SchemaData
	A      *ledger.ChartOfAccounts
	want   []Class
}

func (c *c30) prepareShared(ch Chart, tx, q string, goForm bool, addrs []string) *sharedSchema {
	s := &sharedSchema{ch: ch, tx: tx, q: q, goForm: goForm, src: schemaDataJSON(ch.JSON(), tx, q)}
	var sd ledger.SchemaData
	if err := json.Unmarshal([]byte(s.src), &sd); err != nil {
		c.r.EngineError(fmt.Sprintf("schema data the ledger rejects: %s: %v", s.src, err))
		return nil
	}
	s.sd = &sd
	A := sd.Chart
	s.A = &A
	s.want = make([]Class, len(addrs))
	for i, a := range addrs {
		s.want[i] = ImplClass(s.A, a)
	}
	return s
}

// schemaDiff returns the first difference of meaning between the schema `s` as it was
// handed to InsertSchema and `got`, "" when there is none: same classification of every
// address, same templates, same query templates (the oracle of compareSchemaData, as a
// function).
func (c *c30) schemaDiff(stage string, s *sharedSchema, got *ledger.SchemaData, addrs []string) (kind, what string) {
	c.st.evals.Add(int64(len(addrs)) + 2)
	c.st.stages.add(stage, int64(len(addrs)))
	if got.Chart == nil {
		return "chart-lost", "the chart is nil"
	}
	sd := chartDiff(*s.A, got.Chart)
	for i, a := range addrs {
		g := ImplClass(&got.Chart, a)
		if d := classDiff(s.want[i], g); d != "" {
			kind := sd
			if kind == "" {
				kind = d
			}
			return kind, fmt.Sprintf("address %q was %s before and is %s after (%s)", a, s.want[i], g, d)
		}
	}
	if ok, a, b := sameJSON(s.sd.Transactions, got.Transactions); !ok {
		return "transaction-templates-changed", fmt.Sprintf("transaction templates were %s and are %s", a, b)
	}
	if ok, a, b := sameJSON(s.sd.Queries, got.Queries); !ok {
		return "query-templates-changed", fmt.Sprintf("query templates were %s and are %s", a, b)
	}
	if sd != "" {
		c.st.structOnlyDiffs.add(stage+":"+sd, 1)
	}
	return "", ""
}

// sharedWrite is one write of the enforcement path: a forced posting from the address to
// itself (the only account involved), naming the shared version, in strict mode.
type sharedWrite struct {
	Ledger   string `json:"ledger"`
	Address  string `json:"address"`
	Category string `json:"category"`
}

var sharedCategories = []string{"own-accepts-other-rejects", "own-rejects-other-accepts", "both-accept-different-defaults", "both-accept-same-defaults", "both-reject"}

// witnessAddresses: for a ledger holding `own` next to a ledger holding `other`, the
// first address of the menu (valid as a ledger account address) of each category of
// sharedCategories. The categories partition the menu.
func witnessAddresses(own, other *sharedSchema, addrs []string) map[string]string {
	out := map[string]string{}
	for i, a := range addrs {
		if len(out) == len(sharedCategories) {
			break
		}
		if !accounts.ValidateAddress(a) {
			continue
		}
		o, x := own.want[i], other.want[i]
		var cat string
		switch {
		case o.Accepted && !x.Accepted:
			cat = sharedCategories[0]
		case !o.Accepted && x.Accepted:
			cat = sharedCategories[1]
		case o.Accepted && !o.Equal(x):
			cat = sharedCategories[2]
		case o.Accepted:
			cat = sharedCategories[3]
		default:
			cat = sharedCategories[4]
		}
		if _, ok := out[cat]; !ok {
			out[cat] = a
		}
	}
	return out
}

// writeVerdict is what the schema `s` demands of a strict-mode write that names its
// version, uses no template, and whose only account is `addr` (index i of the menu).
func writeVerdict(s *sharedSchema, i int) (accept bool, reason string) {
	switch {
	case len(s.sd.Transactions) > 0:
		return false, "the schema defines templates and the write uses none"
	case !s.want[i].Accepted:
		return false, "the chart rejects the address"
	}
	return true, "the chart accepts the address"
}

type sharedStats struct {
	scenarios, distinctPairs          atomic.Int64
	firstL1, firstL2                  atomic.Int64
	reads                             *counter
	writesAccepted, writesRejected    atomic.Int64
	writesWithDefaults, writesWitness atomic.Int64
}

func newSharedStats() *sharedStats { return &sharedStats{reads: newCounter()} }

// sharedScenario: ledger l1 inserts schema s[0] and ledger l2 inserts schema s[1], both
// under sharedVersion, in the same bucket; `first` (0 or 1) inserts first.
func (c *c30) sharedScenario(ctx context.Context, boot *pgsim.DB, s [2]*sharedSchema, first int, addrs []string) {
	sh := c.shared
	replay := func(stage string, reader int, extra map[string]any) map[string]any {
		rep := map[string]any{
			"stage": stage,
			"chart": json.RawMessage(s[reader].ch.JSON()),
			"shared": map[string]any{
				"bucket": "_default", "version": sharedVersion, "insertsFirst": sharedLedgers[first], "reader": sharedLedgers[reader],
				"ledgers": []map[string]any{
					{"name": sharedLedgers[0], "schemaData": json.RawMessage(s[0].src), "goForm": s[0].goForm},
					{"name": sharedLedgers[1], "schemaData": json.RawMessage(s[1].src), "goForm": s[1].goForm},
				},
			},
		}
		for k, v := range extra {
			rep[k] = v
		}
		return rep
	}
	describe := func(reader int) string {
		return fmt.Sprintf("ledgers %s and %s of one bucket hold different schemas under version %s (%s inserted first); ledger %s inserted %s",
			sharedLedgers[0], sharedLedgers[1], sharedVersion, sharedLedgers[first], sharedLedgers[reader], s[reader].src)
	}
	// check compares what `reader` read through `stage` with what it inserted.
	check := func(stage string, reader int, got *ledger.SchemaData) {
		sh.reads.add(stage, 1)
		kind, what := c.schemaDiff(stage, s[reader], got, addrs)
		if kind == "" {
			return
		}
		if k2, _ := c.schemaDiff(stage, s[1-reader], got, addrs); k2 == "" {
			kind = "other-ledgers-schema"
			what += fmt.Sprintf("; what was read is the schema ledger %s inserted under the same version: %s", sharedLedgers[1-reader], s[1-reader].src)
		}
		c.r.Violation("C30:"+stage+":"+kind, describe(reader)+" and reads back through "+stage+": "+what, replay(stage, reader, nil))
	}

	pg := boot.Clone()
	w := attachMode(pg, ledgercontroller.SchemaEnforcementAudit)
	defer w.Close()
	var ctrl [2]ledgercontroller.Controller
	for i, name := range sharedLedgers {
		var err error
		if ctrl[i], err = w.Sys.GetLedgerController(ctx, name); err != nil {
			c.r.EngineError("GetLedgerController " + name + ": " + err.Error())
			return
		}
	}
	for _, i := range []int{first, 1 - first} {
		in := *s[i].sd
		if s[i].goForm {
			in.Chart = s[i].ch.Go()
		}
		_, _, _, err := ctrl[i].InsertSchema(ctx, ledgercontroller.Parameters[ledgercontroller.InsertSchema]{
			Input: ledgercontroller.InsertSchema{Version: sharedVersion, Data: in},
		})
		if err != nil {
			if lx.Classify(err) == "ENGINE" {
				c.r.EngineError(fmt.Sprintf("InsertSchema %s on %s: %v", s[i].src, sharedLedgers[i], err))
			} else {
				c.r.Violation("C30:shared-bucket-insert:valid-schema-rejected", describe(i)+fmt.Sprintf(": InsertSchema rejected it: %v", err), replay("shared-bucket-insert", i, nil))
			}
			return
		}
	}
	for i := range sharedLedgers {
		got, err := ctrl[i].GetSchema(ctx, sharedVersion)
		if err != nil {
			if lx.Classify(err) == "ENGINE" {
				c.r.EngineError(fmt.Sprintf("GetSchema on %s: %v", sharedLedgers[i], err))
				return
			}
			c.r.Violation("C30:shared-bucket-db-get:read-failed", describe(i)+fmt.Sprintf(": GetSchema fails: %v", err), replay("shared-bucket-db-get", i, nil))
			continue
		}
		check("shared-bucket-db-get", i, &got.SchemaData)
	}

	// fresh process, strict enforcement (the mode does not matter for the reads)
	w2 := attachMode(pg, ledgercontroller.SchemaEnforcementStrict)
	defer w2.Close()
	var ctrl2 [2]ledgercontroller.Controller
	for i, name := range sharedLedgers {
		var err error
		if ctrl2[i], err = w2.Sys.GetLedgerController(ctx, name); err != nil {
			c.r.EngineError("GetLedgerController (restart) " + name + ": " + err.Error())
			return
		}
	}
	for i, name := range sharedLedgers {
		got, err := ctrl2[i].GetSchema(ctx, sharedVersion)
		switch {
		case err != nil && lx.Classify(err) == "ENGINE":
			c.r.EngineError(fmt.Sprintf("GetSchema (restart) on %s: %v", name, err))
			return
		case err != nil:
			c.r.Violation("C30:shared-bucket-db-restart-get:read-failed", describe(i)+fmt.Sprintf(": GetSchema from a fresh process fails: %v", err), replay("shared-bucket-db-restart-get", i, nil))
		default:
			check("shared-bucket-db-restart-get", i, &got.SchemaData)
		}
		listed, err := allPages(ctx, common.PaginatedQuery[any](common.InitialPaginatedQuery[any]{PageSize: 15}), ctrl2[i].ListSchemas)
		if err != nil {
			c.r.EngineError(fmt.Sprintf("ListSchemas on %s: %v", name, err))
			return
		}
		n := 0
		for k := range listed {
			if listed[k].Version == sharedVersion {
				n++
				check("shared-bucket-db-list", i, &listed[k].SchemaData)
			}
		}
		if n == 0 {
			c.r.Violation("C30:shared-bucket-db-list:missing", describe(i)+fmt.Sprintf(": ListSchemas does not return that version (%d listed)", len(listed)), replay("shared-bucket-db-list", i, nil))
		}
		logs, err := lx.ListLogs(ctx, ctrl2[i])
		if err != nil {
			c.r.EngineError(fmt.Sprintf("ListLogs on %s: %v", name, err))
			return
		}
		n = 0
		for _, l := range logs {
			if is, ok := l.Data.(ledger.InsertedSchema); ok && is.Schema.Version == sharedVersion {
				n++
				sc := is.Schema
				check("shared-bucket-db-log", i, &sc.SchemaData)
			}
		}
		if n == 0 {
			c.r.Violation("C30:shared-bucket-db-log:missing", describe(i)+": no INSERTED_SCHEMA log of the ledger carries that version", replay("shared-bucket-db-log", i, nil))
		}
	}

	// the write path: the schema a strict-mode write is validated against, and whose
	// default metadata the created account gets, is the one the ledger inserted
	const stage = "shared-bucket-write"
	idx := map[string]int{}
	for i, a := range addrs {
		idx[a] = i
	}
	for i, name := range sharedLedgers {
		own, other := s[i], s[1-i]
		wit := witnessAddresses(own, other, addrs)
		type done struct {
			w    sharedWrite
			k    int
			want Class
		}
		var accepted []done
		for _, cat := range sharedCategories {
			a, ok := wit[cat]
			if !ok {
				continue
			}
			k := idx[a]
			sw := sharedWrite{Ledger: name, Address: a, Category: cat}
			op := lx.Op{Kind: "post", Postings: []lx.P{{Src: a, Dst: a, Ast: "USD/2", Amt: "1"}}, Force: true, Schema: sharedVersion}
			out := safeApply(ctx, ctrl2[i], op)
			c.st.evals.Add(1)
			c.st.stages.add(stage, 1)
			if cat != sharedCategories[3] && cat != sharedCategories[4] {
				sh.writesWitness.Add(1)
			}
			wantAccept, reason := writeVerdict(own, k)
			otherAccept, _ := writeVerdict(other, k)
			switch {
			case out.Class == "ENGINE":
				c.r.EngineError(fmt.Sprintf("write %+v: %v", sw, out.Err))
				return
			case out.Err != nil && out.Class != "schema_validation":
				c.r.Violation("C30:"+stage+":write-failed-"+out.Class,
					describe(i)+fmt.Sprintf("; a strict-mode write on account %s naming that version (%s) neither succeeds nor is a schema validation error: %v", a, reason, out.Err),
					replay(stage, i, map[string]any{"write": sw}))
				continue
			}
			gotAccept := out.Err == nil
			if gotAccept {
				sh.writesAccepted.Add(1)
			} else {
				sh.writesRejected.Add(1)
			}
			if gotAccept != wantAccept {
				kind := "accepted-became-rejected"
				if gotAccept {
					kind = "rejected-became-accepted"
				}
				what := fmt.Sprintf("; a strict-mode write on account %s naming that version must be %s (%s) and is %s (%v)", a, verb(wantAccept), reason, verb(gotAccept), out.Err)
				if otherAccept == gotAccept {
					kind = "other-ledgers-schema"
					what += fmt.Sprintf("; that is the verdict of the schema ledger %s inserted under the same version: %s", sharedLedgers[1-i], other.src)
				}
				c.r.Violation("C30:"+stage+":"+kind, describe(i)+what, replay(stage, i, map[string]any{"write": sw}))
				continue
			}
			if gotAccept {
				accepted = append(accepted, done{w: sw, k: k, want: own.want[k]})
			}
		}
		if len(accepted) == 0 {
			continue
		}
		accs, err := lx.ListAccs(ctx, ctrl2[i], common.ResourceQuery[any]{})
		if err != nil {
			c.r.EngineError(fmt.Sprintf("ListAccounts on %s: %v", name, err))
			return
		}
		meta := map[string]map[string]string{}
		for _, a := range accs {
			meta[a.Address] = map[string]string(a.Metadata)
		}
		for _, d := range accepted {
			c.st.evals.Add(1)
			got, ok := meta[d.w.Address]
			if !ok {
				c.r.Violation("C30:"+stage+":account-missing", describe(i)+fmt.Sprintf("; the accepted write on %s created no account", d.w.Address), replay(stage, i, map[string]any{"write": d.w}))
				continue
			}
			g := Class{Accepted: true, Defaults: got}
			if len(d.want.Defaults) > 0 {
				sh.writesWithDefaults.Add(1)
			}
			if !d.want.Equal(g) {
				kind := "default-metadata-changed"
				what := fmt.Sprintf("; account %s created by a write naming that version must get the default metadata %s and has %s", d.w.Address, d.want, g)
				if other.want[d.k].Accepted && other.want[d.k].Equal(g) {
					kind = "other-ledgers-schema"
					what += fmt.Sprintf("; those are the defaults of the schema ledger %s inserted under the same version: %s", sharedLedgers[1-i], other.src)
				}
				c.r.Violation("C30:"+stage+":"+kind, describe(i)+what, replay(stage, i, map[string]any{"write": d.w}))
			}
		}
	}

	sh.scenarios.Add(1)
	if first == 0 {
		sh.firstL1.Add(1)
	} else {
		sh.firstL2.Add(1)
	}
	if !sameMeaning(s[0], s[1]) {
		sh.distinctPairs.Add(1)
	}
}

// sameMeaning: two menu entries classify every address alike and carry the same templates.
func sameMeaning(a, b *sharedSchema) bool {
	for i := range a.want {
		if !a.want[i].Equal(b.want[i]) {
			return false
		}
	}
	okT, _, _ := sameJSON(a.sd.Transactions, b.sd.Transactions)
	okQ, _, _ := sameJSON(a.sd.Queries, b.sd.Queries)
	return okT && okQ
}

func verb(accept bool) string {
	if accept {
		return "accepted"
	}
	return "rejected"
}

// sharedMenu: the schemas of the shared-bucket leg, simplest first: every chart of the
// family with each (transactions, queries) menu pair of `pairs`.
func (c *c30) sharedMenu(f chartFamily, pairs [][2]int) []*sharedSchema {
	var out []*sharedSchema
	for k := 0; k < f.Count; k++ {
		for t, p := range pairs {
			s := c.prepareShared(f.At(k), txTemplateMenu[p[0]], queryTemplateMenu[p[1]], (k+t)%2 == 1, f.Addrs)
			if s == nil {
				return nil
			}
			out = append(out, s)
		}
	}
	return out
}

type sharedCase struct {
	a, b, first int
}

// sharedCases: every pair (a, b) of different menu entries (l1 inserts a, l2 inserts b) in
// both insertion orders; ordered = false keeps a < b only (the two ledgers differ by
// their names alone, and each of them is the second inserter in one of the two orders).
func sharedCases(n int, ordered bool) []sharedCase {
	var out []sharedCase
	for a := 0; a < n; a++ {
		for b := 0; b < n; b++ {
			if a == b || (!ordered && a > b) {
				continue
			}
			for first := 0; first < 2; first++ {
				out = append(out, sharedCase{a, b, first})
			}
		}
	}
	return out
}
