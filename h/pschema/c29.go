package pschema

import (
	"context"
	"encoding/json"
	"fmt"
	"sort"
	"strings"
	"time"

	ledgercontroller "github.com/formancehq/ledger/internal/controller/ledger"
	"github.com/formancehq/ledger/internal/storage/common"
	"github.com/formancehq/ledger/verifh/ev"
	"github.com/formancehq/ledger/verifh/lx"
	"github.com/formancehq/ledger/verifh/pgsim"
	"github.com/formancehq/ledger/verifh/reg"
)

// ---------------------------------------------------------------------------------
// C29 — Schema enforcement and chart semantics.
// ---------------------------------------------------------------------------------

// schemaSpec is one schema version of a scenario: the harness's chart specification
// (what the reference matcher reads) and whether transaction templates are defined.
type schemaSpec struct {
	Version   string
	Chart     Chart
	Templates bool
}

const (
	tplOne = "vars {\n account $a\n}\nsend [USD/2 10] (\n source = @world\n destination = $a\n)"
	tplTwo = "vars {\n account $a\n account $b\n}\nsend [USD/2 10] (\n source = @world\n destination = $a\n)\nsend [USD/2 5] (\n source = $a\n destination = $b\n)"
)

func (s schemaSpec) DataJSON() string {
	tx := ""
	if s.Templates {
		tx = `{"T1":{"description":"one posting","script":` + jstr(tplOne) + `},"T2":{"description":"two postings","script":` + jstr(tplTwo) + `}}`
	}
	return schemaDataJSON(s.Chart.JSON(), tx, "")
}

func mleaf(kv ...string) *Node {
	n := &Node{}
	if len(kv) > 0 {
		n.HasMeta, n.Meta = true, map[string]*string{}
		for i := 0; i+1 < len(kv); i += 2 {
			if kv[i+1] == "\x00" {
				n.Meta[kv[i]] = nil
			} else {
				n.Meta[kv[i]] = sp(kv[i+1])
			}
		}
	}
	return n
}

// the chart menu of C29. Every chart declares `world` (postings are funded from it).
func c29Charts() []struct {
	Name  string
	Chart Chart
} {
	return []struct {
		Name  string
		Chart Chart
	}{
		{"pattern+defaults", Chart{
			"world": mleaf(),
			"bank":  {VarLabel: "id", VarPat: Pat3Digits, Var: mleaf("tier", "std")},
		}},
		{"self+non-account-variable", Chart{
			"world": mleaf("w", "1"),
			"bank":  {Self: true, HasMeta: true, Meta: map[string]*string{"kind": sp("root")}, VarLabel: "id", Var: &Node{Fixed: map[string]*Node{"main": mleaf("tier", "m")}}},
		}},
		{"fixed-and-variable-siblings", Chart{
			"world": mleaf(),
			"bank": {Fixed: map[string]*Node{"main": mleaf("f", "fixed")}, VarLabel: "id", VarPat: PatPrefixX,
				Var: &Node{Self: true, HasMeta: true, Meta: map[string]*string{"v": sp("var")}, Fixed: map[string]*Node{"main": mleaf()}}},
		}},
		{"patternless-variable-self+child", Chart{
			"world": mleaf(),
			"users": {VarLabel: "uid", Var: &Node{Self: true, HasMeta: true, Meta: map[string]*string{"lvl": sp("0"), "note": nil}, Fixed: map[string]*Node{"wallet": mleaf()}}},
		}},
		// a fixed child that is a pure branch (sub-segments, not an account itself) next to
		// a patternless variable child that IS an account: `users:pending` names the fixed
		// branch, which is not an account, and must not fall through to the variable sibling
		// (seeded change C29); `users:pending:kyc` and `users:u1` are accepted
		{"fixed-branch-next-to-variable-account", Chart{
			"world": mleaf(),
			"users": {Fixed: map[string]*Node{"pending": {Fixed: map[string]*Node{"kyc": mleaf()}}}, VarLabel: "uid", Var: mleaf("kind", "customer")},
		}},
	}
}

var c29Accounts = []string{"bank", "bank:001", "bank:x1", "bank:main", "bank:001:main", "bank:x1:main", "users:u1", "users:u1:wallet", "users:pending", "users:pending:kyc"}

// refState is the reference model of what C29 talks about: which schema versions
// exist and the metadata of every account that exists.
type refState struct {
	Schemas map[string]schemaSpec
	Accs    map[string]map[string]string
	// origin of each expected value, for structural signatures: "default" | "explicit"
	Origin map[string]map[string]string
	TxIDs  int
}

func newRefState(schemas []schemaSpec) *refState {
	r := &refState{Schemas: map[string]schemaSpec{}, Accs: map[string]map[string]string{}, Origin: map[string]map[string]string{}}
	for _, s := range schemas {
		r.Schemas[s.Version] = s
	}
	return r
}

type verdict struct {
	Expect string // accept | reject | unspecified
	Reason string // the rule of the property that decides (structural, goes into signatures)
}

// involved returns the postings' accounts (sources and destinations) of a write, in
// order of first appearance, for plain postings and for the two templates.
func opPostings(op lx.Op) [][2]string {
	var out [][2]string
	switch {
	case op.Kind == "post":
		for _, p := range op.Postings {
			out = append(out, [2]string{p.Src, p.Dst})
		}
	case op.Kind == "script" && op.Template == "T1":
		out = append(out, [2]string{"world", op.Vars["a"]})
	case op.Kind == "script" && op.Template == "T2":
		out = append(out, [2]string{"world", op.Vars["a"]}, [2]string{op.Vars["a"], op.Vars["b"]})
	}
	return out
}

// decide derives the expected outcome of a write from the property text:
//
//	strict: the write must name an existing version; a transaction must use a template
//	when the named schema defines templates; its postings must use accounts the named
//	chart accepts; violations are rejected. audit: the same violations are accepted.
//
// A request that uses a template although the named schema defines none (or no schema
// is named) has nothing to execute: the property does not speak about it.
func (r *refState) decide(strict bool, op lx.Op) verdict {
	var reasons []string
	s, named := r.Schemas[op.Schema]
	switch {
	case op.Schema == "":
		reasons = append(reasons, "no-version")
	case !named:
		reasons = append(reasons, "unknown-version")
	}
	isTx := op.Kind == "post" || op.Kind == "script"
	if isTx {
		if op.Template != "" && (!named || !s.Templates) {
			return verdict{"unspecified", "template-used-but-none-defined"}
		}
		if named && s.Templates && op.Template == "" {
			reasons = append(reasons, "no-template-when-templates-defined")
		}
		if named {
			for _, p := range opPostings(op) {
				if !s.Chart.Classify(p[0]).Accepted || !s.Chart.Classify(p[1]).Accepted {
					reasons = append(reasons, "chart-rejected-account")
					break
				}
			}
		}
	}
	if len(reasons) == 0 {
		return verdict{"accept", "valid-write"}
	}
	if strict {
		return verdict{"reject", reasons[0]}
	}
	return verdict{"accept", reasons[0]}
}

func (r *refState) defaults(version, addr string) map[string]string {
	s, ok := r.Schemas[version]
	if !ok {
		return nil
	}
	return s.Chart.Classify(addr).Defaults
}

func (r *refState) touch(version, addr string, explicit map[string]string) {
	m, exists := r.Accs[addr]
	if !exists {
		m = map[string]string{}
		r.Accs[addr] = m
		r.Origin[addr] = map[string]string{}
		for k, v := range r.defaults(version, addr) {
			m[k] = v
			r.Origin[addr][k] = "default"
		}
	}
	for k, v := range explicit {
		m[k] = v
		r.Origin[addr][k] = "explicit"
	}
}

// commit mirrors the effect of an accepted write.
func (r *refState) commit(op lx.Op) {
	switch op.Kind {
	case "post", "script":
		seen := map[string]bool{}
		var order []string
		for _, p := range opPostings(op) {
			for _, a := range p {
				if !seen[a] {
					seen[a] = true
					order = append(order, a)
				}
			}
		}
		for a := range op.AccMeta {
			if !seen[a] {
				seen[a] = true
				order = append(order, a)
			}
		}
		for _, a := range order {
			r.touch(op.Schema, a, op.AccMeta[a])
		}
		r.TxIDs++
	case "accmeta":
		r.touch(op.Schema, op.Address, op.Meta)
	case "delaccmeta":
		if m, ok := r.Accs[op.Address]; ok {
			delete(m, op.Key)
			delete(r.Origin[op.Address], op.Key)
		}
	case "revert":
		r.TxIDs++
	}
}

type c29Case struct {
	Group   string       `json:"group"`
	Mode    string       `json:"mode"`
	Schemas []schemaSpec `json:"-"`
	Seed    []lx.Op      `json:"seed,omitempty"` // applied in audit mode while building the start state
	Ops     []lx.Op      `json:"ops"`
	// Carrier: "" = the write is sent to the ledger controller directly; "tx" = inside a
	// transaction-scoped controller (BeginTX ... Commit/Rollback), which is how an atomic bulk
	// and the first write on a freshly imported ledger run it
	Carrier string `json:"carrier,omitempty"`
}

func (c c29Case) replay() map[string]any {
	var ss []map[string]any
	for _, s := range c.Schemas {
		ss = append(ss, map[string]any{"version": s.Version, "data": json.RawMessage(s.DataJSON())})
	}
	return map[string]any{"group": c.Group, "mode": c.Mode, "schemas": ss, "seed": c.Seed, "ops": c.Ops, "carrier": c.Carrier}
}

type c29 struct {
	r        *ev.Run
	outcomes *counter
	samples  *ev.Samples
	evals    int64
}

// bootWith creates the start state: ledger l1, the schema versions inserted in order
// through the real controller, then the seed operations (audit mode).
func bootWith(ctx context.Context, base *pgsim.DB, schemas []schemaSpec, seed []lx.Op) (*pgsim.DB, error) {
	pg := base.Clone()
	w := attachMode(pg, ledgercontroller.SchemaEnforcementAudit)
	defer w.Close()
	ctrl, err := w.Sys.GetLedgerController(ctx, "l1")
	if err != nil {
		return nil, err
	}
	for _, s := range schemas {
		out := lx.Apply(ctx, ctrl, lx.Op{Kind: "schema", Schema: s.Version, SchemaData: s.DataJSON()})
		if out.Err != nil {
			return nil, fmt.Errorf("insert schema %s %s: %w", s.Version, s.DataJSON(), out.Err)
		}
	}
	for _, op := range seed {
		if out := lx.Apply(ctx, ctrl, op); out.Err != nil {
			return nil, fmt.Errorf("seed op %s: %w", op, out.Err)
		}
	}
	return pg, nil
}

func metaString(m map[string]string) string {
	ks := make([]string, 0, len(m))
	for k := range m {
		ks = append(ks, k)
	}
	sort.Strings(ks)
	var sb strings.Builder
	sb.WriteByte('{')
	for i, k := range ks {
		if i > 0 {
			sb.WriteByte(',')
		}
		sb.WriteString(k + "=" + m[k])
	}
	sb.WriteByte('}')
	return sb.String()
}

func opLabel(op lx.Op) string {
	s := op.String()
	if op.Kind == "script" && op.Template != "" {
		s = fmt.Sprintf("template %s%v", op.Template, op.Vars)
	}
	if len(op.AccMeta) > 0 {
		s += fmt.Sprintf("+accMeta%v", op.AccMeta)
	}
	v := op.Schema
	if v == "" {
		v = "<none>"
	}
	return s + "@" + v
}

// run executes one case on a clone of its start state and evaluates the oracle after
// every operation.
func (c *c29) run(ctx context.Context, start *pgsim.DB, seedRef func() *refState, cs c29Case) {
	pg := start.Clone()
	mode := ledgercontroller.SchemaEnforcementAudit
	if cs.Mode == "strict" {
		mode = ledgercontroller.SchemaEnforcementStrict
	}
	w := attachMode(pg, mode)
	defer w.Close()
	ctrl, err := w.Sys.GetLedgerController(ctx, "l1")
	if err != nil {
		c.r.EngineError("GetLedgerController: " + err.Error())
		return
	}
	ref := seedRef()
	var labels []string
	for _, op := range cs.Ops {
		labels = append(labels, opLabel(op))
		v := ref.decide(cs.Mode == "strict", op)
		before := dump(pg)
		var out lx.Outcome
		if cs.Carrier == "tx" {
			tc, _, err := ctrl.BeginTX(ctx, nil)
			if err != nil {
				c.r.EngineError(fmt.Sprintf("%v: BeginTX: %v", labels, err))
				return
			}
			out = safeApply(ctx, tc, op)
			if out.Err != nil {
				_ = tc.Rollback(ctx)
			} else if err := tc.Commit(ctx); err != nil {
				c.r.EngineError(fmt.Sprintf("%v: Commit: %v", labels, err))
				return
			}
		} else {
			out = safeApply(ctx, ctrl, op)
		}
		if out.Class == "ENGINE" || strings.HasPrefix(fmt.Sprint(out.Err), "harness:") {
			c.r.EngineError(fmt.Sprintf("%v: %v", labels, out.Err))
			return
		}
		if out.Class == "panic" {
			c.r.Violation("C29:"+cs.Mode+":"+v.Reason+":panic",
				fmt.Sprintf("%s mode, %v: the write neither succeeded nor was rejected: %v", cs.Mode, labels, out.Err), cs.replay())
			return
		}
		after := dump(pg)
		res := "accepted"
		if out.Err != nil {
			res = "rejected"
		}
		c.outcomes.add(cs.Mode+":"+v.Expect+":"+v.Reason+":"+res, 1)
		if out.Err != nil && before != after {
			c.r.Violation("C29:"+cs.Mode+":"+v.Reason+":rejected-with-effect",
				fmt.Sprintf("%s mode, %v: the write was rejected (%v) but the database changed", cs.Mode, labels, out.Err), cs.replay())
		}
		switch {
		case v.Expect == "reject" && out.Err == nil:
			c.r.Violation("C29:"+cs.Mode+":"+v.Reason+":accepted",
				fmt.Sprintf("%s mode, %v: the property requires rejection (%s) but the write was accepted", cs.Mode, labels, v.Reason), cs.replay())
			return
		case v.Expect == "accept" && out.Err != nil:
			c.r.Violation("C29:"+cs.Mode+":"+v.Reason+":rejected",
				fmt.Sprintf("%s mode, %v: the property requires acceptance (%s) but the write was rejected: %v", cs.Mode, labels, v.Reason, out.Err), cs.replay())
			return
		}
		if out.Err == nil {
			if before == after {
				c.r.Violation("C29:"+cs.Mode+":"+v.Reason+":accepted-without-effect",
					fmt.Sprintf("%s mode, %v: the write was accepted but the database did not change", cs.Mode, labels), cs.replay())
			}
			ref.commit(op)
		}
		// account metadata: what exists must carry exactly the expected values
		accs, err := lx.ListAccs(ctx, ctrl, common.ResourceQuery[any]{})
		if err != nil {
			c.r.EngineError(fmt.Sprintf("%v: ListAccounts: %v", labels, err))
			return
		}
		got := map[string]map[string]string{}
		for _, a := range accs {
			got[a.Address] = map[string]string(a.Metadata)
		}
		for addr, want := range ref.Accs {
			g, ok := got[addr]
			if !ok {
				c.r.Violation("C29:account:missing", fmt.Sprintf("%s mode, %v: account %s should exist", cs.Mode, labels, addr), cs.replay())
				continue
			}
			keys := map[string]bool{}
			for k := range want {
				keys[k] = true
			}
			for k := range g {
				keys[k] = true
			}
			for k := range keys {
				wv, wok := want[k]
				gv, gok := g[k]
				if wok == gok && wv == gv {
					continue
				}
				kind := "value-differs"
				isDefaultOfNamed := false
				for _, s := range ref.Schemas {
					if d, ok := s.Chart.Classify(addr).Defaults[k]; ok && gok && d == gv {
						isDefaultOfNamed = true
					}
				}
				switch {
				case wok && !gok && ref.Origin[addr][k] == "default":
					kind = "default-not-applied-at-creation"
				case wok && !gok:
					kind = "explicit-value-lost"
				case !wok && gok && isDefaultOfNamed:
					kind = "default-applied-after-creation"
				case wok && gok && isDefaultOfNamed:
					kind = "default-overwrote-existing-value"
				case wok && gok && ref.Origin[addr][k] == "default":
					kind = "wrong-default-value"
				}
				c.r.Violation("C29:default-metadata:"+kind,
					fmt.Sprintf("%s mode, %v: account %s metadata is %s, expected %s (key %q)", cs.Mode, labels, addr, metaString(g), metaString(want), k), cs.replay())
			}
		}
		for addr := range got {
			if _, ok := ref.Accs[addr]; !ok {
				c.r.Violation("C29:account:unexpected", fmt.Sprintf("%s mode, %v: account %s exists but no accepted write created it", cs.Mode, labels, addr), cs.replay())
			}
		}
	}
	c.samples.Add(map[string]any{"group": cs.Group, "mode": cs.Mode, "ops": labels})
}

func ps(list ...lx.P) []lx.P { return list }

func pst(src, dst, amt string) lx.P { return lx.P{Src: src, Dst: dst, Ast: "USD/2", Amt: amt} }

func runC29() int {
	r := ev.Start("C29", ev.LevelExploration, 120*time.Second, 12*time.Minute)
	ctx := context.Background()
	c := &c29{r: r, outcomes: newCounter(), samples: ev.NewSamples(8)}

	base, err := lx.Boot(ctx, []lx.LedgerSpec{{Name: "l1"}})
	if err != nil {
		r.EngineError("boot: " + err.Error())
		return r.Finish(nil, []string{pgsimAssumption})
	}

	type scenario struct {
		start   *pgsim.DB
		schemas []schemaSpec
		seed    []lx.Op
		cases   []c29Case
	}
	var scenarios []*scenario
	older := schemaSpec{Version: "v0", Chart: Chart{"world": mleaf(), "bank": {VarLabel: "id", Var: mleaf("old", "o")}}}

	// ---- group 1: single writes: chart × postings × mode × version × templates × template use
	for _, ch := range c29Charts() {
		for _, tdef := range []bool{false, true} {
			sc := &scenario{schemas: []schemaSpec{older, {Version: "v1", Chart: ch.Chart, Templates: tdef}}}
			var lists []lx.Op
			for _, x := range c29Accounts {
				lists = append(lists, lx.Op{Kind: "post", Postings: ps(pst("world", x, "10"))})
				for _, y := range c29Accounts {
					if x != y {
						lists = append(lists, lx.Op{Kind: "post", Postings: ps(pst("world", x, "10"), pst(x, y, "5"))})
					}
				}
			}
			for _, mode := range []string{"strict", "audit"} {
				for _, ver := range []string{"v1", "v0", "", "v9"} {
					for _, useT := range []bool{false, true} {
						for _, l := range lists {
							op := l
							op.Schema = ver
							if useT {
								op = lx.Op{Kind: "script", Schema: ver, Template: "T1", Vars: map[string]string{"a": l.Postings[0].Dst}}
								if len(l.Postings) == 2 {
									op.Template = "T2"
									op.Vars["b"] = l.Postings[1].Dst
								}
							}
							sc.cases = append(sc.cases, c29Case{Group: "single-write/" + ch.Name, Mode: mode, Schemas: sc.schemas, Ops: []lx.Op{op}})
							if len(l.Postings) == 1 {
								// the same write inside a transaction-scoped controller
								sc.cases = append(sc.cases, c29Case{Group: "single-write-in-tx/" + ch.Name, Mode: mode, Schemas: sc.schemas, Ops: []lx.Op{op}, Carrier: "tx"})
							}
						}
					}
				}
			}
			scenarios = append(scenarios, sc)
		}
	}

	// ---- group 2: the other write kinds need a version too (strict) / are accepted (audit)
	{
		ch := c29Charts()[0]
		for _, tdef := range []bool{false, true} {
			seedTx := lx.Op{Kind: "post", Schema: "v1", Postings: ps(pst("world", "bank:001", "10"))}
			if tdef {
				seedTx = lx.Op{Kind: "script", Schema: "v1", Template: "T1", Vars: map[string]string{"a": "bank:001"}}
			}
			sc := &scenario{schemas: []schemaSpec{older, {Version: "v1", Chart: ch.Chart, Templates: tdef}},
				seed: []lx.Op{seedTx, {Kind: "txmeta", Schema: "v1", TxID: 1, Meta: map[string]string{"m": "x"}}}}
			for _, mode := range []string{"strict", "audit"} {
				for _, ver := range []string{"v1", "v0", "", "v9"} {
					for _, op := range []lx.Op{
						{Kind: "accmeta", Address: "bank:002", Meta: map[string]string{"n": "1"}},
						{Kind: "accmeta", Address: "bank:001", Meta: map[string]string{"n": "1"}},
						{Kind: "accmeta", Address: "not:in:chart", Meta: map[string]string{"n": "1"}},
						{Kind: "delaccmeta", Address: "bank:001", Key: "tier"},
						{Kind: "txmeta", TxID: 1, Meta: map[string]string{"m": "y"}},
						{Kind: "deltxmeta", TxID: 1, Key: "m"},
						{Kind: "revert", TxID: 1},
					} {
						op.Schema = ver
						sc.cases = append(sc.cases, c29Case{Group: "other-writes", Mode: mode, Schemas: sc.schemas, Seed: sc.seed, Ops: []lx.Op{op}})
					}
				}
			}
			scenarios = append(scenarios, sc)
		}
	}

	// ---- group 3: K1 sequences over an alphabet about default metadata, two versions with different defaults
	{
		v1 := schemaSpec{Version: "v1", Chart: Chart{"world": mleaf(), "bank": {VarLabel: "id", VarPat: Pat3Digits, Var: mleaf("tier", "std", "extra", "e1")}}}
		v2 := schemaSpec{Version: "v2", Chart: Chart{"world": mleaf("w", "2"), "bank": {VarLabel: "id", VarPat: Pat3Digits, Var: mleaf("tier", "gold", "region", "eu")}}}
		sc := &scenario{schemas: []schemaSpec{v1, v2}}
		var alpha []lx.Op
		for _, ver := range []string{"v1", "v2", ""} {
			for _, op := range []lx.Op{
				{Kind: "accmeta", Address: "bank:001", Meta: map[string]string{"note": "n"}},
				{Kind: "accmeta", Address: "bank:001", Meta: map[string]string{"tier": "explicit"}},
				{Kind: "post", Postings: ps(pst("world", "bank:001", "10"))},
				{Kind: "post", Postings: ps(pst("world", "bank:001", "10")), AccMeta: map[string]map[string]string{"bank:001": {"tier": "tx-explicit"}}},
				{Kind: "post", Postings: ps(pst("world", "bank:002", "10")), AccMeta: map[string]map[string]string{"bank:001": {"region": "tx-only-meta"}}},
				{Kind: "delaccmeta", Address: "bank:001", Key: "tier"},
				{Kind: "post", Postings: ps(pst("world", "bank:abc", "10"))},
			} {
				op.Schema = ver
				alpha = append(alpha, op)
			}
		}
		depth := ev.Pick(r, 2, 3)
		var rec func(prefix []lx.Op)
		for _, mode := range []string{"audit", "strict"} {
			mode := mode
			rec = func(prefix []lx.Op) {
				if len(prefix) > 0 {
					sc.cases = append(sc.cases, c29Case{Group: fmt.Sprintf("default-metadata-sequences/len%d", len(prefix)), Mode: mode, Schemas: sc.schemas, Ops: append([]lx.Op(nil), prefix...)})
				}
				if len(prefix) == depth {
					return
				}
				for _, op := range alpha {
					rec(append(append([]lx.Op(nil), prefix...), op))
				}
			}
			rec(nil)
		}
		scenarios = append(scenarios, sc)
	}

	// build the start states, then run every case
	type job struct {
		sc *scenario
		cs c29Case
	}
	var jobs []job
	for _, sc := range scenarios {
		pg, err := bootWith(ctx, base, sc.schemas, sc.seed)
		if err != nil {
			r.EngineError("start state: " + err.Error())
			return r.Finish(nil, []string{pgsimAssumption})
		}
		sc.start = pg
		for _, cs := range sc.cases {
			jobs = append(jobs, job{sc, cs})
		}
	}
	// shorter sequences first (the first counterexample is the shortest)
	jobSize := func(j job) int {
		n := 0
		for _, op := range j.cs.Ops {
			n += 10 + len(op.Postings)
		}
		return n
	}
	sort.SliceStable(jobs, func(i, j int) bool { return jobSize(jobs[i]) < jobSize(jobs[j]) })
	groups := newCounter()
	complete := phasedFor(r, len(jobs), func(i int) int { return jobSize(jobs[i]) }, func(i int) {
		j := jobs[i]
		seedRef := func() *refState {
			ref := newRefState(j.sc.schemas)
			for _, op := range j.sc.seed {
				ref.commit(op)
			}
			return ref
		}
		c.run(ctx, j.sc.start, seedRef, j.cs)
		g := j.cs.Group
		if k := strings.Index(g, "/"); k > 0 && !strings.HasPrefix(g, "default-metadata") {
			g = g[:k]
		}
		groups.add(g, 1)
	})

	oc := c.outcomes.snapshot()
	var total, nontrivial int64
	sum := func(pred func(k string) bool) int64 {
		var n int64
		for k, v := range oc {
			if pred(k) {
				n += v
			}
		}
		return n
	}
	for k, v := range oc {
		total += v
		if !strings.Contains(k, ":valid-write:") && !strings.Contains(k, ":unspecified:") {
			nontrivial += v
		}
	}
	if r.ViolationCount() == 0 && !r.HasEngineError() && complete {
		for name, n := range map[string]int64{
			"strict rejection of a write without version":  sum(func(k string) bool { return strings.HasPrefix(k, "strict:reject:no-version:rejected") }),
			"strict rejection of an unknown version":       sum(func(k string) bool { return strings.HasPrefix(k, "strict:reject:unknown-version:rejected") }),
			"strict rejection of a chart-rejected account": sum(func(k string) bool { return strings.HasPrefix(k, "strict:reject:chart-rejected-account:rejected") }),
			"strict rejection of a missing template": sum(func(k string) bool {
				return strings.HasPrefix(k, "strict:reject:no-template-when-templates-defined:rejected")
			}),
			"strict acceptance of a valid write":           sum(func(k string) bool { return strings.HasPrefix(k, "strict:accept:valid-write:accepted") }),
			"audit acceptance of a chart-rejected account": sum(func(k string) bool { return strings.HasPrefix(k, "audit:accept:chart-rejected-account:accepted") }),
			"audit acceptance of a write without version":  sum(func(k string) bool { return strings.HasPrefix(k, "audit:accept:no-version:accepted") }),
		} {
			if n == 0 {
				r.EngineError("vacuous: never observed " + name)
			}
		}
	}
	cov := ev.Coverage{
		"evaluations":         total,
		"distinct_nontrivial": nontrivial,
		"cases":               len(jobs),
		"cases_by_group":      groups.snapshot(),
		"outcomes":            oc,
		"samples":             c.samples.List(),
		"exhaustive":          complete,
		"rule": "evaluation = one write applied through the real system controller (strict or audit enforcement) on a clone of a pgsim start state holding two schema versions, with the property's verdict derived from the reference chart matcher; " +
			"single-write group: 5 charts (pattern+defaults, .self with non-account variable, fixed and variable siblings, patternless variable with .self and child, fixed pure-branch child next to a variable account) x {templates defined, not} x every postings list [world->X] and [world->X, X->Y] over 10 accounts (accepted / rejected / partially accepted by the chart) x {strict, audit} x {latest version, older version, no version, unknown version} x {plain postings, template}, and every one-posting write of that product again inside a transaction-scoped controller (BeginTX … Commit: the carrier of an atomic bulk and of the first write after an import); " +
			"other-writes group: account/transaction metadata set and delete, revert x mode x version; default-metadata group: every sequence of length<=depth over 21 operations (create by metadata / by transaction, explicit value on a default key, transaction-level account metadata, delete, account outside the chart; each under v1, v2 with different defaults, and without version) in both modes; " +
			"after every write: rejected => database dump unchanged, accepted/rejected as the property requires, metadata of every account equals the reference (defaults of the named version's chart at first creation only, explicit values win, nothing overwritten later). distinct_nontrivial = writes whose expected verdict depends on a schema rule (not plain valid writes)",
		"default_metadata_sequence_depth": ev.Pick(r, 2, 3),
	}
	return r.Finish(cov, []string{pgsimAssumption,
		"a request that uses a template although the named schema defines none (or names no schema) has nothing to execute; the property is silent, so only 'rejected => no effect' is asserted for it",
		"audit mode + unknown schema version: the property text lists it among the violations audit mode accepts; the oracle follows the text",
		"when a write names no version (audit) no chart applies to it: the reference gives new accounts no default metadata"})
}

func init() { reg.Register("C29", runC29) }
