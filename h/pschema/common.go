package pschema

import (
	"bytes"
	"context"
	"encoding/json"
	"fmt"
	"reflect"
	"runtime"
	"sync"
	"sync/atomic"

	"github.com/formancehq/go-libs/v5/pkg/storage/bun/paginate"
	"github.com/formancehq/go-libs/v5/pkg/types/metadata"

	ledger "github.com/formancehq/ledger/internal"
	ledgercontroller "github.com/formancehq/ledger/internal/controller/ledger"
	systemcontroller "github.com/formancehq/ledger/internal/controller/system"
	"github.com/formancehq/ledger/internal/storage/common"
	systemstore "github.com/formancehq/ledger/internal/storage/system"
	"github.com/formancehq/ledger/verifh/ev"
	"github.com/formancehq/ledger/verifh/lx"
	"github.com/formancehq/ledger/verifh/pgsim"
	"github.com/formancehq/ledger/verifh/world"
)

var pgsimAssumption = "pgsim: hand-written in-process model of the Postgres subset the ledger uses (READ COMMITTED MVCC, row/advisory locks, savepoints, jsonb, triggers, PL/pgSQL); it cannot be validated against a real server in this sandbox"

type nopListener struct{}

func (nopListener) CommittedTransactions(context.Context, string, ledger.Transaction, ledger.AccountMetadata) {
}
func (nopListener) SavedMetadata(context.Context, string, string, string, metadata.Metadata) {}
func (nopListener) RevertedTransaction(context.Context, string, ledger.Transaction, ledger.Transaction) {
}
func (nopListener) DeletedMetadata(context.Context, string, string, any, string) {}
func (nopListener) InsertedSchema(context.Context, string, ledger.Schema)        {}

// attachMode builds the Go stack over a database exactly like world.Attach does, with
// the system controller's schema enforcement mode set (world.Attach uses the default,
// audit).
func attachMode(pg *pgsim.DB, mode ledgercontroller.SchemaEnforcementMode) *world.World {
	w := world.Attach(pg)
	w.Sys = systemcontroller.NewDefaultController(
		systemcontroller.NewControllerStorageDriverAdapter(w.Driver, systemstore.New(w.Bun)),
		nopListener{}, nil,
		systemcontroller.WithEnableFeatures(true),
		systemcontroller.WithParser(
			ledgercontroller.NewDefaultNumscriptParser(),
			ledgercontroller.NewDefaultNumscriptParser(),
			ledgercontroller.NewInterpreterNumscriptParser(nil),
		),
		systemcontroller.WithSchemaEnforcementMode(mode),
	)
	return w
}

func skipGoose(schema, table string) bool { return table == "goose_db_version" }

func dump(pg *pgsim.DB) string { return pg.DumpFiltered(false, skipGoose) }

// canon decodes JSON (numbers kept as json.Number) so that two documents can be
// compared irrespective of key order and white space.
func canon(b []byte) (any, error) {
	if len(bytes.TrimSpace(b)) == 0 {
		return nil, nil
	}
	dec := json.NewDecoder(bytes.NewReader(b))
	dec.UseNumber()
	var v any
	if err := dec.Decode(&v); err != nil {
		return nil, err
	}
	return v, nil
}

func canonOf(v any) (any, error) {
	b, err := json.Marshal(v)
	if err != nil {
		return nil, err
	}
	return canon(b)
}

// sameJSON reports whether two Go values marshal to the same JSON document. nil and
// empty maps are the same "no templates".
func sameJSON(a, b any) (bool, string, string) {
	ca, errA := canonOf(a)
	cb, errB := canonOf(b)
	sa, _ := json.Marshal(ca)
	sb, _ := json.Marshal(cb)
	if errA != nil || errB != nil {
		return false, fmt.Sprint(errA), fmt.Sprint(errB)
	}
	if isEmptyJSON(ca) && isEmptyJSON(cb) {
		return true, string(sa), string(sb)
	}
	return reflect.DeepEqual(ca, cb), string(sa), string(sb)
}

func isEmptyJSON(v any) bool {
	if v == nil {
		return true
	}
	if m, ok := v.(map[string]any); ok && len(m) == 0 {
		return true
	}
	return false
}

// allPages follows `next` cursors to the end.
func allPages[T any, O any](ctx context.Context, first common.PaginatedQuery[O],
	page func(context.Context, common.PaginatedQuery[O]) (*paginate.Cursor[T], error)) ([]T, error) {
	var out []T
	q := first
	for i := 0; i < 10000; i++ {
		c, err := page(ctx, q)
		if err != nil {
			return nil, err
		}
		out = append(out, c.Data...)
		if !c.HasMore || c.Next == "" {
			return out, nil
		}
		nq, err := common.UnmarshalCursor[O](c.Next)
		if err != nil {
			return nil, fmt.Errorf("bad next cursor: %w", err)
		}
		q = nq
	}
	return nil, fmt.Errorf("pagination did not terminate")
}

// parallelFor runs fn(i) for i in [0,n) on NumCPU goroutines; it stops early (and
// returns false) when the budget expires or an engine error was recorded.
func parallelFor(r *ev.Run, n int, fn func(i int)) bool {
	var next atomic.Int64
	var stopped atomic.Bool
	var wg sync.WaitGroup
	for w := 0; w < runtime.NumCPU(); w++ {
		wg.Add(1)
		go func() {
			defer wg.Done()
			for {
				if r.Expired() || r.HasEngineError() {
					stopped.Store(true)
					return
				}
				i := int(next.Add(1) - 1)
				if i >= n {
					return
				}
				fn(i)
			}
		}()
	}
	wg.Wait()
	return !stopped.Load()
}

// counter is a concurrency-safe string->count map.
type counter struct {
	mu sync.Mutex
	m  map[string]int64
}

func newCounter() *counter { return &counter{m: map[string]int64{}} }
func (c *counter) add(k string, n int64) {
	c.mu.Lock()
	c.m[k] += n
	c.mu.Unlock()
}
func (c *counter) get(k string) int64 {
	c.mu.Lock()
	defer c.mu.Unlock()
	return c.m[k]
}
func (c *counter) snapshot() map[string]int64 {
	c.mu.Lock()
	defer c.mu.Unlock()
	out := make(map[string]int64, len(c.m))
	for k, v := range c.m {
		out[k] = v
	}
	return out
}

// phasedFor runs the jobs grouped by size(i) in increasing order with a barrier between
// groups (so that the first counterexample recorded for a signature is a shortest one).
// idx must already be sorted by size. Returns false when it stopped early.
func phasedFor(r *ev.Run, n int, size func(i int) int, fn func(i int)) bool {
	lo := 0
	for lo < n {
		hi := lo
		for hi < n && size(hi) == size(lo) {
			hi++
		}
		base := lo
		if !parallelFor(r, hi-lo, func(i int) { fn(base + i) }) {
			return false
		}
		lo = hi
	}
	return true
}

// safeApply is lx.Apply with a panic barrier: a panic inside the ledger while it serves
// a request is an outcome of that request (class "panic"), not a crash of the harness.
func safeApply(ctx context.Context, ctrl ledgercontroller.Controller, op lx.Op) (out lx.Outcome) {
	defer func() {
		if p := recover(); p != nil {
			out = lx.Outcome{Err: fmt.Errorf("panic while serving the request: %v", p), Class: "panic"}
		}
	}()
	return lx.Apply(ctx, ctrl, op)
}
