package pschema

import (
	"context"
	"encoding/json"
	"fmt"
	"net/http"
	"net/http/httptest"
	"strings"

	"github.com/formancehq/ledger/internal/api/bulking"
	ledgercontroller "github.com/formancehq/ledger/internal/controller/ledger"
	"github.com/formancehq/ledger/verifh/pgsim"
	"github.com/formancehq/ledger/verifh/world"
)

// The same Bulker is fed by three handlers (routes.go: application/json and the two streamed
// content types). c32_stream.go sends bulks through the JSON STREAM handler
// (…bulk+json-stream: one JSON document per element, decoded while the bulk runs):
//
//  1. differential: every bulk of length <= 2 over the core menu, atomic and sequential,
//     must give the same per-element results and leave the ledger as the same bulk sent as
//     a JSON array does (the property does not depend on the carrier);
//  2. a document that cannot be decoded as an element (a CREATE_TRANSACTION whose timestamp
//     is not a date) at every position of such bulks: an ATOMIC bulk applies all of its
//     elements or none — one of them cannot be applied, so none may be; a sequential bulk
//     applies the elements before it and nothing after.

const c32Undecodable = `{"action":"CREATE_TRANSACTION","data":{"postings":[{"source":"world","destination":"a","amount":1,"asset":"USD"}],"timestamp":"2023-13-45T00:00:00Z"}}`

type streamOut struct {
	status    int
	results   []apiResult
	errorCode string
	raw       string
}

// runBulkStream posts the documents as internal/api/v2/controllers_bulk.go does for the
// json-stream content type.
func runBulkStream(ctx context.Context, ctrl ledgercontroller.Controller, carrier string, docs []string, o bulkOpts) (*streamOut, error) {
	body := strings.Join(docs, "\n") + "\n"
	req := httptest.NewRequest(http.MethodPost, "/v2/l1/_bulk", strings.NewReader(body)).WithContext(ctx)
	rec := httptest.NewRecorder()
	type streamHandler interface {
		bulking.Handler
		StreamError() error
	}
	var h streamHandler = bulking.NewJSONStreamBulkHandler()
	if carrier == "script-stream" {
		h = bulking.NewTextStreamBulkHandler()
	}
	send, receive, ok := h.GetChannels(rec, req)
	if !ok {
		return nil, fmt.Errorf("request rejected by the stream handler")
	}
	err := bulking.NewBulker(ctrl, bulking.WithParallelism(10)).Run(ctx, send, receive, bulking.BulkingOptions{
		ContinueOnFailure: o.Continue, Atomic: o.Atomic, Parallel: o.Parallel,
		// as the controller does: the handler tells the bulker whether the stream could be read to its end
		InputError: h.StreamError,
	})
	if err != nil {
		return nil, err
	}
	h.Terminate(rec, req)
	var resp struct {
		Data      []apiResult `json:"data"`
		ErrorCode string      `json:"errorCode"`
	}
	if err := json.Unmarshal(rec.Body.Bytes(), &resp); err != nil {
		return nil, fmt.Errorf("unreadable stream bulk response: %w (%s)", err, rec.Body.String())
	}
	return &streamOut{status: rec.Code, results: resp.Data, errorCode: resp.ErrorCode, raw: rec.Body.String()}, nil
}

func normResults(rs []apiResult) string {
	var parts []string
	for _, r := range rs {
		parts = append(parts, fmt.Sprintf("%s|%s|%d|%s", r.ResponseType, r.ErrorCode, r.LogID, normJSON(r.Data)))
	}
	return strings.Join(parts, "\n")
}

// streamElem: one element in both spellings: as a member of the JSON array and as a document
// of the stream.
type streamElem struct {
	bulkElem
	Doc string
}

// scriptStreamMenu: the text stream only carries scripted transactions.
func scriptStreamMenu() []streamElem {
	mk := func(name, script string) streamElem {
		return streamElem{
			bulkElem: bulkElem{Name: name, Act: bulking.ActionCreateTransaction, JSON: `{"action":"CREATE_TRANSACTION","data":{"script":{"plain":` + jstr(script) + `,"vars":{}}}}`},
			Doc:      "//script\n" + script + "\n//end",
		}
	}
	return []streamElem{
		mk("script-fund-a", "send [USD 10] (\n source = @world\n destination = @a\n)"),
		mk("script-overdraw", "send [USD 1000] (\n source = @c\n destination = @a\n)"),
		mk("script-meta", bulkScript),
		mk("script-a-to-b", "send [USD 5] (\n source = @a\n destination = @b\n)"),
	}
}

func (c *c32) streamed(ctx context.Context, start *pgsim.DB, stateName, carrier string) (cases, undecodable int, complete bool) {
	var menu []streamElem
	undecodableDoc, undecodableName := c32Undecodable, "UNDECODABLE(timestamp)"
	if carrier == "script-stream" {
		menu = scriptStreamMenu()
		undecodableDoc, undecodableName = "//script ik=a,ik=b\nsend [USD 1] (\n source = @world\n destination = @a\n)\n//end", "UNDECODABLE(header)"
	} else {
		for _, e := range c32Menu()[:c32CoreMenu] {
			menu = append(menu, streamElem{bulkElem: e, Doc: e.JSON})
		}
	}
	var bulks [][]streamElem
	for _, a := range menu {
		bulks = append(bulks, []streamElem{a})
	}
	for _, a := range menu {
		for _, b := range menu {
			bulks = append(bulks, []streamElem{a, b})
		}
	}
	viol := func(o bulkOpts, kind string, names []string, format string, a ...any) {
		c.r.Violation("C32:"+carrier+":"+o.mode()+":"+kind+":start="+stateName,
			fmt.Sprintf("start=%s %s bulk=%v options=%s: ", stateName, carrier, names, o)+fmt.Sprintf(format, a...),
			map[string]any{"carrier": carrier, "startState": stateName, "documents": names, "options": o})
	}
	run := func(members, docs []string, o bulkOpts, stream bool) (*streamOut, string, string, error) {
		pg := start.Clone()
		w := world.Attach(pg)
		defer w.Close()
		ctrl, err := w.Sys.GetLedgerController(ctx, "l1")
		if err != nil {
			return nil, "", "", err
		}
		var out *streamOut
		if stream {
			out, err = runBulkStream(ctx, ctrl, carrier, docs, o)
		} else {
			st, res, raw, rerr := runBulk(ctx, ctrl, "["+strings.Join(members, ",")+"]", o)
			out, err = &streamOut{status: st, results: res, raw: raw}, rerr
		}
		if err != nil {
			return nil, "", "", err
		}
		obs, err := observe(ctx, ctrl)
		if err != nil {
			return nil, "", "", err
		}
		return out, obs, dump(pg), nil
	}
	startDump := dump(start)
	for _, o := range []bulkOpts{{Atomic: true}, {}} {
		for _, b := range bulks {
			if c.r.Expired() || c.r.HasEngineError() {
				return cases, undecodable, false
			}
			var names, docs, members []string
			for _, e := range b {
				names = append(names, e.Name)
				docs = append(docs, e.Doc)
				members = append(members, e.JSON)
			}
			// 1. differential against the JSON array carrier
			viaArray, obsA, _, err := run(members, nil, o, false)
			if err != nil {
				c.r.EngineError(fmt.Sprintf("json bulk %v %s: %v", names, o, err))
				return cases, undecodable, false
			}
			viaStream, obsS, _, err := run(nil, docs, o, true)
			if err != nil {
				if strings.Contains(err.Error(), "pgsim:") {
					c.r.EngineError(fmt.Sprintf("%s bulk %v %s: %v", carrier, names, o, err))
					return cases, undecodable, false
				}
				viol(o, "no-results", names, "%v", err)
				continue
			}
			cases++
			if normResults(viaStream.results) != normResults(viaArray.results) {
				viol(o, "results-differ-from-json-carrier", names, "per-element results as a stream:\n%s\nas a JSON array:\n%s", normResults(viaStream.results), normResults(viaArray.results))
			}
			if obsS != obsA {
				viol(o, "ledger-differs-from-json-carrier", names, "the ledger after the streamed bulk differs from the ledger after the same bulk sent as a JSON array")
			}
			c.outcomes.add(carrier+":"+o.mode()+":same-as-json-carrier", 1)
			// 2. an undecodable document at every position
			for k := 0; k <= len(b); k++ {
				withBad := append(append(append([]string{}, docs[:k]...), undecodableDoc), docs[k:]...)
				badNames := append(append(append([]string{}, names[:k]...), undecodableName), names[k:]...)
				out, obs, after, err := run(nil, withBad, o, true)
				if err != nil {
					if strings.Contains(err.Error(), "pgsim:") {
						c.r.EngineError(fmt.Sprintf("%s bulk %v %s: %v", carrier, badNames, o, err))
						return cases, undecodable, false
					}
					viol(o, "no-results", badNames, "%v", err)
					continue
				}
				undecodable++
				if o.Atomic {
					if after != startDump {
						applied := 0
						for _, r := range out.results {
							if r.ErrorCode == "" {
								applied++
							}
						}
						viol(o, "partial-apply:undecodable-element", badNames, "document #%d of the stream cannot be decoded (answer: status %d, errorCode %q), yet the atomic bulk was committed: %d element result(s) report success and the database changed", k+1, out.status, out.errorCode, applied)
					} else {
						c.outcomes.add(carrier+":atomic:undecodable:nothing-applied", 1)
					}
					continue
				}
				// sequential: exactly the prefix before the undecodable document
				_, obsPrefix, _, err := run(members[:k], nil, o, false)
				if k == 0 {
					obsPrefix, err = "", nil
					pg := start.Clone()
					w := world.Attach(pg)
					if ctrl, e := w.Sys.GetLedgerController(ctx, "l1"); e == nil {
						obsPrefix, err = observe(ctx, ctrl)
					} else {
						err = e
					}
					w.Close()
				}
				if err != nil {
					c.r.EngineError(fmt.Sprintf("json bulk prefix %v: %v", names[:k], err))
					return cases, undecodable, false
				}
				if obs != obsPrefix {
					viol(o, "undecodable-element:not-the-prefix", badNames, "the ledger after the stream differs from the ledger after the %d element(s) before the undecodable document", k)
				} else {
					c.outcomes.add(carrier+":sequential:undecodable:prefix-applied", 1)
				}
			}
		}
	}
	return cases, undecodable, true
}
