package pschema

import (
	"context"
	"encoding/json"
	"fmt"
	"net/http"
	"net/http/httptest"
	"strings"

	"github.com/formancehq/ledger/internal/api/bulking"
	ledgercontroller "github.com/formancehq/ledger/internal/controller/ledger"
	"github.com/formancehq/ledger/verifh/pgsim"
	"github.com/formancehq/ledger/verifh/world"
)

// The same Bulker is fed by three handlers (routes.go: application/json and the two streamed
// content types). c32_stream.go sends bulks through the JSON STREAM handler
// (…bulk+json-stream: one JSON document per element, decoded while the bulk runs):
//
//  1. differential: every bulk of length <= 2 over the core menu, atomic and sequential,
//     must give the same per-element results and leave the ledger as the same bulk sent as
//     a JSON array does (the property does not depend on the carrier);
//  2. a document that cannot be decoded as an element (a CREATE_TRANSACTION whose timestamp
//     is not a date) at every position of such bulks: an ATOMIC bulk applies all of its
//     elements or none — one of them cannot be applied, so none may be; a sequential bulk
//     applies the elements before it and nothing after.

const c32Undecodable = `{"action":"CREATE_TRANSACTION","data":{"postings":[{"source":"world","destination":"a","amount":1,"asset":"USD"}],"timestamp":"2023-13-45T00:00:00Z"}}`

type streamOut struct {
	status    int
	results   []apiResult
	errorCode string
	raw       string
}

// runBulkStream posts the documents as internal/api/v2/controllers_bulk.go does for the
// json-stream content type.
func runBulkStream(ctx context.Context, ctrl ledgercontroller.Controller, docs []string, o bulkOpts) (*streamOut, error) {
	body := strings.Join(docs, "\n") + "\n"
	req := httptest.NewRequest(http.MethodPost, "/v2/l1/_bulk", strings.NewReader(body)).WithContext(ctx)
	rec := httptest.NewRecorder()
	h := bulking.NewJSONStreamBulkHandler()
	send, receive, ok := h.GetChannels(rec, req)
	if !ok {
		return nil, fmt.Errorf("request rejected by the stream handler")
	}
	err := bulking.NewBulker(ctrl, bulking.WithParallelism(10)).Run(ctx, send, receive, bulking.BulkingOptions{
		ContinueOnFailure: o.Continue, Atomic: o.Atomic, Parallel: o.Parallel,
		// as the controller does: the handler tells the bulker whether the stream could be read to its end
		InputError: h.StreamError,
	})
	if err != nil {
		return nil, err
	}
	h.Terminate(rec, req)
	var resp struct {
		Data      []apiResult `json:"data"`
		ErrorCode string      `json:"errorCode"`
	}
	if err := json.Unmarshal(rec.Body.Bytes(), &resp); err != nil {
		return nil, fmt.Errorf("unreadable stream bulk response: %w (%s)", err, rec.Body.String())
	}
	return &streamOut{status: rec.Code, results: resp.Data, errorCode: resp.ErrorCode, raw: rec.Body.String()}, nil
}

func normResults(rs []apiResult) string {
	var parts []string
	for _, r := range rs {
		parts = append(parts, fmt.Sprintf("%s|%s|%d|%s", r.ResponseType, r.ErrorCode, r.LogID, normJSON(r.Data)))
	}
	return strings.Join(parts, "\n")
}

func (c *c32) streamed(ctx context.Context, start *pgsim.DB, stateName string) (cases, undecodable int, complete bool) {
	menu := c32Menu()[:c32CoreMenu]
	var bulks [][]bulkElem
	for _, a := range menu {
		bulks = append(bulks, []bulkElem{a})
	}
	for _, a := range menu {
		for _, b := range menu {
			bulks = append(bulks, []bulkElem{a, b})
		}
	}
	viol := func(o bulkOpts, kind string, names []string, format string, a ...any) {
		c.r.Violation("C32:json-stream:"+o.mode()+":"+kind+":start="+stateName,
			fmt.Sprintf("start=%s json-stream bulk=%v options=%s: ", stateName, names, o)+fmt.Sprintf(format, a...),
			map[string]any{"carrier": "json-stream", "startState": stateName, "documents": names, "options": o})
	}
	run := func(docs []string, o bulkOpts, stream bool) (*streamOut, string, string, error) {
		pg := start.Clone()
		w := world.Attach(pg)
		defer w.Close()
		ctrl, err := w.Sys.GetLedgerController(ctx, "l1")
		if err != nil {
			return nil, "", "", err
		}
		var out *streamOut
		if stream {
			out, err = runBulkStream(ctx, ctrl, docs, o)
		} else {
			st, res, raw, rerr := runBulk(ctx, ctrl, "["+strings.Join(docs, ",")+"]", o)
			out, err = &streamOut{status: st, results: res, raw: raw}, rerr
		}
		if err != nil {
			return nil, "", "", err
		}
		obs, err := observe(ctx, ctrl)
		if err != nil {
			return nil, "", "", err
		}
		return out, obs, dump(pg), nil
	}
	startDump := dump(start)
	for _, o := range []bulkOpts{{Atomic: true}, {}} {
		for _, b := range bulks {
			if c.r.Expired() || c.r.HasEngineError() {
				return cases, undecodable, false
			}
			names := bulkCase{Elems: b}.names()
			var docs []string
			for _, e := range b {
				docs = append(docs, e.JSON)
			}
			// 1. differential against the JSON array carrier
			viaArray, obsA, _, err := run(docs, o, false)
			if err != nil {
				c.r.EngineError(fmt.Sprintf("json bulk %v %s: %v", names, o, err))
				return cases, undecodable, false
			}
			viaStream, obsS, _, err := run(docs, o, true)
			if err != nil {
				if strings.Contains(err.Error(), "pgsim:") {
					c.r.EngineError(fmt.Sprintf("json-stream bulk %v %s: %v", names, o, err))
					return cases, undecodable, false
				}
				viol(o, "no-results", names, "%v", err)
				continue
			}
			cases++
			if normResults(viaStream.results) != normResults(viaArray.results) {
				viol(o, "results-differ-from-json-carrier", names, "per-element results as a stream:\n%s\nas a JSON array:\n%s", normResults(viaStream.results), normResults(viaArray.results))
			}
			if obsS != obsA {
				viol(o, "ledger-differs-from-json-carrier", names, "the ledger after the streamed bulk differs from the ledger after the same bulk sent as a JSON array")
			}
			c.outcomes.add("json-stream:"+o.mode()+":same-as-json-carrier", 1)
			// 2. an undecodable document at every position
			for k := 0; k <= len(b); k++ {
				withBad := append(append(append([]string{}, docs[:k]...), c32Undecodable), docs[k:]...)
				badNames := append(append(append([]string{}, names[:k]...), "UNDECODABLE(timestamp)"), names[k:]...)
				out, obs, after, err := run(withBad, o, true)
				if err != nil {
					if strings.Contains(err.Error(), "pgsim:") {
						c.r.EngineError(fmt.Sprintf("json-stream bulk %v %s: %v", badNames, o, err))
						return cases, undecodable, false
					}
					viol(o, "no-results", badNames, "%v", err)
					continue
				}
				undecodable++
				if o.Atomic {
					if after != startDump {
						applied := 0
						for _, r := range out.results {
							if r.ErrorCode == "" {
								applied++
							}
						}
						viol(o, "partial-apply:undecodable-element", badNames, "document #%d of the stream cannot be decoded (answer: status %d, errorCode %q), yet the atomic bulk was committed: %d element result(s) report success and the database changed", k+1, out.status, out.errorCode, applied)
					} else {
						c.outcomes.add("json-stream:atomic:undecodable:nothing-applied", 1)
					}
					continue
				}
				// sequential: exactly the prefix before the undecodable document
				_, obsPrefix, _, err := run(docs[:k], o, false)
				if k == 0 {
					obsPrefix, err = "", nil
					pg := start.Clone()
					w := world.Attach(pg)
					if ctrl, e := w.Sys.GetLedgerController(ctx, "l1"); e == nil {
						obsPrefix, err = observe(ctx, ctrl)
					} else {
						err = e
					}
					w.Close()
				}
				if err != nil {
					c.r.EngineError(fmt.Sprintf("json bulk prefix %v: %v", names[:k], err))
					return cases, undecodable, false
				}
				if obs != obsPrefix {
					viol(o, "undecodable-element:not-the-prefix", badNames, "the ledger after the stream differs from the ledger after the %d element(s) before the undecodable document", k)
				} else {
					c.outcomes.add("json-stream:sequential:undecodable:prefix-applied", 1)
				}
			}
		}
	}
	return cases, undecodable, true
}
