module github.com/formancehq/ledger/verifh

go 1.26.0

toolchain go1.26.1

replace github.com/formancehq/ledger => /repo

replace github.com/formancehq/ledger/pkg/client => /repo/pkg/client

replace google.golang.org/genproto v0.0.0-20200423170343-7949de9c1215 => google.golang.org/genproto v0.0.0-20240903143218-8af14fe29dc1

require github.com/formancehq/ledger v0.0.0-00010101000000-000000000000

require github.com/formancehq/go-libs/v5 v5.6.1 // indirect
