package phttp

import (
	"encoding/json"
	"sort"
	"strconv"
	"strings"
)

// rawJSON is a leaf emitted verbatim (so that 1e400 or 2^70 stay the exact JSON text).
type rawJSON string

// parseJSON decodes into map[string]any / []any / json.Number / string / bool / nil.
func parseJSON(s string) (any, error) {
	dec := json.NewDecoder(strings.NewReader(s))
	dec.UseNumber()
	var v any
	err := dec.Decode(&v)
	return v, err
}

// encJSON renders the tree with sorted object keys (deterministic).
func encJSON(v any) string {
	var sb strings.Builder
	encInto(&sb, v)
	return sb.String()
}

func encInto(sb *strings.Builder, v any) {
	switch x := v.(type) {
	case nil:
		sb.WriteString("null")
	case rawJSON:
		sb.WriteString(string(x))
	case json.Number:
		sb.WriteString(string(x))
	case bool:
		if x {
			sb.WriteString("true")
		} else {
			sb.WriteString("false")
		}
	case string:
		b, _ := json.Marshal(x)
		sb.Write(b)
	case []any:
		sb.WriteByte('[')
		for i, e := range x {
			if i > 0 {
				sb.WriteByte(',')
			}
			encInto(sb, e)
		}
		sb.WriteByte(']')
	case map[string]any:
		keys := make([]string, 0, len(x))
		for k := range x {
			keys = append(keys, k)
		}
		sort.Strings(keys)
		sb.WriteByte('{')
		for i, k := range keys {
			if i > 0 {
				sb.WriteByte(',')
			}
			b, _ := json.Marshal(k)
			sb.Write(b)
			sb.WriteByte(':')
			encInto(sb, x[k])
		}
		sb.WriteByte('}')
	default:
		b, _ := json.Marshal(x)
		sb.Write(b)
	}
}

// ptr is a JSON pointer as a token list (object keys and array indices).
type ptr []string

func (p ptr) String() string { return "/" + strings.Join(p, "/") }

// class is the structural form of the pointer: array indices become "*".
func (p ptr) class() string {
	if len(p) == 0 {
		return "<root>"
	}
	out := make([]string, len(p))
	for i, t := range p {
		if _, err := strconv.Atoi(t); err == nil {
			out[i] = "*"
		} else {
			out[i] = t
		}
	}
	return strings.Join(out, ".")
}

// pointers lists every node of the tree (root first, depth first, sorted keys).
func pointers(v any) []ptr {
	var out []ptr
	var walk func(v any, at ptr)
	walk = func(v any, at ptr) {
		out = append(out, append(ptr(nil), at...))
		switch x := v.(type) {
		case map[string]any:
			keys := make([]string, 0, len(x))
			for k := range x {
				keys = append(keys, k)
			}
			sort.Strings(keys)
			for _, k := range keys {
				walk(x[k], append(at, k))
			}
		case []any:
			for i, e := range x {
				walk(e, append(at, strconv.Itoa(i)))
			}
		}
	}
	walk(v, nil)
	return out
}

func getAt(v any, p ptr) any {
	for _, t := range p {
		switch x := v.(type) {
		case map[string]any:
			v = x[t]
		case []any:
			i, _ := strconv.Atoi(t)
			v = x[i]
		}
	}
	return v
}

// replaceAt returns a copy of the tree with the node at p replaced by repl; del removes
// the node (object member or array element) instead. The root cannot be deleted.
func replaceAt(v any, p ptr, repl any, del bool) any {
	if len(p) == 0 {
		return repl
	}
	switch x := v.(type) {
	case map[string]any:
		c := make(map[string]any, len(x))
		for k, e := range x {
			c[k] = e
		}
		if len(p) == 1 {
			if del {
				delete(c, p[0])
			} else {
				c[p[0]] = repl
			}
		} else {
			c[p[0]] = replaceAt(x[p[0]], p[1:], repl, del)
		}
		return c
	case []any:
		i, _ := strconv.Atoi(p[0])
		c := append([]any(nil), x...)
		if len(p) == 1 {
			if del {
				return append(c[:i], c[i+1:]...)
			}
			c[i] = repl
		} else {
			c[i] = replaceAt(x[i], p[1:], repl, del)
		}
		return c
	}
	return v
}

type replacement struct {
	Class string
	Val   any
}

var long300 = strings.Repeat("L", 300)

const two70 = "1180591620717411303424"

// menu is the replacement menu of the property (one at a time, at every JSON pointer).
var menu = []replacement{
	{"null", nil},
	{"true", true},
	{"zero", rawJSON("0")},
	{"neg", rawJSON("-1")},
	{"frac", rawJSON("1.5")},
	{"1e400", rawJSON("1e400")},
	{"empty-string", ""},
	{"string", "x"},
	{"array", []any{}},
	{"object", map[string]any{}},
	{"2^70", rawJSON(two70)},
	{"long-string", long300},
}

func kindOf(v any) string {
	switch v.(type) {
	case nil:
		return "null"
	case bool:
		return "bool"
	case json.Number, rawJSON:
		return "number"
	case string:
		return "string"
	case []any:
		return "array"
	case map[string]any:
		return "object"
	}
	return "?"
}
