package phttp

import (
	"os"
	"sort"
	"sync"
	"testing"
	"time"

	"github.com/formancehq/ledger/verifh/ev"
)

func TestC28All(t *testing.T) {
	if os.Getenv("C28ALL") == "" {
		t.Skip("set C28ALL=1")
	}
	os.Setenv("VERIF_ROOT", t.TempDir())
	os.Setenv("VERIF_BUDGET_S", "1200")
	var mu sync.Mutex
	count := map[string]int{}
	example := map[string]string{}
	c28Trace = func(sig, what string) {
		mu.Lock()
		defer mu.Unlock()
		count[sig]++
		if _, ok := example[sig]; !ok {
			example[sig] = what
		}
	}
	r := ev.Start("C28", ev.LevelExploration, 10*time.Minute, 10*time.Minute)
	t0 := time.Now()
	cov, _ := runC28(r)
	t.Logf("wall %v %v", time.Since(t0), cov)
	var sigs []string
	for s := range count {
		sigs = append(sigs, s)
	}
	sort.Strings(sigs)
	for _, s := range sigs {
		t.Logf("%4d %s\n      %s", count[s], s, example[s])
	}
	t.Log("exit", r.Finish(cov, nil))
}
