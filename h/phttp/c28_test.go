package phttp

import (
	"os"
	"sort"
	"sync"
	"testing"
	"time"

	"github.com/formancehq/ledger/verifh/ev"
)

func TestC28All(t *testing.T) {
	if os.Getenv("C28ALL") == "" {
		t.Skip("set C28ALL=1")
	}
	os.Setenv("VERIF_ROOT", t.TempDir())
	os.Setenv("VERIF_BUDGET_S", "1200")
	var mu sync.Mutex
	count := map[string]int{}
	example := map[string]string{}
	c28Trace = func(sig, what string) {
		mu.Lock()
		defer mu.Unlock()
		count[sig]++
		if _, ok := example[sig]; !ok {
			example[sig] = what
		}
	}
	r := ev.Start("C28", ev.LevelExploration, 10*time.Minute, 10*time.Minute)
	t0 := time.Now()
	cov, _ := runC28(r)
	t.Logf("wall %v %v", time.Since(t0), cov)
	var sigs []string
	for s := range count {
		sigs = append(sigs, s)
	}
	sort.Strings(sigs)
	for _, s := range sigs {
		t.Logf("%4d %s\n      %s", count[s], s, example[s])
	}
	t.Log("exit", r.Finish(cov, nil))
}

// TestC28One executes the cases whose id starts with $C28CASE in this process and prints
// the trace (a crash of the server kills the test: the stack is the reproduction).
func TestC28One(t *testing.T) {
	want := os.Getenv("C28CASE")
	if want == "" {
		t.Skip("set C28CASE=<case id prefix>")
	}
	boot, err := bootC28()
	if err != nil {
		t.Fatal(err)
	}
	bases, err := c28ImportBases(boot)
	if err != nil {
		t.Fatal(err)
	}
	cases, err := c28Cases(bases)
	if err != nil {
		t.Fatal(err)
	}
	for i := range cases {
		c := &cases[i]
		if len(c.id()) < len(want) || c.id()[:len(want)] != want {
			continue
		}
		for _, r := range c.Reqs {
			t.Logf("%s: %s", c.id(), r)
		}
		res := execC28(boot, c)
		t.Logf("  -> counts=%v engine=%q viol=%v", res.Counts, res.Engine, res.Viol)
	}
}
