package phttp

import (
	"testing"
	"time"
)

func TestPlan(t *testing.T) {
	t0 := time.Now()
	p, err := planC38(true)
	if err != nil {
		t.Fatal(err)
	}
	t.Log("plan", time.Since(t0), len(p.cases))
	per := map[string]int{}
	for _, c := range p.cases {
		per[c.Seed.id()]++
	}
	for _, k := range sortedKeys(per) {
		t.Log(per[k], k)
	}
	// time a few cases per seed
	el := map[string]time.Duration{}
	n := map[string]int{}
	for i := range p.cases {
		c := &p.cases[i]
		if n[c.Seed.id()] >= 5 || c.Seed.Route == "POST /{ledger}/logs/import" {
			continue
		}
		t1 := time.Now()
		execC38(p.ctx.boot, c)
		el[c.Seed.id()] += time.Since(t1)
		n[c.Seed.id()]++
	}
	for _, k := range sortedKeys(el) {
		t.Log(el[k]/time.Duration(n[k]), k)
	}
}
