// Package phttp holds the HTTP-level property checks (C38, C36, C28): the real
// api.NewRouter over the real system controller of a world.World running on pgsim,
// driven in-process with net/http/httptest.
package phttp

import (
	"bytes"
	"context"
	"crypto/sha256"
	"encoding/hex"
	"encoding/json"
	"fmt"
	"net/http"
	"net/http/httptest"
	"net/url"
	"path/filepath"
	"reflect"
	"runtime"
	"runtime/debug"
	"sort"
	"strings"
	"sync"

	"github.com/formancehq/go-libs/v5/pkg/authn/jwt"
	logging "github.com/formancehq/go-libs/v5/pkg/observe/log"

	"github.com/formancehq/ledger/internal/api"
	"github.com/formancehq/ledger/internal/api/bulking"
	v1 "github.com/formancehq/ledger/internal/api/v1"
	v2 "github.com/formancehq/ledger/internal/api/v2"
	"github.com/formancehq/ledger/verifh/lx"
	"github.com/formancehq/ledger/verifh/pgsim"
	"github.com/formancehq/ledger/verifh/world"
)

const pgsimAssumption = "pgsim: hand-written in-process model of the Postgres subset the ledger uses (READ COMMITTED MVCC, row/advisory locks, triggers, PL/pgSQL); it cannot be validated against a real server in this sandbox"
const httpAssumption = "HTTP layer: requests are served in-process by the real api.NewRouter (all middlewares, no authentication, the router options of internal/api/module.go: default bulk size, default bulker factory, exporters disabled; the system controller has the parsers of internal/controller/system/module.go with the serve default --numscript-cache-max-count=1024, i.e. the compiled-script cache is on and lives as long as one simulated server process) through net/http/httptest; no TCP socket, no net/http server-side parsing of the request line/headers"

// KV is one query-string pair (ordered: replays must be byte-identical).
type KV struct {
	K string `json:"k"`
	V string `json:"v"`
}

// Req is a plain-data HTTP request (what replay files contain).
type Req struct {
	Method  string            `json:"method"`
	Path    string            `json:"path"` // escaped path, no query string
	Query   []KV              `json:"query,omitempty"`
	Headers map[string]string `json:"headers,omitempty"`
	Body    string            `json:"body,omitempty"`
}

func (r Req) clone() Req {
	c := r
	c.Query = append([]KV(nil), r.Query...)
	if r.Headers != nil {
		c.Headers = map[string]string{}
		for k, v := range r.Headers {
			c.Headers[k] = v
		}
	}
	return c
}

func (r Req) URL() string {
	if len(r.Query) == 0 {
		return r.Path
	}
	var parts []string
	for _, kv := range r.Query {
		parts = append(parts, url.QueryEscape(kv.K)+"="+url.QueryEscape(kv.V))
	}
	return r.Path + "?" + strings.Join(parts, "&")
}

func (r Req) withQuery(k, v string) Req {
	c := r.clone()
	for i := range c.Query {
		if c.Query[i].K == k {
			c.Query[i].V = v
			return c
		}
	}
	c.Query = append(c.Query, KV{k, v})
	return c
}

func (r Req) withoutQuery(k string) Req {
	c := r.clone()
	out := c.Query[:0]
	for _, kv := range c.Query {
		if kv.K != k {
			out = append(out, kv)
		}
	}
	c.Query = out
	return c
}

func (r Req) withHeader(k, v string) Req {
	c := r.clone()
	if c.Headers == nil {
		c.Headers = map[string]string{}
	}
	c.Headers[k] = v
	return c
}

func (r Req) withBody(b string) Req {
	c := r.clone()
	c.Body = b
	return c
}

func (r Req) key() string {
	var hs []string
	for k, v := range r.Headers {
		hs = append(hs, k+"="+v)
	}
	sort.Strings(hs)
	h := sha256.Sum256([]byte(r.Method + " " + r.URL() + "\n" + strings.Join(hs, "\n") + "\n\n" + r.Body))
	return hex.EncodeToString(h[:12])
}

func (r Req) String() string {
	s := r.Method + " " + r.URL()
	var hs []string
	for k, v := range r.Headers {
		hs = append(hs, k+": "+v)
	}
	sort.Strings(hs)
	if len(hs) > 0 {
		s += " [" + strings.Join(hs, "; ") + "]"
	}
	if r.Body != "" {
		b := r.Body
		if len(b) > 700 {
			b = b[:700] + "…"
		}
		s += " body=" + b
	}
	return s
}

// Resp is what came back.
type Resp struct {
	Status int         `json:"status"`
	Header http.Header `json:"-"`
	Body   string      `json:"body"`
	// Log is everything the request logged at error level (the cause of an INTERNAL error).
	Log string `json:"log,omitempty"`
}

func (r Resp) short() string {
	b := r.Body
	if len(b) > 500 {
		b = b[:500] + "…"
	}
	s := fmt.Sprintf("%d %s", r.Status, b)
	if r.Log != "" {
		l := r.Log
		if len(l) > 500 {
			l = l[:500] + "…"
		}
		s += " log=" + strings.TrimSpace(l)
	}
	return s
}

// Env is one database clone with a live Go stack and router above it.
type Env struct {
	PG *pgsim.DB
	W  *world.World
	H  http.Handler
}

// ServeNumscriptCacheMaxCount is the default of `serve --numscript-cache-max-count`
// (cmd/serve.go): in the production wiring (internal/controller/system/module.go) every
// script goes through the LFU cache of compiled programs, which lives as long as the
// process. One Env = one server process: the cache is shared by every request served by
// that Env, whatever the ledger, the API version or the route.
const ServeNumscriptCacheMaxCount = 1024

func NewEnv(pg *pgsim.DB) *Env {
	w := world.AttachWith(pg, world.Options{NumscriptCacheMaxCount: ServeNumscriptCacheMaxCount})
	// same options as internal/api/module.go (production wiring); exporters stay disabled
	return &Env{PG: pg, W: w, H: api.NewRouter(w.Sys, jwt.NewNoAuth(), nil, "develop", false,
		api.WithBulkMaxSize(api.DefaultBulkMaxSize),
		api.WithBulkerFactory(bulking.NewDefaultBulkerFactory(bulking.WithParallelism(10))),
	)}
}

func (e *Env) Close() { e.W.Close() }

func dumpFilter(schema, table string) bool { return table == "goose_db_version" }

// Dump is the canonical text of every table (sequences and goose bookkeeping excluded).
func (e *Env) Dump() string { return e.PG.DumpFiltered(false, dumpFilter) }

type lockedBuf struct {
	mu sync.Mutex
	b  bytes.Buffer
}

func (l *lockedBuf) Write(p []byte) (int, error) {
	l.mu.Lock()
	defer l.mu.Unlock()
	return l.b.Write(p)
}
func (l *lockedBuf) String() string {
	l.mu.Lock()
	defer l.mu.Unlock()
	return l.b.String()
}

// build turns a Req into an *http.Request; ok=false when net/http itself refuses the URL
// (such a request cannot reach the server at all).
func build(r Req, logw *lockedBuf) (*http.Request, bool) {
	req, err := http.NewRequest(r.Method, "http://ledger.test"+r.URL(), strings.NewReader(r.Body))
	if err != nil {
		return nil, false
	}
	req.RequestURI = r.URL()
	req.RemoteAddr = "192.0.2.1:1234"
	for k, v := range r.Headers {
		req.Header.Set(k, v)
	}
	if r.Body == "" {
		req.Body = http.NoBody
		req.ContentLength = 0
	}
	lg := logging.NewDefaultLoggerWithLevel(logw, logging.ErrorLevel, false, false)
	req = req.WithContext(logging.ContextWithLogger(context.Background(), lg))
	return req, true
}

// Do serves one request through the full router.
func (e *Env) Do(r Req) (Resp, bool) {
	logw := &lockedBuf{}
	req, ok := build(r, logw)
	if !ok {
		return Resp{}, false
	}
	rec := httptest.NewRecorder()
	e.H.ServeHTTP(rec, req)
	return Resp{Status: rec.Code, Header: rec.Header(), Body: rec.Body.String(), Log: logw.String()}, true
}

// PanicOf re-serves r through the bare v1/v2 sub-router (no recover middleware) on the
// given environment and returns the recovered panic value and stack, or "" if it does
// not panic. Used only to describe a violation that was already established.
func (e *Env) PanicOf(r Req) (val string) {
	logw := &lockedBuf{}
	req, ok := build(r, logw)
	if !ok {
		return ""
	}
	var h http.Handler
	if strings.HasPrefix(r.Path, "/v2") {
		sub := v2.NewRouter(e.W.Sys, jwt.NewNoAuth(), "develop", v2.WithDefaultBulkHandlerFactories(100))
		h = http.StripPrefix("/v2", sub)
	} else {
		h = v1.NewRouter(e.W.Sys, jwt.NewNoAuth(), "develop", false)
	}
	defer func() {
		if rv := recover(); rv != nil {
			st := normRepo(string(debug.Stack()))
			// keep the frames of the repository only
			var keep []string
			lines := strings.Split(st, "\n")
			for i := 0; i+1 < len(lines); i++ {
				if strings.Contains(lines[i+1], "/repo/") && !strings.Contains(lines[i], "ServeHTTP") {
					keep = append(keep, strings.TrimSpace(lines[i])+" @ "+strings.TrimSpace(lines[i+1]))
				}
			}
			if len(keep) > 6 {
				keep = keep[:6]
			}
			val = fmt.Sprintf("panic: %v; stack: %s", rv, strings.Join(keep, " <- "))
		}
	}()
	rec := httptest.NewRecorder()
	h.ServeHTTP(rec, req)
	return ""
}

// BootSeeded boots the ledgers and replays the seed history through the router. The
// history must succeed entirely (2xx), otherwise the harness is broken.
func BootSeeded(ctx context.Context, ledgers []lx.LedgerSpec, history []Req) (*pgsim.DB, error) {
	pg, err := lx.Boot(ctx, ledgers)
	if err != nil {
		return nil, err
	}
	e := NewEnv(pg)
	defer e.Close()
	for i, r := range history {
		resp, ok := e.Do(r)
		if !ok {
			return nil, fmt.Errorf("seed history[%d] %s: not constructible", i, r)
		}
		if resp.Status < 200 || resp.Status >= 300 {
			return nil, fmt.Errorf("seed history[%d] %s: %s", i, r, resp.short())
		}
	}
	return pg, nil
}

// jsonOK reports whether s is exactly one valid JSON value.
func jsonOK(s string) bool {
	dec := json.NewDecoder(strings.NewReader(s))
	dec.UseNumber()
	var v any
	if err := dec.Decode(&v); err != nil {
		return false
	}
	return !dec.More()
}

// errorEnvelope reports whether body is {"errorCode": non-empty, "errorMessage": …}.
func errorEnvelope(body string) bool {
	var m map[string]json.RawMessage
	if err := json.Unmarshal([]byte(body), &m); err != nil {
		return false
	}
	var code string
	if err := json.Unmarshal(m["errorCode"], &code); err != nil || code == "" {
		return false
	}
	var msg string
	if raw, ok := m["errorMessage"]; ok {
		if err := json.Unmarshal(raw, &msg); err != nil {
			return false
		}
	}
	return true
}

func isEngine(r Resp) bool {
	return strings.Contains(r.Log, "pgsim:") || strings.Contains(r.Body, "pgsim:")
}

// repoRoot is the directory the ledger module was compiled from (go.mod `replace`): /repo
// in production, a worktree elsewhere. Stack traces are normalised to "/repo/" so that
// panic sites (signature components) do not depend on where the source tree lives.
var repoRoot = func() string {
	f := runtime.FuncForPC(reflect.ValueOf(api.NewRouter).Pointer())
	if f == nil {
		return "/repo"
	}
	file, _ := f.FileLine(f.Entry())
	const suffix = "/internal/api/router.go"
	if strings.HasSuffix(filepath.ToSlash(file), suffix) {
		return strings.TrimSuffix(filepath.ToSlash(file), suffix)
	}
	return "/repo"
}()

func normRepo(s string) string {
	if repoRoot == "/repo" {
		return s
	}
	return strings.ReplaceAll(s, repoRoot+"/", "/repo/")
}
