package phttp

import (
	"context"
	"encoding/base64"
	"encoding/json"
	"fmt"
	"math/big"
	"os"
	"sort"
	"strings"
	"time"

	ledger "github.com/formancehq/ledger/internal"
	"github.com/formancehq/ledger/pkg/accounts"
	"github.com/formancehq/ledger/pkg/assets"
	"github.com/formancehq/ledger/verifh/ev"
	"github.com/formancehq/ledger/verifh/lx"
	"github.com/formancehq/ledger/verifh/pgsim"
	"github.com/formancehq/ledger/verifh/reg"
)

// ---- the database --------------------------------------------------------------------

var c28Ledgers = []lx.LedgerSpec{
	{Name: "c28"},
	{Name: "c28imp"}, // empty, hashed logs: target of imports
	{Name: "c28impnh", Features: map[string]string{"HASH_LOGS": "DISABLED"}}, // empty, logs not hashed
}

// ---- value menus (at the edges of the lexer rules and of the validation patterns) -----

var c28Assets = []named{
	{"plain", "USD"}, {"with-precision", "USD/2"}, {"zero-precision", "USD/0"}, {"underscore", "EUR_COL"},
	{"double-slash", "USD//2"}, {"two-slashes", "A/B/C"}, {"slash-only", "/"}, {"digit-only", "9"},
	{"trailing-slash", "USD/"}, {"leading-slash", "/2"}, {"digit-first", "2USD"}, {"precision-7-digits", "USD/1234567"},
	{"name-18-chars", "ABCDEFGHIJKLMNOPQR"}, {"letter-precision", "USD/A"}, {"lowercase", "usd"}, {"empty", ""},
	{"space", "US D"}, {"underscore-trailing", "EUR_"},
}

var c28Accounts = []named{
	{"plain", "a"}, {"two-segments", "a:b"}, {"dash-underscore", "a-b:_c"}, {"dash-only", "-"},
	{"trailing-colon", "a:"}, {"leading-colon", ":a"}, {"double-colon", "a::b"}, {"space", "a b"}, {"empty", ""},
	{"non-ascii", "é"}, {"bang", "a!b"}, {"at-prefixed", "@a"}, {"dot", "a.b"}, {"slash", "a/b"},
}

var c28Monetaries = []named{
	{"plain", "USD 1"}, {"lowercase-asset", "usd 1"}, {"double-slash-asset", "USD//2 1"}, {"negative", "USD -1"},
	{"fraction", "USD 1.5"}, {"slash-only-asset", "/ 1"}, {"digit-asset", "9 1"}, {"trailing-slash-asset", "USD/ 1"},
}

// monetary expressions whose value is only known at run time
var c28Computed = []named{
	{"sum", "[USD 1] + [USD 5]"}, {"positive-difference", "[USD 5] - [USD 1]"}, {"zero-difference", "[USD 5] - [USD 5]"},
	{"negative-difference", "[USD 1] - [USD 5]"}, {"negative-literal", "[USD -1]"},
}

var c28Amounts = []named{{"zero", "0"}, {"negative", "-1"}, {"fraction", "1.5"}, {"null", "null"}, {"exponent", "1e3"}, {"string", `"5"`}, {"huge", "1" + strings.Repeat("0", 40)}}

// ---- cases ------------------------------------------------------------------------------

// c28case is a short request sequence on a fresh clone. After every 2xx answer the
// oracle inspects everything stored in every ledger.
type c28case struct {
	Path   string `json:"path"`   // machine | interpreter | v1-machine | postings-v1 | postings-v2 | bulk | template-… | import-…
	Family string `json:"family"` // literal-asset, literal-account, var-account, …
	Value  string `json:"value"`  // value class
	Reqs   []Req  `json:"reqs"`
	// Setup: the first Setup requests are the HISTORY of the case (earlier, valid
	// transactions that leave the accounts in a given state): they must all succeed and are
	// not the write under test. Group, when set, refines the vacuity guard (at least one
	// accepted and one refused write per path, family AND group) without entering the
	// violation signature.
	Setup int    `json:"setup,omitempty"`
	Group string `json:"group,omitempty"`
}

// guardKey is the key of the vacuity table: path:family, refined by the group.
func (c c28case) guardKey() string {
	if c.Group != "" {
		return c.Path + ":" + c.Family + "/" + c.Group
	}
	return c.Path + ":" + c.Family
}

// id identifies the executed input (distinct count, samples, notes). It is NOT the
// violation signature.
func (c c28case) id() string { return fmt.Sprintf("C28:%s:%s:%s", c.Path, c.Family, c.Value) }

// c28Site maps a request path of the menu to the piece of the ledger that is responsible
// for refusing an ill-formed posting on that path (one root cause = one site):
//   - machine, v1-machine, template-machine: the Numscript machine (compiler literals,
//     variables, meta()) — the route only differs in how the script text arrives;
//   - interpreter, template-interpreter: the experimental interpreter;
//   - postings-v1: the v1 handler's own Postings.Validate call;
//   - postings-v2, postings-bulk: bulking.TransactionRequest.ToCore (shared by both);
//   - import-forged-hash, import-no-hash-ledger: DefaultController.importLog (the hash chain
//     is valid or not checked, so only a validation of the payload can refuse the log);
//   - import-stale-hash: a log whose hash does not match was accepted by a hashed ledger.
func c28Site(path string) string {
	switch path {
	case "machine", "v1-machine", "template-machine":
		return "machine"
	case "interpreter", "template-interpreter":
		return "interpreter"
	case "postings-v2", "postings-bulk":
		return "postings-v2"
	case "import-forged-hash", "import-no-hash-ledger":
		return "import"
	}
	return path
}

// sig is the structural signature of a violation found by this case:
// C28:<site>:<origin of the value>:<ill-formed posting fields>. The value class (which
// edge value it was) and the route are in the description and in the replay, not in the
// signature: they do not distinguish root causes.
func (c c28case) sig(kinds []string) string {
	return fmt.Sprintf("C28:%s:%s:%s", c28Site(c.Path), c.Family, strings.Join(kinds, "+"))
}

func scriptReq(api, ledgerName, script string, vars map[string]string, runtime string) Req {
	body := map[string]any{"script": map[string]any{"plain": script}}
	if vars != nil {
		vs := map[string]any{}
		for k, v := range vars {
			vs[k] = v
		}
		body["script"].(map[string]any)["vars"] = vs
	}
	if runtime != "" {
		body["runtime"] = runtime
	}
	p := "/v2/" + ledgerName + "/transactions"
	if api == "v1" {
		p = "/" + ledgerName + "/transactions"
	}
	return post(p, encJSON(body))
}

type c28runtime struct{ Path, API, Runtime string }

var c28Runtimes = []c28runtime{
	{"machine", "v2", "machine"},
	{"interpreter", "v2", "experimental-interpreter"},
	{"v1-machine", "v1", ""},
}

func send(asset, amount, src, dst string) string {
	return fmt.Sprintf("send [%s %s] (\n source = %s\n destination = %s\n)", asset, amount, src, dst)
}

// ---- amounts computed by the funding logic, over a history ------------------------------
//
// The amount of a posting emitted by a script is not always written in the script: with
// several sources, overdrafts, caps, portions, `save` or "send all" it is COMPUTED from the
// balances the earlier transactions left. The family below enumerates the product
//
//	state of @a left by the history x overdraft granted to @a by the script x shape of the
//	source @a sits in x amount sent x runtime/API
//
// @b always holds 100 USD, @c never existed. Nothing but the oracle of the property is
// applied (stored postings well-formed, amounts non-negative integers): a refusal
// (insufficient funds, compile error) is as good an answer as a commit.

// c28AccountStates: what the earlier transactions left on @a (asset USD).
var c28AccountStates = []struct {
	Name    string
	History []string // postings bodies sent to POST /v2/c28/transactions
}{
	{"never-used", nil},
	{"balance-50", []string{`{"postings":[{"source":"world","destination":"a","asset":"USD","amount":50}]}`}},
	{"emptied", []string{`{"postings":[{"source":"world","destination":"a","asset":"USD","amount":50}]}`, `{"postings":[{"source":"a","destination":"sink","asset":"USD","amount":50}]}`}},
	{"overdrawn-by-50", []string{`{"postings":[{"source":"a","destination":"sink","asset":"USD","amount":50}],"force":true}`}},
}

// c28Overdrafts: the overdraft clause of @a in the script; the limits sit below, at and
// above the debt (50) of the overdrawn state.
var c28Overdrafts = []named{
	{"none", ""}, {"up-to-0", " allowing overdraft up to [USD 0]"}, {"up-to-20", " allowing overdraft up to [USD 20]"},
	{"up-to-50", " allowing overdraft up to [USD 50]"}, {"up-to-80", " allowing overdraft up to [USD 80]"}, {"unbounded", " allowing unbounded overdraft"},
}

// c28SentAmounts: less than anything available, more than @a can give, more than everybody
// can give without an unbounded overdraft, everything.
var c28SentAmounts = []string{"10", "80", "500", "*"}

// c28SourceShapes: where @a (with its overdraft clause: the argument) sits in the script.
var c28SourceShapes = []struct {
	Name   string
	Script func(a, amount string) string
}{
	{"single-source", func(a, n string) string { return send("USD", n, a, "@dst") }},
	{"first-of-in-order", func(a, n string) string { return send("USD", n, "{\n  "+a+"\n  @b\n }", "@dst") }},
	{"last-of-in-order", func(a, n string) string { return send("USD", n, "{\n  @b\n  "+a+"\n }", "@dst") }},
	{"middle-of-in-order", func(a, n string) string { return send("USD", n, "{\n  @c\n  "+a+"\n  @b\n }", "@dst") }},
	{"capped-first-of-in-order", func(a, n string) string {
		return send("USD", n, "{\n  max [USD 30] from "+a+"\n  @b\n }", "@dst")
	}},
	{"half-of-allotment", func(a, n string) string {
		return send("USD", n, "{\n  1/2 from "+a+"\n  remaining from @b\n }", "@dst")
	}},
	{"in-order-inside-allotment", func(a, n string) string {
		return send("USD", n, "{\n  1/2 from {\n   "+a+"\n   @b\n  }\n  remaining from @b\n }", "@dst")
	}},
	{"after-save", func(a, n string) string {
		return "save [USD 30] from @a\n" + send("USD", n, "{\n  "+a+"\n  @b\n }", "@dst")
	}},
	{"second-send-of-script", func(a, n string) string {
		return send("USD", "10", a, "@dst") + "\n" + send("USD", n, "{\n  "+a+"\n  @b\n }", "@dst2")
	}},
}

func c28FundingCases() []c28case {
	var out []c28case
	fundB := post("/v2/c28/transactions", `{"postings":[{"source":"world","destination":"b","asset":"USD","amount":100}]}`)
	// simplest first: the shapes in menu order, and within a shape the states, overdrafts
	// and amounts in menu order; the three runtimes side by side
	for _, sh := range c28SourceShapes {
		for _, st := range c28AccountStates {
			for _, od := range c28Overdrafts {
				for _, n := range c28SentAmounts {
					for _, rt := range c28Runtimes {
						reqs := []Req{fundB}
						for _, h := range st.History {
							reqs = append(reqs, post("/v2/c28/transactions", h))
						}
						setup := len(reqs)
						reqs = append(reqs, scriptReq(rt.API, "c28", sh.Script("@a"+od.Val, n), nil, rt.Runtime))
						out = append(out, c28case{Path: rt.Path, Family: "funding", Group: sh.Name,
							Value: sh.Name + ":" + st.Name + ":overdraft-" + od.Name + ":send-" + n, Reqs: reqs, Setup: setup})
					}
				}
			}
		}
	}
	return out
}

func c28Cases(bases c28Bases) ([]c28case, error) {
	var out []c28case
	for _, rt := range c28Runtimes {
		// A. literal assets
		for _, a := range c28Assets {
			out = append(out, c28case{Path: rt.Path, Family: "literal-asset", Value: a.Name, Reqs: []Req{scriptReq(rt.API, "c28", send(a.Val, "10", "@world", "@dst"), nil, rt.Runtime)}})
		}
		// B. literal accounts (as destination and as source)
		for _, a := range c28Accounts {
			out = append(out, c28case{Path: rt.Path, Family: "literal-destination", Value: a.Name, Reqs: []Req{scriptReq(rt.API, "c28", send("USD", "10", "@world", "@"+a.Val), nil, rt.Runtime)}})
			out = append(out, c28case{Path: rt.Path, Family: "literal-source", Value: a.Name, Reqs: []Req{scriptReq(rt.API, "c28", send("USD", "10", "@"+a.Val+" allowing unbounded overdraft", "@dst"), nil, rt.Runtime)}})
		}
		// C. variables
		for _, a := range c28Accounts {
			out = append(out, c28case{Path: rt.Path, Family: "var-account", Value: a.Name, Reqs: []Req{scriptReq(rt.API, "c28", "vars {\n account $d\n}\n"+send("USD", "10", "@world", "$d"), map[string]string{"d": a.Val}, rt.Runtime)}})
			out = append(out, c28case{Path: rt.Path, Family: "var-account-source", Value: a.Name, Reqs: []Req{scriptReq(rt.API, "c28", "vars {\n account $s\n}\n"+send("USD", "10", "$s allowing unbounded overdraft", "@dst"), map[string]string{"s": a.Val}, rt.Runtime)}})
		}
		for _, a := range c28Assets {
			out = append(out, c28case{Path: rt.Path, Family: "var-asset", Value: a.Name, Reqs: []Req{scriptReq(rt.API, "c28", "vars {\n asset $a\n}\n"+send("$a", "10", "@world", "@dst"), map[string]string{"a": a.Val}, rt.Runtime)}})
		}
		for _, m := range c28Monetaries {
			out = append(out, c28case{Path: rt.Path, Family: "var-monetary", Value: m.Name, Reqs: []Req{scriptReq(rt.API, "c28", "vars {\n monetary $m\n}\nsend $m (\n source = @world\n destination = @dst\n)", map[string]string{"m": m.Val}, rt.Runtime)}})
		}
		// C'. amounts computed by the script (monetary arithmetic, amounts from a number variable)
		for _, x := range c28Computed {
			out = append(out, c28case{Path: rt.Path, Family: "computed-amount", Value: x.Name, Reqs: []Req{scriptReq(rt.API, "c28", "send "+x.Val+" (\n source = @world\n destination = @dst\n)", nil, rt.Runtime)}})
		}
		// D. metadata-sourced values: the stored metadata value is free text
		setMeta := func(v string) Req { return post("/v2/c28/accounts/src/metadata", encJSON(map[string]any{"k": v})) }
		for _, a := range c28Accounts {
			out = append(out, c28case{Path: rt.Path, Family: "meta-account", Value: a.Name, Reqs: []Req{setMeta(a.Val),
				scriptReq(rt.API, "c28", "vars {\n account $d = meta(@src, \"k\")\n}\n"+send("USD", "10", "@world", "$d"), map[string]string{}, rt.Runtime)}})
			out = append(out, c28case{Path: rt.Path, Family: "meta-account-source", Value: a.Name, Reqs: []Req{setMeta(a.Val),
				scriptReq(rt.API, "c28", "vars {\n account $s = meta(@src, \"k\")\n}\n"+send("USD", "10", "$s allowing unbounded overdraft", "@dst"), map[string]string{}, rt.Runtime)}})
		}
		for _, a := range c28Assets {
			out = append(out, c28case{Path: rt.Path, Family: "meta-asset", Value: a.Name, Reqs: []Req{setMeta(a.Val),
				scriptReq(rt.API, "c28", "vars {\n asset $a = meta(@src, \"k\")\n}\n"+send("$a", "10", "@world", "@dst"), map[string]string{}, rt.Runtime)}})
		}
		for _, m := range c28Monetaries {
			out = append(out, c28case{Path: rt.Path, Family: "meta-monetary", Value: m.Name, Reqs: []Req{setMeta(m.Val),
				scriptReq(rt.API, "c28", "vars {\n monetary $m = meta(@src, \"k\")\n}\nsend $m (\n source = @world\n destination = @dst\n)", map[string]string{}, rt.Runtime)}})
		}
	}
	// E. amounts computed by the FUNDING logic over a HISTORY (see c28Funding)
	out = append(out, c28FundingCases()...)
	// F. transaction templates of a schema (literal in the template, values in the variables)
	for _, trt := range []struct{ Path, Runtime string }{{"template-machine", "machine"}, {"template-interpreter", "experimental-interpreter"}} {
		schema := func(script string) Req {
			return post("/v2/c28/schemas/v1", encJSON(map[string]any{
				"chart":        map[string]any{"world": map[string]any{}, "dst": map[string]any{}},
				"transactions": map[string]any{"T": map[string]any{"script": script, "runtime": trt.Runtime}},
			}))
		}
		tpl := func(vars map[string]any) Req {
			return post("/v2/c28/transactions", encJSON(map[string]any{"script": map[string]any{"template": "T", "vars": vars}}), KV{"schemaVersion", "v1"})
		}
		for _, a := range c28Assets {
			out = append(out, c28case{Path: trt.Path, Family: "literal-asset", Value: a.Name, Reqs: []Req{schema(send(a.Val, "10", "@world", "@dst")), tpl(map[string]any{})}})
			out = append(out, c28case{Path: trt.Path, Family: "var-asset", Value: a.Name, Reqs: []Req{schema("vars {\n asset $a\n}\n" + send("$a", "10", "@world", "@dst")), tpl(map[string]any{"a": a.Val})}})
		}
		for _, a := range c28Accounts {
			out = append(out, c28case{Path: trt.Path, Family: "literal-destination", Value: a.Name, Reqs: []Req{schema(send("USD", "10", "@world", "@"+a.Val)), tpl(map[string]any{})}})
			out = append(out, c28case{Path: trt.Path, Family: "var-account", Value: a.Name, Reqs: []Req{schema("vars {\n account $d\n}\n" + send("USD", "10", "@world", "$d")), tpl(map[string]any{"d": a.Val})}})
		}
	}
	// G. the postings path
	type pp struct{ Path, URL string }
	postingBody := func(src, dst, asset, amount string) string {
		return fmt.Sprintf(`{"postings":[{"source":%s,"destination":%s,"asset":%s,"amount":%s}]}`, jstr(src), jstr(dst), jstr(asset), amount)
	}
	for _, p := range []pp{{"postings-v2", "/v2/c28/transactions"}, {"postings-v1", "/c28/transactions"}, {"postings-bulk", "/v2/c28/_bulk"}} {
		wrap := func(b string) Req {
			if p.Path == "postings-bulk" {
				return post(p.URL, `[{"action":"CREATE_TRANSACTION","data":`+b+`}]`)
			}
			return post(p.URL, b)
		}
		// A source other than world has no funds: the write must be refused because the source is
		// ill-formed, not for lack of funds. v2 and bulk take "force" in the body (unbounded
		// overdraft for every source); v1 has no such switch, so its source cases move nothing.
		srcAmount := "10"
		forced := func(b string) string { return strings.TrimSuffix(b, "}") + `,"force":true}` }
		if p.Path == "postings-v1" {
			srcAmount = "0"
			forced = func(b string) string { return b }
		}
		for _, a := range c28Accounts {
			out = append(out, c28case{Path: p.Path, Family: "source", Value: a.Name, Reqs: []Req{wrap(forced(postingBody(a.Val, "dst", "USD", srcAmount)))}})
			out = append(out, c28case{Path: p.Path, Family: "destination", Value: a.Name, Reqs: []Req{wrap(postingBody("world", a.Val, "USD", "10"))}})
		}
		for _, a := range c28Assets {
			out = append(out, c28case{Path: p.Path, Family: "asset", Value: a.Name, Reqs: []Req{wrap(postingBody("world", "dst", a.Val, "10"))}})
		}
		for _, a := range c28Amounts {
			out = append(out, c28case{Path: p.Path, Family: "amount", Value: a.Name, Reqs: []Req{wrap(postingBody("world", "dst", "USD", a.Val))}})
		}
		// the ill-formed posting is not the first one
		second := func(src, dst, asset, amount string, force ...bool) Req {
			b := postingBody("world", "dst", "USD", "10")
			b = strings.TrimSuffix(b, "]}") + "," + strings.TrimSuffix(strings.TrimPrefix(postingBody(src, dst, asset, amount), `{"postings":[`), "]}") + "]}"
			if len(force) > 0 {
				b = forced(b)
			}
			return wrap(b)
		}
		for _, a := range c28Accounts {
			out = append(out, c28case{Path: p.Path, Family: "second-posting-source", Value: a.Name, Reqs: []Req{second(a.Val, "dst", "USD", srcAmount, true)}})
			out = append(out, c28case{Path: p.Path, Family: "second-posting-destination", Value: a.Name, Reqs: []Req{second("world", a.Val, "USD", "10")}})
		}
		for _, a := range c28Assets {
			out = append(out, c28case{Path: p.Path, Family: "second-posting-asset", Value: a.Name, Reqs: []Req{second("world", "dst", a.Val, "10")}})
		}
		for _, a := range c28Amounts {
			out = append(out, c28case{Path: p.Path, Family: "second-posting-amount", Value: a.Name, Reqs: []Req{second("world", "dst", "USD", a.Val)}})
		}
	}
	// H. import of a log stream with an ill-formed posting
	type target struct {
		famPrefix string
		stream    []string // exported log lines
		line      int      // the log that is mutated (the ones before it are sent as exported)
		posting   int
	}
	staleSame := map[string]bool{}
	targets := []target{
		{"", bases.Single, 0, 0},                     // NEW_TRANSACTION, its only posting
		{"second-posting-", bases.TwoPostings, 0, 1}, // NEW_TRANSACTION, the second of two postings
		{"revert-", bases.Revert, 1, 0},              // REVERTED_TRANSACTION: the posting of the reverting transaction
	}
	for _, tg := range targets {
		var prefix string
		var prev *ledger.Log
		for i := 0; i < tg.line; i++ {
			prefix += tg.stream[i] + "\n"
			var pl ledger.Log
			if err := json.Unmarshal([]byte(tg.stream[i]), &pl); err != nil {
				return nil, fmt.Errorf("import base log %d: %v", i, err)
			}
			prev = &pl
		}
		base, err := parseJSON(tg.stream[tg.line])
		if err != nil {
			return nil, fmt.Errorf("import base log: %v", err)
		}
		postingPtr := ptr{"data", "transaction", "postings", fmt.Sprint(tg.posting)}
		if _, ok := getAt(base, postingPtr).(map[string]any); !ok {
			return nil, fmt.Errorf("import base log %s has no posting at %s", tg.stream[tg.line], postingPtr)
		}
		importCase := func(family, value string, field string, repl any) {
			family = tg.famPrefix + family
			mut := replaceAt(base, append(append(ptr{}, postingPtr...), field), repl, false)
			// keep a one-posting log self-consistent, as a careful client would: the volume maps of
			// the transaction are keyed by account and asset (they are neither hashed nor used by the
			// import, which recomputes them)
			if nv, ok := repl.(string); ok && tg.famPrefix == "" {
				old, _ := getAt(base, append(append(ptr{}, postingPtr...), field)).(string)
				for _, vm := range []string{"postCommitVolumes", "postCommitEffectiveVolumes", "preCommitVolumes", "preCommitEffectiveVolumes"} {
					vp := ptr{"data", "transaction", vm}
					vols, _ := getAt(mut, vp).(map[string]any)
					if vols == nil {
						continue
					}
					nvols := map[string]any{}
					for acc, byAsset := range vols {
						if field == "asset" {
							na := map[string]any{}
							if m, ok := byAsset.(map[string]any); ok {
								for as, v := range m {
									if as == old {
										as = nv
									}
									na[as] = v
								}
							}
							nvols[acc] = na
						} else {
							if acc == old {
								acc = nv
							}
							nvols[acc] = byAsset
						}
					}
					mut = replaceAt(mut, vp, nvols, false)
				}
			}
			if tg.famPrefix != "" {
				// the volume maps of the transaction are derived data (neither hashed nor used by the
				// import, which recomputes them): a client that edits a posting of a larger log leaves
				// them out rather than recomputing them. (Leaving stale maps in makes
				// Transaction.MarshalJSON dereference a nil volume and kills the process: a crash is
				// C38's business, and nothing can be inspected afterwards.)
				for _, vm := range []string{"postCommitVolumes", "postCommitEffectiveVolumes", "preCommitVolumes", "preCommitEffectiveVolumes"} {
					if getAt(mut, ptr{"data", "transaction", vm}) != nil {
						mut = replaceAt(mut, ptr{"data", "transaction", vm}, nil, true)
					}
				}
			}
			raw := encJSON(mut) + "\n"
			imp := func(ledgerName, body string) Req {
				return Req{Method: "POST", Path: "/v2/" + ledgerName + "/logs/import", Headers: jh("application/octet-stream"), Body: body}
			}
			// as exported (the hash no longer matches), into a hashed and into an unhashed ledger
			if _, seen := staleSame["import-stale-hash:"+family]; !seen {
				staleSame["import-stale-hash:"+family] = false
			}
			if old, ok := getAt(base, append(append(ptr{}, postingPtr...), field)).(string); ok && old == repl {
				staleSame["import-stale-hash:"+family] = true // the "mutation" is the identity: the exported hash still matches
			}
			out = append(out, c28case{Path: "import-stale-hash", Family: family, Value: value, Reqs: []Req{imp("c28imp", prefix+raw)}})
			out = append(out, c28case{Path: "import-no-hash-ledger", Family: family, Value: value, Reqs: []Req{imp("c28impnh", prefix+raw)}})
			// with the hash recomputed the way any client can (Log.ComputeHash is a public algorithm)
			var l ledger.Log
			if err := json.Unmarshal([]byte(raw), &l); err == nil {
				hash := func() (h []byte) {
					defer func() { _ = recover() }()
					l.Hash = nil
					l.ComputeHash(prev)
					return l.Hash
				}()
				if hash != nil {
					// the JSON text is written by hand (the client is not bound to Go's marshaller)
					forged := encJSON(replaceAt(mut, ptr{"hash"}, base64.StdEncoding.EncodeToString(hash), false)) + "\n"
					out = append(out, c28case{Path: "import-forged-hash", Family: family, Value: value, Reqs: []Req{imp("c28imp", prefix+forged)}})
				}
			}
		}
		for _, a := range c28Accounts {
			importCase("source", a.Name, "source", a.Val)
			importCase("destination", a.Name, "destination", a.Val)
		}
		for _, a := range c28Assets {
			importCase("asset", a.Name, "asset", a.Val)
		}
		for _, a := range c28Amounts {
			importCase("amount", a.Name, "amount", rawJSON(a.Val))
		}
	}
	c28NoAccept = map[string]string{}
	for k, same := range staleSame {
		if !same {
			c28NoAccept[k] = "every value of the menu differs from the exported one, so the exported hash cannot match the log"
		}
	}
	return out, nil
}

// ---- oracle -----------------------------------------------------------------------------

// c28defect is one ill-formed field of one stored posting. Kind is the posting field
// (source | destination | asset | amount), or, for what cannot be read as a posting list at
// all, "unreadable".
type c28defect struct{ Kind, Msg string }

// illFormed lists what is wrong with one stored posting (nothing = well-formed). It states
// exactly the three clauses of the property: source and destination match the
// account-address pattern (pkg/accounts), the asset matches the asset pattern (pkg/assets),
// the amount is a non-negative integer.
func illFormed(src, dst, asset any, amount any) []c28defect {
	var bad []c28defect
	s, ok := src.(string)
	if !ok || !accounts.Regexp.MatchString(s) {
		bad = append(bad, c28defect{"source", fmt.Sprintf("source %q does not match the account pattern", src)})
	}
	d, ok := dst.(string)
	if !ok || !accounts.Regexp.MatchString(d) {
		bad = append(bad, c28defect{"destination", fmt.Sprintf("destination %q does not match the account pattern", dst)})
	}
	a, ok := asset.(string)
	if !ok || !assets.IsValid(a) {
		bad = append(bad, c28defect{"asset", fmt.Sprintf("asset %q does not match the asset pattern", asset)})
	}
	n, ok := amount.(json.Number)
	if !ok {
		bad = append(bad, c28defect{"amount", fmt.Sprintf("amount %v is not a number", amount)})
	} else if z, ok := new(big.Int).SetString(string(n), 10); !ok || z.Sign() < 0 {
		bad = append(bad, c28defect{"amount", fmt.Sprintf("amount %s is not a non-negative integer", n)})
	}
	return bad
}

// c28Inspect reads every transaction of every ledger through the API (following cursors)
// and the stored rows by raw SQL; it returns the defects, the number of postings seen
// through ListTransactions and the number of transactions rows seen by SQL.
//
// The property speaks about the postings of committed transactions, so a transaction with
// an EMPTY posting list satisfies it (nothing to be ill-formed); only a posting list that
// cannot be read as a JSON array is reported.
func c28Inspect(e *Env) (defects []c28defect, postings, rows int, engine string) {
	listFail := ""
	add := func(where string, ds []c28defect) {
		for _, d := range ds {
			defects = append(defects, c28defect{d.Kind, where + ": " + d.Msg})
		}
	}
	for _, l := range c28Ledgers {
		r := get("/v2/"+l.Name+"/transactions", KV{"pageSize", "100"})
		for page := 0; ; page++ {
			if page == 50 {
				return nil, 0, 0, "listing the transactions of " + l.Name + " did not end after 50 pages"
			}
			resp, _ := e.Do(r)
			if isEngine(resp) {
				return nil, 0, 0, "pgsim engine error while listing: " + resp.short()
			}
			if resp.Status != 200 {
				// what was stored cannot be observed at the property's observation point; the rows are
				// still inspected by SQL below. A failing listing over well-formed rows is not a C28
				// matter (the statement is about what is stored), but then nothing was observed
				// through the API: engine error, not a violation.
				listFail = fmt.Sprintf("listing transactions of %s failed after a successful write: %s", l.Name, resp.short())
				break
			}
			b := decode(resp.Body)
			txs, ok := jat(b, "cursor", "data").([]any)
			if !ok {
				return nil, 0, 0, "ListTransactions answer without cursor.data: " + resp.short()
			}
			for _, tx := range txs {
				ps, ok := jat(tx, "postings").([]any)
				if !ok {
					defects = append(defects, c28defect{"unreadable", fmt.Sprintf("ListTransactions(%s) tx %v: postings is not an array", l.Name, jat(tx, "id"))})
				}
				for i, p := range ps {
					postings++
					add(fmt.Sprintf("ListTransactions(%s) tx %v posting %d", l.Name, jat(tx, "id"), i),
						illFormed(jat(p, "source"), jat(p, "destination"), jat(p, "asset"), jat(p, "amount")))
				}
			}
			next, _ := jat(b, "cursor", "next").(string)
			if next == "" {
				break
			}
			r = get("/v2/"+l.Name+"/transactions", KV{"cursor", next})
		}
	}
	// what is stored, by raw SQL
	ctx := context.Background()
	for _, bucket := range []string{"_default"} {
		qrows, err := e.W.SQL.QueryContext(ctx, `SELECT ledger, id, postings FROM "`+bucket+`".transactions ORDER BY ledger, id`)
		if err != nil {
			return nil, 0, 0, "harness SQL: " + err.Error()
		}
		for qrows.Next() {
			var l, id string
			var raw []byte
			if err := qrows.Scan(&l, &id, &raw); err != nil {
				qrows.Close()
				return nil, 0, 0, "harness SQL scan: " + err.Error()
			}
			rows++
			ps, ok := decode(string(raw)).([]any)
			if !ok {
				defects = append(defects, c28defect{"unreadable", fmt.Sprintf("table %s.transactions (%s tx %s): postings is not a JSON array", bucket, l, id)})
			}
			for i, p := range ps {
				add(fmt.Sprintf("table %s.transactions (%s tx %s) posting %d", bucket, l, id, i),
					illFormed(jat(p, "source"), jat(p, "destination"), jat(p, "asset"), jat(p, "amount")))
			}
		}
		qrows.Close()
		// the moves are the per-account copy of the postings (MOVES_HISTORY=ON)
		qrows, err = e.W.SQL.QueryContext(ctx, `SELECT ledger, is_source, accounts_address, asset, amount FROM "`+bucket+`".moves ORDER BY seq`)
		if err != nil {
			return nil, 0, 0, "harness SQL: " + err.Error()
		}
		for qrows.Next() {
			var l, addr, asset, amt string
			var isSource bool
			if err := qrows.Scan(&l, &isSource, &addr, &asset, &amt); err != nil {
				qrows.Close()
				return nil, 0, 0, "harness SQL scan: " + err.Error()
			}
			side := "destination"
			if isSource {
				side = "source"
			}
			if !accounts.Regexp.MatchString(addr) {
				defects = append(defects, c28defect{side, fmt.Sprintf("table %s.moves (%s): %s account %q does not match the account pattern", bucket, l, side, addr)})
			}
			if !assets.IsValid(asset) {
				defects = append(defects, c28defect{"asset", fmt.Sprintf("table %s.moves (%s): asset %q does not match the asset pattern", bucket, l, asset)})
			}
			if z, ok := new(big.Int).SetString(amt, 10); !ok || z.Sign() < 0 {
				defects = append(defects, c28defect{"amount", fmt.Sprintf("table %s.moves (%s): amount %s is not a non-negative integer", bucket, l, amt)})
			}
		}
		qrows.Close()
	}
	if listFail != "" {
		if len(defects) == 0 {
			return nil, 0, 0, listFail + " (the stored rows are well-formed)"
		}
		defects = append(defects, c28defect{"unreadable", listFail})
	}
	return defects, postings, rows, ""
}

func execC28(boot *pgsim.DB, c *c28case) caseResult {
	res := caseResult{Counts: map[string]int64{}}
	e := NewEnv(boot.Clone())
	defer e.Close()
	var trace []string
	lastOK := false
	for i, r := range c.Reqs {
		resp, ok := e.Do(r)
		if !ok {
			res.Engine = fmt.Sprintf("%s: request %d not constructible: %s", c.id(), i, r)
			return res
		}
		if isEngine(resp) {
			res.Engine = fmt.Sprintf("%s: pgsim engine error: %s -> %s", c.id(), r, resp.short())
			return res
		}
		trace = append(trace, fmt.Sprintf("%s -> %s", r, resp.short()))
		lastOK = resp.Status >= 200 && resp.Status < 300
		if i < c.Setup {
			// the history of the case: valid transactions, inspected with everything else after
			// the write under test
			if !lastOK {
				res.Engine = fmt.Sprintf("%s: history request %d was refused: %s -> %s", c.id(), i, r, resp.short())
				return res
			}
			continue
		}
		if !lastOK {
			if resp.Status >= 500 {
				res.Counts["5xx"]++ // not C28's business (C38 reports those); the write did not succeed
			}
			break
		}
		defects, n, rows, eng := c28Inspect(e)
		if eng != "" {
			res.Engine = c.id() + ": " + eng
			return res
		}
		res.Counts["postings_inspected"] += int64(n)
		if i == len(c.Reqs)-1 && (n == 0 || rows == 0) {
			// the last request of every case is the write under test: a 2xx answer that left no
			// posting to inspect means the oracle looked at nothing
			res.Engine = fmt.Sprintf("%s: vacuous: the write %s succeeded but no stored posting was found (ListTransactions %d, SQL rows %d)", c.id(), r, n, rows)
			return res
		}
		if len(defects) > 0 {
			kindSet := map[string]bool{}
			var msgs []string
			for _, d := range defects {
				kindSet[d.Kind] = true
				if len(msgs) < 6 {
					msgs = append(msgs, d.Msg)
				}
			}
			var kinds []string
			for _, k := range []string{"source", "destination", "asset", "amount", "unreadable"} {
				if kindSet[k] {
					kinds = append(kinds, k)
				}
			}
			res.Viol = append(res.Viol, violRec{Sig: c.sig(kinds), What: fmt.Sprintf("case %s: after the successful request %s: %s", c.id(), r, strings.Join(msgs, "; ")),
				Replay: map[string]any{"case": c.id(), "ledgers": c28Ledgers, "requests": c.Reqs, "trace": trace}})
			break
		}
	}
	if lastOK {
		res.Counts["accepted"]++
		res.Counts["accepted:"+c.Path]++
		res.Counts["accepted:"+c.guardKey()]++
	} else {
		res.Counts["rejected"]++
		res.Counts["rejected:"+c.Path]++
		res.Counts["rejected:"+c.guardKey()]++
	}
	res.Key = c.id()
	res.Sample = map[string]any{"case": c.id(), "accepted": lastOK}
	return res
}

func bootC28() (*pgsim.DB, error) { return lx.Boot(context.Background(), c28Ledgers) }

// c28Bases are exported log streams (one JSON log per element) that the import cases mutate.
type c28Bases struct {
	Single      []string // NEW_TRANSACTION (world -> dst, USD 10)
	TwoPostings []string // NEW_TRANSACTION (world -> dst USD 10, world -> dst2 EUR 5)
	Revert      []string // NEW_TRANSACTION (world -> dst, USD 10), REVERTED_TRANSACTION
}

func c28Export(boot *pgsim.DB, wantTypes []string, reqs ...Req) ([]string, error) {
	e := NewEnv(boot.Clone())
	defer e.Close()
	for _, r := range reqs {
		if resp, _ := e.Do(r); resp.Status < 200 || resp.Status > 299 {
			return nil, fmt.Errorf("import base: %s -> %s", r, resp.short())
		}
	}
	resp, _ := e.Do(post("/v2/c28/logs/export", ``))
	if resp.Status != 200 {
		return nil, fmt.Errorf("import base export: %s", resp.short())
	}
	var lines []string
	for _, ln := range strings.Split(resp.Body, "\n") {
		if ln = strings.TrimSpace(ln); ln != "" {
			lines = append(lines, ln)
		}
	}
	if len(lines) != len(wantTypes) {
		return nil, fmt.Errorf("import base export: %d logs, want %d: %s", len(lines), len(wantTypes), resp.short())
	}
	for i, ln := range lines {
		if t, _ := jat(decode(ln), "type").(string); t != wantTypes[i] {
			return nil, fmt.Errorf("import base export: log %d has type %q, want %q", i, t, wantTypes[i])
		}
	}
	return lines, nil
}

func c28ImportBases(boot *pgsim.DB) (b c28Bases, err error) {
	create := post("/v2/c28/transactions", `{"postings":[{"source":"world","destination":"dst","asset":"USD","amount":10}],"timestamp":"2023-01-01T00:00:00Z"}`)
	if b.Single, err = c28Export(boot, []string{"NEW_TRANSACTION"}, create); err != nil {
		return
	}
	if b.TwoPostings, err = c28Export(boot, []string{"NEW_TRANSACTION"}, post("/v2/c28/transactions", `{"postings":[{"source":"world","destination":"dst","asset":"USD","amount":10},{"source":"world","destination":"dst2","asset":"EUR","amount":5}],"timestamp":"2023-01-01T00:00:00Z"}`)); err != nil {
		return
	}
	b.Revert, err = c28Export(boot, []string{"NEW_TRANSACTION", "REVERTED_TRANSACTION"}, create, post("/v2/c28/transactions/1/revert", ``))
	return
}

func c28Worker(w *workerSpec) int {
	boot, err := bootC28()
	if err != nil {
		fmt.Fprintln(os.Stderr, "worker: "+err.Error())
		return 2
	}
	return serveWorker(w, func(payload []byte) caseResult {
		var c c28case
		if err := json.Unmarshal(payload, &c); err != nil {
			return caseResult{Engine: "worker: bad case: " + err.Error()}
		}
		return execC28(boot, &c)
	})
}

// c28NoAccept lists the (path, origin) pairs for which NO menu value can be accepted, with
// the reason (a fact about the input space, not about the verdict). c28Cases fills it.
var c28NoAccept = map[string]string{}

var c28Trace func(sig, what string)

const c28Quick, c28Thorough = 4 * time.Minute, 10 * time.Minute

func runC28(r *ev.Run) (ev.Coverage, []string) {
	assumptions := []string{pgsimAssumption, httpAssumption, "process isolation: cases run in child processes (an import may kill the process)"}
	boot, err := bootC28()
	if err != nil {
		r.EngineError("boot: " + err.Error())
		return nil, assumptions
	}
	bases, err := c28ImportBases(boot)
	if err != nil {
		r.EngineError(err.Error())
		return nil, assumptions
	}
	cases, err := c28Cases(bases)
	if err != nil {
		r.EngineError(err.Error())
		return nil, assumptions
	}
	counts := map[string]int64{}
	distinct := map[string]bool{}
	samples := ev.NewSamples(6)
	var evals int64
	type c28viol struct {
		i int
		v violRec
	}
	var viols []c28viol
	deadline := time.Now().Add(budgetOf(r, c28Quick, c28Thorough) - r.Elapsed())
	exhaustive, err := runIsolated("C28", len(cases), func(i int) []byte {
		b, _ := json.Marshal(&cases[i])
		return b
	}, deadline, 120*time.Second, func(res caseResult) {
		evals++
		c := &cases[res.I]
		if res.Crashed {
			// the write did not succeed (there is no answer at all); the crash itself is C38's
			// business, but what the dead process left behind cannot be inspected here
			counts["process_crash"]++
			r.Note(fmt.Sprintf("%s: the server process died: %s", c.id(), res.Stderr))
			return
		}
		if res.Engine != "" {
			r.EngineError(res.Engine)
			return
		}
		for k, v := range res.Counts {
			counts[k] += v
		}
		distinct[res.Key] = true
		if res.Sample != nil {
			samples.Add(res.Sample)
		}
		for _, v := range res.Viol {
			if c28Trace != nil {
				c28Trace(v.Sig, v.What)
			}
			viols = append(viols, c28viol{res.I, v})
		}
	})
	// only the first violation of a signature is kept: make "first" mean the first case of
	// the menu, not the first child process to answer
	sort.SliceStable(viols, func(i, j int) bool { return viols[i].i < viols[j].i })
	for _, v := range viols {
		r.Violation(v.v.Sig, v.v.What, v.v.Replay)
	}
	if err != nil {
		r.EngineError("isolation: " + err.Error())
	}
	complete := exhaustive // every case was run
	if counts["process_crash"] > 0 {
		exhaustive = false // what a dead process stored could not be inspected
	}
	byPath := map[string]int64{}
	byFamily := map[string]string{} // path:family -> "accepted/rejected"
	for i := range cases {
		c := &cases[i]
		byPath[c.Path] = counts["accepted:"+c.Path]
		k := c.guardKey()
		byFamily[k] = fmt.Sprintf("%d/%d", counts["accepted:"+k], counts["rejected:"+k])
	}
	// Vacuity guards. They hold on a complete run whatever the verdict: every menu has at
	// least one well-formed and one ill-formed value, so through every path and for every
	// origin of the value the ledger must have accepted something (the oracle then looked at
	// what was stored) and refused something (the validation under test was reached).
	if complete && !r.HasEngineError() {
		if counts["accepted"] == 0 || counts["rejected"] == 0 || counts["postings_inspected"] == 0 {
			r.EngineError(fmt.Sprintf("vacuous: accepted=%d rejected=%d postings=%d", counts["accepted"], counts["rejected"], counts["postings_inspected"]))
		}
		var keys []string
		for k := range byFamily {
			keys = append(keys, k)
		}
		sort.Strings(keys)
		for _, k := range keys {
			acc, rej := counts["accepted:"+k], counts["rejected:"+k]
			if c28NoAccept[k] != "" {
				if acc != 0 {
					r.EngineError(fmt.Sprintf("vacuity table out of date: %s accepted %d cases although: %s", k, acc, c28NoAccept[k]))
				}
			} else if acc == 0 {
				r.EngineError("vacuous: no successful write for " + k + " (the oracle never inspected a posting created that way)")
			}
			if rej == 0 {
				r.EngineError("vacuous: no refused write for " + k + " (no ill-formed value reached the validation)")
			}
		}
	}
	cov := ev.Coverage{
		"evaluations":                          evals,
		"distinct_nontrivial":                  counts["accepted"],
		"successful_writes":                    counts["accepted"],
		"rejected_writes":                      counts["rejected"],
		"answered_5xx":                         counts["5xx"],
		"process_crashes":                      counts["process_crash"],
		"postings_inspected":                   counts["postings_inspected"],
		"accepted_by_path":                     byPath,
		"accepted_rejected_by_path_and_origin": byFamily,
		"cases":                                len(cases),
		"exhaustive":                           exhaustive,
		"samples":                              samples.List(),
		"rule":                                 "every value of the asset / account / monetary / amount menus (edges of the lexer rules ASSET and ACCOUNT and of the pkg/assets and pkg/accounts patterns) through: script literals, script variables, meta()-sourced variables (the stored metadata value being the ill-formed text), amounts computed by monetary arithmetic, on the machine, the experimental interpreter and the v1 API; AMOUNTS COMPUTED BY THE FUNDING LOGIC OVER A HISTORY (family funding, same three runtimes): the product {state of @a left by earlier transactions: never used, balance 50, emptied (50 in, 50 out), overdrawn by 50 (forced posting)} x {overdraft the script grants @a: none, up to 0, 20 (below the debt), 50 (the debt), 80 (above it), unbounded} x {where @a sits: single source, first / last / middle of an in-order source, capped (max) first of an in-order source, half of an allotment, in-order source inside an allotment, after `save [USD 30] from @a`, second send of a script whose first send already drew on @a} x {amount sent: 10, 80, 500, * (send all)}, with @b holding 100 and @c never used: the history requests must succeed, the script may be refused (insufficient funds, compile error) or committed, and what is stored is inspected; transaction templates of a schema (both runtimes); the postings path (v2, v1, bulk; the ill-formed posting first or second); import of a log stream whose NEW_TRANSACTION posting (only / second of two) or REVERTED_TRANSACTION reverting posting is ill-formed (stale hash, recomputed hash chain, ledger without hashed logs). After every 2xx answer every transaction of every ledger (ListTransactions following cursors, tables transactions and moves by raw SQL) must only contain postings matching the patterns with a non-negative integer amount; a 2xx write that leaves no posting to inspect is an engine error; per (path, origin of the value — for the funding family: per source shape) at least one write must be accepted and one refused; distinct_nontrivial = cases whose write succeeded; quick and thorough run the same finite menu (the tiers differ in time budget only)",
	}
	return cov, assumptions
}

func init() {
	workers["C28"] = c28Worker
	reg.Register("C28", func() int {
		if w := workerMode("C28"); w != nil {
			return c28Worker(w)
		}
		r := ev.Start("C28", ev.LevelExploration, c28Quick, c28Thorough)
		cov, as := runC28(r)
		return r.Finish(cov, as)
	})
}
