package phttp

import (
	"context"
	"encoding/base64"
	"encoding/json"
	"fmt"
	"math/big"
	"os"
	"strings"
	"time"

	ledger "github.com/formancehq/ledger/internal"
	"github.com/formancehq/ledger/pkg/accounts"
	"github.com/formancehq/ledger/pkg/assets"
	"github.com/formancehq/ledger/verifh/ev"
	"github.com/formancehq/ledger/verifh/lx"
	"github.com/formancehq/ledger/verifh/pgsim"
	"github.com/formancehq/ledger/verifh/reg"
)

// ---- the database --------------------------------------------------------------------

var c28Ledgers = []lx.LedgerSpec{
	{Name: "c28"},
	{Name: "c28imp"}, // empty, hashed logs: target of imports
	{Name: "c28impnh", Features: map[string]string{"HASH_LOGS": "DISABLED"}}, // empty, logs not hashed
}

// ---- value menus (at the edges of the lexer rules and of the validation patterns) -----

var c28Assets = []named{
	{"plain", "USD"}, {"with-precision", "USD/2"}, {"zero-precision", "USD/0"}, {"underscore", "EUR_COL"},
	{"double-slash", "USD//2"}, {"two-slashes", "A/B/C"}, {"slash-only", "/"}, {"digit-only", "9"},
	{"trailing-slash", "USD/"}, {"leading-slash", "/2"}, {"digit-first", "2USD"}, {"precision-7-digits", "USD/1234567"},
	{"name-18-chars", "ABCDEFGHIJKLMNOPQR"}, {"letter-precision", "USD/A"}, {"lowercase", "usd"}, {"empty", ""},
	{"space", "US D"}, {"underscore-trailing", "EUR_"},
}

var c28Accounts = []named{
	{"plain", "a"}, {"two-segments", "a:b"}, {"dash-underscore", "a-b:_c"}, {"dash-only", "-"},
	{"trailing-colon", "a:"}, {"leading-colon", ":a"}, {"double-colon", "a::b"}, {"space", "a b"}, {"empty", ""},
	{"non-ascii", "é"}, {"bang", "a!b"}, {"at-prefixed", "@a"}, {"dot", "a.b"}, {"slash", "a/b"},
}

var c28Monetaries = []named{
	{"plain", "USD 1"}, {"lowercase-asset", "usd 1"}, {"double-slash-asset", "USD//2 1"}, {"negative", "USD -1"},
	{"fraction", "USD 1.5"}, {"slash-only-asset", "/ 1"}, {"digit-asset", "9 1"}, {"trailing-slash-asset", "USD/ 1"},
}

var c28Amounts = []named{{"zero", "0"}, {"negative", "-1"}, {"fraction", "1.5"}, {"null", "null"}, {"exponent", "1e3"}, {"string", `"5"`}, {"huge", "1" + strings.Repeat("0", 40)}}

// ---- cases ------------------------------------------------------------------------------

// c28case is a short request sequence on a fresh clone. After every 2xx answer the
// oracle inspects everything stored in every ledger.
type c28case struct {
	Path   string `json:"path"`   // machine | interpreter | v1-machine | postings-v1 | postings-v2 | bulk | template-… | import-…
	Family string `json:"family"` // literal-asset, literal-account, var-account, …
	Value  string `json:"value"`  // value class
	Reqs   []Req  `json:"reqs"`
}

func (c c28case) sig() string { return fmt.Sprintf("C28:%s:%s:%s", c.Path, c.Family, c.Value) }

func scriptReq(api, ledgerName, script string, vars map[string]string, runtime string) Req {
	body := map[string]any{"script": map[string]any{"plain": script}}
	if vars != nil {
		vs := map[string]any{}
		for k, v := range vars {
			vs[k] = v
		}
		body["script"].(map[string]any)["vars"] = vs
	}
	if runtime != "" {
		body["runtime"] = runtime
	}
	p := "/v2/" + ledgerName + "/transactions"
	if api == "v1" {
		p = "/" + ledgerName + "/transactions"
	}
	return post(p, encJSON(body))
}

type c28runtime struct{ Path, API, Runtime string }

var c28Runtimes = []c28runtime{
	{"machine", "v2", "machine"},
	{"interpreter", "v2", "experimental-interpreter"},
	{"v1-machine", "v1", ""},
}

func send(asset, amount, src, dst string) string {
	return fmt.Sprintf("send [%s %s] (\n source = %s\n destination = %s\n)", asset, amount, src, dst)
}

func c28Cases(importBase string) ([]c28case, error) {
	var out []c28case
	for _, rt := range c28Runtimes {
		// A. literal assets
		for _, a := range c28Assets {
			out = append(out, c28case{rt.Path, "literal-asset", a.Name, []Req{scriptReq(rt.API, "c28", send(a.Val, "10", "@world", "@dst"), nil, rt.Runtime)}})
		}
		// B. literal accounts (as destination and as source)
		for _, a := range c28Accounts {
			out = append(out, c28case{rt.Path, "literal-destination", a.Name, []Req{scriptReq(rt.API, "c28", send("USD", "10", "@world", "@"+a.Val), nil, rt.Runtime)}})
			out = append(out, c28case{rt.Path, "literal-source", a.Name, []Req{scriptReq(rt.API, "c28", send("USD", "10", "@"+a.Val+" allowing unbounded overdraft", "@dst"), nil, rt.Runtime)}})
		}
		// C. variables
		for _, a := range c28Accounts {
			out = append(out, c28case{rt.Path, "var-account", a.Name, []Req{scriptReq(rt.API, "c28", "vars {\n account $d\n}\n"+send("USD", "10", "@world", "$d"), map[string]string{"d": a.Val}, rt.Runtime)}})
			out = append(out, c28case{rt.Path, "var-account-source", a.Name, []Req{scriptReq(rt.API, "c28", "vars {\n account $s\n}\n"+send("USD", "10", "$s allowing unbounded overdraft", "@dst"), map[string]string{"s": a.Val}, rt.Runtime)}})
		}
		for _, a := range c28Assets {
			out = append(out, c28case{rt.Path, "var-asset", a.Name, []Req{scriptReq(rt.API, "c28", "vars {\n asset $a\n}\n"+send("$a", "10", "@world", "@dst"), map[string]string{"a": a.Val}, rt.Runtime)}})
		}
		for _, m := range c28Monetaries {
			out = append(out, c28case{rt.Path, "var-monetary", m.Name, []Req{scriptReq(rt.API, "c28", "vars {\n monetary $m\n}\nsend $m (\n source = @world\n destination = @dst\n)", map[string]string{"m": m.Val}, rt.Runtime)}})
		}
		// D. metadata-sourced values: the stored metadata value is free text
		setMeta := func(v string) Req { return post("/v2/c28/accounts/src/metadata", encJSON(map[string]any{"k": v})) }
		for _, a := range c28Accounts {
			out = append(out, c28case{rt.Path, "meta-account", a.Name, []Req{setMeta(a.Val),
				scriptReq(rt.API, "c28", "vars {\n account $d = meta(@src, \"k\")\n}\n"+send("USD", "10", "@world", "$d"), map[string]string{}, rt.Runtime)}})
			out = append(out, c28case{rt.Path, "meta-account-source", a.Name, []Req{setMeta(a.Val),
				scriptReq(rt.API, "c28", "vars {\n account $s = meta(@src, \"k\")\n}\n"+send("USD", "10", "$s allowing unbounded overdraft", "@dst"), map[string]string{}, rt.Runtime)}})
		}
		for _, a := range c28Assets {
			out = append(out, c28case{rt.Path, "meta-asset", a.Name, []Req{setMeta(a.Val),
				scriptReq(rt.API, "c28", "vars {\n asset $a = meta(@src, \"k\")\n}\n"+send("$a", "10", "@world", "@dst"), map[string]string{}, rt.Runtime)}})
		}
		for _, m := range c28Monetaries {
			out = append(out, c28case{rt.Path, "meta-monetary", m.Name, []Req{setMeta(m.Val),
				scriptReq(rt.API, "c28", "vars {\n monetary $m = meta(@src, \"k\")\n}\nsend $m (\n source = @world\n destination = @dst\n)", map[string]string{}, rt.Runtime)}})
		}
	}
	// F. transaction templates of a schema (literal in the template, values in the variables)
	for _, trt := range []struct{ Path, Runtime string }{{"template-machine", "machine"}, {"template-interpreter", "experimental-interpreter"}} {
		schema := func(script string) Req {
			return post("/v2/c28/schemas/v1", encJSON(map[string]any{
				"chart":        map[string]any{"world": map[string]any{}, "dst": map[string]any{}},
				"transactions": map[string]any{"T": map[string]any{"script": script, "runtime": trt.Runtime}},
			}))
		}
		tpl := func(vars map[string]any) Req {
			return post("/v2/c28/transactions", encJSON(map[string]any{"script": map[string]any{"template": "T", "vars": vars}}), KV{"schemaVersion", "v1"})
		}
		for _, a := range c28Assets {
			out = append(out, c28case{trt.Path, "literal-asset", a.Name, []Req{schema(send(a.Val, "10", "@world", "@dst")), tpl(map[string]any{})}})
			out = append(out, c28case{trt.Path, "var-asset", a.Name, []Req{schema("vars {\n asset $a\n}\n" + send("$a", "10", "@world", "@dst")), tpl(map[string]any{"a": a.Val})}})
		}
		for _, a := range c28Accounts {
			out = append(out, c28case{trt.Path, "literal-destination", a.Name, []Req{schema(send("USD", "10", "@world", "@"+a.Val)), tpl(map[string]any{})}})
			out = append(out, c28case{trt.Path, "var-account", a.Name, []Req{schema("vars {\n account $d\n}\n" + send("USD", "10", "@world", "$d")), tpl(map[string]any{"d": a.Val})}})
		}
	}
	// G. the postings path
	type pp struct{ Path, URL string }
	postingBody := func(src, dst, asset, amount string) string {
		return fmt.Sprintf(`{"postings":[{"source":%s,"destination":%s,"asset":%s,"amount":%s}]}`, jstr(src), jstr(dst), jstr(asset), amount)
	}
	for _, p := range []pp{{"postings-v2", "/v2/c28/transactions"}, {"postings-v1", "/c28/transactions"}, {"postings-bulk", "/v2/c28/_bulk"}} {
		wrap := func(b string) Req {
			if p.Path == "postings-bulk" {
				return post(p.URL, `[{"action":"CREATE_TRANSACTION","data":`+b+`}]`)
			}
			return post(p.URL, b)
		}
		for _, a := range c28Accounts {
			out = append(out, c28case{p.Path, "source", a.Name, []Req{wrap(postingBody(a.Val, "dst", "USD", "10")).withQuery("force", "true")}})
			out = append(out, c28case{p.Path, "destination", a.Name, []Req{wrap(postingBody("world", a.Val, "USD", "10"))}})
		}
		for _, a := range c28Assets {
			out = append(out, c28case{p.Path, "asset", a.Name, []Req{wrap(postingBody("world", "dst", a.Val, "10"))}})
		}
		for _, a := range c28Amounts {
			out = append(out, c28case{p.Path, "amount", a.Name, []Req{wrap(postingBody("world", "dst", "USD", a.Val))}})
		}
	}
	// H. import of a log stream with an ill-formed posting
	base, err := parseJSON(importBase)
	if err != nil {
		return nil, fmt.Errorf("import base log: %v", err)
	}
	postingPtr := ptr{"data", "transaction", "postings", "0"}
	importCase := func(family, value string, field string, repl any) {
		mut := replaceAt(base, append(append(ptr{}, postingPtr...), field), repl, false)
		// keep the log self-consistent, as a careful client would: the volume maps of the
		// transaction are keyed by account and asset
		if nv, ok := repl.(string); ok {
			old, _ := getAt(base, append(append(ptr{}, postingPtr...), field)).(string)
			for _, vm := range []string{"postCommitVolumes", "postCommitEffectiveVolumes", "preCommitVolumes", "preCommitEffectiveVolumes"} {
				vp := ptr{"data", "transaction", vm}
				vols, _ := getAt(mut, vp).(map[string]any)
				if vols == nil {
					continue
				}
				nvols := map[string]any{}
				for acc, byAsset := range vols {
					if field == "asset" {
						na := map[string]any{}
						if m, ok := byAsset.(map[string]any); ok {
							for as, v := range m {
								if as == old {
									as = nv
								}
								na[as] = v
							}
						}
						nvols[acc] = na
					} else {
						if acc == old {
							acc = nv
						}
						nvols[acc] = byAsset
					}
				}
				mut = replaceAt(mut, vp, nvols, false)
			}
		}
		raw := encJSON(mut) + "\n"
		imp := func(ledgerName, body string) Req {
			return Req{Method: "POST", Path: "/v2/" + ledgerName + "/logs/import", Headers: jh("application/octet-stream"), Body: body}
		}
		// as exported (the hash no longer matches), into a hashed and into an unhashed ledger
		out = append(out, c28case{"import-stale-hash", family, value, []Req{imp("c28imp", raw)}})
		out = append(out, c28case{"import-no-hash-ledger", family, value, []Req{imp("c28impnh", raw)}})
		// with the hash recomputed the way any client can (Log.ComputeHash is a public algorithm)
		var l ledger.Log
		if err := json.Unmarshal([]byte(raw), &l); err == nil {
			hash := func() (h []byte) {
				defer func() { _ = recover() }()
				l.Hash = nil
				l.ComputeHash(nil)
				return l.Hash
			}()
			if hash != nil {
				// the JSON text is written by hand (the client is not bound to Go's marshaller)
				forged := encJSON(replaceAt(mut, ptr{"hash"}, base64.StdEncoding.EncodeToString(hash), false)) + "\n"
				out = append(out, c28case{"import-forged-hash", family, value, []Req{imp("c28imp", forged)}})
			}
		}
	}
	for _, a := range c28Accounts {
		importCase("source", a.Name, "source", a.Val)
		importCase("destination", a.Name, "destination", a.Val)
	}
	for _, a := range c28Assets {
		importCase("asset", a.Name, "asset", a.Val)
	}
	for _, a := range c28Amounts {
		importCase("amount", a.Name, "amount", rawJSON(a.Val))
	}
	return out, nil
}

// ---- oracle -----------------------------------------------------------------------------

// illFormed lists what is wrong with one stored posting (nothing = well-formed).
func illFormed(src, dst, asset any, amount any) []string {
	var bad []string
	s, ok := src.(string)
	if !ok || !accounts.Regexp.MatchString(s) {
		bad = append(bad, fmt.Sprintf("source %q does not match the account pattern", src))
	}
	d, ok := dst.(string)
	if !ok || !accounts.Regexp.MatchString(d) {
		bad = append(bad, fmt.Sprintf("destination %q does not match the account pattern", dst))
	}
	a, ok := asset.(string)
	if !ok || !assets.IsValid(a) {
		bad = append(bad, fmt.Sprintf("asset %q does not match the asset pattern", asset))
	}
	n, ok := amount.(json.Number)
	if !ok {
		bad = append(bad, fmt.Sprintf("amount %v is not a number", amount))
	} else if z, ok := new(big.Int).SetString(string(n), 10); !ok || z.Sign() < 0 {
		bad = append(bad, fmt.Sprintf("amount %s is not a non-negative integer", n))
	}
	return bad
}

// c28Inspect reads every transaction of every ledger through the API (following cursors)
// and the stored rows by raw SQL; it returns the defects and the number of postings seen.
func c28Inspect(e *Env) (defects []string, postings int, engine string) {
	for _, l := range c28Ledgers {
		r := get("/v2/"+l.Name+"/transactions", KV{"pageSize", "100"})
		for page := 0; page < 50; page++ {
			resp, _ := e.Do(r)
			if isEngine(resp) {
				return nil, 0, "pgsim engine error while listing: " + resp.short()
			}
			if resp.Status != 200 {
				defects = append(defects, fmt.Sprintf("listing transactions of %s failed after a successful write: %s", l.Name, resp.short()))
				break
			}
			b := decode(resp.Body)
			txs, _ := jat(b, "cursor", "data").([]any)
			for _, tx := range txs {
				ps, _ := jat(tx, "postings").([]any)
				if len(ps) == 0 {
					defects = append(defects, fmt.Sprintf("%s tx %v has no postings", l.Name, jat(tx, "id")))
				}
				for i, p := range ps {
					postings++
					for _, m := range illFormed(jat(p, "source"), jat(p, "destination"), jat(p, "asset"), jat(p, "amount")) {
						defects = append(defects, fmt.Sprintf("ListTransactions(%s) tx %v posting %d: %s", l.Name, jat(tx, "id"), i, m))
					}
				}
			}
			next, _ := jat(b, "cursor", "next").(string)
			if next == "" {
				break
			}
			r = get("/v2/"+l.Name+"/transactions", KV{"cursor", next})
		}
	}
	// what is stored, by raw SQL
	ctx := context.Background()
	for _, bucket := range []string{"_default"} {
		rows, err := e.W.SQL.QueryContext(ctx, `SELECT ledger, id, postings FROM "`+bucket+`".transactions ORDER BY ledger, id`)
		if err != nil {
			return nil, 0, "harness SQL: " + err.Error()
		}
		for rows.Next() {
			var l, id string
			var raw []byte
			if err := rows.Scan(&l, &id, &raw); err != nil {
				rows.Close()
				return nil, 0, "harness SQL scan: " + err.Error()
			}
			ps, _ := decode(string(raw)).([]any)
			for i, p := range ps {
				for _, m := range illFormed(jat(p, "source"), jat(p, "destination"), jat(p, "asset"), jat(p, "amount")) {
					defects = append(defects, fmt.Sprintf("table %s.transactions (%s tx %s) posting %d: %s", bucket, l, id, i, m))
				}
			}
		}
		rows.Close()
		rows, err = e.W.SQL.QueryContext(ctx, `SELECT ledger, accounts_address, asset, amount FROM "`+bucket+`".moves ORDER BY seq`)
		if err != nil {
			return nil, 0, "harness SQL: " + err.Error()
		}
		for rows.Next() {
			var l, addr, asset, amt string
			if err := rows.Scan(&l, &addr, &asset, &amt); err != nil {
				rows.Close()
				return nil, 0, "harness SQL scan: " + err.Error()
			}
			if !accounts.Regexp.MatchString(addr) {
				defects = append(defects, fmt.Sprintf("table %s.moves (%s): account %q does not match the account pattern", bucket, l, addr))
			}
			if !assets.IsValid(asset) {
				defects = append(defects, fmt.Sprintf("table %s.moves (%s): asset %q does not match the asset pattern", bucket, l, asset))
			}
			if z, ok := new(big.Int).SetString(amt, 10); !ok || z.Sign() < 0 {
				defects = append(defects, fmt.Sprintf("table %s.moves (%s): amount %s is not a non-negative integer", bucket, l, amt))
			}
		}
		rows.Close()
	}
	return defects, postings, ""
}

func execC28(boot *pgsim.DB, c *c28case) caseResult {
	res := caseResult{Counts: map[string]int64{}}
	e := NewEnv(boot.Clone())
	defer e.Close()
	var trace []string
	lastOK := false
	for i, r := range c.Reqs {
		resp, ok := e.Do(r)
		if !ok {
			res.Engine = fmt.Sprintf("%s: request %d not constructible: %s", c.sig(), i, r)
			return res
		}
		if isEngine(resp) {
			res.Engine = fmt.Sprintf("%s: pgsim engine error: %s -> %s", c.sig(), r, resp.short())
			return res
		}
		trace = append(trace, fmt.Sprintf("%s -> %s", r, resp.short()))
		lastOK = resp.Status >= 200 && resp.Status < 300
		if !lastOK {
			if resp.Status >= 500 {
				res.Counts["5xx"]++ // not C28's business (C38 reports those); the write did not succeed
			}
			break
		}
		defects, n, eng := c28Inspect(e)
		if eng != "" {
			res.Engine = c.sig() + ": " + eng
			return res
		}
		res.Counts["postings_inspected"] += int64(n)
		if len(defects) > 0 {
			if len(defects) > 6 {
				defects = defects[:6]
			}
			res.Viol = append(res.Viol, violRec{Sig: c.sig(), What: fmt.Sprintf("after the successful request %s: %s", r, strings.Join(defects, "; ")),
				Replay: map[string]any{"ledgers": c28Ledgers, "requests": c.Reqs, "trace": trace}})
			break
		}
	}
	if lastOK {
		res.Counts["accepted"]++
		res.Counts["accepted:"+c.Path]++
	} else {
		res.Counts["rejected"]++
	}
	res.Key = c.sig()
	res.Sample = map[string]any{"case": c.sig(), "accepted": lastOK}
	return res
}

func bootC28() (*pgsim.DB, error) { return lx.Boot(context.Background(), c28Ledgers) }

// c28ImportBase produces one exported NEW_TRANSACTION log (world -> dst, USD 10).
func c28ImportBase(boot *pgsim.DB) (string, error) {
	e := NewEnv(boot.Clone())
	defer e.Close()
	if resp, _ := e.Do(post("/v2/c28/transactions", `{"postings":[{"source":"world","destination":"dst","asset":"USD","amount":10}],"timestamp":"2023-01-01T00:00:00Z"}`)); resp.Status != 200 {
		return "", fmt.Errorf("import base: %s", resp.short())
	}
	resp, _ := e.Do(post("/v2/c28/logs/export", ``))
	if resp.Status != 200 {
		return "", fmt.Errorf("import base export: %s", resp.short())
	}
	return strings.TrimSpace(strings.SplitN(resp.Body, "\n", 2)[0]), nil
}

func c28Worker(w *workerSpec) int {
	boot, err := bootC28()
	if err != nil {
		fmt.Fprintln(os.Stderr, "worker: "+err.Error())
		return 2
	}
	return serveWorker(w, func(payload []byte) caseResult {
		var c c28case
		if err := json.Unmarshal(payload, &c); err != nil {
			return caseResult{Engine: "worker: bad case: " + err.Error()}
		}
		return execC28(boot, &c)
	})
}

var c28Trace func(sig, what string)

const c28Quick, c28Thorough = 90 * time.Second, 5 * time.Minute

func runC28(r *ev.Run) (ev.Coverage, []string) {
	assumptions := []string{pgsimAssumption, httpAssumption, "process isolation: cases run in child processes (an import may kill the process)"}
	boot, err := bootC28()
	if err != nil {
		r.EngineError("boot: " + err.Error())
		return nil, assumptions
	}
	base, err := c28ImportBase(boot)
	if err != nil {
		r.EngineError(err.Error())
		return nil, assumptions
	}
	cases, err := c28Cases(base)
	if err != nil {
		r.EngineError(err.Error())
		return nil, assumptions
	}
	counts := map[string]int64{}
	distinct := map[string]bool{}
	samples := ev.NewSamples(6)
	var evals int64
	deadline := time.Now().Add(budgetOf(r, c28Quick, c28Thorough) - r.Elapsed())
	exhaustive, err := runIsolated("C28", len(cases), func(i int) []byte {
		b, _ := json.Marshal(&cases[i])
		return b
	}, deadline, 120*time.Second, func(res caseResult) {
		evals++
		c := &cases[res.I]
		if res.Crashed {
			// the write did not succeed (there is no answer at all); the crash itself is C38's
			// business, but what the dead process left behind cannot be inspected here
			counts["process_crash"]++
			r.Note(fmt.Sprintf("%s: the server process died: %s", c.sig(), res.Stderr))
			return
		}
		if res.Engine != "" {
			r.EngineError(res.Engine)
			return
		}
		for k, v := range res.Counts {
			counts[k] += v
		}
		distinct[res.Key] = true
		if res.Sample != nil {
			samples.Add(res.Sample)
		}
		for _, v := range res.Viol {
			if c28Trace != nil {
				c28Trace(v.Sig, v.What)
			}
			r.Violation(v.Sig, v.What, v.Replay)
		}
	})
	if err != nil {
		r.EngineError("isolation: " + err.Error())
	}
	byPath := map[string]int64{}
	for k, v := range counts {
		if strings.HasPrefix(k, "accepted:") {
			byPath[k[9:]] = v
		}
	}
	if exhaustive && r.ViolationCount() == 0 && !r.HasEngineError() {
		if counts["accepted"] == 0 || counts["rejected"] == 0 || counts["postings_inspected"] == 0 {
			r.EngineError(fmt.Sprintf("vacuous: accepted=%d rejected=%d postings=%d", counts["accepted"], counts["rejected"], counts["postings_inspected"]))
		}
		for _, p := range []string{"machine", "interpreter", "v1-machine", "template-machine", "template-interpreter", "postings-v2", "postings-v1", "postings-bulk", "import-forged-hash", "import-no-hash-ledger"} {
			if byPath[p] == 0 {
				r.EngineError("vacuous: no successful write through path " + p)
			}
		}
	}
	cov := ev.Coverage{
		"evaluations":         evals,
		"distinct_nontrivial": counts["accepted"],
		"successful_writes":   counts["accepted"],
		"rejected_writes":     counts["rejected"],
		"answered_5xx":        counts["5xx"],
		"process_crashes":     counts["process_crash"],
		"postings_inspected":  counts["postings_inspected"],
		"accepted_by_path":    byPath,
		"cases":               len(cases),
		"exhaustive":          exhaustive,
		"samples":             samples.List(),
		"rule":                "every value of the asset / account / monetary / amount menus (edges of the lexer rules ASSET and ACCOUNT and of the pkg/assets and pkg/accounts patterns) through: script literals, script variables, meta()-sourced variables (the stored metadata value being the ill-formed text), on the machine, the experimental interpreter and the v1 API; transaction templates of a schema (both runtimes); the postings path (v2, v1, bulk); import of a one-log stream with an ill-formed posting (stale hash, recomputed hash, ledger without hashed logs). After every 2xx answer every transaction of every ledger (ListTransactions following cursors, tables transactions and moves by raw SQL) must only contain postings matching the patterns with a non-negative integer amount; distinct_nontrivial = cases whose write succeeded",
	}
	return cov, assumptions
}

func init() {
	workers["C28"] = c28Worker
	reg.Register("C28", func() int {
		if w := workerMode("C28"); w != nil {
			return c28Worker(w)
		}
		r := ev.Start("C28", ev.LevelExploration, c28Quick, c28Thorough)
		cov, as := runC28(r)
		return r.Finish(cov, as)
	})
}
