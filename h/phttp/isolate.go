package phttp

import (
	"bufio"
	"bytes"
	"encoding/json"
	"fmt"
	"io"
	"os"
	"os/exec"
	"runtime"
	"strconv"
	"strings"
	"sync"
	"sync/atomic"
	"time"

	"github.com/formancehq/ledger/verifh/ev"
)

// Process isolation. A request handler of the ledger may start goroutines of its own
// (POST /logs/import does); a panic there is outside every recover() and kills the whole
// process. To observe that as an OUTCOME (and go on exploring), cases are executed in
// child processes: the same binary, started with PHTTP_WORKER set, runs the slice
// child processes: the same binary, started with PHTTP_WORKER set, boots its own database,
// then reads cases on stdin ("<i> <json case>") and answers on fd 3 ("END <i> <json result>").
// A child that dies while case i is in flight crashed on case i; the parent records that
// and starts a new child.

const workerEnv = "PHTTP_WORKER"

// workers: check id -> child entry point (used by the test binary's TestMain; vcheck
// children go through the registered check function).
var workers = map[string]func(*workerSpec) int{}

// workerFromEnv returns the worker assignment of this process, whatever the check.
func workerFromEnv() *workerSpec {
	v := os.Getenv(workerEnv)
	if i := strings.IndexByte(v, ':'); i > 0 {
		return workerMode(v[:i])
	}
	return nil
}

// budgetOf mirrors ev.Start's budget selection (the Run does not expose it).
func budgetOf(r *ev.Run, quick, thorough time.Duration) time.Duration {
	b := ev.Pick(r, quick, thorough)
	if v := os.Getenv("VERIF_BUDGET_S"); v != "" {
		if s, err := strconv.Atoi(v); err == nil {
			b = time.Duration(s) * time.Second
		}
	}
	return b
}

type workerSpec struct {
	ID         string
	K, N       int
	StartAfter int
	Deadline   time.Time
}

// workerMode returns the worker assignment of this process for check id, or nil.
func workerMode(id string) *workerSpec {
	v := os.Getenv(workerEnv)
	if v == "" {
		return nil
	}
	p := strings.Split(v, ":")
	if len(p) != 5 || p[0] != id {
		return nil
	}
	k, _ := strconv.Atoi(p[1])
	n, _ := strconv.Atoi(p[2])
	sa, _ := strconv.Atoi(p[3])
	dl, _ := strconv.ParseInt(p[4], 10, 64)
	return &workerSpec{ID: id, K: k, N: n, StartAfter: sa, Deadline: time.Unix(dl, 0)}
}

// violRec is one violation found by a child.
type violRec struct {
	Sig    string `json:"sig"`
	What   string `json:"what"`
	Replay any    `json:"replay"`
}

// caseResult is what a child reports for one case.
type caseResult struct {
	I       int               `json:"i"`
	Key     string            `json:"key,omitempty"`    // identity of the executed input (distinct count)
	Keys    []string          `json:"keys,omitempty"`   // same, for a batch of inputs
	Counts  map[string]int64  `json:"counts,omitempty"` // counters to add up
	Viol    []violRec         `json:"viol,omitempty"`
	Engine  string            `json:"engine,omitempty"`
	Sample  any               `json:"sample,omitempty"`
	Crashed bool              `json:"crashed,omitempty"`
	Stderr  string            `json:"stderr,omitempty"`
	Extra   map[string]string `json:"extra,omitempty"`
}

// workerStep, in a child process, tells the parent which step of the case in flight is
// about to start ("STEP <i> <text>" on fd 3). A case made of several requests calls it
// before each of them, so that when the process dies the parent knows on which request.
// nil outside a child (in-process execution).
var workerStep func(step string)

func reportStep(step string) {
	if f := workerStep; f != nil {
		f(stepPrefix + step)
	}
}

// serveWorker runs the child side: it reads one JSON payload per line on stdin
// ("<i> <payload>"), executes it and answers on fd 3. exec must not keep state between cases.
func serveWorker(w *workerSpec, exec func(payload []byte) caseResult) int {
	out := os.NewFile(3, "results")
	if out == nil {
		fmt.Fprintln(os.Stderr, "worker: fd 3 missing")
		return 2
	}
	bw := bufio.NewWriter(out)
	fmt.Fprintf(bw, "READY\n")
	bw.Flush()
	sc := bufio.NewScanner(os.Stdin)
	sc.Buffer(make([]byte, 1<<20), 64<<20)
	for sc.Scan() {
		ln := sc.Bytes()
		sp := bytes.IndexByte(ln, ' ')
		if sp < 0 {
			continue
		}
		i, _ := strconv.Atoi(string(ln[:sp]))
		workerStep = func(step string) {
			fmt.Fprintf(bw, "STEP %d %s\n", i, strings.ReplaceAll(step, "\n", " "))
			bw.Flush()
		}
		res := exec(ln[sp+1:])
		workerStep = nil
		res.I = i
		b, err := json.Marshal(res)
		if err != nil {
			b, _ = json.Marshal(caseResult{I: i, Engine: "worker: cannot encode result: " + err.Error()})
		}
		fmt.Fprintf(bw, "END %d %s\n", i, b)
		bw.Flush()
	}
	return 0
}

type tailBuf struct {
	mu  sync.Mutex
	buf []byte
	max int
}

func (t *tailBuf) Write(p []byte) (int, error) {
	t.mu.Lock()
	defer t.mu.Unlock()
	t.buf = append(t.buf, p...)
	if len(t.buf) > t.max {
		t.buf = t.buf[len(t.buf)-t.max:]
	}
	return len(p), nil
}
func (t *tailBuf) String() string {
	t.mu.Lock()
	defer t.mu.Unlock()
	return string(t.buf)
}

// panicSummary extracts "panic: …" and the first frames inside /repo from a Go crash dump.
func panicSummary(stderr string) string {
	stderr = normRepo(stderr)
	i := strings.LastIndex(stderr, "panic: ")
	if j := strings.LastIndex(stderr, "fatal error: "); j > i {
		i = j
	}
	if i < 0 {
		if len(stderr) > 400 {
			stderr = stderr[len(stderr)-400:]
		}
		return strings.TrimSpace(stderr)
	}
	lines := strings.Split(stderr[i:], "\n")
	head := lines[0]
	if len(lines) > 1 && strings.HasPrefix(lines[1], "[signal") {
		head += " " + lines[1]
	}
	var frames []string
	for k := 0; k+1 < len(lines) && len(frames) < 4; k++ {
		if strings.HasPrefix(strings.TrimSpace(lines[k+1]), "/repo/") {
			loc := strings.TrimSpace(lines[k+1])
			if sp := strings.IndexByte(loc, ' '); sp > 0 {
				loc = loc[:sp]
			}
			fn := strings.TrimSpace(lines[k])
			if p := strings.IndexByte(fn, '('); p > 0 && !strings.HasPrefix(fn, "created by") {
				fn = fn[:strings.LastIndexByte(fn, '(')]
			}
			frames = append(frames, fn+" @ "+loc)
		}
	}
	return head + " | " + strings.Join(frames, " <- ")
}

// runIsolated is the parent side: it hands cases 0..n-1 (payload(i) = one line of JSON)
// to NumCPU child processes, one case at a time per child, and calls collect for every
// result (serialised). A child that dies while a case is in flight crashed on that case.
// It returns exhaustive=false when the deadline was hit.
func runIsolated(id string, n int, payload func(i int) []byte, deadline time.Time, perCase time.Duration, collect func(caseResult)) (exhaustive bool, err error) {
	self, err := os.Executable()
	if err != nil {
		return false, err
	}
	N := runtime.NumCPU()
	if N > n {
		N = n
	}
	if N == 0 {
		return true, nil
	}
	var mu sync.Mutex
	var firstErr error
	exhaustive = true
	setErr := func(e error) {
		mu.Lock()
		if firstErr == nil {
			firstErr = e
		}
		mu.Unlock()
	}
	var next atomic.Int64
	var wg sync.WaitGroup
	for k := 0; k < N; k++ {
		wg.Add(1)
		go func(k int) {
			defer wg.Done()
			deadStarts := 0
			for { // one iteration per child process
				if firstErr != nil {
					return
				}
				pr, pw, err := os.Pipe()
				if err != nil {
					setErr(err)
					return
				}
				cmd := exec.Command(self, os.Args[1:]...)
				// one case at a time per child: a child needs little parallelism of its own
				cmd.Env = append(os.Environ(), fmt.Sprintf("%s=%s:%d:%d:%d:%d", workerEnv, id, k, N, -1, deadline.Unix()), "GOMAXPROCS=2")
				cmd.ExtraFiles = []*os.File{pw}
				tail := &tailBuf{max: 64 << 10}
				cmd.Stderr = tail
				cmd.Stdout = io.Discard
				stdin, err := cmd.StdinPipe()
				if err != nil {
					setErr(err)
					return
				}
				if err := cmd.Start(); err != nil {
					pw.Close()
					pr.Close()
					setErr(err)
					return
				}
				pw.Close()
				lines := make(chan string, 4)
				go func() {
					sc := bufio.NewScanner(pr)
					sc.Buffer(make([]byte, 1<<20), 64<<20)
					for sc.Scan() {
						lines <- sc.Text()
					}
					close(lines)
				}()
				// wait for READY
				alive := true
				select {
				case ln, ok := <-lines:
					if !ok || ln != "READY" {
						alive = false
					}
				case <-time.After(perCase):
					alive = false
				}
				if !alive {
					_ = cmd.Process.Kill()
					_ = cmd.Wait()
					pr.Close()
					deadStarts++
					if deadStarts > 3 {
						setErr(fmt.Errorf("worker %d cannot start: %s", k, panicSummary(tail.String())))
						return
					}
					continue
				}
				deadStarts = 0
				finished := false
				for alive {
					if time.Now().After(deadline) {
						mu.Lock()
						exhaustive = false
						mu.Unlock()
						finished = true
						break
					}
					i := int(next.Add(1) - 1)
					if i >= n {
						finished = true
						break
					}
					line := append([]byte(strconv.Itoa(i)+" "), payload(i)...)
					line = append(line, '\n')
					if _, err := stdin.Write(line); err != nil {
						alive = false
					}
					var res *caseResult
					hung := false
					lastStep := ""
					timeout := time.After(perCase)
					for alive && res == nil {
						select {
						case ln, ok := <-lines:
							if !ok {
								alive = false
								break
							}
							if strings.HasPrefix(ln, "STEP ") {
								// progress of the case in flight: "STEP <i> <text>"
								if rest := ln[5:]; strings.IndexByte(rest, ' ') >= 0 {
									lastStep = rest[strings.IndexByte(rest, ' ')+1:]
								}
								continue
							}
							if strings.HasPrefix(ln, "END ") {
								rest := ln[4:]
								sp := strings.IndexByte(rest, ' ')
								var r caseResult
								if err := json.Unmarshal([]byte(rest[sp+1:]), &r); err != nil {
									setErr(fmt.Errorf("bad result line: %v", err))
									alive = false
								} else {
									res = &r
								}
							} else {
								alive = false // protocol violation: treated as a dead child
							}
						case <-timeout:
							hung = true
							alive = false
						}
					}
					if res == nil {
						_ = cmd.Process.Kill()
						_ = cmd.Wait()
						r := caseResult{I: i, Crashed: true, Stderr: panicSummary(tail.String())}
						if hung {
							r.Stderr = fmt.Sprintf("no answer within %v (killed)", perCase)
							r.Extra = map[string]string{"hung": "true"}
						}
						if lastStep != "" {
							if r.Extra == nil {
								r.Extra = map[string]string{}
							}
							r.Extra["step"] = lastStep
						}
						res = &r
					}
					mu.Lock()
					collect(*res)
					mu.Unlock()
				}
				if finished {
					stdin.Close()
					_ = cmd.Wait()
					pr.Close()
					return
				}
				pr.Close()
			}
		}(k)
	}
	wg.Wait()
	return exhaustive, firstErr
}
