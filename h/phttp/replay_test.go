package phttp

import (
	"context"
	"encoding/json"
	"os"
	"testing"

	"github.com/formancehq/ledger/verifh/lx"
)

// TestReplay re-executes a replay file written by C38, C36 or C28:
//
//	REPLAY=/verif/replays/C38-xxxx.json go test ./phttp -run TestReplay -v
//
// It boots the recorded ledgers, serves the recorded requests in order on pgsim and
// prints every response (a process-crash finding kills this test process: that is the
// reproduction).
func TestReplay(t *testing.T) {
	file := os.Getenv("REPLAY")
	if file == "" {
		t.Skip("set REPLAY=<file>")
	}
	b, err := os.ReadFile(file)
	if err != nil {
		t.Fatal(err)
	}
	var f struct {
		Property  string `json:"property"`
		Signature string `json:"signature"`
		What      string `json:"what"`
		Replay    struct {
			Boot struct {
				Ledgers []lx.LedgerSpec `json:"ledgers"`
				History []Req           `json:"history"`
			} `json:"boot"`
			Ledgers  []lx.LedgerSpec `json:"ledgers"`
			History  []Req           `json:"history"`  // C36
			Requests []Req           `json:"requests"` // C28
			Pre      []Req           `json:"pre"`      // C38
			Request  *Req            `json:"request"`  // C38
		} `json:"replay"`
	}
	if err := json.Unmarshal(b, &f); err != nil {
		t.Fatal(err)
	}
	t.Logf("%s  %s", f.Property, f.Signature)
	ledgers := f.Replay.Ledgers
	var reqs []Req
	if f.Replay.Request != nil {
		ledgers = f.Replay.Boot.Ledgers
		reqs = append(reqs, f.Replay.Boot.History...)
		reqs = append(reqs, f.Replay.Pre...)
		reqs = append(reqs, *f.Replay.Request)
	} else {
		reqs = append(reqs, f.Replay.History...)
		reqs = append(reqs, f.Replay.Requests...)
	}
	pg, err := lx.Boot(context.Background(), ledgers)
	if err != nil {
		t.Fatal(err)
	}
	e := NewEnv(pg)
	defer e.Close()
	for i, r := range reqs {
		resp, ok := e.Do(r)
		if !ok {
			t.Logf("[%d] %s\n   not constructible", i, r)
			continue
		}
		t.Logf("[%d] %s\n   -> %s", i, r, resp.short())
		if resp.Status >= 500 && resp.Body == "" {
			t.Logf("   %s", e.PanicOf(r))
		}
	}
}
