package phttp

import (
	"context"
	"testing"
)

func TestSeeds(t *testing.T) {
	ctx := context.Background()
	c, err := bootC38(ctx)
	if err != nil {
		t.Fatal(err)
	}
	for _, s := range c.seeds {
		e := NewEnv(c.boot.Clone())
		before := e.Dump()
		resp, ok := e.Do(s.Req)
		changed := e.Dump() != before
		b := resp.Body
		if len(b) > 300 {
			b = b[:300]
		}
		flag := ""
		if !ok || resp.Status >= 300 || changed != s.Write {
			flag = "  <<<<<<<<<<"
		}
		t.Logf("%-60s %d changed=%v %s %s%s", s.id(), resp.Status, changed, b, resp.Log, flag)
		e.Close()
	}
}
