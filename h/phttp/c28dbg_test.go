package phttp

import (
	"os"
	"strings"
	"testing"
)

func TestC28Dbg(t *testing.T) {
	pat := os.Getenv("C28PAT")
	if pat == "" {
		t.Skip()
	}
	boot, err := bootC28()
	if err != nil {
		t.Fatal(err)
	}
	base, _ := c28ImportBase(boot)
	cases, _ := c28Cases(base)
	for _, c := range cases {
		if !strings.Contains(c.sig(), pat) {
			continue
		}
		e := NewEnv(boot.Clone())
		for _, r := range c.Reqs {
			func() {
				defer func() {
					if rv := recover(); rv != nil {
						t.Logf("%s PANIC %v", c.sig(), rv)
					}
				}()
				resp, _ := e.Do(r)
				t.Logf("%s: %s -> %s", c.sig(), r.Method+" "+r.URL(), resp.short())
			}()
		}
		e.Close()
	}
}
