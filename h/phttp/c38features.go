package phttp

import (
	"sort"
	"strings"

	"github.com/formancehq/ledger/verifh/lx"
)

// ---- the configuration dimension of C38 -------------------------------------------------
//
// The seeds address ledgers created with the default feature set. Whether a request is
// valid also depends on the CONFIGURATION of the ledger it addresses: a ledger without
// MOVES_HISTORY cannot expand volumes, one without effective volumes cannot expand
// effectiveVolumes, v1 /balances always expands volumes… Asking such a ledger for what it
// cannot serve is client-side invalid input like any other: 4xx (or served), never 5xx.
//
// featureCases derives, from every seed that addresses l1, the same request addressed to
// each feature ledger (c38FeatureLedgers, holding the core of the history of l1):
//
//	as-is                       the seed request, only the ledger differs
//	expand=none|volumes|effectiveVolumes|volumes+effectiveVolumes
//	                            (GET/HEAD seeds) the documented values of the `expand`
//	                            parameter instead of the seed's
//
// All in doubt: 2xx and 4xx are both fine (the tables of definitely-invalid input are about
// the default configuration); the rest of the oracle applies (no 5xx/panic/crash,
// well-formed answer, a 4xx leaves the database unchanged, same verdict on repeat).

const featureKind = "ledger-features"

// featureLoc names a feature ledger by its departure from the defaults.
func featureLoc(l lx.LedgerSpec) string {
	switch {
	case len(l.Features) == 5:
		return featureKind + ":minimal"
	case len(l.Features) > 1:
		return featureKind + ":histories-and-log-hashing-off"
	}
	var parts []string
	for k, v := range l.Features {
		parts = append(parts, k+"="+v)
	}
	sort.Strings(parts)
	return featureKind + ":" + strings.Join(parts, ",")
}

var expandMenu = []struct {
	Name string
	Vals []string
}{
	{"none", nil}, {"volumes", []string{"volumes"}}, {"effectiveVolumes", []string{"effectiveVolumes"}},
	{"volumes+effectiveVolumes", []string{"volumes", "effectiveVolumes"}},
}

func featureCases(s *Seed) []mcase {
	var out []mcase
	for _, l := range c38FeatureLedgers {
		p, ok := retarget(s.Req.Path, "l1", l.Name)
		if !ok {
			continue
		}
		base := s.Req.clone()
		base.Path = p
		loc := featureLoc(l)
		out = append(out, mcase{Seed: s.ref(), Loc: loc, Repl: "as-is", Req: base})
		if s.Req.Method != "GET" && s.Req.Method != "HEAD" {
			continue
		}
		for _, ex := range expandMenu {
			r := base.withoutQuery("expand")
			for _, v := range ex.Vals {
				r.Query = append(r.Query, KV{"expand", v})
			}
			if r.URL() == base.URL() {
				continue // the seed itself asks for exactly this
			}
			out = append(out, mcase{Seed: s.ref(), Loc: loc, Repl: "expand=" + ex.Name, Req: r})
		}
	}
	return out
}

// featureCounts: feature set -> status class -> cases (evidence).
func featureCounts(counts map[string]int64) map[string]map[string]int64 {
	out := map[string]map[string]int64{}
	for k, v := range counts {
		rest, ok := strings.CutPrefix(k, "features:")
		if !ok {
			continue
		}
		i := strings.LastIndexByte(rest, ':')
		if out[rest[:i]] == nil {
			out[rest[:i]] = map[string]int64{}
		}
		out[rest[:i]][rest[i+1:]] = v
	}
	return out
}
