package phttp

import (
	"fmt"
	"math/big"
	"strconv"
)

// ---- following cursors ------------------------------------------------------------------
//
// A listing is not one response: a client that asks for small pages FOLLOWS cursor.next
// (and cursor.previous). Every page after the first is computed from what the cursor
// carries — the filter, its threshold, the page position — decoded again by the server.
// "Filtered and returned exactly" therefore has to hold on every page, not only on the one
// computed from the request itself.

const c36MaxPages = 8

// c36Walk asks for the first page, follows cursor.next to the last page, then (back=true)
// cursor.previous from the last page to the first one. It returns the rows of the pages in
// forward order; problem is non-empty when a page was not served or the walk did not end,
// backProblem when a page reached backwards is not the page that was reached forwards.
func c36Walk(do func(Req) Resp, res *c36result, first Req, follow func(cursor string) Req, back bool) (pages [][]any, problem, backProblem string) {
	var prevs []string
	r := first
	for i := 0; ; i++ {
		if i == c36MaxPages {
			return pages, fmt.Sprintf("the listing did not end after %d pages of %s", c36MaxPages, first), ""
		}
		resp := do(r)
		res.reads++
		if i > 0 {
			res.pagesFollowed++
		}
		if resp.Status != 200 {
			return pages, fmt.Sprintf("page %d (%s) answered %s", i+1, r, resp.short()), ""
		}
		b := decode(resp.Body)
		rows, _ := jat(b, "cursor", "data").([]any)
		pages = append(pages, rows)
		pv, _ := jat(b, "cursor", "previous").(string)
		prevs = append(prevs, pv)
		next, _ := jat(b, "cursor", "next").(string)
		if next == "" {
			break
		}
		r = follow(next)
	}
	if !back {
		return pages, "", ""
	}
	prev := prevs[len(prevs)-1]
	for i := len(pages) - 2; i >= 0; i-- {
		if prev == "" {
			return pages, "", fmt.Sprintf("page %d of %s carries no previous cursor", i+2, first)
		}
		r := follow(prev)
		resp := do(r)
		res.reads++
		res.pagesFollowed++
		if resp.Status != 200 {
			return pages, "", fmt.Sprintf("page %d reached backwards (%s) answered %s", i+1, r, resp.short())
		}
		b := decode(resp.Body)
		rows, _ := jat(b, "cursor", "data").([]any)
		if encJSON(rows) != encJSON(pages[i]) {
			return pages, "", fmt.Sprintf("page %d of %s reached backwards (cursor.previous) holds %s, reached forwards it held %s", i+1, first, encJSON(rows), encJSON(pages[i]))
		}
		prev, _ = jat(b, "cursor", "previous").(string)
	}
	return pages, "", ""
}

// c36Keys flattens the pages into the list of row[key]; a page of a pageSize=1 listing
// holding more than one row is reported.
func c36Keys(pages [][]any, key string) (keys []string, problem string) {
	for i, p := range pages {
		if len(p) > 1 {
			problem = fmt.Sprintf("page %d of a pageSize=1 listing holds %d rows", i+1, len(p))
		}
		for _, row := range p {
			keys = append(keys, fmt.Sprint(jat(row, key)))
		}
	}
	return keys, problem
}

// c36Matches is the reference semantics of a balance filter.
func c36Matches(bal *big.Int, op string, th *big.Int) bool {
	c := bal.Cmp(th)
	switch op {
	case "$gte", "gte":
		return c >= 0
	case "$gt", "gt":
		return c > 0
	case "$lte", "lte":
		return c <= 0
	case "$lt", "lt":
		return c < 0
	}
	return c == 0 // $match, e
}

// c36PagedFilter walks a filtered listing page by page (pageSize=1) and compares the
// addresses met, in order, with the expected ones.
func c36PagedFilter(do func(Req) Resp, res *c36result, api, where, name string, first Req, follow func(string) Req, key string, want []string) {
	pages, problem, backProblem := c36Walk(do, res, first, follow, true)
	got, p2 := c36Keys(pages, key)
	if problem == "" {
		problem = p2
	}
	if problem == "" && fmt.Sprint(got) != fmt.Sprint(want) {
		problem = fmt.Sprintf("following cursor.next page by page lists %v, expected %v", got, want)
	}
	if problem == "" {
		problem = backProblem
	}
	if problem != "" {
		res.mism = append(res.mism, c36mismatch{Family: "filter", API: api, Where: where + ":paged", What: fmt.Sprintf("%s, pageSize=1, cursors followed: %s", name, problem)})
		return
	}
	if len(pages) > 1 {
		res.filterPagesOK += len(pages) - 1
	}
}

// c36PagedReads: the unfiltered listings of both API versions read one row per page. The
// amounts of the rows of every page are compared with the reference fold. Called after the
// two writes of the case (ps = the two postings). thorough adds the logs and walks back.
func c36PagedReads(do func(Req) Resp, ledger string, ps []c36posting, read func(api, reader string) func(where, what string), res *c36result, thorough bool) {
	want := foldVolumes(ps)
	accounts := []string{"a:x", "a:y", "world"}
	one := KV{"pageSize", "1"}
	ex := KV{"expand", "volumes"}
	ee := KV{"expand", "effectiveVolumes"}
	followOn := func(path string) func(string) Req {
		return func(c string) Req { return get(path, KV{"cursor", c}) }
	}
	type listing struct {
		api, reader, path string
		q                 []KV
		rows              int
		check             func(add func(where, what string), i int, row any)
	}
	txAmount := func(tag string, txOf func(any) any) func(add func(where, what string), i int, row any) {
		// newest first: row i is posting len(ps)-1-i
		return func(add func(where, what string), i int, row any) {
			k := len(ps) - 1 - i
			got, ok := exactInt(jat(txOf(row), "postings", 0, "amount"))
			if !ok || got.Cmp(ps[k].Amt) != 0 {
				add("", fmt.Sprintf("%s page %d: posting amount = %v, expected %s", tag, i+1, jat(txOf(row), "postings", 0, "amount"), ps[k].Amt))
			}
			for _, a := range []string{ps[k].Src, ps[k].Dst} {
				checkVolObj(add, fmt.Sprintf("%s page %d postCommitVolumes[%s]", tag, i+1, a), jat(txOf(row), "postCommitVolumes", a, "USD"), foldVolumes(ps[:k+1])[a])
			}
		}
	}
	self := func(row any) any { return row }
	ls := []listing{
		{"v2", "list-accounts-paged", "/v2/" + ledger + "/accounts", []KV{one, ex, ee}, len(accounts), func(add func(where, what string), i int, row any) {
			if jat(row, "address") != accounts[i] {
				add("", fmt.Sprintf("v2 list accounts page %d = %v, expected %s", i+1, jat(row, "address"), accounts[i]))
				return
			}
			checkVolObj(add, "v2 list accounts page "+strconv.Itoa(i+1)+" "+accounts[i]+" volumes", jat(row, "volumes", "USD"), want[accounts[i]])
			checkVolObj(add, "v2 list accounts page "+strconv.Itoa(i+1)+" "+accounts[i]+" effectiveVolumes", jat(row, "effectiveVolumes", "USD"), want[accounts[i]])
		}},
		{"v2", "list-transactions-paged", "/v2/" + ledger + "/transactions", []KV{one, ex}, len(ps), txAmount("v2 list transactions", self)},
		{"v2", "volumes-paged", "/v2/" + ledger + "/volumes", []KV{one}, len(accounts), func(add func(where, what string), i int, row any) {
			if jat(row, "account") != accounts[i] {
				add("", fmt.Sprintf("v2 volumes page %d = %v, expected %s", i+1, jat(row, "account"), accounts[i]))
				return
			}
			checkVolObj(add, "v2 volumes page "+strconv.Itoa(i+1)+" "+accounts[i], row, want[accounts[i]])
		}},
		{"v1", "list-transactions-paged", "/" + ledger + "/transactions", []KV{one}, len(ps), txAmount("v1 list transactions", self)},
		{"v1", "balances-paged", "/" + ledger + "/balances", []KV{one}, len(accounts), func(add func(where, what string), i int, row any) {
			got, ok := exactInt(jat(row, accounts[i], "USD"))
			if !ok || got.Cmp(want[accounts[i]].bal()) != 0 {
				add("", fmt.Sprintf("v1 balances page %d [%s].USD = %v, expected %s", i+1, accounts[i], jat(row, accounts[i], "USD"), want[accounts[i]].bal()))
			}
		}},
	}
	if thorough {
		logTx := func(l any) any { return jat(l, "data", "transaction") }
		ls = append(ls,
			listing{"v2", "logs-paged", "/v2/" + ledger + "/logs", []KV{one}, len(ps), txAmount("v2 logs", logTx)},
			listing{"v1", "logs-paged", "/" + ledger + "/logs", []KV{one}, len(ps), txAmount("v1 logs", logTx)})
	}
	for _, l := range ls {
		add := read(l.api, l.reader)
		pages, problem, backProblem := c36Walk(do, res, get(l.path, l.q...), followOn(l.path), thorough)
		if problem == "" {
			problem = backProblem
		}
		if problem != "" {
			add("", problem)
			continue
		}
		var rows []any
		for _, p := range pages {
			rows = append(rows, p...)
		}
		if len(rows) != l.rows || len(pages) != l.rows {
			add("", fmt.Sprintf("%s with pageSize=1: %d rows on %d pages, expected %d rows on as many pages", l.path, len(rows), len(pages), l.rows))
			continue
		}
		for i, row := range rows {
			l.check(add, i, row)
		}
	}
}
