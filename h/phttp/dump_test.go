package phttp

import (
	"context"
	"os"
	"testing"
)

func TestDump(t *testing.T) {
	if os.Getenv("DUMP") == "" {
		t.Skip()
	}
	pg, err := BootSeeded(context.Background(), c38Ledgers, c38History[:2])
	if err != nil {
		t.Fatal(err)
	}
	t.Log(pg.DumpFiltered(false, dumpFilter))
}
