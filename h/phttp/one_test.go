package phttp

import (
	"context"
	"encoding/json"
	"os"
	"testing"
)

// TestOne serves one request (REQ = JSON of a Req, optional PRE = JSON list) on the C38 database.
func TestOne(t *testing.T) {
	if os.Getenv("REQ") == "" {
		t.Skip()
	}
	pg, err := BootSeeded(context.Background(), c38Ledgers, c38History)
	if err != nil {
		t.Fatal(err)
	}
	var r Req
	if err := json.Unmarshal([]byte(os.Getenv("REQ")), &r); err != nil {
		t.Fatal(err)
	}
	e := NewEnv(pg.Clone())
	before := e.Dump()
	resp, ok := e.Do(r)
	t.Log(ok, resp.Status, resp.Body)
	t.Log(resp.Log)
	t.Log("changed:", e.Dump() != before)
	t.Log(NewEnv(pg.Clone()).PanicOf(r))
}
