package phttp

import (
	"encoding/json"
	"testing"

	ledger "github.com/formancehq/ledger/internal"
)

func TestC28Forge(t *testing.T) {
	boot, err := bootC28()
	if err != nil {
		t.Fatal(err)
	}
	base, _ := c28ImportBase(boot)
	t.Log(base)
	tree, _ := parseJSON(base)
	mut := replaceAt(tree, ptr{"data", "transaction", "postings", "0", "destination"}, "a:", false)
	raw := encJSON(mut)
	var l ledger.Log
	err = json.Unmarshal([]byte(raw), &l)
	t.Log(err)
}
