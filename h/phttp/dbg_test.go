package phttp

import (
	"context"
	"os"
	"testing"
)

func TestDbg(t *testing.T) {
	ctx := context.Background()
	c, err := bootC38(ctx)
	if err != nil {
		t.Fatal(err)
	}
	want := os.Getenv("SEED")
	for _, s := range c.seeds {
		if s.id() != want {
			continue
		}
		e := NewEnv(c.boot.Clone())
		os.Setenv("PGSIM_TRACE", os.Getenv("TRACE"))
		resp, _ := e.Do(s.Req)
		t.Log(resp.short())
		t.Log(e.PanicOf(s.Req))
	}
}
