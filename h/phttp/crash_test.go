package phttp

import (
	"encoding/json"
	"os"
	"testing"
	"time"
)

// TestCrashRepro serves minimal import streams in a child process and reports whether the process died.
func TestCrashRepro(t *testing.T) {
	if os.Getenv("CRASH") == "" {
		t.Skip("set CRASH=1")
	}
	bodies := []string{
		`{"type":"NEW_TRANSACTION","data":{"transaction":{"postings":[]}},"id":1}`,
		`{"type":"NEW_TRANSACTION","data":{"transaction":{"id":1,"postings":[]}}}`,
		`{"type":"REVERTED_TRANSACTION","data":{"revertedTransaction":{},"transaction":{}},"id":1}`,
		`{"type":"SET_METADATA","data":{"targetType":"TRANSACTION","targetId":"x","metadata":{}},"id":1}`,
		`{"type":"NEW_TRANSACTION","data":{"transaction":{"id":1,"postings":[{"source":"world","destination":"a","asset":"USD"}]}},"id":1}`,
	}
	var cases []mcase
	for _, b := range bodies {
		cases = append(cases, mcase{Seed: seedRef{API: "v2", Route: "POST /{ledger}/logs/import"}, Loc: "body", Repl: "crafted",
			Req: Req{Method: "POST", Path: "/v2/limp/logs/import", Headers: jh("application/octet-stream"), Body: b}})
	}
	_, err := runIsolated("C38", len(cases), func(i int) []byte { b, _ := json.Marshal(&cases[i]); return b }, time.Now().Add(time.Minute), time.Minute, func(res caseResult) {
		if res.Crashed {
			t.Logf("CRASH body=%s\n   %s", cases[res.I].Req.Body, res.Stderr)
		} else {
			t.Logf("no crash body=%s  %v %v", cases[res.I].Req.Body, res.Counts, res.Viol)
		}
	})
	if err != nil {
		t.Fatal(err)
	}
}
