package phttp

import (
	"encoding/json"
	"strings"
)

// The two STREAMED content types of POST /v2/{ledger}/_bulk (internal/api/v2/routes.go,
// internal/api/bulking/handler_stream_*.go, text_stream.go): the elements are parsed by a
// goroutine of the handler while the bulker already runs the first ones. A panic of that
// goroutine is outside every recover(): it kills the process (observable: cases run in
// child processes).

const (
	ctScriptStream = "application/vnd.formance.ledger.api.v2.bulk+script-stream"
	ctJSONStream   = "application/vnd.formance.ledger.api.v2.bulk+json-stream"
)

// the elements of the text stream seed: header line, script lines
var textStreamElements = [][2]string{
	{"//script ik=s1", "send [USD/2 7] (\n  source = @world\n  destination = @dave\n)"},
	{"//script", "send [USD/2 1] (\n  source = @alice\n  destination = @dave\n)"},
	{"//script ik=s3", "send [EUR 2] (\n  source = @world\n  destination = @erin\n)\nset_tx_meta(\"k\", \"v\")"},
}

func textElement(header, script string) string { return header + "\n" + script + "\n//end\n" }

// textStreamBody renders the seed with element i replaced (nil: unchanged).
func textStreamBody(replace map[int]string) string {
	var sb strings.Builder
	for i, el := range textStreamElements {
		if r, ok := replace[i]; ok {
			sb.WriteString(r)
			continue
		}
		sb.WriteString(textElement(el[0], el[1]))
	}
	return sb.String()
}

var jsonStreamDocs = []string{
	`{"action":"CREATE_TRANSACTION","ik":"j1","data":{"postings":[{"source":"world","destination":"dave","asset":"USD/2","amount":7}],"timestamp":"2023-02-01T00:00:00Z","reference":"ref-j","metadata":{"m":"1"}}}`,
	`{"action":"CREATE_TRANSACTION","data":{"script":{"plain":"vars {\n monetary $mon\n account $acc\n}\nsend $mon (\n source = @world\n destination = $acc\n)","vars":{"mon":{"asset":"USD/2","amount":3},"acc":"erin"}}}}`,
	`{"action":"ADD_METADATA","data":{"targetType":"ACCOUNT","targetId":"alice","metadata":{"x":"y"}}}`,
	`{"action":"ADD_METADATA","data":{"targetType":"TRANSACTION","targetId":1,"metadata":{"x":"y"}}}`,
	`{"action":"REVERT_TRANSACTION","data":{"id":4,"force":false,"atEffectiveDate":false,"metadata":{"why":"r"}}}`,
	`{"action":"DELETE_METADATA","data":{"targetType":"ACCOUNT","targetId":"alice","key":"role"}}`,
}

func streamSeeds() []Seed {
	text := textStreamBody(nil)
	js := strings.Join(jsonStreamDocs, "\n") + "\n"
	bulkReq := func(ct, body string, q ...KV) Req {
		return Req{Method: "POST", Path: "/v2/l1/_bulk", Query: q, Headers: jh(ct), Body: body}
	}
	return []Seed{
		{API: "v2", Route: bulkRoute, Name: "text-stream", Write: true, TextStream: true, PartialEffect: true,
			Req: bulkReq(ctScriptStream, text), Extra: []string{"schemaVersion"}},
		{API: "v2", Route: bulkRoute, Name: "text-stream-atomic", Write: true, TextStream: true,
			Req: bulkReq(ctScriptStream, text, KV{"atomic", "true"})},
		{API: "v2", Route: bulkRoute, Name: "json-stream", Write: true, NDJSON: true, JSONStream: true, PartialEffect: true,
			Req: bulkReq(ctJSONStream, js, KV{"continueOnFailure", "true"}), Extra: []string{"schemaVersion"},
			Values: map[string][]named{"*.data.script.plain": badScripts}},
		{API: "v2", Route: bulkRoute, Name: "json-stream-atomic", Write: true, NDJSON: true, JSONStream: true,
			Req: bulkReq(ctJSONStream, js, KV{"atomic", "true"})},
	}
}

var long70k = strings.Repeat("L", 70000) // above the 64 KiB token limit of bufio.Scanner

// textHeaderVariants: what may follow "//script" on a header line, and near misses of it.
var textHeaderVariants = []named{
	{"bare", "//script"},
	{"key-without-value", "//script ik"},
	{"key-empty-value", "//script ik="},
	{"key-twice", "//script ik=a,ik=b"},
	{"unknown-key", "//script x=1"},
	{"unknown-key-without-value", "//script x"},
	{"trailing-comma", "//script ik=a,"},
	{"leading-comma", "//script ,ik=a"},
	{"comma-only", "//script ,"},
	{"equals-only", "//script ="},
	{"two-equals", "//script ik=a=b"},
	{"empty-then-key", "//script ik=,ik=b"},
	{"spaces-around-equals", "//script ik = a"},
	{"double-space", "//script  ik=a"},
	{"tab", "//script\tik=a"},
	{"glued", "//scriptik=a"},
	{"upper-case", "//SCRIPT ik=a"},
	{"space-after-slashes", "// script ik=a"},
	{"long-key-value", "//script ik=" + long300 + long300},
	{"nul-in-value", "//script ik=a\x00b"},
	{"non-ascii-value", "//script ik=é"},
}

// streamMust: the damaged streams that cannot be read as a bulk at all by any reading of the
// format (text where a header or a JSON document must be, a document cut in the middle):
// definitely invalid input, which must be answered 4xx. Everything else stays in doubt.
var streamMust = map[string]bool{
	"text-instead": true, "text-before-first-header": true, "json-array-instead": true,
	"text-only": true, "text-stream-instead": true, "truncated-half": true,
}

// textStreamCases: line-level damage of the text stream. Everything is "in doubt" (a
// damaged stream may be refused as a whole or run up to the damage): what counts is that
// the process answers, with a well-formed body, and that a 4xx leaves the database as it was
// when the bulk is atomic.
func textStreamCases(s *Seed) []mcase {
	base := s.Req
	var out []mcase
	add := func(where, name, body string) {
		out = append(out, mcase{Seed: s.ref(), Loc: "text-stream:" + where, Repl: name, Must: streamMust[name], Req: base.withBody(body)})
	}
	valid := base.Body
	el0 := textElement(textStreamElements[0][0], textStreamElements[0][1])
	// every header variant at every position, with a script and without
	for i := range textStreamElements {
		pos := []string{"first", "middle", "last"}[i]
		for _, h := range textHeaderVariants {
			add("header-"+pos, h.Name, textStreamBody(map[int]string{i: textElement(h.Val, textStreamElements[0][1])}))
			add("header-"+pos+"-no-script", h.Name, textStreamBody(map[int]string{i: h.Val + "\n//end\n"}))
		}
		add("element-"+pos, "empty-script", textStreamBody(map[int]string{i: "//script\n//end\n"}))
		add("element-"+pos, "blank-script", textStreamBody(map[int]string{i: "//script\n\n//end\n"}))
		add("element-"+pos, "missing-end", textStreamBody(map[int]string{i: "//script\n" + textStreamElements[0][1] + "\n"}))
		add("element-"+pos, "header-only", textStreamBody(map[int]string{i: "//script\n"}))
		add("element-"+pos, "end-only", textStreamBody(map[int]string{i: "//end\n"}))
		add("element-"+pos, "double-end", textStreamBody(map[int]string{i: el0 + "//end\n"}))
		add("element-"+pos, "end-with-trailing-space", textStreamBody(map[int]string{i: "//script\n" + textStreamElements[0][1] + "\n//end \n"}))
		add("element-"+pos, "indented-end", textStreamBody(map[int]string{i: "//script\n" + textStreamElements[0][1] + "\n  //end\n"}))
		add("element-"+pos, "text-instead", textStreamBody(map[int]string{i: "hello\n"}))
		add("element-"+pos, "script-does-not-compile", textStreamBody(map[int]string{i: "//script\n%%%\n//end\n"}))
		add("element-"+pos, "script-insufficient-funds", textStreamBody(map[int]string{i: "//script\nsend [USD/2 100000] (\n  source = @alice\n  destination = @dave\n)\n//end\n"}))
		add("element-"+pos, "script-with-nul", textStreamBody(map[int]string{i: "//script\nsend [USD/2 1] (\n  source = @world\n  destination = @da\x00ve\n)\n//end\n"}))
		// (invalid UTF-8 cannot be carried: cases travel to the child processes as JSON text)
		add("element-"+pos, "script-with-64k-line", textStreamBody(map[int]string{i: "//script\n// " + long70k + "\n" + textStreamElements[0][1] + "\n//end\n"}))
		add("element-"+pos, "header-with-64k-line", textStreamBody(map[int]string{i: "//script ik=" + long70k + "\n" + textStreamElements[0][1] + "\n//end\n"}))
		add("element-"+pos, "duplicate-with-ik", textStreamBody(map[int]string{i: el0 + el0}))
	}
	// whole-body damage
	add("body", "only-header", "//script\n")
	add("body", "only-header-no-newline", "//script")
	add("body", "only-header-with-key", "//script ik\n")
	add("body", "only-header-with-key-and-value", "//script ik=a\n")
	add("body", "only-empty-script", "//script\n//end\n")
	add("body", "only-end", "//end\n")
	add("body", "end-first", "//end\n"+valid)
	add("body", "blank-lines-only", "\n\n\n")
	add("body", "spaces-only", "   \n \t \n")
	add("body", "leading-blank-lines", "\n\n\n"+valid)
	add("body", "blank-lines-between-elements", strings.ReplaceAll(valid, "//end\n", "//end\n\n\n"))
	add("body", "text-before-first-header", "hello\n"+valid)
	add("body", "text-after-last-element", valid+"hello\n")
	add("body", "crlf", strings.ReplaceAll(valid, "\n", "\r\n"))
	add("body", "cr-only", strings.ReplaceAll(valid, "\n", "\r"))
	add("body", "no-trailing-newline", strings.TrimSuffix(valid, "\n"))
	add("body", "bom", "\ufeff"+valid)
	add("body", "nul-only", "\x00")
	add("body", "nul-before-first-header", "\x00"+valid)
	add("body", "64k-line-before-first-header", long70k+"\n"+valid)
	add("body", "64k-line-only", long70k)
	add("body", "json-array-instead", `[{"action":"CREATE_TRANSACTION","data":{"postings":[]}}]`)
	// more elements than the size limit of the JSON bulk (the streams have none)
	var many strings.Builder
	for i := 0; i < 120; i++ {
		many.WriteString("//script\nsend [USD/2 1] (\n  source = @world\n  destination = @dave\n)\n//end\n")
	}
	add("body", "120-elements", many.String())
	return out
}

// jsonStreamCases: document-level damage of the JSON stream (the JSON-pointer menu on every
// document comes from the NDJSON machinery of casesOf).
func jsonStreamCases(s *Seed) []mcase {
	base := s.Req
	var out []mcase
	add := func(where, name, body string) {
		out = append(out, mcase{Seed: s.ref(), Loc: "json-stream:" + where, Repl: name, Must: streamMust[name], Req: base.withBody(body)})
	}
	docs := jsonStreamDocs
	join := func(d []string, sep string) string { return strings.Join(d, sep) }
	with := func(i int, doc string) []string {
		c := append([]string(nil), docs...)
		c[i] = doc
		return c
	}
	insert := func(i int, doc string) []string {
		c := append([]string(nil), docs[:i]...)
		c = append(c, doc)
		return append(c, docs[i:]...)
	}
	add("framing", "concatenated-without-separator", join(docs, ""))
	add("framing", "space-separated", join(docs, " "))
	add("framing", "comma-separated", join(docs, ",\n")+"\n")
	add("framing", "wrapped-in-array", "["+join(docs, ",")+"]")
	add("framing", "blank-lines-between", join(docs, "\n\n\n")+"\n")
	add("framing", "crlf", join(docs, "\r\n")+"\r\n")
	add("framing", "no-trailing-newline", join(docs, "\n"))
	add("framing", "bom", "\ufeff"+join(docs, "\n")+"\n")
	add("framing", "nul-between", join(docs, "\n\x00\n")+"\n")
	add("framing", "nul-only", "\x00")
	add("framing", "whitespace-only", " \n\t\n")
	add("framing", "text-only", "hello\n")
	add("framing", "text-stream-instead", textStreamBody(nil))
	for _, at := range []int{0, 1, len(docs) - 1} {
		pos := map[int]string{0: "first", 1: "middle", len(docs) - 1: "last"}[at]
		d := docs[at]
		add("document-"+pos, "truncated-half", join(with(at, d[:len(d)/2]), "\n")+"\n")
		add("document-"+pos, "truncated-minus-1", join(with(at, d[:len(d)-1]), "\n")+"\n")
		add("document-"+pos, "split-by-newline", join(with(at, d[:len(d)/2]+"\n"+d[len(d)/2:]), "\n")+"\n")
		add("document-"+pos, "duplicated", join(insert(at, d), "\n")+"\n")
		for _, v := range []named{{"number", "1"}, {"string", `"x"`}, {"array", "[]"}, {"array-of-element", "[" + d + "]"}, {"null", "null"}, {"true", "true"}, {"empty-object", "{}"}, {"garbage", "%%%"}} {
			add("document-"+pos, "replaced-by-"+v.Name, join(with(at, v.Val), "\n")+"\n")
			add("document-"+pos, "preceded-by-"+v.Name, join(insert(at, v.Val), "\n")+"\n")
		}
		for _, v := range []named{
			{"unknown-action", `{"action":"NOPE","data":{}}`},
			{"unknown-action-no-data", `{"action":"NOPE"}`},
			{"unknown-action-null-data", `{"action":"NOPE","data":null}`},
			{"lower-case-action", `{"action":"create_transaction","data":{"postings":[]}}`},
			{"action-null", `{"action":null,"data":{}}`},
			{"no-action", `{"data":{"postings":[]}}`},
			{"create-without-data", `{"action":"CREATE_TRANSACTION"}`},
			{"create-null-data", `{"action":"CREATE_TRANSACTION","data":null}`},
			{"add-metadata-without-data", `{"action":"ADD_METADATA"}`},
			{"add-metadata-null-data", `{"action":"ADD_METADATA","data":null}`},
			{"add-metadata-unknown-target-type", `{"action":"ADD_METADATA","data":{"targetType":"LEDGER","targetId":"x","metadata":{}}}`},
			{"add-metadata-no-target-id", `{"action":"ADD_METADATA","data":{"targetType":"ACCOUNT","metadata":{}}}`},
			{"revert-without-data", `{"action":"REVERT_TRANSACTION"}`},
			{"revert-null-data", `{"action":"REVERT_TRANSACTION","data":null}`},
			{"delete-metadata-without-data", `{"action":"DELETE_METADATA"}`},
			{"delete-metadata-unknown-target-type", `{"action":"DELETE_METADATA","data":{"targetType":"LEDGER","targetId":"x","key":"k"}}`},
			{"delete-metadata-no-target-id", `{"action":"DELETE_METADATA","data":{"targetType":"TRANSACTION","key":"k"}}`},
			{"two-actions", `{"action":"ADD_METADATA","action":"REVERT_TRANSACTION","data":{"id":4}}`},
			{"insufficient-funds", `{"action":"CREATE_TRANSACTION","data":{"postings":[{"source":"alice","destination":"dave","asset":"USD/2","amount":100000}]}}`},
		} {
			add("document-"+pos, v.Name, join(with(at, v.Val), "\n")+"\n")
		}
	}
	var many []string
	for i := 0; i < 120; i++ {
		many = append(many, `{"action":"ADD_METADATA","data":{"targetType":"ACCOUNT","targetId":"alice","metadata":{"n":"`+strings.Repeat("x", i%7)+`"}}}`)
	}
	add("framing", "120-documents", join(many, "\n")+"\n")
	return out
}

// streamContentTypes: spellings of the streamed content types (the handler compares the
// text before the first ';' with its table, byte for byte).
func streamContentTypeCases(s *Seed) []mcase {
	ct := s.Req.Headers["Content-Type"]
	var out []mcase
	for _, v := range []named{
		{"with-parameter", ct + "; charset=utf-8"},
		{"trailing-semicolon", ct + ";"},
		{"leading-semicolon", ";" + ct},
		{"upper-case", strings.ToUpper(ct)},
		{"leading-space", " " + ct},
		{"the-other-stream", map[string]string{ctScriptStream: ctJSONStream, ctJSONStream: ctScriptStream}[ct]},
		{"plain-json", "application/json"},
	} {
		out = append(out, mcase{Seed: s.ref(), Loc: "header:Content-Type", Repl: "stream-" + v.Name, Req: s.Req.withHeader("Content-Type", v.Val)})
	}
	return out
}

// ---- cursors on EMPTY pages -----------------------------------------------------------

const two63, two64m1 = "9223372036854775808", "18446744073709551615"

// aboveTheData: a pagination id above every id of the seeded ledgers and, read as
// microseconds (date columns), above every date (2100-01-01) yet a date Postgres and pgsim
// both accept.
const aboveTheData = "4102444800000000"

var cursorPageSizes = []named{{"0", "0"}, {"1", "1"}, {"2^31", "2147483648"}, {"2^63-1", "9223372036854775807"}, {"2^63", two63}, {"2^64-1", two64m1}, {"2^64", "18446744073709551616"}, {"neg", "-1"}}

// emptyFilterFor: a filter document that selects nothing, per route.
func emptyFilterFor(route string) string {
	switch {
	case strings.HasSuffix(route, "/logs"):
		return `{"$lt":{"id":0}}`
	case strings.HasSuffix(route, "/transactions"):
		return `{"$match":{"reference":"no-such-reference"}}`
	case strings.HasSuffix(route, "/volumes"):
		return `{"$match":{"account":"nobody"}}`
	case strings.HasSuffix(route, "/schemas"):
		return `{"$match":{"version":"no-such-version"}}`
	case route == "GET /":
		return `{"$match":{"name":"no-such-ledger"}}`
	case strings.HasSuffix(route, "/run"):
		return `{"$match":{"address":"nobody"}}`
	}
	return `{"$match":{"address":"nobody"}}`
}

// cursorEmptyCases: the decoded next cursor of the seed, with a page size out of every
// range AND a position/filter that leaves nothing to return. A cursor is opaque: tampering
// with it is "in doubt" input (4xx or 2xx), never a reason for a 5xx or a panic. The
// pageSize parameter of the seed is dropped: when present it overrides the one of the cursor.
func cursorEmptyCases(s *Seed, tree any, setCursor func(string) Req) []mcase {
	m, ok := tree.(map[string]any)
	if !ok {
		return nil
	}
	_, isOffset := m["offset"]
	type mut struct {
		name string
		set  map[string]any // top-level fields to set
		qb   bool           // also set filters.qb to a filter that selects nothing
	}
	var ways []mut
	if isOffset {
		ways = []mut{
			{"offset-beyond-the-end", map[string]any{"offset": rawJSON("100000")}, false},
			{"offset-2^31", map[string]any{"offset": rawJSON("2147483648")}, false},
			{"offset-2^64-1", map[string]any{"offset": rawJSON(two64m1)}, false},
			{"offset-0-filter-selects-nothing", map[string]any{"offset": rawJSON("0")}, true},
			{"filter-selects-nothing", nil, true},
		}
	} else {
		ways = []mut{
			{"pagination-id-below-the-data", map[string]any{"paginationID": rawJSON("-1")}, false},
			{"pagination-id-above-the-data", map[string]any{"paginationID": rawJSON(aboveTheData)}, false},
			{"pagination-id-2^70", map[string]any{"paginationID": rawJSON(two70)}, false},
			{"bottom-above-the-data", map[string]any{"bottom": rawJSON(aboveTheData)}, false},
			{"bottom-and-pagination-id-below", map[string]any{"bottom": rawJSON("-5"), "paginationID": rawJSON("-1")}, false},
			{"reverse-pagination-id-below-the-data", map[string]any{"paginationID": rawJSON("-1"), "reverse": true}, false},
			{"reverse-pagination-id-above-the-data", map[string]any{"paginationID": rawJSON(aboveTheData), "reverse": true}, false},
			{"filter-selects-nothing", nil, true},
			{"no-pagination-id-filter-selects-nothing", map[string]any{"paginationID": nil}, true},
		}
	}
	var out []mcase
	for _, w := range ways {
		for _, order := range []named{{"", ""}, {"flipped-order", "flip"}} {
			for _, ps := range cursorPageSizes {
				t := replaceAt(tree, ptr{"pageSize"}, rawJSON(ps.Val), false)
				for k, v := range w.set {
					t = replaceAt(t, ptr{k}, v, false)
				}
				if w.qb {
					f, _ := parseJSON(emptyFilterFor(s.Route))
					filters, _ := getAt(t, ptr{"filters"}).(map[string]any)
					if filters == nil {
						filters = map[string]any{}
					}
					t = replaceAt(t, ptr{"filters"}, replaceAt(filters, ptr{"qb"}, f, false), false)
				}
				name := w.name
				if order.Val != "" {
					o, _ := m["order"].(json.Number)
					flipped := "1"
					if o.String() == "1" {
						flipped = "0"
					}
					t = replaceAt(t, ptr{"order"}, rawJSON(flipped), false)
					name += "," + order.Name
				}
				r := setCursor(b64(encJSON(t)))
				r = r.withoutQuery("pageSize")
				out = append(out, mcase{Seed: s.ref(), Loc: "cursor-empty:" + name, Repl: "pageSize-" + ps.Name, Req: r})
			}
		}
	}
	return out
}

// emptyPage reports whether a 2xx body is a cursor with no data.
func emptyPage(body string) bool {
	var r struct {
		Cursor *struct {
			Data []json.RawMessage `json:"data"`
		} `json:"cursor"`
	}
	if err := json.Unmarshal([]byte(body), &r); err != nil || r.Cursor == nil {
		return false
	}
	return len(r.Cursor.Data) == 0
}
