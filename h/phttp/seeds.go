package phttp

import (
	"strings"

	"github.com/formancehq/ledger/verifh/lx"
)

// ---- the booted + seeded database of C38 ------------------------------------------

var c38BaseLedgers = []lx.LedgerSpec{{Name: "l1"}, {Name: "ls"}, {Name: "limp"}}

// c38FeatureLedgers: the CONFIGURATION dimension. A ledger is created with a feature set
// (POST /v2/{ledger} {"features":…}); what a route can serve depends on it (the volumes
// expansions need the moves, a point in time needs the histories…). Besides the default
// set (l1): the moves off, the effective volumes off, the three features that do not feed
// the volumes (log hashing, metadata histories) off together, and the minimal set
// (everything off). Each of them holds the core of the history of l1 (c38L1Core: the
// accounts, transactions and metadata the seed requests of l1 refer to), so that every
// seed request of l1 is meaningful on it. (Every request of every case pays for the dump of
// the whole database, twice: the feature ledgers are kept few and small.)
var c38FeatureLedgers = []lx.LedgerSpec{
	{Name: "fmh", Features: map[string]string{"MOVES_HISTORY": "OFF"}},
	{Name: "fev", Features: map[string]string{"MOVES_HISTORY_POST_COMMIT_EFFECTIVE_VOLUMES": "DISABLED"}},
	{Name: "fhist", Features: map[string]string{"HASH_LOGS": "DISABLED", "ACCOUNT_METADATA_HISTORY": "DISABLED", "TRANSACTION_METADATA_HISTORY": "DISABLED"}},
	{Name: "fmin", Features: map[string]string{"MOVES_HISTORY": "OFF", "MOVES_HISTORY_POST_COMMIT_EFFECTIVE_VOLUMES": "DISABLED",
		"HASH_LOGS": "DISABLED", "ACCOUNT_METADATA_HISTORY": "DISABLED", "TRANSACTION_METADATA_HISTORY": "DISABLED"}},
}

var c38Ledgers = append(append([]lx.LedgerSpec(nil), c38BaseLedgers...), c38FeatureLedgers...)

const schemaV1 = `{"chart":{"world":{".self":{}},"bank":{".self":{}},"users":{"$userID":{".self":{},".metadata":{"role":{"default":"user"}},".pattern":"^[a-z0-9]+$"}}},` +
	`"transactions":{"DEPOSIT":{"description":"deposit","runtime":"machine","script":"vars {\n account $dest\n monetary $mon\n}\nsend $mon (\n source = @world\n destination = $dest\n)"}},` +
	`"queries":{` +
	`"BYADDR":{"description":"accounts by prefix","resource":"accounts","params":{"pageSize":1,"sort":"address:asc"},"vars":{"prefix":{"type":"string","default":"users:"},"min":{"type":"int","default":0}},"body":{"$and":[{"$match":{"address":"${prefix}"}},{"$gte":{"balance[USD/2]":"${min}"}}]}},` +
	`"TXS":{"resource":"transactions","vars":{"acc":"string"},"body":{"$match":{"account":"${acc}"}}}` +
	`}}`

func jh(ct string) map[string]string { return map[string]string{"Content-Type": ct} }

var jsonCT = jh("application/json")

func post(path, body string, q ...KV) Req {
	return Req{Method: "POST", Path: path, Query: q, Headers: jsonCT, Body: body}
}
func get(path string, q ...KV) Req { return Req{Method: "GET", Path: path, Query: q} }

// c38History is replayed through the router on the booted database (every request must be 2xx).
var c38History = append(append([]Req(nil), c38BaseHistory...), c38FeatureHistory()...)

// c38FeatureHistory: the core of the history of l1, replayed on every feature ledger.
func c38FeatureHistory() []Req {
	var out []Req
	for _, l := range c38FeatureLedgers {
		for _, r := range c38L1Core {
			if p, ok := retarget(r.Path, "l1", l.Name); ok {
				c := r.clone()
				c.Path = p
				out = append(out, c)
			}
		}
	}
	return out
}

// retarget rewrites the ledger segment of a v1 or v2 path ("/v2/<from>/…", "/<from>/…").
func retarget(path, from, to string) (string, bool) {
	for _, prefix := range []string{"/v2/", "/"} {
		rest, ok := strings.CutPrefix(path, prefix+from)
		if ok && (rest == "" || rest[0] == '/') {
			return prefix + to + rest, true
		}
	}
	return "", false
}

// c38L1Core: what the seed requests of l1 refer to (alice, bob, carol, transactions 1-4,
// their metadata).
var c38L1Core = []Req{
	post("/v2/l1/transactions", `{"postings":[{"source":"world","destination":"alice","asset":"USD/2","amount":100}],"metadata":{"k":"v"},"reference":"ref1","timestamp":"2023-01-01T00:00:00Z"}`),
	post("/v2/l1/transactions", `{"postings":[{"source":"world","destination":"bob","asset":"USD/2","amount":50}],"timestamp":"2023-01-02T00:00:00Z"}`),
	post("/v2/l1/transactions", `{"postings":[{"source":"alice","destination":"bob","asset":"USD/2","amount":10}],"metadata":{"k":"v"},"timestamp":"2023-01-03T00:00:00Z"}`),
	post("/v2/l1/transactions", `{"postings":[{"source":"world","destination":"carol","asset":"EUR","amount":5}],"timestamp":"2023-01-04T00:00:00Z"}`),
	post("/v2/l1/accounts/alice/metadata", `{"role":"user"}`),
	post("/v2/l1/accounts/bob/metadata", `{"role":"user"}`),
	post("/v2/l1/transactions/1/metadata", `{"tag":"t"}`),
	{Method: "PUT", Path: "/v2/l1/metadata", Headers: jsonCT, Body: `{"owner":"me"}`},
}

var c38BaseHistory = append(append([]Req(nil), c38L1Core...), []Req{
	// one log of every type in l1 (its export is the seed of the import route)
	post("/v2/l1/transactions", `{"postings":[{"source":"world","destination":"zed","asset":"USD/2","amount":1}],"timestamp":"2023-01-05T00:00:00Z"}`),
	post("/v2/l1/transactions/5/revert", ``),
	post("/v2/l1/accounts/zed/metadata", `{"tmp":"1"}`),
	{Method: "DELETE", Path: "/v2/l1/accounts/zed/metadata/tmp"},
	post("/v2/ls/schemas/v1", schemaV1),
	post("/v2/ls/schemas/v0", `{"chart":{"world":{".self":{}}}}`),
	post("/v2/ls/transactions", `{"script":{"template":"DEPOSIT","vars":{"dest":"users:u1","mon":"USD/2 42"}},"timestamp":"2023-01-01T00:00:00Z"}`, KV{"schemaVersion", "v1"}),
	post("/v2/ls/transactions", `{"script":{"template":"DEPOSIT","vars":{"dest":"users:u2","mon":"USD/2 7"}},"timestamp":"2023-01-02T00:00:00Z"}`, KV{"schemaVersion", "v1"}),
	post("/v2/ls/transactions", `{"script":{"template":"DEPOSIT","vars":{"dest":"bank","mon":"USD/2 7"}},"timestamp":"2023-01-03T00:00:00Z"}`, KV{"schemaVersion", "v1"}),
}...)

// ---- seeds -------------------------------------------------------------------------

// Seed is one VALID request for one route, with what the mutators need to know.
type Seed struct {
	API   string // v1 | v2
	Route string // "POST /{ledger}/transactions"
	Name  string // variant of the route ("postings", "script", …)
	Req   Req
	// NDJSON: the body is a stream of JSON documents (import, streamed JSON bulk).
	NDJSON bool
	// JSONStream / TextStream: the body is a streamed bulk (c38stream.go); a text stream
	// is not JSON: it gets line-level damage instead of JSON-pointer mutations.
	JSONStream, TextStream bool
	// Dates: query parameters that the route documents as dates.
	Dates []string
	// FilterIn: "body" | "query" | "" — where the filter of the route is, if it has one.
	FilterIn string
	// Cursor: the route is paginated with an opaque cursor in the query string
	// ("query") or in the body field "cursor" ("body").
	Cursor string
	// IK: the route accepts an Idempotency-Key; AltBody is a different valid body.
	IK      bool
	AltBody string
	// BodyParsed: the handler decodes the request body as JSON, so a syntactically broken
	// body is invalid input (false: the body is ignored or optional-and-unread).
	BodyParsed bool
	// BodyRequired: an empty body is invalid input for this route.
	BodyRequired bool
	// Extra: documented query parameters that are absent from the seed (the seed must stay
	// 2xx) but are exercised with the query-parameter menu.
	Extra []string
	// AltPath: for routes without a body, a different valid target for the
	// idempotency-key reuse case.
	AltPath string
	// Values: pointer class -> invalid string values (named) that are DEFINITELY invalid
	// at that place (addresses, assets, variable values). RawValues: same with raw JSON.
	Values    map[string][]named
	RawValues map[string][]named
	// PathID / PathAddr: the index of the path segment holding a transaction id / address.
	PathID, PathAddr int
	// MustReject decides, for a body mutation (pointer class, replacement class), whether
	// the mutated request is DEFINITELY invalid client input (so that 2xx is a violation).
	// Everything else is "in doubt": 2xx and 4xx are both acceptable.
	MustReject func(ptrClass, replClass string) bool
	// Write: a 2xx changes the database.
	Write bool
	// PartialEffect: see seedRef.
	PartialEffect bool
}

type named struct{ Name, Val string }

var badAddresses = []named{{"empty", ""}, {"trailing-colon", "a:"}, {"leading-colon", ":a"}, {"double-colon", "a::b"}, {"space", "a b"}, {"non-ascii", "é"}, {"bang", "a!b"}, {"at-prefixed", "@a"}}
var badAssets = []named{{"empty", ""}, {"lowercase", "usd"}, {"double-slash", "USD//2"}, {"trailing-slash", "USD/"}, {"leading-slash", "/2"}, {"digit-first", "9"}, {"dollar", "U$D"}, {"long-precision", "USD/1234567"}, {"long-name", "ABCDEFGHIJKLMNOPQRSTUVWXYZ"}, {"space", "US D"}}
var badMonetaryStrings = []named{{"no-amount", "USD/2"}, {"negative", "USD/2 -1"}, {"lowercase-asset", "usd 1"}, {"fraction", "USD/2 1.5"}, {"exponent", "USD/2 1e3"}, {"double-slash-asset", "USD//2 1"}, {"no-asset", " 1"}, {"three-parts", "USD/2 1 1"}, {"empty", ""}}
var badMonetaryObjects = []named{{"asset-invalid", `{"asset":"usd","amount":1}`}, {"amount-negative", `{"asset":"USD/2","amount":-1}`}, {"amount-fraction", `{"asset":"USD/2","amount":1.5}`}, {"amount-string-garbage", `{"asset":"USD/2","amount":"x"}`}, {"amount-bool", `{"asset":"USD/2","amount":true}`}, {"no-asset", `{"amount":1}`}, {"no-amount", `{"asset":"USD/2"}`}, {"asset-number", `{"asset":5,"amount":1}`}, {"amount-object", `{"asset":"USD/2","amount":{}}`}}

// NOT in badMonetaryObjects: {"asset":"USD/2","amount":1e400}. 1e400 is a whole number, so a
// ledger with arbitrary-precision amounts may accept it; it stays covered as an in-doubt
// case by the pointer menu (script.vars.monobj.amount = 1e400: 2xx or 4xx, never 5xx).
var badNumbers = []named{{"fraction", "1.5"}, {"garbage", "abc"}, {"empty", ""}}
var badPortions = []named{{"above-one", "2/1"}, {"zero-denominator", "1/0"}, {"garbage", "abc"}, {"percent-above-100", "150%"}, {"empty", ""}}

// badScripts: Numscript texts that no runtime can run (definitely invalid client input),
// simplest first: the parser refuses the first three, the compiler (machine) or the
// evaluation (interpreter) the others.
var badScripts = []named{
	{"script-unclosed", "send [USD/2 1] (\n source = @world\n"},
	{"script-unknown-statement", "sned [USD/2 1] (\n source = @world\n destination = @dave\n)"},
	{"script-garbage", "%%%"},
	{"script-undeclared-variable", "send $nope (\n source = @world\n destination = @dave\n)"},
	{"script-account-as-amount", "send @world (\n source = @world\n destination = @dave\n)"},
}

func scriptVarValues(prefix string) (map[string][]named, map[string][]named) {
	return map[string][]named{
			strings.TrimSuffix(prefix, "vars.") + "plain": badScripts,
			prefix + "acc": badAddresses,
			prefix + "ast": badAssets,
			prefix + "mon": badMonetaryStrings,
			prefix + "num": badNumbers,
			prefix + "por": badPortions,
		}, map[string][]named{
			prefix + "monobj": badMonetaryObjects,
		}
}

func withValues(m map[string][]named, class string, vals []named) map[string][]named {
	m[class] = vals
	return m
}

func postingValues(prefix string) map[string][]named {
	return map[string][]named{
		prefix + "source":      badAddresses,
		prefix + "destination": badAddresses,
		prefix + "asset":       badAssets,
	}
}

func (s Seed) id() string { return s.API + ":" + s.Route + ":" + s.Name }

const scriptAllVars = "vars {\n account $acc\n monetary $mon\n monetary $monobj\n number $num\n string $str\n portion $por\n asset $ast\n}\n" +
	"send $mon (\n source = @world\n destination = {\n  $por to $acc\n  remaining to @rest\n }\n)\n" +
	"send $monobj (\n source = @world\n destination = @fees\n)\n" +
	"send [$ast 3] (\n source = @world\n destination = @fees\n)\n" +
	"set_tx_meta(\"n\", $num)\nset_tx_meta(\"s\", $str)"

func jstr(s string) string {
	return encJSON(s)
}

// postingFieldRule: definite invalidity of single-field replacements inside a posting.
func postingFieldRule(prefix string) func(p, r string) bool {
	return func(p, r string) bool {
		if !strings.HasPrefix(p, prefix) {
			return false
		}
		f := strings.TrimPrefix(p, prefix)
		switch f {
		case "source", "destination":
			// "x" and a long alphanumeric string match the address pattern
			return r != "string" && r != "long-string"
		case "asset":
			return true // no menu value is a valid asset; a missing asset is invalid too
		case "amount":
			return r != "zero" && r != "2^70"
		}
		return false
	}
}

// monetaryVarRule: no menu replacement (nor deletion) of a monetary variable is valid.
func monetaryVarRule(names ...string) func(p, r string) bool {
	return func(p, r string) bool {
		for _, n := range names {
			if p == n {
				return true
			}
		}
		return false
	}
}

func anyRule(rules ...func(p, r string) bool) func(p, r string) bool {
	return func(p, r string) bool {
		for _, f := range rules {
			if f(p, r) {
				return true
			}
		}
		return false
	}
}

const (
	d1 = "2023-01-01T00:00:00Z"
	d6 = "2023-06-01T00:00:00Z"
	d9 = "2023-12-01T00:00:00Z"
)

func c38Seeds(importBody string) []Seed {
	v2tx := `{"postings":[{"source":"world","destination":"dave","asset":"USD/2","amount":7},{"source":"alice","destination":"dave","asset":"USD/2","amount":1}],"timestamp":"2023-02-01T00:00:00Z","reference":"ref-new","metadata":{"m":"1"},"accountMetadata":{"dave":{"vip":"yes"}},"force":false,"runtime":"machine"}`
	v2script := `{"script":{"plain":` + jstr(scriptAllVars) + `,"vars":{"acc":"users:u9","mon":"USD/2 10","monobj":{"asset":"USD/2","amount":4},"num":"12","str":"hello","por":"1/2","ast":"EUR"}},"timestamp":"2023-02-01T00:00:00Z","reference":"ref-s","metadata":{"m":"1"}}`
	v1script := `{"script":{"plain":` + jstr(scriptAllVars) + `,"vars":{"acc":"users:u9","mon":"USD/2 10","monobj":{"asset":"USD/2","amount":4},"num":"12","str":"hello","por":"1/2","ast":"EUR"}},"timestamp":"2023-02-01T00:00:00Z","reference":"ref-s","metadata":{"m":"1"}}`
	v1tx := `{"postings":[{"source":"world","destination":"dave","asset":"USD/2","amount":7},{"source":"alice","destination":"dave","asset":"USD/2","amount":1}],"timestamp":"2023-02-01T00:00:00Z","reference":"ref-new","metadata":{"m":"1"}}`
	bulk := `[` +
		`{"action":"CREATE_TRANSACTION","ik":"b1","data":{"postings":[{"source":"world","destination":"dave","asset":"USD/2","amount":7}],"timestamp":"2023-02-01T00:00:00Z","reference":"ref-b","metadata":{"m":"1"}}},` +
		`{"action":"CREATE_TRANSACTION","data":{"script":{"plain":"vars {\n monetary $mon\n account $acc\n}\nsend $mon (\n source = @world\n destination = $acc\n)","vars":{"mon":{"asset":"USD/2","amount":3},"acc":"erin"}}}},` +
		`{"action":"ADD_METADATA","data":{"targetType":"ACCOUNT","targetId":"alice","metadata":{"x":"y"}}},` +
		`{"action":"ADD_METADATA","data":{"targetType":"TRANSACTION","targetId":1,"metadata":{"x":"y"}}},` +
		`{"action":"REVERT_TRANSACTION","data":{"id":4,"force":false,"atEffectiveDate":false,"metadata":{"why":"r"}}},` +
		`{"action":"DELETE_METADATA","data":{"targetType":"ACCOUNT","targetId":"alice","key":"role"}}` +
		`]`
	accFilter := `{"$and":[{"$match":{"address":"alice"}},{"$match":{"metadata[role]":"user"}},{"$gte":{"balance[USD/2]":0}},{"$not":{"$exists":{"metadata":"nope"}}}]}`
	txFilter := `{"$and":[{"$match":{"account":"alice"}},{"$lte":{"timestamp":"2023-12-01T00:00:00Z"}},{"$match":{"metadata[k]":"v"}},{"$match":{"reverted":false}},{"$or":[{"$match":{"source":"world"}},{"$match":{"destination":"bob"}},{"$gte":{"id":1}}]}]}`
	pr := postingFieldRule("postings.*.")
	pv := postingValues("postings.*.")
	sv, svRaw := scriptVarValues("script.vars.")

	seeds := []Seed{
		// ---------------- v2 ----------------
		{API: "v2", Route: "GET /_info", Req: get("/v2/_info")},
		{API: "v2", Route: "GET /", Name: "list-ledgers", Req: get("/v2", KV{"pageSize", "1"}, KV{"includeDeleted", "false"}, KV{"sort", "id:asc"}), Cursor: "query", Extra: []string{"expand"}},
		{API: "v2", Route: "POST /{ledger}", Name: "create-ledger", Write: true, BodyParsed: true,
			Req: post("/v2/l3", `{"bucket":"b3","metadata":{"a":"b"},"features":{"HASH_LOGS":"SYNC","MOVES_HISTORY":"ON"}}`)},
		{API: "v2", Route: "GET /{ledger}", Req: get("/v2/l1")},
		{API: "v2", Route: "PUT /{ledger}/metadata", Write: true, BodyParsed: true,
			Req: Req{Method: "PUT", Path: "/v2/l1/metadata", Headers: jsonCT, Body: `{"owner":"you","team":"t"}`}, BodyRequired: true},
		{API: "v2", Route: "DELETE /{ledger}/metadata/{key}", Write: true, Req: Req{Method: "DELETE", Path: "/v2/l1/metadata/owner"}},
		{API: "v2", Route: "POST /{ledger}/_bulk", Name: "atomic", Write: true, BodyParsed: true,
			Req:        post("/v2/l1/_bulk", bulk, KV{"atomic", "true"}, KV{"continueOnFailure", "false"}, KV{"parallel", "false"}),
			MustReject: anyRule(postingFieldRule("*.data.postings.*."), monetaryVarRule("*.data.script.vars.mon")), BodyRequired: true,
			Values:    withValues(postingValues("*.data.postings.*."), "*.data.script.plain", badScripts),
			RawValues: map[string][]named{"*.data.script.vars.mon": badMonetaryObjects}},
		{API: "v2", Route: "POST /{ledger}/_bulk", Name: "continue", Write: true, BodyParsed: true,
			Req: post("/v2/l1/_bulk", bulk, KV{"continueOnFailure", "true"}), BodyRequired: true, Extra: []string{"schemaVersion"}, PartialEffect: true,
			Values:     map[string][]named{"*.data.script.plain": badScripts},
			MustReject: anyRule(postingFieldRule("*.data.postings.*."), monetaryVarRule("*.data.script.vars.mon"))},
		{API: "v2", Route: "GET /{ledger}/_info", Req: get("/v2/l1/_info")},
		{API: "v2", Route: "GET /{ledger}/stats", Req: get("/v2/l1/stats")},
		{API: "v2", Route: "POST /{ledger}/schemas/{version}", Write: true, BodyParsed: true, IK: true,
			AltBody: `{"chart":{"world":{".self":{}}}}`,
			Req:     post("/v2/l1/schemas/v1", schemaV1), BodyRequired: true},
		{API: "v2", Route: "GET /{ledger}/schemas/{version}", Req: get("/v2/ls/schemas/v1")},
		{API: "v2", Route: "GET /{ledger}/schemas", Req: get("/v2/ls/schemas", KV{"pageSize", "1"}, KV{"sort", "created_at"}, KV{"order", "asc"}), Cursor: "query", Extra: []string{"expand"}},
		{API: "v2", Route: "GET /{ledger}/logs", Name: "filter-body", FilterIn: "body", Cursor: "query", Dates: []string{"pit"},
			Req: Req{Method: "GET", Path: "/v2/l1/logs", Query: []KV{{"pageSize", "2"}, {"pit", d9}, {"sort", "id:desc"}}, Headers: jsonCT, Body: `{"$and":[{"$gte":{"id":1}},{"$lt":{"date":"2099-01-01T00:00:00Z"}}]}`}, Extra: []string{"expand"}},
		{API: "v2", Route: "POST /{ledger}/logs/export", Req: post("/v2/l1/logs/export", ``)},
		{API: "v2", Route: "POST /{ledger}/logs/import", Write: true, NDJSON: true, BodyParsed: true,
			Req: Req{Method: "POST", Path: "/v2/limp/logs/import", Headers: jh("application/octet-stream"), Body: importBody}},
		{API: "v2", Route: "GET /{ledger}/accounts", Name: "filter-body", FilterIn: "body", Dates: []string{"pit"},
			Req: Req{Method: "GET", Path: "/v2/l1/accounts", Query: []KV{{"pageSize", "1"}, {"expand", "volumes"}, {"expand", "effectiveVolumes"}, {"pit", d9}, {"sort", "address:asc"}}, Headers: jsonCT, Body: accFilter}},
		{API: "v2", Route: "GET /{ledger}/accounts", Name: "filter-query", FilterIn: "query", Dates: []string{"pit"},
			Req: get("/v2/l1/accounts", KV{"pageSize", "1"}, KV{"pit", d9}, KV{"query", `{"$match":{"address":"users:"}}`})},
		{API: "v2", Route: "GET /{ledger}/accounts", Name: "page", Cursor: "query",
			Req: get("/v2/l1/accounts", KV{"pageSize", "1"})},
		{API: "v2", Route: "HEAD /{ledger}/accounts", FilterIn: "body", Dates: []string{"pit"},
			Req: Req{Method: "HEAD", Path: "/v2/l1/accounts", Query: []KV{{"pit", d9}}, Headers: jsonCT, Body: accFilter}},
		{API: "v2", Route: "GET /{ledger}/accounts/{address}", Dates: []string{"pit"}, PathAddr: 4,
			Req: get("/v2/l1/accounts/alice", KV{"expand", "volumes"}, KV{"expand", "effectiveVolumes"}, KV{"pit", d9})},
		{API: "v2", Route: "POST /{ledger}/accounts/{address}/metadata", Write: true, BodyParsed: true, IK: true, AltBody: `{"role":"other"}`, PathAddr: 4,
			Req: post("/v2/l1/accounts/alice/metadata", `{"role":"admin","since":"2020"}`, KV{"dryRun", "false"}), BodyRequired: true, Extra: []string{"schemaVersion"}},
		{API: "v2", Route: "DELETE /{ledger}/accounts/{address}/metadata/{key}", Write: true, PathAddr: 4, IK: true,
			Req: Req{Method: "DELETE", Path: "/v2/l1/accounts/alice/metadata/role"}, AltPath: "/v2/l1/accounts/bob/metadata/role"},
		{API: "v2", Route: "GET /{ledger}/transactions", Name: "filter-body", FilterIn: "body", Dates: []string{"pit"},
			Req: Req{Method: "GET", Path: "/v2/l1/transactions", Query: []KV{{"pageSize", "1"}, {"expand", "volumes"}, {"expand", "effectiveVolumes"}, {"pit", d9}, {"order", "effective"}, {"reverse", "true"}}, Headers: jsonCT, Body: txFilter}},
		{API: "v2", Route: "GET /{ledger}/transactions", Name: "page", Cursor: "query",
			Req: get("/v2/l1/transactions", KV{"pageSize", "1"}, KV{"sort", "id:desc"}), Extra: []string{"expand"}},
		{API: "v2", Route: "HEAD /{ledger}/transactions", FilterIn: "body", Dates: []string{"pit"},
			Req: Req{Method: "HEAD", Path: "/v2/l1/transactions", Query: []KV{{"pit", d9}}, Headers: jsonCT, Body: txFilter}},
		{API: "v2", Route: "POST /{ledger}/transactions", Name: "postings", Write: true, BodyParsed: true, IK: true,
			AltBody:    `{"postings":[{"source":"world","destination":"dave","asset":"USD/2","amount":8}]}`,
			Req:        post("/v2/l1/transactions", v2tx, KV{"dryRun", "false"}, KV{"force", "false"}),
			MustReject: pr, Values: pv, BodyRequired: true, Extra: []string{"schemaVersion"}},
		{API: "v2", Route: "POST /{ledger}/transactions", Name: "script", Write: true, BodyParsed: true, IK: true,
			AltBody:    `{"script":{"plain":"send [USD/2 1] (\n source = @world\n destination = @dave\n)"}}`,
			Req:        post("/v2/l1/transactions", v2script),
			MustReject: monetaryVarRule("script.vars.mon", "script.vars.monobj"), Values: sv, RawValues: svRaw, BodyRequired: true},
		// the other Numscript runtime (its own parser, its own compiled-script cache)
		{API: "v2", Route: "POST /{ledger}/transactions", Name: "script-interpreter", Write: true, BodyParsed: true,
			Req:    post("/v2/l1/transactions", `{"script":{"plain":"vars {\n monetary $mon\n account $acc\n}\nsend $mon (\n source = @world\n destination = $acc\n)","vars":{"mon":"USD/2 3","acc":"erin"}},"runtime":"experimental-interpreter","timestamp":"2023-02-01T00:00:00Z"}`),
			Values: map[string][]named{"script.plain": badScripts}, BodyRequired: true},
		{API: "v2", Route: "POST /{ledger}/transactions", Name: "template", Write: true, BodyParsed: true,
			Req:        post("/v2/ls/transactions", `{"script":{"template":"DEPOSIT","vars":{"dest":"users:u3","mon":"USD/2 9"}},"timestamp":"2023-02-01T00:00:00Z"}`, KV{"schemaVersion", "v1"}),
			MustReject: monetaryVarRule("script.vars.mon"), BodyRequired: true,
			Values: map[string][]named{"script.vars.mon": badMonetaryStrings, "script.vars.dest": badAddresses}},
		{API: "v2", Route: "POST /{ledger}/transactions", Name: "dry-run", BodyParsed: true,
			Req:        post("/v2/l1/transactions", `{"postings":[{"source":"alice","destination":"dave","asset":"USD/2","amount":1000}]}`, KV{"dryRun", "true"}, KV{"force", "true"}),
			MustReject: pr, Values: pv, BodyRequired: true},
		{API: "v2", Route: "GET /{ledger}/transactions/{id}", Dates: []string{"pit"}, PathID: 4,
			Req: get("/v2/l1/transactions/1", KV{"expand", "volumes"}, KV{"expand", "effectiveVolumes"}, KV{"pit", d9})},
		{API: "v2", Route: "POST /{ledger}/transactions/{id}/revert", Write: true, BodyParsed: true, IK: true, AltBody: `{"metadata":{"why":"other"}}`, PathID: 4,
			Req: post("/v2/l1/transactions/3/revert", `{"metadata":{"why":"x"}}`, KV{"force", "false"}, KV{"atEffectiveDate", "true"}, KV{"dryRun", "false"})},
		{API: "v2", Route: "POST /{ledger}/transactions/{id}/metadata", Write: true, BodyParsed: true, IK: true, AltBody: `{"tag":"other"}`, PathID: 4,
			Req: post("/v2/l1/transactions/1/metadata", `{"tag":"u","n":"1"}`, KV{"dryRun", "false"}), BodyRequired: true},
		{API: "v2", Route: "DELETE /{ledger}/transactions/{id}/metadata/{key}", Write: true, PathID: 4, IK: true,
			Req: Req{Method: "DELETE", Path: "/v2/l1/transactions/1/metadata/tag"}, AltPath: "/v2/l1/transactions/3/metadata/k"},
		{API: "v2", Route: "GET /{ledger}/aggregate/balances", FilterIn: "body", Dates: []string{"pit"},
			Req: Req{Method: "GET", Path: "/v2/l1/aggregate/balances", Query: []KV{{"pit", d9}, {"useInsertionDate", "true"}}, Headers: jsonCT, Body: `{"$or":[{"$match":{"address":"alice"}},{"$match":{"metadata[role]":"user"}}]}`}, Extra: []string{"expand"}},
		{API: "v2", Route: "GET /{ledger}/volumes", Name: "filter-body", FilterIn: "body", Dates: []string{"startTime", "endTime"},
			Req: Req{Method: "GET", Path: "/v2/l1/volumes", Query: []KV{{"pageSize", "1"}, {"groupBy", "1"}, {"insertionDate", "true"}, {"startTime", d1}, {"endTime", d9}}, Headers: jsonCT, Body: `{"$and":[{"$match":{"account":"alice"}},{"$gte":{"balance[USD/2]":0}}]}`}},
		{API: "v2", Route: "GET /{ledger}/volumes", Name: "page", Cursor: "query",
			Req: get("/v2/l1/volumes", KV{"pageSize", "1"}), Extra: []string{"expand"}},
		{API: "v2", Route: "POST /{ledger}/queries/{id}/run", Name: "accounts", BodyParsed: true, Cursor: "body",
			Req: post("/v2/ls/queries/BYADDR/run", `{"params":{"pageSize":1,"sort":"address:asc","expand":["volumes"],"endTime":"2023-12-01T00:00:00Z"},"vars":{"prefix":"users:","min":1}}`, KV{"schemaVersion", "v1"})},
		{API: "v2", Route: "POST /{ledger}/queries/{id}/run", Name: "transactions", BodyParsed: true,
			Req: post("/v2/ls/queries/TXS/run", `{"vars":{"acc":"world"}}`, KV{"schemaVersion", "v1"})},

		// ---------------- v1 ----------------
		{API: "v1", Route: "GET /_info", Req: get("/_info")},
		{API: "v1", Route: "GET /{ledger}/_info", Req: get("/l1/_info")},
		{API: "v1", Route: "GET /{ledger}/stats", Req: get("/l1/stats")},
		{API: "v1", Route: "GET /{ledger}/logs", Cursor: "query", Dates: []string{"start_time", "end_time"},
			Req: get("/l1/logs", KV{"pageSize", "2"}, KV{"start_time", d1}, KV{"end_time", "2099-01-01T00:00:00Z"}), Extra: []string{"after", "page_size", "expand"}},
		{API: "v1", Route: "GET /{ledger}/accounts", Name: "filtered", Dates: []string{"pit"},
			Req: get("/l1/accounts", KV{"pageSize", "1"}, KV{"address", "alice"}, KV{"metadata[role]", "user"}), Extra: []string{"after", "page_size", "expand", "pit"}},
		// every account of ledger ls holds a single asset: the v1 "balance" filter compares a scalar subquery
		{API: "v1", Route: "GET /{ledger}/accounts", Name: "balance",
			Req: get("/ls/accounts", KV{"balance", "7"}, KV{"balanceOperator", "gte"})},
		{API: "v1", Route: "GET /{ledger}/accounts", Name: "page", Cursor: "query",
			Req: get("/l1/accounts", KV{"pageSize", "1"})},
		{API: "v1", Route: "HEAD /{ledger}/accounts", Dates: []string{"pit"}, Extra: []string{"expand", "pit"},
			Req: Req{Method: "HEAD", Path: "/l1/accounts", Query: []KV{{"address", "alice"}, {"metadata[role]", "user"}}}},
		{API: "v1", Route: "GET /{ledger}/accounts/{address}", PathAddr: 3, Req: get("/l1/accounts/alice")},
		{API: "v1", Route: "POST /{ledger}/accounts/{address}/metadata", Write: true, BodyParsed: true, PathAddr: 3, IK: true, AltBody: `{"role":"other"}`,
			Req: post("/l1/accounts/alice/metadata", `{"role":"admin","since":"2020"}`), BodyRequired: true},
		{API: "v1", Route: "DELETE /{ledger}/accounts/{address}/metadata/{key}", Write: true, PathAddr: 3,
			Req: Req{Method: "DELETE", Path: "/l1/accounts/alice/metadata/role"}},
		{API: "v1", Route: "GET /{ledger}/transactions", Name: "filtered", Dates: []string{"startTime", "endTime", "pit"},
			Extra: []string{"after", "page_size", "expand", "pit"},
			Req:   get("/l1/transactions", KV{"pageSize", "1"}, KV{"account", "alice"}, KV{"source", "world"}, KV{"destination", "alice"}, KV{"reference", "ref1"}, KV{"startTime", d1}, KV{"endTime", d9}, KV{"metadata[k]", "v"})},
		{API: "v1", Route: "GET /{ledger}/transactions", Name: "page", Cursor: "query", Dates: []string{"start_time", "end_time"},
			Req: get("/l1/transactions", KV{"pageSize", "1"}, KV{"start_time", d1}, KV{"end_time", d9})},
		{API: "v1", Route: "HEAD /{ledger}/transactions", Dates: []string{"startTime", "endTime", "pit"}, Extra: []string{"expand", "pit"},
			Req: Req{Method: "HEAD", Path: "/l1/transactions", Query: []KV{{"account", "alice"}, {"source", "world"}, {"destination", "alice"}, {"reference", "ref1"}, {"startTime", d1}, {"endTime", d9}, {"metadata[k]", "v"}}}},
		{API: "v1", Route: "POST /{ledger}/transactions", Name: "postings", Write: true, BodyParsed: true, IK: true,
			AltBody:    `{"postings":[{"source":"world","destination":"dave","asset":"USD/2","amount":8}]}`,
			Req:        post("/l1/transactions", v1tx, KV{"preview", "false"}),
			MustReject: pr, Values: pv, BodyRequired: true},
		{API: "v1", Route: "POST /{ledger}/transactions", Name: "script", Write: true, BodyParsed: true, IK: true,
			AltBody:    `{"script":{"plain":"send [USD/2 1] (\n source = @world\n destination = @dave\n)"}}`,
			Req:        post("/l1/transactions", v1script),
			MustReject: monetaryVarRule("script.vars.mon", "script.vars.monobj"), Values: sv, RawValues: svRaw, BodyRequired: true},
		{API: "v1", Route: "POST /{ledger}/transactions", Name: "preview", BodyParsed: true,
			Req:        post("/l1/transactions", `{"postings":[{"source":"world","destination":"dave","asset":"USD/2","amount":1000}]}`, KV{"preview", "true"}),
			MustReject: pr, Values: pv, BodyRequired: true},
		{API: "v1", Route: "GET /{ledger}/transactions/{id}", PathID: 3, Req: get("/l1/transactions/1")},
		{API: "v1", Route: "POST /{ledger}/transactions/{id}/revert", Write: true, PathID: 3, IK: true,
			Req: post("/l1/transactions/3/revert", ``, KV{"disableChecks", "false"}), AltPath: "/l1/transactions/2/revert"},
		{API: "v1", Route: "POST /{ledger}/transactions/{id}/metadata", Write: true, BodyParsed: true, PathID: 3, IK: true, AltBody: `{"tag":"other"}`,
			Req: post("/l1/transactions/1/metadata", `{"tag":"u","n":"1"}`), BodyRequired: true},
		{API: "v1", Route: "DELETE /{ledger}/transactions/{id}/metadata/{key}", Write: true, PathID: 3,
			Req: Req{Method: "DELETE", Path: "/l1/transactions/1/metadata/tag"}},
		{API: "v1", Route: "GET /{ledger}/balances", Name: "filtered",
			Req: get("/l1/balances", KV{"address", "alice"}, KV{"pageSize", "1"}), Extra: []string{"after", "expand"}},
		{API: "v1", Route: "GET /{ledger}/balances", Name: "page", Cursor: "query",
			Req: get("/l1/balances", KV{"pageSize", "1"})},
		{API: "v1", Route: "GET /{ledger}/aggregate/balances", Dates: []string{"pit"}, Extra: []string{"expand", "pit"},
			Req: get("/l1/aggregate/balances", KV{"address", "alice"}, KV{"useInsertionDate", "true"})},
	}
	return append(seeds, streamSeeds()...)
}
