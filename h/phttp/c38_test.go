package phttp

import (
	"os"
	"sort"
	"sync"
	"testing"
	"time"

	"github.com/formancehq/ledger/verifh/ev"
)

func TestMain(m *testing.M) {
	if w := workerFromEnv(); w != nil {
		if fn, ok := workers[w.ID]; ok {
			os.Exit(fn(w))
		}
		os.Exit(2)
	}
	os.Exit(m.Run())
}

// TestC38All runs the whole C38 space into a scratch root and prints every violating
// signature with its count and one example (development aid).
func TestC38All(t *testing.T) {
	if os.Getenv("C38ALL") == "" {
		t.Skip("set C38ALL=1")
	}
	os.Setenv("VERIF_ROOT", t.TempDir())
	os.Setenv("VERIF_BUDGET_S", "1200")
	var mu sync.Mutex
	count := map[string]int{}
	example := map[string]string{}
	c38Trace = func(sig string, c *mcase, what string) {
		mu.Lock()
		defer mu.Unlock()
		count[sig]++
		if _, ok := example[sig]; !ok {
			example[sig] = what
		}
	}
	r := ev.Start("C38", ev.LevelExploration, 20*time.Minute, 20*time.Minute)
	t0 := time.Now()
	cov, _ := runC38(r)
	t.Logf("wall %v evaluations=%v distinct=%v outcomes=%v kinds=%v", time.Since(t0), cov["evaluations"], cov["distinct_nontrivial"], cov["outcomes"], cov["cases_per_mutation_kind"])
	t.Logf("must=%v mustRejected=%v", cov["definitely_invalid"], cov["definitely_invalid_rejected_4xx"])
	var sigs []string
	for s := range count {
		sigs = append(sigs, s)
	}
	sort.Strings(sigs)
	for _, s := range sigs {
		t.Logf("%4d %s\n      %s", count[s], s, example[s])
	}
	t.Logf("%d signatures", len(sigs))
	code := r.Finish(cov, nil)
	t.Log("exit code", code)
}
