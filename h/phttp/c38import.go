package phttp

import (
	"encoding/base64"
	"encoding/json"
	"fmt"
	"strconv"
	"strings"

	ledger "github.com/formancehq/ledger/internal"
)

// POST /v2/{ledger}/logs/import on a ledger that hashes its logs (HASH_LOGS=SYNC, the
// default) recomputes the hash chain and refuses a log whose hash differs — AFTER having
// applied it. A mutated export therefore mostly meets "invalid hash": whatever lies behind
// that comparison (the next documents applied on top of the mutated one, the commit) is out
// of reach of a mutation that does not also repair the chain. A client that forges a stream
// computes the hashes as the ledger does (Log.ComputeHash): so does the harness.

const importRoute = "POST /{ledger}/logs/import"

// rechainImport recomputes the hash of every document of an import stream, in stream order.
// ok=false: some document cannot be decoded as a log (nothing to chain). changed: some hash
// had to be rewritten.
func rechainImport(body string) (out string, changed, ok bool) {
	defer func() {
		if recover() != nil {
			out, changed, ok = "", false, false
		}
	}()
	docs, parsed := parseBody(body, true)
	list, isList := docs.([]any)
	if !parsed || !isList || len(list) == 0 {
		return "", false, false
	}
	list = append([]any(nil), list...)
	var prev *ledger.Log
	for i, d := range list {
		m, isObj := d.(map[string]any)
		if !isObj {
			return "", false, false
		}
		l := &ledger.Log{}
		if err := json.Unmarshal([]byte(encJSON(d)), l); err != nil || l.Data == nil {
			return "", false, false
		}
		l.Hash = nil
		l.ComputeHash(prev)
		h := base64.StdEncoding.EncodeToString(l.Hash)
		if cur, _ := m["hash"].(string); cur != h {
			list[i] = replaceAt(m, ptr{"hash"}, h, false)
			changed = true
		}
		prev = l
	}
	return encBody(list, true), changed, true
}

// rechainedVariants: for every body mutation of the import seed that leaves every document
// decodable (and does not target a hash), the same stream with its hashes chained again.
func rechainedVariants(cases []mcase) []mcase {
	var out []mcase
	for _, c := range cases {
		if !strings.HasPrefix(c.Loc, "body:") || c.Loc == "body:*.hash" {
			continue
		}
		b, changed, ok := rechainImport(c.Req.Body)
		if !ok || !changed {
			continue
		}
		r := c
		r.Loc = "body-rechained:" + strings.TrimPrefix(c.Loc, "body:")
		r.Req = c.Req.withBody(b)
		r.Must = false // with a consistent chain the mutated stream may be a valid one
		out = append(out, r)
	}
	return out
}

func leafPointers(v any) []ptr {
	var out []ptr
	for _, p := range pointers(v) {
		switch getAt(v, p).(type) {
		case map[string]any, []any:
		default:
			if len(p) > 0 {
				out = append(out, p)
			}
		}
	}
	return out
}

// importCrossCases: streams that are well formed and well hashed, document by document, and
// wrong only as a WHOLE: a value of an earlier document used again by a later one (a
// reference, a transaction id, a log id, an idempotency key), documents out of order, a
// document twice. Family "copy": for every pair (i<j) of documents of one type and every
// leaf both have with different values, document j takes the value of document i.
func importCrossCases(s *Seed, thorough bool) []mcase {
	docs, ok := parseBody(s.Req.Body, true)
	list, isList := docs.([]any)
	if !ok || !isList {
		return nil
	}
	var out []mcase
	add := func(where, name string, stream []any) {
		body := encBody(stream, true)
		b, _, ok := rechainImport(body)
		if !ok {
			return
		}
		out = append(out, mcase{Seed: s.ref(), Loc: "import-cross:" + where, Repl: name, Req: s.Req.withBody(b)})
	}
	typeOf := func(d any) string {
		m, _ := d.(map[string]any)
		t, _ := m["type"].(string)
		return t
	}
	seenPair := map[string]int{}
	for i := range list {
		for j := i + 1; j < len(list); j++ {
			if typeOf(list[i]) != typeOf(list[j]) {
				continue
			}
			// quick tier: the first pair of each type only
			if seenPair[typeOf(list[i])]++; !thorough && seenPair[typeOf(list[i])] > 1 {
				continue
			}
			for _, p := range leafPointers(list[i]) {
				if len(p) == 1 && p[0] == "hash" {
					continue
				}
				a, b := getAt(list[i], p), getAt(list[j], p)
				// (a leaf document j lacks is added to it: an absent reference is a reference too)
				if !hasPointer(list[j], p[:len(p)-1]) || (hasPointer(list[j], p) && encJSON(a) == encJSON(b)) {
					continue
				}
				st := append([]any(nil), list...)
				st[j] = replaceAt(list[j], p, a, false)
				add("copy:"+typeOf(list[i])+":"+p.class(), fmt.Sprintf("document %d takes the value of document %d", j, i), st)
			}
		}
	}
	// the same NEW value in two documents (fields that must be unique in a ledger)
	var txDocs []int
	for i, d := range list {
		if typeOf(d) == "NEW_TRANSACTION" {
			txDocs = append(txDocs, i)
		}
	}
	if len(txDocs) >= 2 {
		i, j := txDocs[0], txDocs[1]
		for _, f := range []struct {
			name string
			p    ptr
			val  any
		}{
			{"reference", ptr{"data", "transaction", "reference"}, "same-ref"},
			{"idempotency-key", ptr{"idempotencyKey"}, "same-ik"},
			{"transaction-id", ptr{"data", "transaction", "id"}, rawJSON("77")},
			{"log-id", ptr{"id"}, rawJSON("77")},
		} {
			st := append([]any(nil), list...)
			st[i] = replaceAt(list[i], f.p, f.val, false)
			st[j] = replaceAt(list[j], f.p, f.val, false)
			add("same-value-twice", f.name, st)
		}
	}
	// order and multiplicity
	if len(list) >= 2 {
		for i := 0; i+1 < len(list); i++ {
			if !thorough && i > 1 {
				break
			}
			st := append([]any(nil), list...)
			st[i], st[i+1] = st[i+1], st[i]
			add("order", "documents "+strconv.Itoa(i)+" and "+strconv.Itoa(i+1)+" swapped", st)
			// same, the log ids staying in stream order
			st2 := append([]any(nil), list...)
			st2[i] = replaceAt(list[i+1], ptr{"id"}, getAt(list[i], ptr{"id"}), false)
			st2[i+1] = replaceAt(list[i], ptr{"id"}, getAt(list[i+1], ptr{"id"}), false)
			add("order", "documents "+strconv.Itoa(i)+" and "+strconv.Itoa(i+1)+" swapped, log ids in order", st2)
		}
		for i := range list {
			if !thorough && i > 1 {
				break
			}
			// a document twice, the second time with the next log id and every later id shifted
			var st []any
			for k, d := range list {
				if k > i {
					d = replaceAt(d, ptr{"id"}, rawJSON(strconv.Itoa(k+2)), false)
				}
				st = append(st, d)
				if k == i {
					st = append(st, replaceAt(d, ptr{"id"}, rawJSON(strconv.Itoa(k+2)), false))
				}
			}
			add("multiplicity", "document "+strconv.Itoa(i)+" twice, log ids shifted", st)
			// a document missing, the later log ids shifted down (no gap)
			var st3 []any
			for k, d := range list {
				if k == i {
					continue
				}
				if k > i {
					d = replaceAt(d, ptr{"id"}, rawJSON(strconv.Itoa(k)), false)
				}
				st3 = append(st3, d)
			}
			add("multiplicity", "document "+strconv.Itoa(i)+" missing, log ids shifted", st3)
		}
		// the whole stream twice, log ids going on
		var twice []any
		twice = append(twice, list...)
		for k, d := range list {
			twice = append(twice, replaceAt(d, ptr{"id"}, rawJSON(strconv.Itoa(len(list)+k+1)), false))
		}
		add("multiplicity", "whole stream twice, log ids going on", twice)
	}
	return out
}

func hasPointer(v any, p ptr) bool {
	for _, t := range p {
		switch x := v.(type) {
		case map[string]any:
			var ok bool
			if v, ok = x[t]; !ok {
				return false
			}
		case []any:
			i, err := strconv.Atoi(t)
			if err != nil || i >= len(x) {
				return false
			}
			v = x[i]
		default:
			return false
		}
	}
	return true
}
