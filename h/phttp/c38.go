package phttp

import (
	"context"
	"encoding/base64"
	"encoding/json"
	"fmt"
	"os"
	"regexp"
	"sort"
	"strconv"
	"strings"
	"time"

	"github.com/formancehq/ledger/verifh/ev"
	"github.com/formancehq/ledger/verifh/pgsim"
	"github.com/formancehq/ledger/verifh/reg"
)

type c38ctx struct {
	boot  *pgsim.DB
	seeds []Seed
}

func bootC38(ctx context.Context) (*c38ctx, error) {
	pg, err := BootSeeded(ctx, c38Ledgers, c38History)
	if err != nil {
		return nil, err
	}
	// the import seed is the export of l1 as it stands after the history
	e := NewEnv(pg.Clone())
	defer e.Close()
	resp, _ := e.Do(post("/v2/l1/logs/export", ``))
	if resp.Status != 200 || resp.Body == "" {
		return nil, fmt.Errorf("export for the import seed: %s", resp.short())
	}
	return &c38ctx{boot: pg, seeds: c38Seeds(resp.Body)}, nil
}

// mcase is one mutated request.
type mcase struct {
	Seed seedRef `json:"seed"`
	Loc  string  `json:"loc"`  // location class (signature component)
	Repl string  `json:"repl"` // replacement class (signature component)
	Req  Req     `json:"req"`
	Pre  []Req   `json:"pre,omitempty"` // requests served before, on the same clone (must be 2xx)
	// Must: the mutated request is DEFINITELY invalid client input: the answer must be 4xx.
	// Otherwise the case is "in doubt": 2xx and 4xx are both fine.
	Must bool `json:"must,omitempty"`
	// Sanity: the request is VALID and must be 2xx (vacuity guard, not a mutation).
	Sanity bool `json:"sanity,omitempty"`
}

// seedRef is what a case needs to know about its seed (plain data: cases travel to the
// child processes as JSON).
type seedRef struct {
	API   string `json:"api"`
	Route string `json:"route"`
	Name  string `json:"name,omitempty"`
	// PartialEffect: the route documents that a failing request may keep the effect of its
	// independent parts (non-atomic bulk): "4xx => database unchanged" does not apply.
	PartialEffect bool `json:"partialEffect,omitempty"`
}

func (s seedRef) id() string { return s.API + ":" + s.Route + ":" + s.Name }

func (s *Seed) ref() seedRef {
	return seedRef{API: s.API, Route: s.Route, Name: s.Name, PartialEffect: s.PartialEffect}
}

var queryMenu = []named{{"neg", "-1"}, {"zero", "0"}, {"abc", "abc"}, {"1e9", "1e9"}, {"empty", ""}}
var badDates = []named{{"yesterday", "yesterday"}, {"month13", "2023-13-45T00:00:00Z"}, {"empty", ""}}

func nest(depth int, leaf string) string {
	return strings.Repeat(`{"$and":[`, depth) + leaf + strings.Repeat(`]}`, depth)
}

// badFilters: malformed filter documents. must=false marks the one that is only "in doubt".
type badFilter struct {
	Name string
	Doc  string
	Must bool
}

func badFilters(validLeaf, wrongOp string) []badFilter {
	return []badFilter{
		{"match-number", `{"$match":1}`, true},
		{"and-string", `{"$and":"x"}`, true},
		{"unknown-operator", `{"$unknown":{}}`, true},
		{"nested-50", nest(50, validLeaf), false}, // deep but well-formed: in doubt
		{"unknown-field", `{"$match":{"no_such_field":"x"}}`, true},
		{"wrong-operator-for-field", wrongOp, true},
		{"array-root", `[{"$match":{"no_such_field":"x"}}]`, true},
		{"two-keys", `{"$match":{"no_such_field":"x"},"$and":[]}`, true},
		{"match-two-fields", `{"$match":{"no_such_field":"x","other":"y"}}`, true},
		{"not-array", `{"$not":[1]}`, true},
		{"truncated", `{"$match":{"no_such_`, true},
	}
}

// filterLeaves gives, per route family, a valid leaf and a wrong-operator document.
func filterLeaves(s *Seed) (string, string) {
	switch {
	case strings.Contains(s.Route, "/logs"):
		return `{"$gte":{"id":1}}`, `{"$like":{"id":"1"}}`
	case strings.Contains(s.Route, "/transactions"):
		return `{"$match":{"account":"alice"}}`, `{"$lt":{"account":"alice"}}`
	case strings.Contains(s.Route, "/volumes"):
		return `{"$match":{"account":"alice"}}`, `{"$lt":{"account":"alice"}}`
	default:
		return `{"$match":{"address":"alice"}}`, `{"$lt":{"address":"alice"}}`
	}
}

func b64(s string) string { return base64.RawURLEncoding.EncodeToString([]byte(s)) }

// parseBody returns the JSON tree of a body (NDJSON: the list of documents).
func parseBody(body string, ndjson bool) (any, bool) {
	if !ndjson {
		v, err := parseJSON(body)
		if err != nil {
			return nil, false
		}
		return v, true
	}
	var docs []any
	dec := json.NewDecoder(strings.NewReader(body))
	dec.UseNumber()
	for dec.More() {
		var v any
		if err := dec.Decode(&v); err != nil {
			return nil, false
		}
		docs = append(docs, v)
	}
	return docs, true
}

func encBody(v any, ndjson bool) string {
	if !ndjson {
		return encJSON(v)
	}
	docs, ok := v.([]any)
	if !ok {
		return encJSON(v) + "\n"
	}
	var sb strings.Builder
	for _, d := range docs {
		sb.WriteString(encJSON(d))
		sb.WriteByte('\n')
	}
	return sb.String()
}

func isDateString(v any) bool {
	s, ok := v.(string)
	if !ok {
		return false
	}
	_, err := time.Parse(time.RFC3339Nano, s)
	return err == nil
}

// jsonCases: every pointer x (menu + delete), bad dates on date-valued leaves, and the
// named invalid values of the seed.
func jsonCases(s *Seed, tree any, ndjson bool, locPrefix string, set func(body string) Req, must func(p, r string) bool, values, raw map[string][]named, strictDates bool, keepDoc func(i int) bool) []mcase {
	var out []mcase
	for _, p := range pointers(tree) {
		cl := p.class()
		if ndjson && len(p) == 0 {
			continue // the "root" of a stream is not a JSON node
		}
		if ndjson && keepDoc != nil {
			if i, err := strconv.Atoi(p[0]); err == nil && !keepDoc(i) {
				continue
			}
		}
		orig := getAt(tree, p)
		for _, m := range menu {
			c := mcase{Seed: s.ref(), Loc: locPrefix + cl, Repl: m.Class, Req: set(encBody(replaceAt(tree, p, m.Val, false), ndjson))}
			if must != nil {
				c.Must = must(cl, m.Class)
			}
			out = append(out, c)
		}
		if len(p) > 0 {
			c := mcase{Seed: s.ref(), Loc: locPrefix + cl, Repl: "delete", Req: set(encBody(replaceAt(tree, p, nil, true), ndjson))}
			if must != nil {
				c.Must = must(cl, "delete")
			}
			out = append(out, c)
		}
		if isDateString(orig) {
			for _, d := range badDates {
				out = append(out, mcase{Seed: s.ref(), Loc: locPrefix + cl, Repl: "date-" + d.Name, Must: strictDates && d.Name != "empty",
					Req: set(encBody(replaceAt(tree, p, d.Val, false), ndjson))})
			}
		}
		for _, nv := range values[cl] {
			out = append(out, mcase{Seed: s.ref(), Loc: locPrefix + cl, Repl: "invalid:" + nv.Name, Must: true,
				Req: set(encBody(replaceAt(tree, p, nv.Val, false), ndjson))})
		}
		for _, nv := range raw[cl] {
			out = append(out, mcase{Seed: s.ref(), Loc: locPrefix + cl, Repl: "invalid:" + nv.Name, Must: true,
				Req: set(encBody(replaceAt(tree, p, rawJSON(nv.Val), false), ndjson))})
		}
	}
	return out
}

func nextCursor(body string) string {
	var r struct {
		Cursor struct {
			Next string `json:"next"`
		} `json:"cursor"`
	}
	_ = json.Unmarshal([]byte(body), &r)
	return r.Cursor.Next
}

// casesOf enumerates every mutation of one seed. seedResp is the response of the seed.
func casesOf(s *Seed, seedResp Resp, thorough bool) ([]mcase, error) {
	var out []mcase
	// quick tier: in a stream body, only the first document of each log type is mutated
	var keepDoc func(i int) bool
	if s.NDJSON && !thorough {
		docs, _ := parseBody(s.Req.Body, true)
		first := map[string]int{}
		if l, ok := docs.([]any); ok {
			for i, d := range l {
				if m, ok := d.(map[string]any); ok {
					ty, _ := m["type"].(string)
					if _, seen := first[ty]; !seen {
						first[ty] = i
					}
				}
			}
		}
		keepDoc = func(i int) bool {
			for _, j := range first {
				if i == j {
					return true
				}
			}
			return false
		}
	}
	add := func(c mcase) { c.Seed = s.ref(); out = append(out, c) }
	base := s.Req

	// 1. JSON body
	if base.Body != "" {
		tree, ok := parseBody(base.Body, s.NDJSON)
		if !ok {
			return nil, fmt.Errorf("seed body is not JSON")
		}
		out = append(out, jsonCases(s, tree, s.NDJSON, "body:", func(b string) Req { return base.withBody(b) }, s.MustReject, s.Values, s.RawValues, true, keepDoc)...)
	}

	// 2. query parameters
	isDate := map[string]bool{}
	for _, d := range s.Dates {
		isDate[d] = true
	}
	seen := map[string]bool{}
	var params []string
	for _, kv := range base.Query {
		if !seen[kv.K] {
			seen[kv.K] = true
			params = append(params, kv.K)
		}
	}
	for _, k := range s.Extra {
		if !seen[k] {
			seen[k] = true
			params = append(params, k)
		}
	}
	for _, k := range params {
		if k == "query" {
			continue
		}
		for _, m := range queryMenu {
			add(mcase{Loc: "query:" + k, Repl: m.Name, Req: base.withoutQuery(k).withQuery(k, m.Val)})
		}
		add(mcase{Loc: "query:" + k, Repl: "long-string", Req: base.withoutQuery(k).withQuery(k, long300)})
		if isDate[k] {
			for _, d := range badDates {
				add(mcase{Loc: "query:" + k, Repl: "date-" + d.Name, Must: d.Name != "empty", Req: base.withoutQuery(k).withQuery(k, d.Val)})
			}
		}
	}

	// 3. filters
	if s.FilterIn != "" {
		leaf, wrong := filterLeaves(s)
		for _, f := range badFilters(leaf, wrong) {
			var r Req
			if s.FilterIn == "body" {
				r = base.withBody(f.Doc)
			} else {
				r = base.withQuery("query", f.Doc)
			}
			add(mcase{Loc: "filter", Repl: f.Name, Must: f.Must, Req: r})
		}
		if s.FilterIn == "query" {
			var q string
			for _, kv := range base.Query {
				if kv.K == "query" {
					q = kv.V
				}
			}
			tree, err := parseJSON(q)
			if err != nil {
				return nil, fmt.Errorf("seed query filter is not JSON")
			}
			out = append(out, jsonCases(s, tree, false, "query-filter:", func(b string) Req { return base.withQuery("query", b) }, nil, nil, nil, true, nil)...)
		}
	}

	// 4. cursors
	if s.Cursor != "" {
		next := nextCursor(seedResp.Body)
		if next == "" {
			return nil, fmt.Errorf("seed response carries no next cursor: %s", seedResp.short())
		}
		setCursor := func(c string) Req {
			if s.Cursor == "query" {
				return base.withQuery("cursor", c)
			}
			tree, _ := parseJSON(base.Body)
			return base.withBody(encJSON(replaceAt(tree, ptr{"cursor"}, c, false)))
		}
		add(mcase{Loc: "cursor", Repl: "valid", Sanity: true, Req: setCursor(next)})
		add(mcase{Loc: "cursor", Repl: "garbage", Must: true, Req: setCursor("!!!garbage!!!")})
		add(mcase{Loc: "cursor", Repl: "base64-of-invalid-json", Must: true, Req: setCursor(b64(`{"offset":`))})
		add(mcase{Loc: "cursor", Repl: "base64-of-non-object", Must: true, Req: setCursor(b64(`[1,2]`))})
		add(mcase{Loc: "cursor", Repl: "base64-of-text", Must: true, Req: setCursor(b64(`hello`))})
		add(mcase{Loc: "cursor", Repl: "truncated", Must: true, Req: setCursor(next[:len(next)/2])})
		add(mcase{Loc: "cursor", Repl: "truncated-minus-1", Must: true, Req: setCursor(next[:len(next)-1])})
		raw, err := base64.RawURLEncoding.DecodeString(next)
		if err != nil {
			return nil, fmt.Errorf("next cursor is not base64url: %v", err)
		}
		tree, err := parseJSON(string(raw))
		if err != nil {
			return nil, fmt.Errorf("next cursor is not JSON: %v", err)
		}
		// tampered cursors: every field of the decoded cursor x menu (in doubt: a cursor is
		// opaque, a tampered one may still be acceptable; only 5xx/panic/malformed count)
		out = append(out, jsonCases(s, tree, false, "cursor-json:", func(b string) Req { return setCursor(b64(b)) }, nil, nil, nil, false, nil)...)
	}

	// 5. body-level damage
	if base.Body != "" || s.BodyRequired {
		add(mcase{Loc: "body", Repl: "empty", Must: s.BodyRequired, Req: base.withBody("")})
	}
	if base.Body != "" {
		cut := base.Body[:len(base.Body)*2/3]
		if !jsonOK(cut) {
			add(mcase{Loc: "body", Repl: "truncated-json", Must: s.BodyParsed, Req: base.withBody(cut)})
		}
		add(mcase{Loc: "body", Repl: "not-json", Must: s.BodyParsed, Req: base.withBody("not json")})
		add(mcase{Loc: "body", Repl: "trailing-garbage", Req: base.withBody(base.Body + " }")})
	} else {
		add(mcase{Loc: "body", Repl: "unexpected-garbage", Req: base.withBody("not json").withHeader("Content-Type", "application/json")})
	}
	for _, ct := range []named{{"text-plain", "text/plain"}, {"xml", "application/xml; charset=utf-8"}, {"garbage", ";;;"}, {"absent", ""}} {
		r := base.clone()
		if ct.Val == "" {
			if _, ok := r.Headers["Content-Type"]; !ok {
				continue
			}
			delete(r.Headers, "Content-Type")
		} else {
			r = r.withHeader("Content-Type", ct.Val)
		}
		add(mcase{Loc: "header:Content-Type", Repl: ct.Name, Req: r})
	}

	// 6. idempotency key reused with a different input
	if s.IK {
		first := base.withHeader("Idempotency-Key", "ik-1")
		add(mcase{Loc: "header:Idempotency-Key", Repl: "same-input", Sanity: true, Pre: []Req{first}, Req: first})
		var second Req
		switch {
		case s.AltBody != "":
			second = first.withBody(s.AltBody)
		case s.AltPath != "":
			second = first.clone()
			second.Path = s.AltPath
		default:
			return nil, fmt.Errorf("IK seed without alternative input")
		}
		add(mcase{Loc: "header:Idempotency-Key", Repl: "reused-with-different-input", Must: true, Pre: []Req{first}, Req: second})
		add(mcase{Loc: "header:Idempotency-Key", Repl: "long-string", Req: base.withHeader("Idempotency-Key", long300+long300+long300+long300)})
	}

	// 7. path parameters
	segs := strings.Split(base.Path, "/")
	if s.PathID > 0 {
		for _, v := range []named{{"abc", "abc"}, {"neg", "-1"}, {"unknown-id", "1000000000"}, {"2^70", two70}, {"frac", "1.5"}, {"hex", "0x1"}, {"plus", "+1"}} {
			c := append([]string(nil), segs...)
			c[s.PathID] = v.Val
			r := base.clone()
			r.Path = strings.Join(c, "/")
			// "+1" is accepted by strconv.ParseInt: in doubt
			add(mcase{Loc: "path:id", Repl: v.Name, Must: v.Name != "plus", Req: r})
		}
	}
	if s.PathAddr > 0 {
		for _, v := range []named{{"trailing-colon", "a:"}, {"leading-colon", ":a"}, {"double-colon", "a::b"}, {"space", "a%20b"}, {"non-ascii", "%C3%A9"}, {"bang", "a!b"}, {"encoded-slash", "a%2Fb"}} {
			c := append([]string(nil), segs...)
			c[s.PathAddr] = v.Val
			r := base.clone()
			r.Path = strings.Join(c, "/")
			// an invalid address must be refused where it would be written
			add(mcase{Loc: "path:address", Repl: "invalid-address", Must: base.Method == "POST", Req: r})
		}
	}
	return out, nil
}

// wellFormed checks the shape of the response for its status.
func wellFormed(c *mcase, r Resp) string {
	if c.Req.Method == "HEAD" {
		return "" // a HEAD response has no body to speak of
	}
	switch {
	case r.Status == 204 || r.Status == 304:
		if r.Body != "" {
			return "body on a 204"
		}
	case r.Status >= 200 && r.Status < 300:
		if r.Body == "" {
			return ""
		}
		if strings.HasSuffix(c.Seed.Route, "/logs/export") {
			if _, ok := parseBody(r.Body, true); !ok {
				return "export stream is not a sequence of JSON documents"
			}
			return ""
		}
		if !jsonOK(r.Body) {
			return "2xx body is not JSON"
		}
	case r.Status >= 400 && r.Status < 500:
		if errorEnvelope(r.Body) {
			return ""
		}
		// the documented shape of a failed bulk: 400 + {"data":[{responseType:ERROR,errorCode…}]}
		if strings.HasSuffix(c.Seed.Route, "/_bulk") {
			var b struct {
				Data []struct {
					ResponseType string `json:"responseType"`
					ErrorCode    string `json:"errorCode"`
				} `json:"data"`
			}
			if err := json.Unmarshal([]byte(r.Body), &b); err == nil {
				for _, d := range b.Data {
					if d.ResponseType == "ERROR" && d.ErrorCode != "" {
						return ""
					}
				}
			}
		}
		return "4xx body is not an error envelope {errorCode, errorMessage}"
	}
	return ""
}

func statusClass(st int) string { return fmt.Sprintf("%dxx", st/100) }

// c38plan is the case list.
type c38plan struct {
	ctx   *c38ctx
	cases []mcase
}

func planC38(thorough bool) (*c38plan, error) {
	ctx := context.Background()
	c, err := bootC38(ctx)
	if err != nil {
		return nil, fmt.Errorf("boot: %w", err)
	}
	e0 := NewEnv(c.boot.Clone())
	bootDump := e0.Dump()
	e0.Close()
	var cases []mcase
	for i := range c.seeds {
		s := &c.seeds[i]
		e := NewEnv(c.boot.Clone())
		resp, ok := e.Do(s.Req)
		after := e.Dump()
		e.Close()
		if !ok || resp.Status < 200 || resp.Status >= 300 {
			return nil, fmt.Errorf("seed %s is not valid: %s", s.id(), resp.short())
		}
		if (after != bootDump) != s.Write {
			return nil, fmt.Errorf("seed %s: state changed=%v, expected %v", s.id(), after != bootDump, s.Write)
		}
		cs, err := casesOf(s, resp, thorough)
		if err != nil {
			return nil, fmt.Errorf("seed %s: %v", s.id(), err)
		}
		cases = append(cases, cs...)
	}
	return &c38plan{ctx: c, cases: cases}, nil
}

var c38Boot = map[string]any{"ledgers": c38Ledgers, "history": c38History}

var reDigits = regexp.MustCompile(`[0-9]+`)
var reQuoted = regexp.MustCompile(`'[^']*'|"[^"]*"|` + "`[^`]*`")
var reSQLState = regexp.MustCompile(`SQLSTATE [0-9A-Z]{5}`)
var reMsg = regexp.MustCompile(`msg="((?:[^"\\]|\\.)*)"`)

// errorCause normalises what the server logged for an INTERNAL error into a stable
// class: the head AND the tail (root cause) of the error chain, with the SQLSTATE if any;
// quoted values and numbers are removed. The head alone ("unexpected error while forging
// log") is shared by unrelated defects; the tail tells them apart.
func errorCause(log string) string {
	ms := reMsg.FindAllStringSubmatch(log, -1)
	if len(ms) == 0 {
		return "unlogged"
	}
	msg := strings.ReplaceAll(ms[len(ms)-1][1], `\"`, `"`)
	state := reSQLState.FindString(msg)
	// quoted values go first: they may contain ": "
	segs := strings.Split(reQuoted.ReplaceAllString(msg, "_"), ": ")
	norm := func(x string) string {
		x = reSQLState.ReplaceAllString(x, "")
		x = reDigits.ReplaceAllString(x, "N")
		x = strings.TrimSpace(strings.TrimSuffix(strings.TrimSpace(x), "()"))
		if len(x) > 90 {
			x = x[:90]
		}
		return x
	}
	out := norm(segs[0])
	if len(segs) > 1 {
		out += " … " + norm(segs[len(segs)-1])
	}
	if state != "" {
		out += " (" + state + ")"
	}
	return out
}

// <function>(<args>)? @ /repo/<file>:<line> — the function name may itself contain
// parentheses (method on a pointer receiver), the argument list contains none.
var reFrame = regexp.MustCompile(`(\S+?)(?:\([^()]*\))? @ /repo/([^ :]+):[0-9]+`)

// siteOf extracts the first frame inside the repository from a panic description as
// "file.go:function" (no line number: it must survive unrelated edits of the file, and
// which of several unchecked dereferences of one function fires first may depend on
// map iteration order).
func siteOf(desc string) string {
	m := reFrame.FindStringSubmatch(desc)
	if m == nil {
		return "unknown-site"
	}
	fn := m[1]
	if i := strings.LastIndex(fn, "/"); i >= 0 {
		fn = fn[i+1:]
	}
	if i := strings.IndexByte(fn, '.'); i >= 0 {
		fn = fn[i+1:] // drop the package name
	}
	fn = strings.ReplaceAll(fn, "[...]", "")
	return m[2] + ":" + fn
}

func locKind(loc string) string {
	i := strings.IndexByte(loc, ':')
	if i < 0 {
		return loc
	}
	switch loc[:i] {
	case "query", "header", "path":
		return loc
	}
	return loc[:i]
}

// coarseKind is the input class of a mutation location: body | query | header | path |
// cursor | cursor-json | filter | query-filter.
func coarseKind(loc string) string {
	if i := strings.IndexByte(loc, ':'); i >= 0 {
		return loc[:i]
	}
	return loc
}

// c38sig builds the structural signature, at ROOT-CAUSE level:
//   - panic / process-crash: the call site (file:function of the first repository frame).
//     One unchecked dereference is one defect whatever route, field or replacement reaches it.
//   - 5xx: input class + class of the logged error (head and root of the chain, SQLSTATE).
//   - no-response, state-changed-on-4xx: there is no server-side cause to key on: the route
//     (+ input class). The error code of the 4xx says why the request was refused, not why
//     its effect was kept: it is not part of the signature.
//   - accepted / malformed-response / odd-status: route + pointer class + replacement class.
func c38sig(c *mcase, outcome, cause string) string {
	switch outcome {
	case "panic", "process-crash":
		return fmt.Sprintf("C38:%s:%s", outcome, cause)
	case "5xx":
		return fmt.Sprintf("C38:5xx:%s:%s", coarseKind(c.Loc), cause)
	case "no-response":
		return fmt.Sprintf("C38:no-response:%s:%s:%s", c.Seed.API, c.Seed.Route, coarseKind(c.Loc))
	case "state-changed-on-4xx":
		return fmt.Sprintf("C38:state-changed-on-4xx:%s:%s", c.Seed.API, c.Seed.Route)
	}
	return fmt.Sprintf("C38:%s:%s:%s:%s:%s", c.Seed.API, c.Seed.Route, c.Loc, c.Repl, outcome)
}

func c38replay(c *mcase, resp *Resp) map[string]any {
	m := map[string]any{"seed": c.Seed.id(), "mutation": c.Loc + "=" + c.Repl, "boot": c38Boot, "pre": c.Pre, "request": c.Req, "definitely_invalid": c.Must}
	if resp != nil {
		m["response"] = *resp
	}
	return m
}

func errorCodeOf(body string) string {
	var m struct {
		ErrorCode string `json:"errorCode"`
	}
	_ = json.Unmarshal([]byte(body), &m)
	if m.ErrorCode == "" {
		return "none"
	}
	return m.ErrorCode
}

// execC38 runs one case on a fresh clone and classifies the outcome.
func execC38(boot *pgsim.DB, c *mcase) caseResult {
	res := caseResult{Counts: map[string]int64{}}
	e := NewEnv(boot.Clone())
	defer e.Close()
	for _, p := range c.Pre {
		resp, ok := e.Do(p)
		if !ok || resp.Status < 200 || resp.Status >= 300 {
			res.Engine = fmt.Sprintf("%s %s/%s: preliminary request failed: %s", c.Seed.id(), c.Loc, c.Repl, resp.short())
			return res
		}
	}
	before := e.Dump()
	resp, ok := e.Do(c.Req)
	if !ok {
		res.Counts["not_constructible"]++
		return res
	}
	changed := e.Dump() != before
	cls := statusClass(resp.Status)
	kind := c.Loc
	if i := strings.IndexByte(kind, ':'); i >= 0 {
		kind = kind[:i]
	}
	desc := func(msg string) string {
		return fmt.Sprintf("%s — seed %s, mutation %s=%s; request: %s; response: %s", msg, c.Seed.id(), c.Loc, c.Repl, c.Req, resp.short())
	}
	if isEngine(resp) {
		if strings.Contains(resp.Log+resp.Body, "pgsim: parse:") {
			// the mutation made the ledger emit SQL text that pgsim's parser rejects. pgsim
			// cannot tell invalid SQL (a genuine 5xx on Postgres) from valid SQL it does not
			// support, so the case is neither a violation nor evidence: inconclusive.
			res.Counts["inconclusive"]++
			res.Extra = map[string]string{"inconclusive": desc("SQL text rejected by pgsim's parser")}
			return res
		}
		res.Engine = desc("pgsim engine error surfaced")
		return res
	}
	viol := func(outcome, cause, msg string) {
		res.Viol = append(res.Viol, violRec{Sig: c38sig(c, outcome, cause), What: desc(msg), Replay: c38replay(c, &resp)})
	}
	res.Key = c.Req.key()
	res.Counts["status:"+cls]++
	res.Counts["kind:"+kind]++
	if c.Must {
		res.Counts["must"]++
	}
	res.Counts["seed:"+c.Seed.id()]++
	if c.Sanity {
		res.Counts["sanity"]++
	}
	if resp.Status >= 400 && resp.Status < 500 {
		res.Counts["rejected"]++
		res.Counts["rejected:"+kind]++
		if c.Must {
			res.Counts["must_rejected"]++
		}
	}
	if resp.Status >= 200 && resp.Status < 300 {
		res.Counts["accepted"]++
		if c.Sanity {
			res.Counts["sanity_ok"]++
		}
	}
	res.Sample = map[string]any{"seed": c.Seed.id(), "mutation": c.Loc + "=" + c.Repl, "status": resp.Status}

	switch {
	case resp.Status >= 500:
		if resp.Body == "" {
			p := NewEnv(boot.Clone())
			for _, pre := range c.Pre {
				p.Do(pre)
			}
			pv := p.PanicOf(c.Req)
			p.Close()
			viol("panic", siteOf(pv), "5xx with an empty body (recovered panic): "+pv)
		} else {
			viol("5xx", errorCause(resp.Log), "5xx in answer to a client request")
		}
	case resp.Status < 200 || (resp.Status >= 300 && resp.Status < 400):
		viol("odd-status", "", "unexpected status class")
	default:
		if m := wellFormed(c, resp); m != "" {
			viol("malformed-response", "", m)
		}
		if resp.Status >= 400 && changed && !c.Seed.PartialEffect {
			viol("state-changed-on-4xx", errorCodeOf(resp.Body), "4xx but the database changed")
		}
		if c.Must && resp.Status < 300 {
			viol("accepted", "", fmt.Sprintf("definitely-invalid input accepted with %d (database changed=%v)", resp.Status, changed))
		}
		if c.Sanity && resp.Status >= 300 {
			res.Engine = desc("sanity request (valid) was refused")
		}
	}
	return res
}

// c38Trace, when set (tests), sees every violating case, not only the first per signature.
var c38Trace func(sig string, c *mcase, what string)

func c38Worker(w *workerSpec) int {
	pg, err := BootSeeded(context.Background(), c38Ledgers, c38History)
	if err != nil {
		fmt.Fprintln(os.Stderr, "worker: "+err.Error())
		return 2
	}
	return serveWorker(w, func(payload []byte) caseResult {
		var c mcase
		if err := json.Unmarshal(payload, &c); err != nil {
			return caseResult{Engine: "worker: bad case: " + err.Error()}
		}
		return execC38(pg, &c)
	})
}

func runC38(r *ev.Run) (ev.Coverage, []string) {
	assumptions := []string{pgsimAssumption, httpAssumption, "process isolation: every case runs in a child process of the same binary (which boots and seeds its own identical database) so that the death of the whole process (panic in a goroutine started by a handler) is an observable outcome"}
	p, err := planC38(r.Thorough())
	if err != nil {
		r.EngineError(err.Error())
		return nil, assumptions
	}
	counts := map[string]int64{}
	distinct := map[string]bool{}
	inconclusiveSeen := map[string]bool{}
	// development aid: C38_TRACE=<file> lists EVERY violating case (not only the first per signature)
	if tf := os.Getenv("C38_TRACE"); tf != "" && c38Trace == nil {
		if f, err := os.Create(tf); err == nil {
			defer f.Close()
			c38Trace = func(sig string, c *mcase, what string) {
				fmt.Fprintf(f, "%s\t%s\t%s=%s\t%s\n", sig, c.Seed.id(), c.Loc, c.Repl, what)
			}
			defer func() { c38Trace = nil }()
		}
	}
	samples := ev.NewSamples(6)
	var evals int64
	deadline := time.Now().Add(budgetOf(r, c38Quick, c38Thorough) - r.Elapsed())
	exhaustive, err := runIsolated("C38", len(p.cases), func(i int) []byte {
		b, _ := json.Marshal(&p.cases[i])
		return b
	}, deadline, 120*time.Second, func(res caseResult) {
		evals++
		c := &p.cases[res.I]
		if res.Crashed {
			outcome, msg := "process-crash", "the server PROCESS died while serving the request (panic outside every recover): "
			if res.Extra["hung"] != "" {
				outcome, msg = "no-response", "no response: "
			}
			sg := c38sig(c, outcome, siteOf(res.Stderr))
			what := fmt.Sprintf("%s%s — seed %s, mutation %s=%s; request: %s", msg, res.Stderr, c.Seed.id(), c.Loc, c.Repl, c.Req)
			if c38Trace != nil {
				c38Trace(sg, c, what)
			}
			distinct[c.Req.key()] = true
			counts["status:crash"]++
			r.Violation(sg, what, c38replay(c, nil))
			return
		}
		if res.Engine != "" {
			r.EngineError(res.Engine)
			return
		}
		if m := res.Extra["inconclusive"]; m != "" {
			key := c.Seed.API + ":" + c.Seed.Route + ":" + locKind(c.Loc)
			if !inconclusiveSeen[key] {
				inconclusiveSeen[key] = true
				r.Note("inconclusive (" + key + "): " + m)
			}
		}
		for k, v := range res.Counts {
			counts[k] += v
		}
		if res.Key != "" {
			distinct[res.Key] = true
		}
		if res.Sample != nil {
			samples.Add(res.Sample)
		}
		for _, v := range res.Viol {
			if c38Trace != nil {
				c38Trace(v.Sig, c, v.What)
			}
			r.Violation(v.Sig, v.What, v.Replay)
		}
	})
	if err != nil {
		r.EngineError("isolation: " + err.Error())
	}
	// Vacuity guards (whatever the violations, known or not: they are about what RAN).
	if exhaustive && !r.HasEngineError() {
		if int(evals) != len(p.cases) {
			r.EngineError(fmt.Sprintf("vacuous: %d cases planned, %d results collected", len(p.cases), evals))
		}
		if counts["rejected"] == 0 || counts["accepted"] == 0 || counts["must_rejected"] == 0 || counts["sanity_ok"] == 0 {
			r.EngineError(fmt.Sprintf("vacuous: rejected=%d accepted=%d must-rejected=%d sanity-ok=%d", counts["rejected"], counts["accepted"], counts["must_rejected"], counts["sanity_ok"]))
		}
		// every input class must have been exercised AND have met the validation it targets
		for _, k := range []string{"body", "query", "query-filter", "filter", "cursor", "cursor-json", "header", "path"} {
			if counts["kind:"+k] == 0 || counts["rejected:"+k] == 0 {
				r.EngineError(fmt.Sprintf("vacuous: input class %s: %d cases, %d rejected with 4xx", k, counts["kind:"+k], counts["rejected:"+k]))
			}
		}
		// every seed (route variant) must have produced cases that were answered
		for i := range p.ctx.seeds {
			if id := p.ctx.seeds[i].id(); counts["seed:"+id] == 0 {
				r.EngineError("vacuous: no answered case for seed " + id)
			}
		}
		// the sanity cases (valid cursor, idempotent replay) must all have passed, otherwise
		// the neighbouring "must be rejected" cases prove nothing
		if counts["sanity"] != counts["sanity_ok"] {
			r.EngineError(fmt.Sprintf("vacuous: %d sanity cases, %d accepted", counts["sanity"], counts["sanity_ok"]))
		}
	}
	outcomes, kinds := map[string]int64{}, map[string]int64{}
	for k, v := range counts {
		if strings.HasPrefix(k, "status:") {
			outcomes[k[7:]] = v
		}
		if strings.HasPrefix(k, "kind:") {
			kinds[k[5:]] = v
		}
	}
	cov := ev.Coverage{
		"evaluations":         evals,
		"distinct_nontrivial": len(distinct),
		"cases_generated":     len(p.cases),
		"seeds":               len(p.ctx.seeds),
		"routes":              routeCount(p.ctx.seeds),
		"not_constructible":   counts["not_constructible"],
		"inconclusive_sql_rejected_by_pgsim_parser": counts["inconclusive"],
		"definitely_invalid":                        counts["must"],
		"definitely_invalid_rejected_4xx":           counts["must_rejected"],
		"outcomes":                                  outcomes,
		"cases_per_mutation_kind":                   kinds,
		"exhaustive":                                exhaustive,
		"samples":                                   samples.List(),
		"stream_documents_mutated":                  map[bool]string{true: "all", false: "first of each log type"}[r.Thorough()],
		"rule":                                      "one valid seed request per v1/v2 route (exporters/pipelines and bucket deletion excluded) on a clone of a booted+seeded pgsim database; mutations one at a time: every JSON pointer of the body (and of the query-string filter, and of the decoded cursor) x {null,true,0,-1,1.5,1e400,\"\",\"x\",[],{},2^70,300-char string} + delete; bad dates on date-valued fields/params; every query parameter of the seed, and the parameters the handler reads although the seed omits them (after, page_size, schemaVersion, expand, pit), x {-1,0,abc,1e9,empty,300 chars}; cursors x {garbage, base64 of invalid JSON/non-object/text, truncated}; malformed filters; named invalid addresses/assets/variable values; empty/truncated/non-JSON body; Content-Type; Idempotency-Key reused with a different input; path id/address. Oracle: no 5xx/panic/process crash, well-formed body for the status, 4xx leaves the dump unchanged (except non-atomic bulk, whose elements are independent by contract), definitely-invalid input (explicit table) is 4xx; in-doubt mutations may be 2xx or 4xx. Signatures are at root-cause level: panic/process-crash = call site; 5xx = input class + logged error class; state-changed-on-4xx = route; accepted/malformed = route + pointer class + replacement class",
	}
	return cov, assumptions
}

// the whole quick space takes ~90 s on an idle 16-core machine; the budget leaves room for a loaded one
const c38Quick, c38Thorough = 300 * time.Second, 15 * time.Minute

func routeCount(seeds []Seed) int {
	m := map[string]bool{}
	for _, s := range seeds {
		m[s.API+" "+s.Route] = true
	}
	return len(m)
}

func init() {
	workers["C38"] = c38Worker
	reg.Register("C38", func() int {
		if w := workerMode("C38"); w != nil {
			return c38Worker(w)
		}
		r := ev.Start("C38", ev.LevelExploration, c38Quick, c38Thorough)
		cov, as := runC38(r)
		return r.Finish(cov, as)
	})
}

// sortedKeys is used by tests and evidence helpers.
func sortedKeys[V any](m map[string]V) []string {
	out := make([]string, 0, len(m))
	for k := range m {
		out = append(out, k)
	}
	sort.Strings(out)
	return out
}
